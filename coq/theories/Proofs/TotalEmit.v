(* Proofs/TotalEmit.v — show_error's location/context rendering never raises
   exactly when the line number is a valid (possibly negative) subscript, and
   renders inside the file when 1 <= lineno <= len(lines)  (C12). *)
From Coq Require Import List Bool ZArith Lia.
Import ListNotations.
Require Import PV.Total.Emit.
Open Scope Z_scope.

Lemma py_index_some : forall (A : Type) (l : list A) i,
  (exists x, py_index l i = Some x) <-> (- Z.of_nat (length l) <= i < Z.of_nat (length l)).
Proof.
  intros A l i. unfold py_index. set (n := Z.of_nat (length l)).
  destruct (0 <=? i) eqn:E0.
  - apply Z.leb_le in E0. destruct (i <? n) eqn:E1.
    + apply Z.ltb_lt in E1. split; [intros _; lia|]. intros _.
      destruct (nth_error l (Z.to_nat i)) eqn:En; [eexists; reflexivity|].
      apply nth_error_None in En. unfold n in E1. lia.
    + apply Z.ltb_ge in E1. split; [intros [x H]; discriminate|lia].
  - apply Z.leb_gt in E0. destruct (- n <=? i) eqn:E1.
    + apply Z.leb_le in E1. split; [intros _; lia|]. intros _.
      destruct (nth_error l (Z.to_nat (n + i))) eqn:En; [eexists; reflexivity|].
      apply nth_error_None in En. unfold n in *. lia.
    + apply Z.leb_gt in E1. split; [intros [x H]; discriminate|lia].
Qed.

Lemma py_index_none : forall (A : Type) (l : list A) i,
  py_index l i = None <-> ~ (- Z.of_nat (length l) <= i < Z.of_nat (length l)).
Proof.
  intros A l i. rewrite <- py_index_some. destruct (py_index l i) eqn:E; split; intros H; try discriminate; try reflexivity.
  - exfalso. apply H. eexists. reflexivity.
  - intros [x Hx]. discriminate.
Qed.

(* the context loop stays inside the file when it starts at >= 1 and ends at <= len *)
Lemma ctx_loop_ok : forall (A : Type) (lines : list A) lineno has_col count lo,
  1 <= lo -> lo + Z.of_nat count <= Z.of_nat (length lines) + 1 ->
  exists ctx, ctx_loop lines lineno has_col lo count = Some ctx /\
    map fst ctx = map (fun k => lo + Z.of_nat k) (seq 0 count).
Proof.
  intros A lines lineno has_col count. induction count as [|k IH]; intros lo Hlo Hhi.
  - exists []. split; reflexivity.
  - cbn [ctx_loop]. destruct (py_index lines (lo - 1)) eqn:E.
    + destruct (IH (lo + 1)) as [rest [Hr Hm]]; [lia|lia|]. rewrite Hr. eexists. split; [reflexivity|].
      cbn [map seq fst]. f_equal; [lia|]. rewrite Hm. rewrite <- seq_shift. rewrite map_map.
      apply map_ext. intros k0. lia.
    + apply py_index_none in E. exfalso. apply E. lia.
Qed.

Lemma params_ok_facts : forall P, params_ok P = true ->
  0 <= ep_context P /\ 1 <= ep_context P + ep_after_extra P /\ 0 <= ep_after_extra P /\ 1 <= ep_prev_off P /\ ep_prev_off P <= ep_prev_min P.
Proof.
  intros P H. unfold params_ok in H. repeat (apply andb_true_iff in H; destruct H as [H ?]).
  repeat match goal with E : (_ <=? _) = true |- _ => apply Z.leb_le in E end. lia.
Qed.

Theorem emit_wellformed : forall (A : Type) (P : emit_params) (lines : list A) lineno col,
  params_ok P = true ->
  1 <= lineno <= Z.of_nat (length lines) ->
  exists ctx, emit_p P lines (Some lineno) col = Emitted (Some lineno) col ctx /\
    wellformed_position lines (Emitted (Some lineno) col ctx) /\
    (Z.of_nat (length ctx) <= 2 * ep_context P + ep_after_extra P) /\
    (forall c, col = Some c -> In (lineno, true) ctx).
Proof.
  intros A P lines lineno col Hok Hr. destruct (params_ok_facts P Hok) as [F1 [F2 [F3 [F4 F5]]]].
  unfold emit_p. set (n := Z.of_nat (length lines)) in *.
  destruct (py_index lines (lineno - 1)) eqn:E1.
  2:{ apply py_index_none in E1. exfalso. apply E1. fold n. lia. }
  assert (Hprev : exists b, (if ep_prev_min P <=? lineno then py_index lines (lineno - ep_prev_off P) else Some a) = Some b).
  { destruct (ep_prev_min P <=? lineno) eqn:E3; [|eexists; reflexivity]. apply Z.leb_le in E3. apply py_index_some. fold n. lia. }
  destruct Hprev as [b Hb]. rewrite Hb.
  set (lo := Z.max (lineno - ep_context P) 1). set (hi := Z.min (lineno + ep_context P + ep_after_extra P) (n + 1)).
  assert (Hlo : 1 <= lo) by (unfold lo; lia).
  assert (Hlohi : lo <= hi) by (unfold lo, hi; lia).
  destruct (ctx_loop_ok A lines lineno (match col with Some _ => true | None => false end) (Z.to_nat (hi - lo)) lo Hlo) as [ctx [Hc Hm]].
  { rewrite Z2Nat.id by lia. unfold hi. fold n. lia. }
  rewrite Hc. exists ctx. split; [reflexivity|].
  assert (Hlen : length ctx = Z.to_nat (hi - lo)).
  { transitivity (length (map fst ctx)); [symmetry; apply map_length|]. rewrite Hm, map_length, seq_length. reflexivity. }
  assert (Hin : forall z, In z (map fst ctx) <-> lo <= z < hi).
  { intros z. rewrite Hm, in_map_iff. split.
    - intros [k [Hk Hs]]. apply in_seq in Hs. lia.
    - intros Hz. exists (Z.to_nat (z - lo)). split; [lia|]. apply in_seq. lia. }
  split; [|split].
  - cbn. split; [fold n; lia|]. split.
    + apply Forall_forall. intros e He. assert (In (fst e) (map fst ctx)) by (apply in_map; exact He).
      apply Hin in H. fold n. unfold lo, hi in H. lia.
    + apply Hin. unfold lo, hi. lia.
  - rewrite Hlen. unfold lo, hi. lia.
  - intros c Hcol. subst col.
    assert (G : forall cnt l0 cx, ctx_loop lines lineno true l0 cnt = Some cx -> In lineno (map fst cx) -> In (lineno, true) cx).
    { induction cnt as [|k IH]; intros l0 cx Hcx Hi; cbn in Hcx.
      - injection Hcx as Hcx. subst. destruct Hi.
      - destruct (py_index lines (l0 - 1)); [|discriminate].
        destruct (ctx_loop lines lineno true (l0 + 1) k) as [rest|] eqn:Ek; [|discriminate].
        injection Hcx as Hcx. subst cx. cbn in Hi. destruct Hi as [Hi|Hi].
        + subst l0. left. rewrite Z.eqb_refl. reflexivity.
        + right. apply (IH (l0 + 1) rest Ek Hi). }
    apply (G _ _ _ Hc). apply Hin. unfold lo, hi. lia.
Qed.

(* exactly when does show_error raise?  (n = number of lines; after fix 36cb910 the
   previous line is only looked at for lineno >= 2) *)
Theorem emit_crash_iff : forall (A : Type) (P : emit_params) (lines : list A) lineno col,
  params_ok P = true ->
  (emit_p P lines (Some lineno) col = Crash <->
   ~ (1 - Z.of_nat (length lines) <= lineno <= Z.of_nat (length lines))).
Proof.
  intros A P lines lineno col Hok. destruct (params_ok_facts P Hok) as [F1 [F2 [F3 [F4 F5]]]].
  unfold emit_p. set (n := Z.of_nat (length lines)).
  destruct (py_index lines (lineno - 1)) eqn:E1.
  2:{ apply py_index_none in E1. fold n in E1. split; [intros _; lia|reflexivity]. }
  assert (H1 : - n <= lineno - 1 < n) by (apply py_index_some; eexists; exact E1).
  assert (Hprev : exists b, (if ep_prev_min P <=? lineno then py_index lines (lineno - ep_prev_off P) else Some a) = Some b).
  { destruct (ep_prev_min P <=? lineno) eqn:E3; [|eexists; reflexivity]. apply Z.leb_le in E3. apply py_index_some. fold n. lia. }
  destruct Hprev as [b Hb]. rewrite Hb.
  set (lo := Z.max (lineno - ep_context P) 1). set (hi := Z.min (lineno + ep_context P + ep_after_extra P) (n + 1)).
  destruct (ctx_loop_ok A lines lineno (match col with Some _ => true | None => false end) (Z.to_nat (hi - lo)) lo) as [ctx [Hc _]].
  { unfold lo. lia. }
  { unfold lo, hi. lia. }
  rewrite Hc. split; [discriminate|]. intros H. exfalso. apply H. lia.
Qed.

Theorem emit_without_position_total : forall (A : Type) (P : emit_params) (lines : list A) col,
  emit_p P lines None col = Emitted None col [].
Proof. reflexivity. Qed.

(* the full statement (every line number the AST may carry is rendered inside
   the file) fails outside 1..len: a line number past the end raises, and 0 /
   small negative numbers are rendered although they are not in the file *)
Definition emit_full_statement : Prop :=
  forall (lines : list nat) lineno col, wellformed_position lines (emit lines (Some lineno) col).

Lemma emit_full_statement_refuted : ~ emit_full_statement.
Proof.
  intros H. specialize (H [0%nat; 0%nat] 3 None). vm_compute in H. exact H.
Qed.

Lemma emit_nonpositive_lineno_not_in_file :
  exists ctx, emit [0%nat; 0%nat; 0%nat] (Some 0) None = Emitted (Some 0) None ctx.
Proof. eexists. vm_compute. reflexivity. Qed.
