(* Proofs/TotalGen.v — obligations over the data regenerated from the source
   (Gen/Total.v) and the general facts about isinstance-chain dispatch (C12). *)
From Coq Require Import String List Bool.
Import ListNotations.
Require Import PV.Total.Dispatch PV.Total.Emit PV.Gen.Total.
Open Scope string_scope.

(* a chain with a crashing fall-through is total exactly on the subclasses of its targets *)
Theorem dispatch_total_iff : forall h handled c,
  crashes h handled c = false <-> exists d, In d handled /\ subclass h c d = true.
Proof.
  intros h handled c. unfold crashes, dispatch. destruct (find (fun d => subclass h c d) handled) eqn:E.
  - split; [intros _|reflexivity]. apply find_some in E. exists s. exact E.
  - split; [discriminate|]. intros [d [Hin Hs]]. pose proof (find_none _ _ E d Hin) as Hn. cbn in Hn. congruence.
Qed.

Lemma mem_str_In : forall x l, mem_str x l = true <-> In x l.
Proof.
  intros x l. unfold mem_str. rewrite existsb_exists. split.
  - intros [y [Hy He]]. apply String.eqb_eq in He. subst. exact Hy.
  - intros H. exists x. split; [exact H|apply String.eqb_refl].
Qed.

(* ---- boolability ---------------------------------------------------- *)
(* does `get_boolability` reach `assert False` for a value of class c?
   MultiValuedValue is mapped over by get_boolability itself; the unwrapped
   classes are replaced by another value before the chain. *)
Definition boolab_crashes (c : string) : bool :=
  boolability_else_raises && negb (String.eqb c "MultiValuedValue") && negb (mem_str c boolability_unwrapped)
  && crashes value_hierarchy boolability_handled c.

(* Unwrapping (AnnotatedValue -> its value, TypeVarValue -> its fallback) can produce a value of ANY
   class, in particular a MultiValuedValue (a TypeVar with constraints): does _get_boolability_no_mvv
   survive that?  Either the chain has a branch for it or it hands the union back to get_boolability
   (Gen.Total.boolability_delegated).  False on the unchanged tree: `if x:` for x: Optional[AnyStr]
   reaches `assert False` (fix proposal repo_fixes/C12-boolability-typevar-in-union). *)
Definition boolab_unwrapped_union_crashes : bool :=
  boolability_else_raises && negb (mem_str "MultiValuedValue" boolability_delegated)
  && crashes value_hierarchy boolability_handled "MultiValuedValue".

(* classes without a branch; none of them is produced for a condition by the
   visitor (explored, not proved) *)
Definition boolab_guard : list string :=
  ["Value"; "VoidValue"; "UninitializedValue"; "SyntheticModuleValue"; "ReferencingValue"; "UnpackedValue"; "CallValue"]%list.

Definition boolability_total_full_statement : Prop :=
  forall c, In c (map fst value_hierarchy) -> boolab_crashes c = false.

Lemma boolability_total_refuted : ~ boolability_total_full_statement.
Proof.
  intros H. assert (E : boolab_crashes "VoidValue" = false) by (apply H; vm_compute; tauto).
  vm_compute in E. discriminate.
Qed.

Lemma boolability_total_partial : forall c, In c (map fst value_hierarchy) ->
  mem_str c boolab_guard = false -> boolab_crashes c = false.
Proof.
  assert (G : forallb (fun c => mem_str c boolab_guard || negb (boolab_crashes c)) (map fst value_hierarchy) = true)
    by (vm_compute; reflexivity).
  intros c Hin Hg. rewrite forallb_forall in G. specialize (G c Hin). rewrite Hg in G. cbn in G.
  destruct (boolab_crashes c); [discriminate|reflexivity].
Qed.

(* the guard is exact: every guarded class does fall through *)
Lemma boolab_guard_exact : forallb boolab_crashes boolab_guard = true.
Proof. vm_compute. reflexivity. Qed.

(* the classes that used to reach `assert False` from ordinary programs are handled now *)
Lemma boolability_repaired_classes :
  boolab_crashes "TypeAliasValue" = false /\ boolab_crashes "ParamSpecArgsValue" = false /\
  boolab_crashes "ParamSpecKwargsValue" = false /\ boolab_crashes "CallableValue" = false /\
  boolab_crashes "SequenceValue" = false.
Proof. vm_compute. repeat split; reflexivity. Qed.

(* ---- annotation visitor ---------------------------------------------- *)
Definition annotation_crashes (kind : string) : bool :=
  annotation_generic_raises && visitor_crashes annotation_visitor_methods kind.

Lemma annotation_visitor_total : forall k, In k expr_kinds -> annotation_crashes k = false.
Proof.
  assert (G : forallb (fun k => negb (annotation_crashes k)) expr_kinds = true) by (vm_compute; reflexivity).
  intros k Hk. rewrite forallb_forall in G. specialize (G k Hk). destruct (annotation_crashes k); [discriminate|reflexivity].
Qed.

(* what the unrepaired visitor did: a raising generic_visit crashes on exactly the kinds without a method *)
Lemma raising_generic_visit_crashes : forall methods k,
  visitor_crashes methods k = true <-> ~ In k methods.
Proof.
  intros methods k. unfold visitor_crashes. rewrite negb_true_iff. split.
  - intros H C. apply mem_str_In in C. congruence.
  - intros H. destruct (mem_str k methods) eqn:E; [|reflexivity]. exfalso. apply H. apply mem_str_In. exact E.
Qed.

(* (a lemma stating that the annotation visitor has no visit_Starred was removed: fix dc76e76 added one) *)

(* ---- error codes ------------------------------------------------------ *)
Fixpoint nodup_str (l : list string) : bool :=
  match l with
  | [] => true
  | x :: t => negb (mem_str x t) && nodup_str t
  end%list.

Lemma codes_registry_wellformed :
  nodup_str registered_codes = true /\ mem_str "internal_error" registered_codes = true /\
  mem_str "invalid_annotation" registered_codes = true /\ 50 <= length registered_codes.
Proof. vm_compute. repeat split; try reflexivity. repeat constructor. Qed.

(* ---- show_error: the constants translated from node_visitor.py satisfy what the theorems need ---- *)
Lemma show_error_params_ok : params_ok show_error_params = true.
Proof. vm_compute. reflexivity. Qed.

(* ---- enum dispatch chains with a crashing else branch (every such chain of the package) ---- *)
Definition members_of (e : string) : list string :=
  match find (fun p => String.eqb (fst p) e) enum_members with
  | Some p => snd p
  | None => []
  end%list.

Definition chain_total (ch : string * string * string * string * list string) : bool :=
  let '(_, _, _, e, handled) := ch in
  negb (match members_of e with [] => true | _ => false end%list) && forallb (fun m => mem_str m handled) (members_of e).

(* the one chain that does not enumerate its enum: the nested test of type_boolability in
   _get_boolability_no_mvv (_get_type_boolability only returns boolable / type_always_true /
   erroring_bool, and erroring_bool implies that bool(value) raised earlier) *)
Definition chain_guard (ch : string * string * string * string * list string) : bool :=
  let '(f, fn, subj, _, _) := ch in
  String.eqb f "boolability.py" && String.eqb fn "_get_boolability_no_mvv" && String.eqb subj "type_boolability".

Lemma enum_chains_total_partial : forall ch, In ch enum_chains -> chain_guard ch = false -> chain_total ch = true.
Proof.
  assert (G : forallb (fun ch => chain_guard ch || chain_total ch) enum_chains = true) by (vm_compute; reflexivity).
  intros ch Hin Hg. rewrite forallb_forall in G. specialize (G ch Hin). rewrite Hg in G. exact G.
Qed.

Lemma enum_chains_guard_exact : forallb (fun ch => negb (chain_guard ch) || negb (chain_total ch)) enum_chains = true
  /\ 4 <= length (filter (fun ch => negb (chain_guard ch)) enum_chains).
Proof. split; [vm_compute; reflexivity|vm_compute; repeat constructor]. Qed.

(* a total enum chain takes a branch for every member: the fall-through is dead *)
Lemma chain_total_covers : forall f fn subj e handled m,
  chain_total (f, fn, subj, e, handled) = true -> In m (members_of e) -> In m handled.
Proof.
  intros f fn subj e handled m H Hm. cbn in H. apply andb_true_iff in H. destruct H as [_ H].
  rewrite forallb_forall in H. apply mem_str_In. apply H. exact Hm.
Qed.

Lemma bound_chain_total : forall c, In c bound_family -> crashes [] bound_chain_handled c = false.
Proof.
  assert (G : forallb (fun c => negb (crashes [] bound_chain_handled c)) bound_family = true) by (vm_compute; reflexivity).
  intros c Hc. rewrite forallb_forall in G. specialize (G c Hc). destruct (crashes [] bound_chain_handled c); [discriminate|reflexivity].
Qed.

(* ---- NameCheckVisitor._get_typeis_parameter (translated into Gen.Total.typeis_index) ---- *)
From Coq Require Import Arith Lia.
Open Scope nat_scope.

Ltac typeis_cases H :=
  repeat match type of H with
         | context [if ?c then _ else _] => let E := fresh "E" in destruct c eqn:E
         end.

Ltac nat_bools :=
  repeat match goal with
         | E : (_ <=? _) = true |- _ => apply Nat.leb_le in E
         | E : (_ <=? _) = false |- _ => apply Nat.leb_gt in E
         | E : (_ <? _) = true |- _ => apply Nat.ltb_lt in E
         | E : (_ <? _) = false |- _ => apply Nat.ltb_ge in E
         | E : (_ =? _) = true |- _ => apply Nat.eqb_eq in E
         | E : (_ =? _) = false |- _ => apply Nat.eqb_neq in E
         | E : negb _ = true |- _ => apply negb_true_iff in E
         | E : negb _ = false |- _ => apply negb_false_iff in E
         end.

(* the subscript info.params[index] is in range whenever it is reached *)
Lemma typeis_index_in_range : forall cm im n i, typeis_index cm im n = Some i -> i < n.
Proof.
  intros cm im n i H. unfold typeis_index in H. destruct cm, im; cbv beta iota delta [orb andb negb] in H; typeis_cases H;
    try discriminate; injection H as H; subst; nat_bools; lia.
Qed.

(* it is the parameter after self / cls, and it is found whenever it exists *)
Lemma typeis_index_spec : forall cm im n,
  typeis_index cm im n = (let k := if cm || im then 1 else 0 in if k <? n then Some k else None).
Proof.
  intros cm im n. unfold typeis_index. destruct cm, im; cbv beta iota delta [orb andb negb];
    repeat match goal with |- context [if ?c then _ else _] => let E := fresh "E" in destruct c eqn:E end;
    try reflexivity; nat_bools; try lia; exfalso; nat_bools; lia.
Qed.

(* the unwrapped-union case is decided by the generated flag: crashing iff not delegated (and no branch) *)
Lemma boolab_unwrapped_union_status :
  boolab_unwrapped_union_crashes = negb (mem_str "MultiValuedValue" boolability_delegated)
                                   && boolability_else_raises && crashes value_hierarchy boolability_handled "MultiValuedValue".
Proof. unfold boolab_unwrapped_union_crashes. destruct boolability_else_raises, (mem_str "MultiValuedValue" boolability_delegated); reflexivity. Qed.

Lemma delegation_suffices : mem_str "MultiValuedValue" boolability_delegated = true -> boolab_unwrapped_union_crashes = false.
Proof. intros H. unfold boolab_unwrapped_union_crashes. rewrite H. destruct boolability_else_raises; reflexivity. Qed.
