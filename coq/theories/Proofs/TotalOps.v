(* Proofs/TotalOps.v — the degenerate inputs of Total/Ops.v are never produced
   by the ways pyanalyze builds these objects (C12). *)
From Coq Require Import List Bool Arith Lia.
Import ListNotations.
Require Import PV.Total.Ops.

Lemma make_or_wf : forall l, (forall c, In c l -> wf_shape c = true) -> wf_shape (make_or l) = true.
Proof.
  intros l H. destruct l as [|a [|b t]]; cbn.
  - reflexivity.
  - apply H. left. reflexivity.
  - reflexivity.
Qed.

Lemma make_and_wf : forall l, (forall c, In c l -> wf_shape c = true) -> wf_shape (make_and l) = true.
Proof.
  intros l H. destruct l as [|a [|b t]]; cbn.
  - reflexivity.
  - apply H. left. reflexivity.
  - reflexivity.
Qed.

Lemma invert_wf : forall s, wf_shape s = true -> wf_shape (invert s) = true.
Proof. intros s H. destruct s; cbn in *; assumption. Qed.

Theorem built_wf : forall s, built s -> wf_shape s = true.
Proof.
  intros s H. induction H as [| |l _ IH|l _ IH|s _ IH].
  - reflexivity.
  - reflexivity.
  - apply make_or_wf. exact IH.
  - apply make_and_wf. exact IH.
  - apply invert_wf. exact IH.
Qed.

Theorem built_apply_total : forall s, built s -> apply_crashes s = false.
Proof.
  intros s H. apply built_wf in H. destruct s as [| |n|n]; try reflexivity.
  destruct n; [cbn in H; discriminate|reflexivity].
Qed.

(* ... while an OrConstraint with no child (constructible only by calling the
   class directly) does raise *)
Lemma empty_or_crashes : apply_crashes (SOr 0) = true.
Proof. reflexivity. Qed.

Lemma fold_max_ge : forall t a, a <= fold_left Nat.max t a /\ forall x, In x t -> x <= fold_left Nat.max t a.
Proof.
  induction t as [|b t IH]; intros a; cbn.
  - split; [lia|intros x []].
  - destruct (IH (Nat.max a b)) as [H1 H2]. split; [lia|].
    intros x [Hx|Hx]; [subst; lia|apply H2; exact Hx].
Qed.

Theorem max_list_total : forall l, l <> [] -> exists m, max_list l = Some m /\ forall x, In x l -> x <= m.
Proof.
  intros l Hl. destruct l as [|a t]; [contradiction|]. cbn [max_list]. exists (fold_left Nat.max t a). split; [reflexivity|].
  destruct (fold_max_ge t a) as [G1 G2]. intros x [Hx|Hx]; [subst x; exact G1|exact (G2 x Hx)].
Qed.

Lemma max_list_empty_crashes : max_list [] = None.
Proof. reflexivity. Qed.

Theorem guarded_next_total : forall s, guarded_next s <> None.
Proof. intros s. destruct s as [|x [|y t]]; discriminate. Qed.

Lemma unguarded_next_crashes : unguarded_next [] = None.
Proof. reflexivity. Qed.
