(* Proofs/TypeEvalBasic.v — first facts about Eval/TypeEval.v *)
From Coq Require Import List Bool Arith PeanoNat Lia.
Import ListNotations.
Require Import PV.Eval.TypeEval.

(* docs "argument kinds": is_provided = POSITIONAL or KEYWORD, is_positional = POSITIONAL, is_keyword = KEYWORD,
   where int / *args positions are POSITIONAL, str / **kwargs positions are KEYWORD *)
Definition doc_kind (p : posn) : nat :=   (* 0 POSITIONAL, 1 KEYWORD, 2 DEFAULT, 3 UNKNOWN *)
  match p with PInt | PArgs => 0 | PStr | PKwargs => 1 | PDefault => 2 | PUnknown => 3 end.

Lemma kind_match_doc : forall f p,
  kind_match f p =
  match f with
  | KProvided => (doc_kind p =? 0) || (doc_kind p =? 1)
  | KPositional => doc_kind p =? 0
  | KKeyword => doc_kind p =? 1
  end.
Proof. intros [] []; reflexivity. Qed.
