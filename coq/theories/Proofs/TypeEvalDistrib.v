(* Proofs/TypeEvalDistrib.v — union distribution for whole bodies: with one
   union argument x (the other arguments union-free), exact narrowing tables and
   returns only in tail position, the evaluator's result on the union is the
   union of the reference interpreter's results on the members.  Includes the
   and/or partial-match bookkeeping (narrowed / remaining varmaps, key
   intersection in unite_varmaps, early exits). *)
From Coq Require Import List Bool Arith PeanoNat Lia.
Import ListNotations.
Require Import PV.Eval.TypeEval.
Require Import PV.Proofs.TypeEvalSingle PV.Proofs.TypeEvalUnion.

Definition seteq {A : Type} (a b : list A) : Prop := forall z, In z a <-> In z b.
Definition nonempty {A : Type} (l : list A) : Prop := exists z, In z l.
Definition empty {A : Type} (l : list A) : Prop := forall z, ~ In z l.

Lemma seteq_refl : forall (A : Type) (a : list A), seteq a a.
Proof. intros A a z. tauto. Qed.
Lemma seteq_sym : forall (A : Type) (a b : list A), seteq a b -> seteq b a.
Proof. intros A a b H z. specialize (H z). tauto. Qed.
Lemma seteq_trans : forall (A : Type) (a b c : list A), seteq a b -> seteq b c -> seteq a c.
Proof. intros A a b c H1 H2 z. specialize (H1 z). specialize (H2 z). tauto. Qed.

Lemma nodupn_seteq : forall l, seteq (nodupn l) l.
Proof. intros l z. unfold nodupn. apply nodup_In. Qed.

(* ---------- lookup / get ---------------------------------------------------- *)

Lemma get_app : forall vm rho v,
  get (vm ++ rho) v = match lookup vm v with Some ms => ms | None => get rho v end.
Proof. intros. unfold get. rewrite lookup_app. destruct (lookup vm v); auto. Qed.

Lemma has_key_app : forall a b v, has_key (a ++ b) v = has_key a v || has_key b v.
Proof. intros. unfold has_key. rewrite lookup_app. destruct (lookup a v); auto. Qed.

Lemma get_has_key : forall vm v, has_key vm v = true -> lookup vm v = Some (get vm v).
Proof. intros vm v H. unfold has_key, get in *. destruct (lookup vm v); auto; discriminate. Qed.

Lemma lookup_keys : forall (f : var -> list member) keys v,
  lookup (map (fun k => (k, f k)) keys) v = if existsb (fun k => k =? v) keys then Some (f v) else None.
Proof.
  induction keys as [|k keys IH]; intros v; simpl; auto.
  destruct (k =? v) eqn:E; simpl; auto. apply Nat.eqb_eq in E. now subst.
Qed.

Lemma existsb_eqb_In : forall keys v, existsb (fun k => k =? v) keys = true <-> In v keys.
Proof.
  intros keys v. rewrite existsb_exists. split.
  - intros [k [Hin E]]. apply Nat.eqb_eq in E. now subst.
  - intros H. exists v. split; auto. apply Nat.eqb_refl.
Qed.

Lemma lookup_in_fst : forall vm v ms, lookup vm v = Some ms -> In v (map fst vm).
Proof.
  induction vm as [|[w ms'] vm IH]; intros v ms H; simpl in *; try discriminate.
  destruct (w =? v) eqn:E.
  - left. now apply Nat.eqb_eq.
  - right. eapply IH; eauto.
Qed.

Lemma in_fst_lookup : forall vm v, In v (map fst vm) -> exists ms, lookup vm v = Some ms.
Proof.
  induction vm as [|[w ms'] vm IH]; intros v H; simpl in *; try contradiction.
  destruct (w =? v) eqn:E; eauto. destruct H as [H|H]; auto.
  subst. rewrite Nat.eqb_refl in E. discriminate.
Qed.

(* unite_varmaps on a non-empty list: key v is bound iff every varmap binds it;
   the value is the united value *)
Lemma unite_lookup : forall first rest v,
  exists U, unite_varmaps (first :: rest) = Some U /\
  lookup U v = if forallb (fun vm => has_key vm v) (first :: rest)
               then Some (nodupn (flat_map (fun vm => get vm v) (first :: rest))) else None.
Proof.
  intros first rest v. unfold unite_varmaps. eexists. split; [reflexivity|].
  rewrite lookup_keys.
  set (keys := filter (fun k => forallb (fun vm => has_key vm k) rest) (nodupn (map fst first))).
  destruct (existsb (fun k => k =? v) keys) eqn:E.
  - apply existsb_eqb_In in E. unfold keys in E. apply filter_In in E. destruct E as [Hin Hall].
    apply (proj1 (nodupn_seteq _ _)) in Hin. apply in_fst_lookup in Hin. destruct Hin as [ms Hl].
    cbn [forallb]. unfold has_key at 1. rewrite Hl. simpl. now rewrite Hall.
  - cbn [forallb]. destruct (has_key first v) eqn:Hk; simpl; auto.
    destruct (forallb (fun vm => has_key vm v) rest) eqn:Hall; auto.
    exfalso. assert (In v keys).
    { unfold keys. apply filter_In. split; auto. apply (proj2 (nodupn_seteq _ _)).
      unfold has_key in Hk. destruct (lookup first v) eqn:Hl; try discriminate.
      eapply lookup_in_fst; eauto. }
    apply existsb_eqb_In in H. congruence.
Qed.

Lemma forallb_false_ex' : forall (A : Type) (g : A -> bool) l,
  forallb g l = false -> exists z, In z l /\ g z = false.
Proof.
  intros A g l. induction l as [|a l IH]; simpl; intros H; try discriminate.
  destruct (g a) eqn:E.
  - simpl in H. destruct (IH H) as [z [Hz Hg]]. exists z. split; auto.
  - exists a. split; auto.
Qed.

Section Distrib.
  Variable acc : typ -> member -> bool -> bool.
  Variable narrow : typ -> member -> list member.
  Variable posof : var -> posn.
  (* a matching member is not changed by the positive narrowing *)
  Hypothesis H1 : forall T m ex, acc T m ex = true -> narrow T m = [m].
  Variable x : var.                   (* the union argument *)
  Variable sigma : var -> member.     (* the other arguments *)

  Definition sig_m (m : member) : var -> member := fun v => if v =? x then m else sigma v.
  Definition good (vm : varmap) : Prop := forall v ms, v <> x -> lookup vm v = Some ms -> ms = [sigma v].
  Definition others (rho : varmap) : Prop := forall v, v <> x -> get rho v = [sigma v].
  Definition xset (rho : varmap) (D : list member) : Prop := others rho /\ seteq (get rho x) D.

  (* what a condition result means, relative to the environment rho0 its
     varmaps will be applied to: Ts / Fs = the members of x for which the
     condition is true / false *)
  Definition cret_sets (rho0 : varmap) (res : cret) (Ts Fs : list member) : Prop :=
    match res with
    | (Some l, None) => empty Fs /\ good l /\ xset (l ++ rho0) Ts
    | (None, Some r) => empty Ts /\ good r /\ xset (r ++ rho0) Fs
    | (Some l, Some r) =>
        nonempty Ts /\ nonempty Fs /\ good l /\ good r /\
        has_key l x = true /\ has_key r x = true /\ xset (l ++ rho0) Ts /\ xset (r ++ rho0) Fs
    | (None, None) => False
    end.

  Lemma good_nil : good [].
  Proof. intros v ms _ H. discriminate. Qed.

  Lemma good_app : forall a b, good a -> good b -> good (a ++ b).
  Proof.
    intros a b Ha Hb v ms Hv H. rewrite lookup_app in H. destruct (lookup a v) eqn:E.
    - inversion H; subst. eapply Ha; eauto.
    - eapply Hb; eauto.
  Qed.

  Lemma others_app : forall l rho, good l -> others rho -> others (l ++ rho).
  Proof.
    intros l rho Hl Hr v Hv. rewrite get_app. destruct (lookup l v) eqn:E; [eapply Hl; eauto|auto].
  Qed.

  Lemma xset_app_bound : forall l rho D,
    good l -> others rho -> has_key l x = true -> seteq (get l x) D -> xset (l ++ rho) D.
  Proof.
    intros l rho D Hl Hr Hk Hs. split; [now apply others_app|].
    rewrite get_app. rewrite (get_has_key _ _ Hk). exact Hs.
  Qed.

  Lemma xset_app_unbound : forall l rho D,
    good l -> others rho -> has_key l x = false -> seteq (get rho x) D -> xset (l ++ rho) D.
  Proof.
    intros l rho D Hl Hr Hk Hs. split; [now apply others_app|].
    rewrite get_app. unfold has_key in Hk. destruct (lookup l x); try discriminate. exact Hs.
  Qed.

  Lemma xset_get_bound : forall l rho D, xset (l ++ rho) D -> has_key l x = true -> seteq (get l x) D.
  Proof.
    intros l rho D [_ Hs] Hk. rewrite get_app in Hs. now rewrite (get_has_key _ _ Hk) in Hs.
  Qed.

  Lemma xset_get_unbound : forall l rho D, xset (l ++ rho) D -> has_key l x = false -> seteq (get rho x) D.
  Proof.
    intros l rho D [_ Hs] Hk. rewrite get_app in Hs. unfold has_key in Hk.
    destruct (lookup l x); try discriminate. exact Hs.
  Qed.

  Lemma xset_ext : forall rho D D', seteq D D' -> xset rho D -> xset rho D'.
  Proof. intros rho D D' He [Ho Hs]. split; auto. eapply seteq_trans; eauto. Qed.

  Lemma cret_sets_ext : forall rho0 res T F T' F',
    seteq T T' -> seteq F F' -> cret_sets rho0 res T F -> cret_sets rho0 res T' F'.
  Proof.
    intros rho0 [[l|] [r|]] T F T' F' HT HF H; simpl in *; auto.
    - destruct H as [N1 [N2 [G1 [G2 [K1 [K2 [[O1 S1] [O2 S2]]]]]]]].
      refine (conj _ (conj _ (conj G1 (conj G2 (conj K1 (conj K2 (conj (conj O1 _) (conj O2 _)))))))).
      + destruct N1 as [z Hz]. exists z. now apply HT.
      + destruct N2 as [z Hz]. exists z. now apply HF.
      + eapply seteq_trans; eauto.
      + eapply seteq_trans; eauto.
    - destruct H as [E [G [O S1]]]. refine (conj _ (conj G (conj O _))).
      + intros z Hz. apply (E z). now apply HF.
      + eapply seteq_trans; eauto.
    - destruct H as [E [G [O S1]]]. refine (conj _ (conj G (conj O _))).
      + intros z Hz. apply (E z). now apply HT.
      + eapply seteq_trans; eauto.
  Qed.

  Lemma narrowed_seteq : forall T ex S,
    seteq (nodupn (flat_map (narrow T) (filter (fun m => acc T m ex) S))) (filter (fun m => acc T m ex) S).
  Proof.
    intros T ex S z. rewrite (nodupn_seteq _ z). rewrite in_flat_map. split.
    - intros [m [Hm Hz]]. pose proof Hm as Hm'. apply filter_In in Hm'. destruct Hm' as [_ E].
      rewrite (H1 _ _ _ E) in Hz. destruct Hz as [<-|[]]. exact Hm.
    - intros Hz. exists z. split; auto. apply filter_In in Hz. destruct Hz as [_ E]. rewrite (H1 _ _ _ E). now left.
  Qed.

  Lemma good_single_x : forall N, good [(x, N)].
  Proof.
    intros N v ms Hv H. simpl in H. destruct (x =? v) eqn:E; try discriminate.
    apply Nat.eqb_eq in E. congruence.
  Qed.

  Lemma good_single_other : forall v, good [(v, [sigma v])].
  Proof.
    intros v w ms Hw H. simpl in H. destruct (v =? w) eqn:E; try discriminate.
    apply Nat.eqb_eq in E. subst. now inversion H.
  Qed.

  Lemma has_key_single : forall v N, has_key [(v, N)] v = true.
  Proof. intros. unfold has_key. simpl. now rewrite Nat.eqb_refl. Qed.

  Lemma get_single : forall v N, get [(v, N)] v = N.
  Proof. intros. unfold get. simpl. now rewrite Nat.eqb_refl. Qed.

  Lemma has_key_single_other : forall v w N, v <> w -> has_key [(v, N)] w = false.
  Proof. intros v w N H. unfold has_key. simpl. apply Nat.eqb_neq in H. now rewrite H. Qed.

  Lemma sig_m_x : forall m, sig_m m x = m.
  Proof. intros. unfold sig_m. now rewrite Nat.eqb_refl. Qed.
  Lemma sig_m_other : forall m v, v <> x -> sig_m m v = sigma v.
  Proof. intros m v H. unfold sig_m. apply Nat.eqb_neq in H. now rewrite H. Qed.

  Lemma is_of_type_sets : forall rho v T ex,
    others rho -> nonempty (get rho x) ->
    cret_sets rho (is_of_type acc narrow rho v T ex)
      (filter (fun m => acc T (sig_m m v) ex) (get rho x))
      (filter (fun m => negb (acc T (sig_m m v) ex)) (get rho x)).
  Proof.
    intros rho v T ex Ho [m0 Hm0]. unfold is_of_type.
    destruct (Nat.eq_dec v x) as [->|Hv].
    - (* the union argument itself *)
      set (S := get rho x) in *.
      apply (cret_sets_ext rho _ (filter (fun m => acc T m ex) S) (filter (fun m => negb (acc T m ex)) S)).
      { intros z. rewrite !filter_In. now rewrite sig_m_x. }
      { intros z. rewrite !filter_In. now rewrite sig_m_x. }
      destruct (forallb (fun m => acc T m ex) S) eqn:Eall.
      + rewrite forallb_forall in Eall. unfold cret_sets. split; [|split].
        * intros z Hz. apply filter_In in Hz. destruct Hz as [Hz E]. rewrite (Eall z Hz) in E. discriminate.
        * apply good_single_x.
        * apply xset_app_bound; auto using good_single_x, has_key_single.
          rewrite get_single. apply narrowed_seteq.
      + destruct (existsb (fun m => acc T m ex) S) eqn:Eex.
        * apply existsb_exists in Eex. destruct Eex as [m1 [Hm1 E1]].
          assert (Hf : exists m2, In m2 S /\ acc T m2 ex = false).
          { destruct (forallb_false_ex' _ _ _ Eall) as [m2 [? ?]]. eauto. }
          destruct Hf as [m2 [Hm2 E2]]. unfold cret_sets.
          refine (conj _ (conj _ (conj (good_single_x _) (conj (good_single_x _)
                   (conj (has_key_single x _) (conj (has_key_single x _) (conj _ _))))))).
          -- exists m1. apply filter_In. auto.
          -- exists m2. apply filter_In. rewrite E2. auto.
          -- apply xset_app_bound; auto using good_single_x, has_key_single.
             rewrite get_single. apply narrowed_seteq.
          -- apply xset_app_bound; auto using good_single_x, has_key_single.
             rewrite get_single. apply seteq_refl.
        * assert (Hnone : forall m, In m S -> acc T m ex = false).
          { intros m Hm. destruct (acc T m ex) eqn:E; auto.
            assert (existsb (fun m => acc T m ex) S = true) by (apply existsb_exists; eauto). congruence. }
          unfold cret_sets. split; [|split].
          -- intros z Hz. apply filter_In in Hz. destruct Hz as [Hz E]. rewrite (Hnone z Hz) in E. discriminate.
          -- apply good_nil.
          -- split; auto. intros z. rewrite filter_In. split; [|tauto].
             intros Hz. split; auto. fold S in Hz. now rewrite (Hnone z Hz).
    - (* another, union-free argument: the same answer for every member *)
      rewrite (Ho v Hv).
      apply (cret_sets_ext rho _ (filter (fun _ => acc T (sigma v) ex) (get rho x))
                                 (filter (fun _ => negb (acc T (sigma v) ex)) (get rho x))).
      { intros z. rewrite !filter_In. now rewrite sig_m_other. }
      { intros z. rewrite !filter_In. now rewrite sig_m_other. }
      cbn [forallb existsb filter]. destruct (acc T (sigma v) ex) eqn:E; cbn [andb orb flat_map].
      + rewrite (H1 _ _ _ E). change (nodupn ([sigma v] ++ [])) with [sigma v]. unfold cret_sets. split; [|split].
        * intros z Hz. apply filter_In in Hz. destruct Hz; discriminate.
        * apply good_single_other.
        * apply xset_app_unbound; auto using good_single_other, has_key_single_other.
          intros z. rewrite filter_In. tauto.
      + unfold cret_sets. split; [|split].
        * intros z Hz. apply filter_In in Hz. destruct Hz; discriminate.
        * apply good_nil.
        * split; auto. intros z. rewrite filter_In. tauto.
  Qed.

  (* ---------- unite_varmaps on good varmaps --------------------------------- *)

  Lemma nodupn_all_same : forall (a : member) l, l <> [] -> (forall z, In z l -> z = a) -> nodupn l = [a].
  Proof.
    intros a l. induction l as [|b l IH]; intros Hne Hall; [congruence|].
    assert (b = a) by (apply Hall; now left). subst b.
    unfold nodupn in *. simpl. destruct (in_dec Nat.eq_dec a l) as [Hin|Hnin].
    - apply IH.
      + intros ->. contradiction.
      + intros z Hz. apply Hall. now right.
    - destruct l as [|c l'].
      + reflexivity.
      + exfalso. apply Hnin. left. apply Hall. right. now left.
  Qed.

  Lemma good_unite : forall first rest U,
    Forall good (first :: rest) -> unite_varmaps (first :: rest) = Some U -> good U.
  Proof.
    intros first rest U Hg HU v ms Hv Hl.
    destruct (unite_lookup first rest v) as [U' [E L]]. rewrite HU in E. inversion E; subst U'.
    rewrite Hl in L. destruct (forallb (fun vm => has_key vm v) (first :: rest)) eqn:Hall; try discriminate.
    inversion L; subst ms. rewrite forallb_forall in Hall. rewrite Forall_forall in Hg.
    apply nodupn_all_same.
    - cbn [flat_map].
      assert (Hf : get first v = [sigma v]).
      { pose proof (get_has_key _ _ (Hall first (or_introl eq_refl))) as Hk.
        eapply (Hg first (or_introl eq_refl)); eauto. }
      rewrite Hf. discriminate.
    - intros z Hz.
      change (get first v ++ flat_map (fun vm => get vm v) rest) with (flat_map (fun vm => get vm v) (first :: rest)) in Hz.
      apply in_flat_map in Hz. destruct Hz as [vm [Hvm Hz]].
      pose proof (get_has_key _ _ (Hall vm Hvm)) as Hk.
      rewrite (Hg vm Hvm v _ Hv Hk) in Hz. destruct Hz as [<-|[]]. reflexivity.
  Qed.

  Lemma unite_bound : forall first rest U,
    unite_varmaps (first :: rest) = Some U ->
    forallb (fun vm => has_key vm x) (first :: rest) = true ->
    has_key U x = true /\ get U x = nodupn (flat_map (fun vm => get vm x) (first :: rest)).
  Proof.
    intros first rest U HU Hall. destruct (unite_lookup first rest x) as [U' [E L]].
    rewrite HU in E. inversion E; subst U'. rewrite Hall in L.
    unfold has_key, get. rewrite L. auto.
  Qed.

  Lemma unite_unbound : forall first rest U,
    unite_varmaps (first :: rest) = Some U ->
    forallb (fun vm => has_key vm x) (first :: rest) = false ->
    has_key U x = false.
  Proof.
    intros first rest U HU Hall. destruct (unite_lookup first rest x) as [U' [E L]].
    rewrite HU in E. inversion E; subst U'. rewrite Hall in L. unfold has_key. now rewrite L.
  Qed.

  Lemma unite_some : forall first rest, exists U, unite_varmaps (first :: rest) = Some U.
  Proof. intros. unfold unite_varmaps. eauto. Qed.

  (* ---------- conditions ----------------------------------------------------- *)

  Definition Pc (c : cond) (m : member) : bool := sem_cond acc posof (sig_m m) c.
  Definition Pall (cs : conds) (m : member) : bool := sem_all acc posof (sig_m m) cs.

  Definition cond_ok (c : cond) : Prop :=
    forall rho, others rho -> nonempty (get rho x) ->
      cret_sets rho (eval_cond acc narrow posof rho c)
        (filter (Pc c) (get rho x)) (filter (fun m => negb (Pc c m)) (get rho x)).

  Fixpoint InC (c : cond) (cs : conds) : Prop :=
    match cs with CNil => False | CCons c' cs' => c = c' \/ InC c cs' end.
  Definition all_ok (cs : conds) : Prop := forall c, InC c cs -> cond_ok c.

  Definition rem_ok (remaining : list varmap) : Prop :=
    Forall (fun r => good r /\ has_key r x = true /\ nonempty (get r x)) remaining.
  Definition Frem (remaining : list varmap) : list member := flat_map (fun r => get r x) remaining.

  Lemma rem_ok_good : forall remaining, rem_ok remaining -> Forall good remaining.
  Proof. intros remaining H. eapply Forall_impl; [|exact H]. intros r [G _]. exact G. Qed.

  Lemma rem_ok_keys : forall remaining, rem_ok remaining -> forallb (fun vm => has_key vm x) remaining = true.
  Proof.
    intros remaining H. apply forallb_forall. intros r Hr. unfold rem_ok in H. rewrite Forall_forall in H.
    destruct (H r Hr) as [_ [K _]]. exact K.
  Qed.

  (* the result of uniting remaining ++ [r] (or r alone), applied to rho0 *)
  Lemma early_exit_sets : forall rho0 remaining r D,
    others rho0 -> rem_ok remaining -> good r ->
    (has_key r x = true -> seteq (Frem remaining ++ get r x) D) ->
    (has_key r x = false -> seteq (get rho0 x) D) ->
    exists U, unite_with_remaining remaining (Some r) = Some U /\ good U /\ xset (U ++ rho0) D.
  Proof.
    intros rho0 remaining r D Ho Hrem Hg Hb Hu.
    destruct remaining as [|r1 rest].
    - exists r. split; [reflexivity|]. split; auto.
      destruct (has_key r x) eqn:K.
      + apply xset_app_bound; auto.
      + apply xset_app_unbound; auto.
    - destruct (unite_some r1 (rest ++ [r])) as [U HU].
      exists U. split; [exact HU|].
      assert (HgU : good U).
      { eapply good_unite; [|exact HU]. change (r1 :: rest ++ [r]) with ((r1 :: rest) ++ [r]).
        apply Forall_app. split; [now apply rem_ok_good|]. constructor; auto. }
      split; auto.
      destruct (has_key r x) eqn:K.
      + destruct (unite_bound r1 (rest ++ [r]) U HU) as [KU GU].
        { change (r1 :: rest ++ [r]) with ((r1 :: rest) ++ [r]). rewrite forallb_app.
          rewrite (rem_ok_keys _ Hrem). simpl. now rewrite K. }
        apply xset_app_bound; auto. rewrite GU.
        eapply seteq_trans; [apply nodupn_seteq|].
        change (r1 :: rest ++ [r]) with ((r1 :: rest) ++ [r]). rewrite flat_map_app. simpl. rewrite app_nil_r.
        apply (Hb eq_refl).
      + apply xset_app_unbound; auto.
        eapply unite_unbound; [exact HU|].
        change (r1 :: rest ++ [r]) with ((r1 :: rest) ++ [r]). rewrite forallb_app. simpl. rewrite K.
        now rewrite andb_false_r.
  Qed.

  Lemma and_sets : forall cs, all_ok cs -> forall rho0 narrowed remaining rho,
    rho = narrowed ++ rho0 ->
    others rho0 -> good narrowed -> nonempty (get rho x) ->
    rem_ok remaining ->
    (remaining <> [] -> has_key narrowed x = true) ->
    seteq (get rho0 x) (get rho x ++ Frem remaining) ->
    cret_sets rho0 (eval_and acc narrow posof rho cs narrowed remaining)
      (filter (Pall cs) (get rho x))
      (filter (fun m => negb (Pall cs m)) (get rho x) ++ Frem remaining).
  Proof.
    induction cs as [|c cs IH]; intros Hok rho0 narrowed remaining rho Erho Ho Hgn Hne Hrem Hkey Hcov.
    - (* all operands done *)
      set (S := get rho x) in *.
      change (eval_and acc narrow posof rho CNil narrowed remaining)
        with (Some narrowed, unite_varmaps remaining).
      apply (cret_sets_ext rho0 _ S (Frem remaining)).
      { intros z. rewrite filter_In. unfold Pall. simpl. tauto. }
      { intros z. rewrite in_app_iff, filter_In. unfold Pall. simpl. split; [tauto|]. intros [[_ H]|H]; [discriminate|auto]. }
      assert (HX : xset (narrowed ++ rho0) S).
      { rewrite <- Erho. split; [rewrite Erho; now apply others_app|apply seteq_refl]. }
      destruct remaining as [|r1 rest].
      + simpl. split; [|split]; auto.
        intros z Hz. exact Hz.
      + destruct (unite_some r1 rest) as [U HU]. rewrite HU.
        assert (HgU : good U) by (eapply good_unite; [apply rem_ok_good; exact Hrem|exact HU]).
        destruct (unite_bound r1 rest U HU (rem_ok_keys _ Hrem)) as [KU GU].
        unfold cret_sets.
        refine (conj Hne (conj _ (conj Hgn (conj HgU (conj (Hkey _) (conj KU (conj HX _))))))).
        * inversion Hrem as [|? ? [_ [_ [z Hz]]] _]; subst. exists z. unfold Frem. simpl. apply in_or_app. now left.
        * discriminate.
        * apply xset_app_bound; auto. rewrite GU. apply nodupn_seteq.
    - (* next operand *)
      set (S := get rho x) in *.
      assert (Horho : others rho) by (rewrite Erho; now apply others_app).
      rewrite eval_and_cons.
      pose proof (Hok c (or_introl eq_refl) rho Horho Hne) as Hc. fold S in Hc.
      assert (Hok' : all_ok cs) by (intros c' Hc'; apply Hok; now right).
      assert (HP : forall m, Pall (CCons c cs) m = Pc c m && Pall cs m) by reflexivity.
      destruct (eval_cond acc narrow posof rho c) as [[l|] [r|]]; unfold cret_sets in Hc.
      + (* partial match *)
        destruct Hc as [NT [NF [Gl [Gr [Kl [Kr [Xl Xr]]]]]]].
        pose proof (xset_get_bound _ _ _ Xr Kr) as Hr.
        assert (Hlx : seteq (get (l ++ rho) x) (filter (Pc c) S)) by (apply Xl).
        assert (E' : l ++ rho = (l ++ narrowed) ++ rho0) by (rewrite Erho; apply app_assoc).
        specialize (IH Hok' rho0 (l ++ narrowed) (remaining ++ [r]) (l ++ rho) E' Ho (good_app _ _ Gl Hgn)).
        eapply cret_sets_ext; [| |apply IH].
        * intros z. rewrite !filter_In. rewrite (Hlx z), filter_In, HP, andb_true_iff. tauto.
        * intros z. rewrite !in_app_iff, !filter_In. unfold Frem. rewrite flat_map_app, in_app_iff.
          simpl. rewrite app_nil_r. rewrite (Hlx z), (Hr z), !filter_In, HP.
          destruct (Pc c z), (Pall cs z); simpl; intuition discriminate.
        * destruct NT as [z Hz]. exists z. now apply Hlx.
        * apply Forall_app. split; auto. constructor; auto. repeat split; auto.
          destruct NF as [z Hz]. exists z. now apply Hr.
        * intros _. rewrite has_key_app, Kl. reflexivity.
        * intros z. rewrite (Hcov z). fold S. rewrite !in_app_iff. unfold Frem.
          rewrite flat_map_app, in_app_iff. simpl. rewrite app_nil_r. rewrite (Hlx z), (Hr z), !filter_In.
          destruct (Pc c z); simpl; intuition discriminate.
      + (* every member satisfies the operand *)
        destruct Hc as [EF [Gl Xl]].
        assert (Hlx : seteq (get (l ++ rho) x) (filter (Pc c) S)) by (apply Xl).
        assert (Hall : forall z, In z S -> Pc c z = true).
        { intros z Hz. destruct (Pc c z) eqn:E; auto. exfalso. apply (EF z). apply filter_In. rewrite E. auto. }
        assert (E' : l ++ rho = (l ++ narrowed) ++ rho0) by (rewrite Erho; apply app_assoc).
        specialize (IH Hok' rho0 (l ++ narrowed) remaining (l ++ rho) E' Ho (good_app _ _ Gl Hgn)).
        eapply cret_sets_ext; [| |apply IH].
        * intros z. rewrite !filter_In. rewrite (Hlx z), filter_In, HP, andb_true_iff. tauto.
        * intros z. rewrite !in_app_iff, !filter_In. rewrite (Hlx z), filter_In, HP.
          split.
          -- intros [[[Hz E1] E2]|Hz]; auto. left. split; auto. rewrite E1. exact E2.
          -- intros [[Hz E]|Hz]; auto. left. rewrite (Hall z Hz) in *. auto.
        * destruct Hne as [z Hz]. exists z. apply Hlx. apply filter_In. split; auto.
        * exact Hrem.
        * intros Hr. rewrite has_key_app, (Hkey Hr). apply orb_true_r.
        * intros z. rewrite (Hcov z). fold S. rewrite !in_app_iff. rewrite (Hlx z), filter_In.
          split.
          -- intros [Hz|Hz]; auto.
          -- intros [[Hz _]|Hz]; auto.
      + (* no member satisfies the operand: early exit *)
        destruct Hc as [ET [Gr Xr]].
        assert (Hnone : forall z, In z S -> Pc c z = false).
        { intros z Hz. destruct (Pc c z) eqn:E; auto. exfalso. apply (ET z). apply filter_In. auto. }
        destruct (early_exit_sets rho0 remaining r
                    (filter (fun m => negb (Pall (CCons c cs) m)) S ++ Frem remaining) Ho Hrem Gr)
          as [U [HU [HgU HX]]].
        * intros K. pose proof (xset_get_bound _ _ _ Xr K) as Hr.
          intros z. rewrite !in_app_iff, (Hr z), !filter_In, HP. split.
          -- intros [Hz|[Hz E]]; auto. left. split; auto. now rewrite (Hnone z Hz).
          -- intros [[Hz E]|Hz]; auto. right. split; auto. now rewrite (Hnone z Hz).
        * intros K. intros z. rewrite (Hcov z). fold S. rewrite !in_app_iff, filter_In, HP. split.
          -- intros [Hz|Hz]; auto. left. split; auto. now rewrite (Hnone z Hz).
          -- intros [[Hz _]|Hz]; auto.
        * rewrite HU. unfold cret_sets. split; [|split]; auto.
          intros z Hz. apply filter_In in Hz. destruct Hz as [Hz E]. rewrite HP, (Hnone z Hz) in E. discriminate.
      + contradiction.
  Qed.


  (* `or` is `and` of the negations, with the two sides swapped *)
  Fixpoint negs (cs : conds) : conds :=
    match cs with CNil => CNil | CCons c cs' => CCons (CNot c) (negs cs') end.

  Definition swap (r : cret) : cret := (snd r, fst r).

  Lemma or_as_and : forall cs rho narrowed remaining,
    eval_or acc narrow posof rho cs narrowed remaining =
    swap (eval_and acc narrow posof rho (negs cs) narrowed remaining).
  Proof.
    induction cs as [|c cs IH]; intros rho narrowed remaining.
    - reflexivity.
    - cbn [negs]. rewrite eval_or_cons, eval_and_cons, eval_cond_not.
      destruct (eval_cond acc narrow posof rho c) as [[l|] [r|]]; try reflexivity; apply IH.
  Qed.

  Lemma sem_any_negs : forall sg cs, sem_any acc posof sg cs = negb (sem_all acc posof sg (negs cs)).
  Proof.
    intros sg. induction cs as [|c cs IH].
    - reflexivity.
    - cbn [negs]. change (sem_any acc posof sg (CCons c cs)) with (sem_cond acc posof sg c || sem_any acc posof sg cs).
      change (sem_all acc posof sg (CCons (CNot c) (negs cs)))
        with (negb (sem_cond acc posof sg c) && sem_all acc posof sg (negs cs)).
      rewrite IH. destruct (sem_cond acc posof sg c), (sem_all acc posof sg (negs cs)); reflexivity.
  Qed.

  Lemma cret_sets_swap : forall rho0 res T F, cret_sets rho0 res T F -> cret_sets rho0 (swap res) F T.
  Proof.
    intros rho0 [[l|] [r|]] T F H; unfold swap; simpl in *; auto.
    destruct H as [N1 [N2 [G1 [G2 [K1 [K2 [X1 X2]]]]]]]. repeat split; auto; try apply X1; try apply X2.
  Qed.

  Lemma cond_ok_not : forall c, cond_ok c -> cond_ok (CNot c).
  Proof.
    intros c H rho Ho Hne. rewrite eval_cond_not. specialize (H rho Ho Hne).
    apply cret_sets_swap in H. unfold swap in H.
    destruct (eval_cond acc narrow posof rho c) as [l r]. cbn [fst snd] in H.
    eapply cret_sets_ext; [| |exact H].
    - intros z. rewrite !filter_In. reflexivity.
    - intros z. rewrite !filter_In. unfold Pc. change (sem_cond acc posof (sig_m z) (CNot c)) with (negb (sem_cond acc posof (sig_m z) c)).
      rewrite negb_involutive. reflexivity.
  Qed.

  Lemma all_ok_negs : forall cs, all_ok cs -> all_ok (negs cs).
  Proof.
    induction cs as [|c cs IH]; intros H c' Hc'; simpl in Hc'; [contradiction|].
    destruct Hc' as [->|Hc'].
    - apply cond_ok_not. apply H. now left.
    - apply IH; auto. intros c'' Hc''. apply H. now right.
  Qed.

  Lemma cond_ok_const : forall c (b : bool),
    (forall rho, eval_cond acc narrow posof rho c = if b then ((Some [], None) : cret) else ((None, Some []) : cret)) ->
    (forall m, Pc c m = b) -> cond_ok c.
  Proof.
    intros c b He HP rho Ho Hne. rewrite He.
    assert (HX : xset ([] ++ rho) (get rho x)) by (split; [exact Ho|apply seteq_refl]).
    destruct b; unfold cret_sets.
    - split; [|split]; auto using good_nil.
      + intros z Hz. apply filter_In in Hz. destruct Hz as [_ E]. rewrite HP in E. discriminate.
      + eapply xset_ext; [|exact HX]. intros z. rewrite filter_In, HP. tauto.
    - split; [|split]; auto using good_nil.
      + intros z Hz. apply filter_In in Hz. destruct Hz as [_ E]. rewrite HP in E. discriminate.
      + eapply xset_ext; [|exact HX]. intros z. rewrite filter_In, HP. simpl. tauto.
  Qed.

  Lemma and_top : forall cs rho, all_ok cs -> others rho -> nonempty (get rho x) ->
    cret_sets rho (eval_and acc narrow posof rho cs [] [])
      (filter (Pall cs) (get rho x)) (filter (fun m => negb (Pall cs m)) (get rho x)).
  Proof.
    intros cs rho Hok Ho Hne.
    assert (Hr0 : rem_ok (@nil varmap)) by (unfold rem_ok; constructor).
    pose proof (and_sets cs Hok rho (@nil (var * list member)) (@nil varmap) rho eq_refl Ho good_nil Hne Hr0) as H.
    eapply cret_sets_ext; [apply seteq_refl| |apply H].
    - intros z. unfold Frem. simpl. rewrite app_nil_r. tauto.
    - intros Hc. congruence.
    - intros z. unfold Frem. simpl. rewrite app_nil_r. tauto.
  Qed.

  Lemma cond_all_ok : (forall c, cond_ok c) /\ (forall cs, all_ok cs).
  Proof.
    apply (cond_conds_ind cond_ok all_ok).
    - intros f v. apply (cond_ok_const _ (kind_match f (posof v))); intros; reflexivity.
    - intros v T ex rho Ho Hne. apply is_of_type_sets; auto.
    - intros b. apply (cond_ok_const _ b); intros; reflexivity.
    - intros c IH. now apply cond_ok_not.
    - intros cs IH rho Ho Hne. apply (and_top cs rho IH Ho Hne).
    - intros cs IH rho Ho Hne.
      change (eval_cond acc narrow posof rho (COr cs)) with (eval_or acc narrow posof rho cs [] []).
      rewrite or_as_and.
      pose proof (and_top (negs cs) rho (all_ok_negs _ IH) Ho Hne) as H.
      apply cret_sets_swap in H.
      eapply cret_sets_ext; [| |exact H].
      + intros z. rewrite !filter_In. unfold Pc, Pall.
        change (sem_cond acc posof (sig_m z) (COr cs)) with (sem_any acc posof (sig_m z) cs).
        rewrite sem_any_negs. reflexivity.
      + intros z. rewrite !filter_In. unfold Pc, Pall.
        change (sem_cond acc posof (sig_m z) (COr cs)) with (sem_any acc posof (sig_m z) cs).
        rewrite sem_any_negs, negb_involutive. reflexivity.
    - intros c Hc. contradiction.
    - intros c IHc cs IHcs c' [->|Hc']; auto.
  Qed.

End Distrib.

(* ---------- statements and blocks -------------------------------------------- *)

Lemma seteq_map : forall (A B : Type) (f : A -> B) a b, seteq a b -> seteq (map f a) (map f b).
Proof.
  intros A B f a b H z. rewrite !in_map_iff. split; intros [y [E Hy]]; exists y; split; auto; now apply H.
Qed.

Lemma seteq_flat_map : forall (A B : Type) (f : A -> list B) a b, seteq a b -> seteq (flat_map f a) (flat_map f b).
Proof.
  intros A B f a b H z. rewrite !in_flat_map. split; intros [y [Hy E]]; exists y; split; auto; now apply H.
Qed.

Lemma somes_in : forall (A : Type) (l : list (option A)) a, In a (somes l) <-> In (Some a) l.
Proof.
  intros A l a. induction l as [|[b|] l IH]; simpl; try tauto.
  - rewrite IH. split; intros [H|H]; auto; left; congruence.
  - rewrite IH. split; [auto|]. intros [H|H]; [discriminate|auto].
Qed.

Lemma forallb_is_some_false : forall (A : Type) (l : list (option A)),
  forallb is_some l = false -> In None l.
Proof.
  intros A l. induction l as [|[a|] l IH]; simpl; intros H; try discriminate; auto.
Qed.

Lemma forallb_is_some_true : forall (A : Type) (l : list (option A)) z,
  forallb is_some l = true -> In z l -> z <> None.
Proof.
  intros A l z H Hz. rewrite forallb_forall in H. specialize (H z Hz). destruct z; [discriminate|discriminate H].
Qed.

Lemma only_removals_none : forall isany rho f v,
  existsb isany (get rho v) = true -> lookup (only_removals isany rho f) v = None.
Proof.
  intros isany rho f v Ha. induction f as [|[w ms] f IH]; [reflexivity|].
  unfold only_removals in *. cbn [filter fst snd].
  destruct (w =? v) eqn:E.
  - apply Nat.eqb_eq in E. subst w. rewrite Ha. cbn [negb andb]. exact IH.
  - destruct (negb (existsb isany (get rho w)) && forallb (fun m => existsb (Nat.eqb m) (get rho w)) ms);
      simpl; rewrite ?E; exact IH.
Qed.

Lemma only_removals_lookup : forall isany rho f v,
  existsb isany (get rho v) = false ->
  (forall ms, lookup f v = Some ms -> forall m, In m ms -> In m (get rho v)) ->
  lookup (only_removals isany rho f) v = lookup f v.
Proof.
  intros isany rho f v Ha. induction f as [|[w ms] f IH]; intros H; [reflexivity|].
  unfold only_removals in *. cbn [filter fst snd].
  destruct (w =? v) eqn:E.
  - apply Nat.eqb_eq in E. subst w.
    assert (Hk : forallb (fun m => existsb (Nat.eqb m) (get rho v)) ms = true).
    { apply forallb_forall. intros m Hm. apply existsb_exists. exists m. split; [|apply Nat.eqb_refl].
      apply (H ms); auto. simpl. now rewrite Nat.eqb_refl. }
    rewrite Ha, Hk. simpl. now rewrite Nat.eqb_refl.
  - assert (Ht : lookup (filter (fun b => negb (existsb isany (get rho (fst b)))
                                          && forallb (fun m => existsb (Nat.eqb m) (get rho (fst b))) (snd b)) f) v = lookup f v).
    { apply IH. intros ms' Hl. apply H. simpl. now rewrite E. }
    destruct (negb (existsb isany (get rho w)) && forallb (fun m => existsb (Nat.eqb m) (get rho w)) ms);
      simpl; rewrite ?E; exact Ht.
Qed.

Section Blocks.
  Variable acc : typ -> member -> bool -> bool.
  Variable narrow : typ -> member -> list member.
  Variable posof : var -> posn.
  Variable isany : member -> bool.
  Hypothesis H1 : forall T m ex, acc T m ex = true -> narrow T m = [m].
  Variable x : var.
  Variable sigma : var -> member.

  Notation sg := (sig_m x sigma).
  Notation oth := (others x sigma).
  Notation gd := (good x sigma).
  Notation xs := (xset x sigma).

  Definition noany (S : list member) : Prop := forall m, In m S -> isany m = false.
  Definition isnone (o : option rtype) : bool := match o with None => true | Some _ => false end.
  (* does member m fall through the statement / block (reference semantics) *)
  Definition NRs (s : stmt) (m : member) : bool := isnone (fst (sem_stmt acc posof (sg m) s)).
  Definition NRb (b : block) (m : member) : bool := isnone (fst (sem_block acc posof (sg m) b)).

  (* meaning of a fall-through varmap relative to the environment it is applied to *)
  Definition ft_ok (rho0 : varmap) (S : list member) (NR : member -> bool) (ft : option varmap) : Prop :=
    match ft with
    | None => forall m, In m S -> NR m = false
    | Some f => gd f /\ xs (f ++ rho0) (filter NR S) /\ nonempty (filter NR S)
    end.

  Definition stmt_ok (s : stmt) : Prop :=
    forall rho, oth rho -> nonempty (get rho x) -> noany (get rho x) ->
      let '(res, errs, ft) := eval_stmt acc narrow posof isany rho s in
      seteq res (map (fun m => fst (sem_stmt acc posof (sg m) s)) (get rho x)) /\
      seteq errs (flat_map (fun m => snd (sem_stmt acc posof (sg m) s)) (get rho x)) /\
      ft_ok rho (get rho x) (NRs s) ft.

  Definition block_ok (b : block) : Prop :=
    forall rho0 narrowed rho possible, rho = narrowed ++ rho0 ->
      oth rho0 -> gd narrowed -> nonempty (get rho x) -> noany (get rho x) ->
      let '(res, errs, ft) := eval_block acc narrow posof isany rho b possible narrowed in
      seteq res (map Some possible ++ map (fun m => fst (sem_block acc posof (sg m) b)) (get rho x)) /\
      seteq errs (flat_map (fun m => snd (sem_block acc posof (sg m) b)) (get rho x)) /\
      ft_ok rho0 (get rho x) (NRb b) ft.

  Lemma const_sets : forall (A : Type) (a : option rtype) (e : list msg) (S : list A),
    nonempty S ->
    seteq [a] (map (fun _ => a) S) /\ seteq e (flat_map (fun _ => e) S).
  Proof.
    intros A a e S [m Hm]. split; intros z.
    - rewrite in_map_iff. split.
      + intros [<-|[]]. exists m. auto.
      + intros [y [<- _]]. now left.
    - rewrite in_flat_map. split.
      + intros Hz. exists m. auto.
      + intros [y [_ Hz]]. exact Hz.
  Qed.

  Lemma branch_sets : forall (A : Type) (P : member -> bool) (f1 f2 : member -> A) S T F (r1 r2 : list A),
    seteq T (filter P S) -> seteq F (filter (fun m => negb (P m)) S) ->
    seteq r1 (map f1 T) -> seteq r2 (map f2 F) ->
    seteq (r1 ++ r2) (map (fun m => if P m then f1 m else f2 m) S).
  Proof.
    intros A P f1 f2 S T F r1 r2 HT HF E1 E2 z. rewrite in_app_iff, (E1 z), (E2 z), !in_map_iff. split.
    - intros [[m [<- Hm]]|[m [<- Hm]]].
      + apply HT in Hm. apply filter_In in Hm. destruct Hm as [Hm E]. exists m. rewrite E. auto.
      + apply HF in Hm. apply filter_In in Hm. destruct Hm as [Hm E]. exists m.
        destruct (P m); [discriminate|auto].
    - intros [m [<- Hm]]. destruct (P m) eqn:E.
      + left. exists m. split; auto. apply HT. apply filter_In. auto.
      + right. exists m. split; auto. apply HF. apply filter_In. rewrite E. auto.
  Qed.

  Lemma branch_sets_flat : forall (A : Type) (P : member -> bool) (f1 f2 : member -> list A) S T F (r1 r2 : list A),
    seteq T (filter P S) -> seteq F (filter (fun m => negb (P m)) S) ->
    seteq r1 (flat_map f1 T) -> seteq r2 (flat_map f2 F) ->
    seteq (r1 ++ r2) (flat_map (fun m => if P m then f1 m else f2 m) S).
  Proof.
    intros A P f1 f2 S T F r1 r2 HT HF E1 E2 z. rewrite in_app_iff, (E1 z), (E2 z), !in_flat_map. split.
    - intros [[m [Hm Hz]]|[m [Hm Hz]]].
      + apply HT in Hm. apply filter_In in Hm. destruct Hm as [Hm E]. exists m. rewrite E. auto.
      + apply HF in Hm. apply filter_In in Hm. destruct Hm as [Hm E]. exists m.
        destruct (P m); [discriminate|auto].
    - intros [m [Hm Hz]]. destruct (P m) eqn:E.
      + left. exists m. split; auto. apply HT. apply filter_In. auto.
      + right. exists m. split; auto. apply HF. apply filter_In. rewrite E. auto.
  Qed.

  Lemma empty_seteq_nil : forall (A : Type) (l : list A), empty l -> seteq [] l.
  Proof. intros A l H z. split; [intros []|intros Hz; exact (H z Hz)]. Qed.

  (* the fall-through varmap of one branch, re-based on the environment of the `if` *)
  Lemma ft_join_ok : forall rho l T NR ft,
    gd l -> xs (l ++ rho) T -> (forall z, In z (get (l ++ rho) x) <-> In z T) ->
    ft_ok (l ++ rho) (get (l ++ rho) x) NR ft ->
    match ft_join l ft with
    | None => forall m, In m T -> NR m = false
    | Some u => gd u /\ xs (u ++ rho) (filter NR T) /\ nonempty (filter NR T) /\ (has_key l x = true -> has_key u x = true)
    end.
  Proof.
    intros rho l T NR ft Gl Xl HT Hft. destruct ft as [f|]; simpl in *.
    - destruct Hft as [Gf [Xf Nf]]. split; [now apply good_app|]. split; [|split].
      + rewrite <- app_assoc. eapply xset_ext; [|exact Xf]. intros z. rewrite !filter_In, (HT z). tauto.
      + destruct Nf as [z Hz]. exists z. apply filter_In in Hz. apply filter_In. rewrite <- (HT z). exact Hz.
      + intros K. rewrite has_key_app, K. apply orb_true_r.
    - intros m Hm. apply Hft. now apply HT.
  Qed.

  Lemma NRs_if : forall c b1 b2 m,
    NRs (SIf c b1 b2) m = if Pc acc posof x sigma c m then NRb b1 m else NRb b2 m.
  Proof.
    intros. unfold NRs, NRb, Pc. rewrite sem_stmt_if. destruct (sem_cond acc posof (sg m) c); reflexivity.
  Qed.

  Lemma sem_block_cons_fst : forall s b m,
    fst (sem_block acc posof (sg m) (BCons s b)) =
    match fst (sem_stmt acc posof (sg m) s) with Some r => Some r | None => fst (sem_block acc posof (sg m) b) end.
  Proof.
    intros. rewrite sem_block_cons. destruct (sem_stmt acc posof (sg m) s) as [[r|] e]; cbn [fst]; auto.
    destruct (sem_block acc posof (sg m) b); reflexivity.
  Qed.

  Lemma sem_block_cons_snd : forall s b m,
    snd (sem_block acc posof (sg m) (BCons s b)) =
    match fst (sem_stmt acc posof (sg m) s) with
    | Some _ => snd (sem_stmt acc posof (sg m) s)
    | None => snd (sem_stmt acc posof (sg m) s) ++ snd (sem_block acc posof (sg m) b)
    end.
  Proof.
    intros. rewrite sem_block_cons. destruct (sem_stmt acc posof (sg m) s) as [[r|] e]; cbn [fst snd]; auto.
    destruct (sem_block acc posof (sg m) b); reflexivity.
  Qed.

  Lemma blocks_all : (forall s, stmt_ok s) /\ (forall b, block_ok b).
  Proof.
    apply (stmt_block_ind stmt_ok block_ok); unfold stmt_ok, block_ok.
    - (* SPass *) intros rho Ho Hne Hna. cbn [eval_stmt]. destruct (const_sets _ None [] _ Hne) as [A B].
      split; [exact A|split; [exact B|]]. unfold ft_ok. split; [apply good_nil|split].
      + split; [exact Ho|]. intros z. rewrite filter_In. unfold NRs. simpl. tauto.
      + destruct Hne as [z Hz]. exists z. apply filter_In. split; auto.
    - (* SReturn *) intros r rho Ho Hne Hna. cbn [eval_stmt]. destruct (const_sets _ (Some r) [] _ Hne) as [A B].
      split; [exact A|split; [exact B|]]. intros m Hm. reflexivity.
    - (* SError *) intros m rho Ho Hne Hna. cbn [eval_stmt]. destruct (const_sets _ None [m] _ Hne) as [A B].
      split; [exact A|split; [exact B|]]. unfold ft_ok. split; [apply good_nil|split].
      + split; [exact Ho|]. intros z. rewrite filter_In. unfold NRs. simpl. tauto.
      + destruct Hne as [z Hz]. exists z. apply filter_In. split; auto.
    - (* SIf *)
      intros c b1 IH1 b2 IH2 rho Ho Hne Hna.
      set (S := get rho x) in *. set (P := Pc acc posof x sigma c).
      pose proof (proj1 (cond_all_ok acc narrow posof H1 x sigma) c rho Ho Hne) as Hc. fold S in Hc. fold P in Hc.
      assert (Hsem1 : map (fun m => fst (sem_stmt acc posof (sg m) (SIf c b1 b2))) S =
                      map (fun m => if P m then fst (sem_block acc posof (sg m) b1) else fst (sem_block acc posof (sg m) b2)) S).
      { apply map_ext. intros m. rewrite sem_stmt_if. unfold P, Pc. destruct (sem_cond acc posof (sg m) c); reflexivity. }
      assert (Hsem2 : flat_map (fun m => snd (sem_stmt acc posof (sg m) (SIf c b1 b2))) S =
                      flat_map (fun m => if P m then snd (sem_block acc posof (sg m) b1) else snd (sem_block acc posof (sg m) b2)) S).
      { apply flat_map_ext. intros m. rewrite sem_stmt_if. unfold P, Pc. destruct (sem_cond acc posof (sg m) c); reflexivity. }
      rewrite Hsem1, Hsem2. rewrite eval_stmt_if.
      destruct (eval_cond acc narrow posof rho c) as [[l|] [r|]]; unfold cret_sets in Hc.
      + (* both branches *)
        destruct Hc as [NT [NF [Gl [Gr [Kl [Kr [[Ol Sl] [Or Sr]]]]]]]].
        assert (Nl : nonempty (get (l ++ rho) x)) by (destruct NT as [z Hz]; exists z; now apply Sl).
        assert (Nr : nonempty (get (r ++ rho) x)) by (destruct NF as [z Hz]; exists z; now apply Sr).
        assert (Al : noany (get (l ++ rho) x)) by (intros m Hm; apply Sl in Hm; apply filter_In in Hm; apply Hna; tauto).
        assert (Ar : noany (get (r ++ rho) x)) by (intros m Hm; apply Sr in Hm; apply filter_In in Hm; apply Hna; tauto).
        pose proof (IH1 (l ++ rho) [] (l ++ rho) [] eq_refl Ol (good_nil x sigma) Nl Al) as I1.
        pose proof (IH2 (r ++ rho) [] (r ++ rho) [] eq_refl Or (good_nil x sigma) Nr Ar) as I2.
        destruct (eval_block acc narrow posof isany (l ++ rho) b1 [] []) as [[r1 e1] f1].
        destruct (eval_block acc narrow posof isany (r ++ rho) b2 [] []) as [[r2 e2] f2].
        destruct I1 as [A1 [B1 F1]]. destruct I2 as [A2 [B2 F2]]. cbn [map app] in A1, A2.
        pose proof (ft_join_ok rho l (filter P S) (NRb b1) f1 Gl (conj Ol Sl) Sl F1) as J1.
        pose proof (ft_join_ok rho r (filter (fun m => negb (P m)) S) (NRb b2) f2 Gr (conj Or Sr) Sr F2) as J2.
        split; [eapply branch_sets; eauto|]. split; [eapply branch_sets_flat; eauto|].
        destruct (ft_join l f1) as [u|]; destruct (ft_join r f2) as [v|]; cbn [ft_unite].
        * destruct J1 as [Gu [Xu [Nu Ku]]]. destruct J2 as [Gv [Xv [Nv Kv]]].
          specialize (Ku Kl). specialize (Kv Kr).
          destruct (unite_some u [v]) as [U HU]. rewrite HU.
          assert (HgU : gd U).
          { eapply good_unite; [|exact HU]. repeat constructor; auto. }
          destruct (unite_bound x u [v] U HU) as [KU GU].
          { simpl. now rewrite Ku, Kv. }
          pose proof (xset_get_bound _ _ _ _ _ Xu Ku) as Hu. pose proof (xset_get_bound _ _ _ _ _ Xv Kv) as Hv.
          unfold ft_ok. split; [exact HgU|]. split.
          -- apply xset_app_bound; auto. rewrite GU. intros z. rewrite (nodupn_seteq _ z). simpl. rewrite app_nil_r.
             rewrite in_app_iff, (Hu z), (Hv z), !filter_In, NRs_if. fold P.
             destruct (P z); simpl; intuition discriminate.
          -- destruct Nu as [z Hz]. exists z. apply filter_In in Hz. destruct Hz as [Hz E].
             apply filter_In in Hz. destruct Hz as [Hz EP]. apply filter_In. split; auto.
             rewrite NRs_if. fold P. now rewrite EP.
        * destruct J1 as [Gu [Xu [Nu _]]]. unfold ft_ok. split; [exact Gu|]. split.
          -- eapply xset_ext; [|exact Xu]. intros z. rewrite !filter_In, NRs_if. fold P. split.
             ++ intros [[Hz EP] E]. rewrite EP. auto.
             ++ intros [Hz E]. destruct (P z) eqn:EP; auto.
                exfalso. assert (In z (filter (fun m => negb (P m)) S)) by (apply filter_In; rewrite EP; auto).
                rewrite (J2 z H) in E. discriminate.
          -- destruct Nu as [z Hz]. exists z. apply filter_In in Hz. destruct Hz as [Hz E].
             apply filter_In in Hz. destruct Hz as [Hz EP]. apply filter_In. split; auto.
             rewrite NRs_if. fold P. now rewrite EP.
        * destruct J2 as [Gv [Xv [Nv _]]]. unfold ft_ok. split; [exact Gv|]. split.
          -- eapply xset_ext; [|exact Xv]. intros z. rewrite !filter_In, NRs_if. fold P. split.
             ++ intros [[Hz EP] E]. apply negb_true_iff in EP. rewrite EP. auto.
             ++ intros [Hz E]. destruct (P z) eqn:EP; auto.
                exfalso. assert (In z (filter P S)) by (apply filter_In; auto).
                rewrite (J1 z H) in E. discriminate.
          -- destruct Nv as [z Hz]. exists z. apply filter_In in Hz. destruct Hz as [Hz E].
             apply filter_In in Hz. destruct Hz as [Hz EP]. apply negb_true_iff in EP. apply filter_In. split; auto.
             rewrite NRs_if. fold P. now rewrite EP.
        * unfold ft_ok. intros m Hm. rewrite NRs_if. fold P. destruct (P m) eqn:EP.
          -- apply J1. apply filter_In. auto.
          -- apply J2. apply filter_In. rewrite EP. auto.
      + (* only the body *)
        destruct Hc as [EF [Gl [Ol Sl]]].
        assert (Hall : forall z, In z S -> P z = true).
        { intros z Hz. destruct (P z) eqn:E; auto. exfalso. apply (EF z). apply filter_In. rewrite E. auto. }
        assert (Nl : nonempty (get (l ++ rho) x)).
        { destruct Hne as [z Hz]. exists z. apply Sl. apply filter_In. split; auto. }
        assert (Al : noany (get (l ++ rho) x)) by (intros m Hm; apply Sl in Hm; apply filter_In in Hm; apply Hna; tauto).
        pose proof (IH1 (l ++ rho) [] (l ++ rho) [] eq_refl Ol (good_nil x sigma) Nl Al) as I1.
        destruct (eval_block acc narrow posof isany (l ++ rho) b1 [] []) as [[r1 e1] f1].
        destruct I1 as [A1 [B1 F1]]. cbn [map app] in A1.
        pose proof (ft_join_ok rho l (filter P S) (NRb b1) f1 Gl (conj Ol Sl) Sl F1) as J1.
        split; [|split].
        * rewrite <- (app_nil_r r1). eapply (branch_sets _ P _ _ S _ []); eauto.
          -- now apply empty_seteq_nil.
          -- apply seteq_refl.
        * rewrite <- (app_nil_r e1). eapply (branch_sets_flat _ P _ _ S _ []); eauto.
          -- now apply empty_seteq_nil.
          -- apply seteq_refl.
        * destruct (ft_join l f1) as [u|]; unfold ft_ok.
          -- destruct J1 as [Gu [Xu [Nu _]]]. split; [exact Gu|]. split.
             ++ eapply xset_ext; [|exact Xu]. intros z. rewrite !filter_In, NRs_if. fold P. split.
                ** intros [[Hz EP] E]. rewrite EP. auto.
                ** intros [Hz E]. rewrite (Hall z Hz) in E. auto.
             ++ destruct Nu as [z Hz]. exists z. apply filter_In in Hz. destruct Hz as [Hz E].
                apply filter_In in Hz. destruct Hz as [Hz EP]. apply filter_In. split; auto.
                rewrite NRs_if. fold P. now rewrite EP.
          -- intros m Hm. rewrite NRs_if. fold P. rewrite (Hall m Hm). apply J1. apply filter_In. auto.
      + (* only the else branch *)
        destruct Hc as [ET [Gr [Or Sr]]].
        assert (Hnone : forall z, In z S -> P z = false).
        { intros z Hz. destruct (P z) eqn:E; auto. exfalso. apply (ET z). apply filter_In. auto. }
        assert (Nr : nonempty (get (r ++ rho) x)).
        { destruct Hne as [z Hz]. exists z. apply Sr. apply filter_In. split; auto. now rewrite (Hnone z Hz). }
        assert (Ar : noany (get (r ++ rho) x)) by (intros m Hm; apply Sr in Hm; apply filter_In in Hm; apply Hna; tauto).
        pose proof (IH2 (r ++ rho) [] (r ++ rho) [] eq_refl Or (good_nil x sigma) Nr Ar) as I2.
        destruct (eval_block acc narrow posof isany (r ++ rho) b2 [] []) as [[r2 e2] f2].
        destruct I2 as [A2 [B2 F2]]. cbn [map app] in A2.
        pose proof (ft_join_ok rho r (filter (fun m => negb (P m)) S) (NRb b2) f2 Gr (conj Or Sr) Sr F2) as J2.
        split; [|split].
        * change r2 with ([] ++ r2). eapply (branch_sets _ P _ _ S []); eauto.
          -- now apply empty_seteq_nil.
          -- apply seteq_refl.
        * change e2 with ([] ++ e2). eapply (branch_sets_flat _ P _ _ S []); eauto.
          -- now apply empty_seteq_nil.
          -- apply seteq_refl.
        * destruct (ft_join r f2) as [v|]; unfold ft_ok.
          -- destruct J2 as [Gv [Xv [Nv _]]]. split; [exact Gv|]. split.
             ++ eapply xset_ext; [|exact Xv]. intros z. rewrite !filter_In, NRs_if. fold P. split.
                ** intros [[Hz EP] E]. apply negb_true_iff in EP. rewrite EP. auto.
                ** intros [Hz E]. rewrite (Hnone z Hz) in *. auto.
             ++ destruct Nv as [z Hz]. exists z. apply filter_In in Hz. destruct Hz as [Hz E].
                apply filter_In in Hz. destruct Hz as [Hz EP]. apply negb_true_iff in EP. apply filter_In. split; auto.
                rewrite NRs_if. fold P. now rewrite EP.
          -- intros m Hm. rewrite NRs_if. fold P. rewrite (Hnone m Hm). apply J2. apply filter_In. rewrite (Hnone m Hm). auto.
      + contradiction.
    - (* BNil *)
      intros rho0 narrowed rho possible Erho Ho Hgn Hne Hna. cbn [eval_block].
      destruct (const_sets _ None [] _ Hne) as [A B]. split; [|split].
      + intros z. rewrite !in_app_iff. rewrite <- (A z). tauto.
      + exact B.
      + unfold ft_ok. split; [exact Hgn|]. split.
        * rewrite <- Erho. split; [rewrite Erho; now apply others_app|].
          intros z. rewrite filter_In. unfold NRb. simpl. tauto.
        * destruct Hne as [z Hz]. exists z. apply filter_In. split; auto.
    - (* BCons *)
      intros s IHs b IHb rho0 narrowed rho possible Erho Ho Hgn Hne Hna.
      assert (Horho : oth rho) by (rewrite Erho; now apply others_app).
      set (S := get rho x) in *.
      rewrite eval_block_cons. specialize (IHs rho Horho Hne Hna). fold S in IHs.
      destruct (eval_stmt acc narrow posof isany rho s) as [[res e] ft]. destruct IHs as [As [Bs Fs]].
      rewrite (map_ext _ _ (sem_block_cons_fst s b)), (flat_map_ext _ _ (sem_block_cons_snd s b)).
      destruct (forallb is_some res) eqn:Fall.
      + (* every member returns in s *)
        assert (Hret : forall m, In m S -> exists r, fst (sem_stmt acc posof (sg m) s) = Some r).
        { intros m Hm. destruct (fst (sem_stmt acc posof (sg m) s)) as [r|] eqn:E; eauto.
          exfalso. assert (Hin : In (@None rtype) res) by (apply As; apply in_map_iff; exists m; auto).
          exact (forallb_is_some_true _ _ _ Fall Hin eq_refl). }
        split; [|split].
        * intros z. rewrite !in_app_iff, (As z), !in_map_iff. split.
          -- intros [H|[m [E Hm]]]; auto. right. exists m. split; auto. destruct (Hret m Hm) as [r Er]. rewrite Er in *. auto.
          -- intros [H|[m [E Hm]]]; auto. right. exists m. split; auto. destruct (Hret m Hm) as [r Er]. rewrite Er in *. auto.
        * intros z. rewrite (Bs z), !in_flat_map. split; intros [m [Hm E]]; exists m; split; auto;
            destruct (Hret m Hm) as [r Er]; rewrite Er in *; auto.
        * unfold ft_ok. intros m Hm. unfold NRb. rewrite sem_block_cons_fst. destruct (Hret m Hm) as [r Er]. now rewrite Er.
      + (* some member falls through s *)
        assert (Hnone : exists m0, In m0 S /\ NRs s m0 = true).
        { pose proof (forallb_is_some_false _ _ Fall) as Hin. apply As in Hin. apply in_map_iff in Hin.
          destruct Hin as [m0 [E Hm0]]. exists m0. split; auto. unfold NRs. now rewrite E. }
        destruct ft as [f|]; [|exfalso; destruct Hnone as [m0 [Hm0 E]]; rewrite (Fs m0 Hm0) in E; discriminate].
        destruct Fs as [Gf [Xf Nf]]. cbv beta iota zeta.
        set (f' := if is_nil (somes res) then [] else only_removals isany rho f).
        assert (HnaS : existsb isany S = false).
        { destruct (existsb isany S) eqn:Ee; auto. apply existsb_exists in Ee. destruct Ee as [m [Hm Em]].
          rewrite (Hna m Hm) in Em. discriminate. }
        assert (Hsub : forall v ms, lookup f v = Some ms -> forall m, In m ms -> In m (get rho v)).
        { intros v ms Hl m Hm. destruct (Nat.eq_dec v x) as [->|Hv].
          - assert (K : has_key f x = true) by (unfold has_key; now rewrite Hl).
            pose proof (xset_get_bound _ _ _ _ _ Xf K) as Hg. unfold get in Hg. rewrite Hl in Hg.
            apply Hg in Hm. apply filter_In in Hm. apply Hm.
          - rewrite (Gf v ms Hv Hl) in Hm. rewrite (Horho v Hv). exact Hm. }
        assert (Hlk : forall v, lookup (only_removals isany rho f) v =
                                if existsb isany (get rho v) then None else lookup f v).
        { intros v. destruct (existsb isany (get rho v)) eqn:Ea.
          - now apply only_removals_none.
          - apply only_removals_lookup; auto. intros ms Hl. now apply Hsub. }
        assert (Hf' : gd f' /\ xs (f' ++ rho) (filter (NRs s) S)).
        { unfold f'. destruct (somes res) as [|a0 l0] eqn:Es; cbn [is_nil].
          - split; [apply good_nil|]. split; [exact Horho|].
            intros z. change (get ([] ++ rho) x) with S. rewrite filter_In. split; [|tauto]. intros Hz. split; auto.
            unfold NRs. destruct (fst (sem_stmt acc posof (sg z) s)) as [r0|] eqn:Er; auto. exfalso.
            assert (Hin : In (Some r0) res) by (apply As; apply in_map_iff; exists z; auto).
            apply somes_in in Hin. rewrite Es in Hin. contradiction.
          - destruct Xf as [Of Sf]. split; [|split].
            + intros v ms Hv Hl. rewrite Hlk in Hl. destruct (existsb isany (get rho v)); [discriminate|]. eapply Gf; eauto.
            + intros v Hv. rewrite get_app, Hlk. destruct (existsb isany (get rho v)).
              * apply Horho; auto.
              * destruct (lookup f v) as [ms|] eqn:El; [rewrite (Gf v ms Hv El); reflexivity|apply Horho; auto].
            + rewrite get_app, Hlk. fold S. rewrite HnaS. rewrite get_app in Sf. exact Sf. }
        destruct Hf' as [Gf' Xf'].
        assert (HS' : seteq (get (f' ++ rho) x) (filter (NRs s) S)) by (apply Xf').
        assert (Nf' : nonempty (get (f' ++ rho) x)) by (destruct Nf as [z Hz]; exists z; now apply HS').
        assert (E' : f' ++ rho = (f' ++ narrowed) ++ rho0) by (rewrite Erho; apply app_assoc).
        assert (Af' : noany (get (f' ++ rho) x)) by (intros m Hm; apply HS' in Hm; apply filter_In in Hm; apply Hna; tauto).
        specialize (IHb rho0 (f' ++ narrowed) (f' ++ rho) (possible ++ somes res) E' Ho (good_app _ _ _ _ Gf' Hgn) Nf' Af').
        destruct (eval_block acc narrow posof isany (f' ++ rho) b (possible ++ somes res) (f' ++ narrowed)) as [[res' e'] ft'].
        destruct IHb as [Ab [Bb Fb]].
        assert (HinS' : forall m, In m (get (f' ++ rho) x) <-> In m S /\ fst (sem_stmt acc posof (sg m) s) = None).
        { intros m. rewrite (HS' m), filter_In. unfold NRs. destruct (fst (sem_stmt acc posof (sg m) s)); simpl; intuition discriminate. }
        split; [|split].
        * intros z. rewrite (Ab z), map_app, !in_app_iff, !in_map_iff. split.
          -- intros [[H|[a [<- Ha]]]|[m [E Hm]]]; auto.
             ++ apply somes_in in Ha. apply As in Ha. apply in_map_iff in Ha. destruct Ha as [m [E Hm]].
                right. exists m. split; auto. now rewrite E.
             ++ apply HinS' in Hm. destruct Hm as [Hm En]. right. exists m. split; auto. now rewrite En.
          -- intros [H|[m [E Hm]]]; auto.
             destruct (fst (sem_stmt acc posof (sg m) s)) as [r|] eqn:Er.
             ++ left. right. exists r. split; auto. apply somes_in. apply As. apply in_map_iff. exists m. auto.
             ++ right. exists m. split; auto. apply HinS'. auto.
        * intros z. rewrite in_app_iff, (Bs z), (Bb z), !in_flat_map. split.
          -- intros [[m [Hm E]]|[m [Hm E]]].
             ++ exists m. split; auto. destruct (fst (sem_stmt acc posof (sg m) s)); auto. apply in_or_app. now left.
             ++ apply HinS' in Hm. destruct Hm as [Hm En]. exists m. split; auto. rewrite En. apply in_or_app. now right.
          -- intros [m [Hm E]]. destruct (fst (sem_stmt acc posof (sg m) s)) as [r|] eqn:Er.
             ++ left. exists m. auto.
             ++ apply in_app_or in E. destruct E as [E|E]; [left; exists m; auto|].
                right. exists m. split; auto. apply HinS'. auto.
        * assert (HNR : forall m, NRb (BCons s b) m = NRs s m && NRb b m).
          { intros m. unfold NRb, NRs. rewrite sem_block_cons_fst. destruct (fst (sem_stmt acc posof (sg m) s)); reflexivity. }
          destruct ft' as [g'|]; unfold ft_ok in *.
          -- destruct Fb as [Gg [Xg Nf'']]. split; [exact Gg|]. split.
             ++ eapply xset_ext; [|exact Xg]. intros z. rewrite !filter_In, (HS' z), filter_In, HNR, andb_true_iff. tauto.
             ++ destruct Nf'' as [z Hz]. exists z. apply filter_In in Hz. destruct Hz as [Hz E].
                apply HS' in Hz. apply filter_In in Hz. destruct Hz as [Hz E1]. apply filter_In. split; auto.
                rewrite HNR, E1, E. reflexivity.
          -- intros m Hm. rewrite HNR. destruct (NRs s m) eqn:E1; auto. simpl. apply Fb. apply HS'. apply filter_In. auto.
  Qed.
End Blocks.

(* the theorem: types and show_error sites of the union call = union over the
   members, for every body *)
Theorem union_distributes : union_distributes_full_statement.
Proof.
  intros acc narrow posof isany H1 rho x ms body dflt Hne Hnoany Hoth.
  set (sigma := fun v => hd 0 (get rho v)).
  assert (Hs : forall v, v <> x -> get rho v = [sigma v]).
  { intros v Hv. destruct (Hoth v Hv) as [m Hm]. unfold sigma. rewrite Hm. reflexivity. }
  set (sg := sig_m x sigma).
  assert (Hmember : forall m, evaluate acc narrow posof isany ((x, [m]) :: rho) body dflt =
                               sem_evaluate acc posof (sg m) body dflt).
  { intros m. apply (evaluate_single acc narrow posof isany H1 (sg m)).
    intros v. unfold get. simpl. destruct (x =? v) eqn:E.
    - apply Nat.eqb_eq in E. subst v. unfold sg, sig_m. now rewrite Nat.eqb_refl.
    - apply Nat.eqb_neq in E. assert (Hv : v <> x) by congruence. unfold sg, sig_m.
      apply Nat.eqb_neq in Hv. rewrite Hv. apply Nat.eqb_neq in Hv. apply (Hs v Hv). }
  assert (Ho : others x sigma ((x, ms) :: rho)).
  { intros v Hv. unfold get. simpl. destruct (x =? v) eqn:E.
    - apply Nat.eqb_eq in E. congruence.
    - apply (Hs v Hv). }
  assert (Hg : get ((x, ms) :: rho) x = ms) by (unfold get; simpl; now rewrite Nat.eqb_refl).
  assert (Hn : nonempty (get ((x, ms) :: rho) x)).
  { rewrite Hg. destruct ms as [|m ms']; [congruence|]. exists m. now left. }
  assert (Hna : forall m, In m (get ((x, ms) :: rho) x) -> isany m = false) by (rewrite Hg; exact Hnoany).
  pose proof (proj2 (blocks_all acc narrow posof isany H1 x sigma) body ((x, ms) :: rho) [] ((x, ms) :: rho) []
                eq_refl Ho (good_nil x sigma) Hn Hna) as HB.
  unfold evaluate at 1 3.
  destruct (eval_block acc narrow posof isany ((x, ms) :: rho) body [] []) as [[res errs] ft].
  destruct HB as [A [B _]]. rewrite Hg in A, B. cbn [map app] in A. cbn [fst snd]. split.
  - intros z. rewrite (nodupn_seteq _ z), in_map_iff, in_flat_map. split.
    + intros [o [<- Ho']]. apply A in Ho'. apply in_map_iff in Ho'. destruct Ho' as [m [<- Hm]].
      exists m. split; auto. rewrite Hmember. unfold sem_evaluate. fold sg.
      destruct (sem_block acc posof (sg m) body) as [r e]. now left.
    + intros [m [Hm Hz]]. rewrite Hmember in Hz. unfold sem_evaluate in Hz.
      destruct (sem_block acc posof (sg m) body) as [r e] eqn:E. cbn [fst] in Hz. destruct Hz as [<-|[]].
      exists r. split; auto. apply A. apply in_map_iff. exists m. fold sg. rewrite E. auto.
  - intros z. rewrite (nodupn_seteq _ z), (B z), !in_flat_map. split.
    + intros [m [Hm Hz]]. exists m. split; auto. rewrite Hmember. unfold sem_evaluate. fold sg in Hz.
      destruct (sem_block acc posof (sg m) body) as [r e]. cbn [snd] in *. apply (proj2 (nodupn_seteq _ _)). exact Hz.
    + intros [m [Hm Hz]]. exists m. split; auto. rewrite Hmember in Hz. unfold sem_evaluate in Hz. fold sg.
      destruct (sem_block acc posof (sg m) body) as [r e]. cbn [snd] in *. apply (proj1 (nodupn_seteq _ _)) in Hz. exact Hz.
Qed.

Lemma condition_splits_union :
  forall (acc : typ -> member -> bool -> bool) (narrow : typ -> member -> list member) (posof : var -> posn),
  (forall T m ex, acc T m ex = true -> narrow T m = [m]) ->
  forall (x : var) (sigma : var -> member) c rho,
  others x sigma rho -> nonempty (get rho x) ->
  cret_sets x sigma rho (eval_cond acc narrow posof rho c)
    (filter (fun m => sem_cond acc posof (sig_m x sigma m) c) (get rho x))
    (filter (fun m => negb (sem_cond acc posof (sig_m x sigma m) c)) (get rho x)).
Proof. intros acc narrow posof H1 x sigma. exact (proj1 (cond_all_ok acc narrow posof H1 x sigma)). Qed.
