(* Proofs/TypeEvalPins.v — obligations over the GENERATED file Gen/TypeEvalGen.v:
   (1) the argument-kind predicates translated from ConditionEvaluator.visit_Call are the model's kind_match;
   (2) the regions of type_evaluation.py (and the evaluator hand-off in signature.py) that Eval/TypeEval.v
       mirrors still have the text the model was written for (digest of the normalised AST; see
       harness/translate/regions.py).  When (2) fails, re-read the region, update the model / proofs if
       its behaviour changed, and only then update the digest here. *)
From Coq Require Import List Bool Arith String.
Import ListNotations.
Require Import PV.Eval.TypeEval.
Require Import PV.Gen.TypeEvalGen.

Lemma gen_kind_match_is_model : forall f p, gen_kind_match f p = kind_match f p.
Proof. intros [] []; reflexivity. Qed.

(* ConditionEvaluator.visit_BoolOp is no longer pinned: it is translated.
   gen_and_step / gen_or_step (the per-operand if-chain: early exit through
   _unite_with_remaining, or narrowed_varmap.update + context narrowing +
   remaining_varmaps.append) and gen_and_end / gen_or_end (the result after the
   loop) are regenerated from the source; the loops assembled from them are the
   model's eval_and / eval_or, the functions C20_condition_splits_union is
   proved about. *)
Require Import PV.Proofs.TypeEvalSingle.

Section BoolOp.
  Variable acc : typ -> member -> bool -> bool.
  Variable narrow : typ -> member -> list member.
  Variable posof : var -> posn.

  Fixpoint gen_and (rho : varmap) (cs : conds) (narrowed : varmap) (remaining : list varmap) : cret :=
    match cs with
    | CNil => gen_and_end narrowed remaining
    | CCons c cs' =>
        match gen_and_step narrowed remaining (eval_cond acc narrow posof rho c) with
        | BContinue v n r => gen_and (v ++ rho) cs' n r
        | BReturn r => r
        end
    end.

  Fixpoint gen_or (rho : varmap) (cs : conds) (narrowed : varmap) (remaining : list varmap) : cret :=
    match cs with
    | CNil => gen_or_end narrowed remaining
    | CCons c cs' =>
        match gen_or_step narrowed remaining (eval_cond acc narrow posof rho c) with
        | BContinue v n r => gen_or (v ++ rho) cs' n r
        | BReturn r => r
        end
    end.

  Lemma gen_and_is_model : forall cs rho narrowed remaining,
    gen_and rho cs narrowed remaining = eval_and acc narrow posof rho cs narrowed remaining.
  Proof.
    induction cs as [|c cs IH]; intros rho narrowed remaining; [reflexivity|].
    cbn [gen_and]. rewrite eval_and_cons. unfold gen_and_step.
    destruct (eval_cond acc narrow posof rho c) as [[l|] [r|]]; cbn [fst snd is_none the]; try apply IH; reflexivity.
  Qed.

  (* a condition result always has at least one side *)
  Definition some_side (r : cret) : Prop := r <> (None, None).

  Lemma uwr_some : forall remaining v, exists u, unite_with_remaining remaining (Some v) = Some u.
  Proof.
    intros [|r1 rest] v; simpl; eauto.
  Qed.

  Lemma some_side_all :
    (forall c rho, some_side (eval_cond acc narrow posof rho c)) /\
    (forall cs rho narrowed remaining,
        some_side (eval_and acc narrow posof rho cs narrowed remaining) /\
        some_side (eval_or acc narrow posof rho cs narrowed remaining)).
  Proof.
    apply (cond_conds_ind
             (fun c => forall rho, some_side (eval_cond acc narrow posof rho c))
             (fun cs => forall rho narrowed remaining,
                  some_side (eval_and acc narrow posof rho cs narrowed remaining) /\
                  some_side (eval_or acc narrow posof rho cs narrowed remaining))); unfold some_side.
    - intros f v rho. cbn. destruct (kind_match f (posof v)); discriminate.
    - intros v T ex rho. cbn. unfold is_of_type.
      destruct (forallb _ _); [discriminate|]. destruct (existsb _ _); discriminate.
    - intros b rho. cbn. destruct b; discriminate.
    - intros c IH rho. rewrite eval_cond_not. specialize (IH rho).
      destruct (eval_cond acc narrow posof rho c) as [[l|] [r|]]; try discriminate. congruence.
    - intros cs IH rho. apply (IH rho [] []).
    - intros cs IH rho. apply (IH rho [] []).
    - intros rho narrowed remaining. split; cbn; discriminate.
    - intros c IHc cs IHcs rho narrowed remaining. rewrite eval_and_cons, eval_or_cons. specialize (IHc rho).
      destruct (eval_cond acc narrow posof rho c) as [[l|] [r|]]; try (exfalso; apply IHc; reflexivity); split;
        try apply IHcs.
      + destruct (uwr_some remaining l) as [u E]. rewrite E. discriminate.
      + destruct (uwr_some remaining r) as [u E]. rewrite E. discriminate.
  Qed.

  Lemma gen_or_is_model : forall cs rho narrowed remaining,
    gen_or rho cs narrowed remaining = eval_or acc narrow posof rho cs narrowed remaining.
  Proof.
    induction cs as [|c cs IH]; intros rho narrowed remaining; [reflexivity|].
    cbn [gen_or]. rewrite eval_or_cons. unfold gen_or_step.
    pose proof (proj1 some_side_all c rho) as Hs. unfold some_side in Hs.
    destruct (eval_cond acc narrow posof rho c) as [[l|] [r|]]; cbn [fst snd is_none the]; try apply IH; try reflexivity.
    exfalso. apply Hs. reflexivity.
  Qed.
End BoolOp.

(* pyanalyze/type_evaluation.py: ConditionEvaluator.visit_is_of_type *)
Lemma pin_visit_is_of_type_ok : pin_visit_is_of_type = "ccc9621a02e10bbc9966"%string.
Proof. reflexivity. Qed.

(* pyanalyze/type_evaluation.py: ConditionEvaluator.visit_UnaryOp *)
Lemma pin_visit_UnaryOp_ok : pin_visit_UnaryOp = "fc9a60bfb2a39ce06408"%string.
Proof. reflexivity. Qed.

(* pyanalyze/type_evaluation.py: ConditionEvaluator.visit_Compare *)
Lemma pin_visit_Compare_ok : pin_visit_Compare = "4dcd761d66404f98b6f8"%string.
Proof. reflexivity. Qed.

(* pyanalyze/type_evaluation.py: ConditionReturn.reverse *)
Lemma pin_reverse_ok : pin_reverse = "7aea7e54e3213c3cd031"%string.
Proof. reflexivity. Qed.

(* pyanalyze/type_evaluation.py: decompose_union *)
Lemma pin_decompose_union_ok : pin_decompose_union = "894f4d7fe432ffb62e7f"%string.
Proof. reflexivity. Qed.

(* pyanalyze/type_evaluation.py: can_assign_maybe_exclude_any *)
Lemma pin_can_assign_maybe_exclude_any_ok : pin_can_assign_maybe_exclude_any = "7590476bf1a94931395b"%string.
Proof. reflexivity. Qed.

(* pyanalyze/type_evaluation.py: unite_varmaps *)
Lemma pin_unite_varmaps_ok : pin_unite_varmaps = "8fe7dafe7e91d8926b7d"%string.
Proof. reflexivity. Qed.

(* pyanalyze/type_evaluation.py: _unite_with_remaining *)
Lemma pin_unite_with_remaining_ok : pin_unite_with_remaining = "a0bba4a952b2a3ecf4c7"%string.
Proof. reflexivity. Qed.

(* pyanalyze/type_evaluation.py: EvalContext.narrow_variables *)
Lemma pin_narrow_variables_ok : pin_narrow_variables = "d523baee446275374463"%string.
Proof. reflexivity. Qed.

(* pyanalyze/type_evaluation.py: CombinedReturn.make *)
Lemma pin_combined_make_ok : pin_combined_make = "8d2c760a75af551224df"%string.
Proof. reflexivity. Qed.

(* pyanalyze/type_evaluation.py: Evaluator.evaluate *)
Lemma pin_evaluate_ok : pin_evaluate = "1cf6cbb50036ebc04cfb"%string.
Proof. reflexivity. Qed.

(* pyanalyze/type_evaluation.py: EvaluateVisitor._evaluate_ret *)
Lemma pin_evaluate_ret_ok : pin_evaluate_ret = "ca79eb7f89f65a7384d9"%string.
Proof. reflexivity. Qed.

(* pyanalyze/type_evaluation.py: EvaluateVisitor.visit_block *)
Lemma pin_visit_block_ok : pin_visit_block = "afce79d3bcd4bd61992c"%string.
Proof. reflexivity. Qed.

(* pyanalyze/type_evaluation.py: EvaluateVisitor.visit_If *)
Lemma pin_visit_If_ok : pin_visit_If = "35a3d74d88feb06baaaa"%string.
Proof. reflexivity. Qed.

(* pyanalyze/type_evaluation.py: EvaluateVisitor.visit_Return *)
Lemma pin_visit_Return_ok : pin_visit_Return = "81f6ff8d75d680678a68"%string.
Proof. reflexivity. Qed.

(* pyanalyze/type_evaluation.py: EvaluateVisitor.visit_show_error *)
Lemma pin_visit_show_error_ok : pin_visit_show_error = "9f61763b11c05bea9318"%string.
Proof. reflexivity. Qed.

(* pyanalyze/signature.py: Signature.check_call_with_bound_args, evaluator hand-off (varmap, positions, errors) *)
Lemma pin_evaluator_handoff_ok : pin_evaluator_handoff = "f921b6043693a46679a1"%string.
Proof. reflexivity. Qed.


Lemma boolop_is_translated :
  forall (acc : typ -> member -> bool -> bool) (narrow : typ -> member -> list member) (posof : var -> posn)
         cs rho narrowed remaining,
  gen_and acc narrow posof rho cs narrowed remaining = eval_and acc narrow posof rho cs narrowed remaining /\
  gen_or acc narrow posof rho cs narrowed remaining = eval_or acc narrow posof rho cs narrowed remaining.
Proof. intros. split; [apply gen_and_is_model|apply gen_or_is_model]. Qed.
