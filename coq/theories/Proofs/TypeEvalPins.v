(* Proofs/TypeEvalPins.v — obligations over the GENERATED file Gen/TypeEvalGen.v:
   (1) the argument-kind predicates translated from ConditionEvaluator.visit_Call are the model's kind_match;
   (2) the regions of type_evaluation.py (and the evaluator hand-off in signature.py) that Eval/TypeEval.v
       mirrors still have the text the model was written for (digest of the normalised AST; see
       harness/translate/regions.py).  When (2) fails, re-read the region, update the model / proofs if
       its behaviour changed, and only then update the digest here. *)
From Coq Require Import List Bool Arith String.
Import ListNotations.
Require Import PV.Eval.TypeEval.
Require Import PV.Gen.TypeEvalGen.

Lemma gen_kind_match_is_model : forall f p, gen_kind_match f p = kind_match f p.
Proof. intros [] []; reflexivity. Qed.

(* pyanalyze/type_evaluation.py: ConditionEvaluator.visit_BoolOp *)
Lemma pin_visit_BoolOp_ok : pin_visit_BoolOp = "16e5f2a4f024e8fc16de"%string.
Proof. reflexivity. Qed.

(* pyanalyze/type_evaluation.py: ConditionEvaluator.visit_is_of_type *)
Lemma pin_visit_is_of_type_ok : pin_visit_is_of_type = "ccc9621a02e10bbc9966"%string.
Proof. reflexivity. Qed.

(* pyanalyze/type_evaluation.py: ConditionEvaluator.visit_UnaryOp *)
Lemma pin_visit_UnaryOp_ok : pin_visit_UnaryOp = "fc9a60bfb2a39ce06408"%string.
Proof. reflexivity. Qed.

(* pyanalyze/type_evaluation.py: ConditionEvaluator.visit_Compare *)
Lemma pin_visit_Compare_ok : pin_visit_Compare = "4dcd761d66404f98b6f8"%string.
Proof. reflexivity. Qed.

(* pyanalyze/type_evaluation.py: ConditionReturn.reverse *)
Lemma pin_reverse_ok : pin_reverse = "7aea7e54e3213c3cd031"%string.
Proof. reflexivity. Qed.

(* pyanalyze/type_evaluation.py: decompose_union *)
Lemma pin_decompose_union_ok : pin_decompose_union = "894f4d7fe432ffb62e7f"%string.
Proof. reflexivity. Qed.

(* pyanalyze/type_evaluation.py: can_assign_maybe_exclude_any *)
Lemma pin_can_assign_maybe_exclude_any_ok : pin_can_assign_maybe_exclude_any = "7590476bf1a94931395b"%string.
Proof. reflexivity. Qed.

(* pyanalyze/type_evaluation.py: unite_varmaps *)
Lemma pin_unite_varmaps_ok : pin_unite_varmaps = "8fe7dafe7e91d8926b7d"%string.
Proof. reflexivity. Qed.

(* pyanalyze/type_evaluation.py: _unite_with_remaining *)
Lemma pin_unite_with_remaining_ok : pin_unite_with_remaining = "a0bba4a952b2a3ecf4c7"%string.
Proof. reflexivity. Qed.

(* pyanalyze/type_evaluation.py: EvalContext.narrow_variables *)
Lemma pin_narrow_variables_ok : pin_narrow_variables = "d523baee446275374463"%string.
Proof. reflexivity. Qed.

(* pyanalyze/type_evaluation.py: CombinedReturn.make *)
Lemma pin_combined_make_ok : pin_combined_make = "8d2c760a75af551224df"%string.
Proof. reflexivity. Qed.

(* pyanalyze/type_evaluation.py: Evaluator.evaluate *)
Lemma pin_evaluate_ok : pin_evaluate = "1cf6cbb50036ebc04cfb"%string.
Proof. reflexivity. Qed.

(* pyanalyze/type_evaluation.py: EvaluateVisitor._evaluate_ret *)
Lemma pin_evaluate_ret_ok : pin_evaluate_ret = "ca79eb7f89f65a7384d9"%string.
Proof. reflexivity. Qed.

(* pyanalyze/type_evaluation.py: EvaluateVisitor.visit_block *)
Lemma pin_visit_block_ok : pin_visit_block = "afce79d3bcd4bd61992c"%string.
Proof. reflexivity. Qed.

(* pyanalyze/type_evaluation.py: EvaluateVisitor.visit_If *)
Lemma pin_visit_If_ok : pin_visit_If = "35a3d74d88feb06baaaa"%string.
Proof. reflexivity. Qed.

(* pyanalyze/type_evaluation.py: EvaluateVisitor.visit_Return *)
Lemma pin_visit_Return_ok : pin_visit_Return = "81f6ff8d75d680678a68"%string.
Proof. reflexivity. Qed.

(* pyanalyze/type_evaluation.py: EvaluateVisitor.visit_show_error *)
Lemma pin_visit_show_error_ok : pin_visit_show_error = "9f61763b11c05bea9318"%string.
Proof. reflexivity. Qed.

(* pyanalyze/signature.py: Signature.check_call_with_bound_args, evaluator hand-off (varmap, positions, errors) *)
Lemma pin_evaluator_handoff_ok : pin_evaluator_handoff = "f921b6043693a46679a1"%string.
Proof. reflexivity. Qed.

