(* Proofs/TypeEvalSingle.v — on union-free arguments the model of the evaluator
   is the reference interpreter of docs/type_evaluation.md. *)
From Coq Require Import List Bool Arith PeanoNat Lia.
Import ListNotations.
Require Import PV.Eval.TypeEval.

Scheme cond_mut := Induction for cond Sort Prop
  with conds_mut := Induction for conds Sort Prop.
Combined Scheme cond_conds_ind from cond_mut, conds_mut.

Scheme stmt_mut := Induction for stmt Sort Prop
  with block_mut := Induction for block Sort Prop.
Combined Scheme stmt_block_ind from stmt_mut, block_mut.

Section Single.
  Variable acc : typ -> member -> bool -> bool.
  Variable narrow : typ -> member -> list member.
  Variable posof : var -> posn.
  Variable isany : member -> bool.

  (* a member that matches is not changed by the positive narrowing
     (false only for an Any argument tested with exclude_any=False) *)
  Hypothesis narrow_id : forall T m ex, acc T m ex = true -> narrow T m = [m].

  Variable sigma : var -> member.

  Definition rep (rho : varmap) : Prop := forall v, get rho v = [sigma v].
  Definition consistent (vm : varmap) : Prop := forall v ms, lookup vm v = Some ms -> ms = [sigma v].

  Lemma lookup_app : forall vm rho v,
    lookup (vm ++ rho) v = match lookup vm v with Some ms => Some ms | None => lookup rho v end.
  Proof.
    induction vm as [|[w ms] vm IH]; intros rho v; simpl; auto.
    destruct (w =? v); auto.
  Qed.

  Lemma rep_app : forall vm rho, consistent vm -> rep rho -> rep (vm ++ rho).
  Proof.
    intros vm rho Hc Hr v. unfold get. rewrite lookup_app.
    destruct (lookup vm v) as [ms|] eqn:E.
    - now rewrite (Hc v ms E).
    - apply Hr.
  Qed.

  Lemma consistent_app : forall a b, consistent a -> consistent b -> consistent (a ++ b).
  Proof.
    intros a b Ha Hb v ms H. rewrite lookup_app in H.
    destruct (lookup a v) as [ms'|] eqn:E.
    - inversion H; subst. eapply Ha; eauto.
    - eapply Hb; eauto.
  Qed.

  Lemma consistent_nil : consistent [].
  Proof. intros v ms H. discriminate. Qed.

  Lemma consistent_single : forall v, consistent [(v, [sigma v])].
  Proof.
    intros v w ms H. simpl in H. destruct (v =? w) eqn:E; try discriminate.
    apply Nat.eqb_eq in E. subst. now inversion H.
  Qed.

  Definition cond_ok (c : cond) : Prop :=
    forall rho, rep rho ->
      if sem_cond acc posof sigma c
      then exists l, eval_cond acc narrow posof rho c = (Some l, None) /\ consistent l
      else exists r, eval_cond acc narrow posof rho c = (None, Some r) /\ consistent r.

  Definition conds_ok (cs : conds) : Prop :=
    forall rho narrowed, rep rho -> consistent narrowed ->
      (if sem_all acc posof sigma cs
       then exists l, eval_and acc narrow posof rho cs narrowed [] = (Some l, None) /\ consistent l
       else exists r, eval_and acc narrow posof rho cs narrowed [] = (None, Some r) /\ consistent r) /\
      (if sem_any acc posof sigma cs
       then exists l, eval_or acc narrow posof rho cs narrowed [] = (Some l, None) /\ consistent l
       else exists r, eval_or acc narrow posof rho cs narrowed [] = (None, Some r) /\ consistent r).

  (* unfolding equations (the functions are mutual fixpoints) *)
  Lemma eval_cond_not : forall rho c,
    eval_cond acc narrow posof rho (CNot c) = let (l, r) := eval_cond acc narrow posof rho c in (r, l).
  Proof. reflexivity. Qed.
  Lemma eval_and_cons : forall rho c cs narrowed remaining,
    eval_and acc narrow posof rho (CCons c cs) narrowed remaining =
    match eval_cond acc narrow posof rho c with
    | (None, r) => (None, unite_with_remaining remaining r)
    | (Some l, None) => eval_and acc narrow posof (l ++ rho) cs (l ++ narrowed) remaining
    | (Some l, Some r) => eval_and acc narrow posof (l ++ rho) cs (l ++ narrowed) (remaining ++ [r])
    end.
  Proof. reflexivity. Qed.
  Lemma eval_or_cons : forall rho c cs narrowed remaining,
    eval_or acc narrow posof rho (CCons c cs) narrowed remaining =
    match eval_cond acc narrow posof rho c with
    | (l, None) => (unite_with_remaining remaining l, None)
    | (None, Some r) => eval_or acc narrow posof (r ++ rho) cs (r ++ narrowed) remaining
    | (Some l, Some r) => eval_or acc narrow posof (r ++ rho) cs (r ++ narrowed) (remaining ++ [l])
    end.
  Proof. reflexivity. Qed.
  Lemma sem_cond_not : forall c, sem_cond acc posof sigma (CNot c) = negb (sem_cond acc posof sigma c).
  Proof. reflexivity. Qed.
  Lemma sem_all_cons : forall c cs,
    sem_all acc posof sigma (CCons c cs) = sem_cond acc posof sigma c && sem_all acc posof sigma cs.
  Proof. reflexivity. Qed.
  Lemma sem_any_cons : forall c cs,
    sem_any acc posof sigma (CCons c cs) = sem_cond acc posof sigma c || sem_any acc posof sigma cs.
  Proof. reflexivity. Qed.

  Lemma cond_single_all : (forall c, cond_ok c) /\ (forall cs, conds_ok cs).
  Proof.
    apply (cond_conds_ind cond_ok conds_ok); unfold cond_ok, conds_ok.
    - (* CKind *) intros f v rho Hr. cbn. destruct (kind_match f (posof v)); cbn.
      + exists []. split; auto. apply consistent_nil.
      + exists []. split; auto. apply consistent_nil.
    - (* CType *) intros v T ex rho Hr. cbn. unfold is_of_type. rewrite (Hr v). cbn.
      destruct (acc T (sigma v) ex) eqn:E; cbn.
      + rewrite (narrow_id _ _ _ E). cbn. exists [(v, [sigma v])]. split; auto. apply consistent_single.
      + exists []. split; auto. apply consistent_nil.
    - (* CConst *) intros b rho Hr. cbn. destruct b; cbn; exists []; split; auto; apply consistent_nil.
    - (* CNot *) intros c IH rho Hr. rewrite eval_cond_not, sem_cond_not. specialize (IH rho Hr).
      destruct (sem_cond acc posof sigma c); cbn [negb]; destruct IH as [x [E Hc]]; rewrite E; exists x; split; auto.
    - (* CAnd *) intros cs IH rho Hr. destruct (IH rho [] Hr consistent_nil) as [Ha _]. exact Ha.
    - (* COr *) intros cs IH rho Hr. destruct (IH rho [] Hr consistent_nil) as [_ Ho]. exact Ho.
    - (* CNil *) intros rho narrowed Hr Hn. split; exists narrowed; split; auto.
    - (* CCons *) intros c IHc cs IHcs rho narrowed Hr Hn.
      rewrite eval_and_cons, eval_or_cons, sem_all_cons, sem_any_cons.
      specialize (IHc rho Hr). destruct (sem_cond acc posof sigma c); cbn [andb orb].
      + destruct IHc as [l [E Hl]]. rewrite E. split.
        * destruct (IHcs (l ++ rho) (l ++ narrowed) (rep_app _ _ Hl Hr) (consistent_app _ _ Hl Hn)) as [Ha _].
          exact Ha.
        * exists l. split; auto.
      + destruct IHc as [r [E Hrc]]. rewrite E. split.
        * exists r. split; auto.
        * destruct (IHcs (r ++ rho) (r ++ narrowed) (rep_app _ _ Hrc Hr) (consistent_app _ _ Hrc Hn)) as [_ Ho].
          exact Ho.
  Qed.

  Definition wrap (o : option rtype) : eret := match o with Some x => [Some x] | None => [None] end.
  Definition ft_cons (ft : option varmap) : Prop := match ft with Some f => consistent f | None => True end.

  Definition stmt_ok (s : stmt) : Prop :=
    forall rho, rep rho ->
      exists ft, eval_stmt acc narrow posof isany rho s =
        (wrap (fst (sem_stmt acc posof sigma s)), snd (sem_stmt acc posof sigma s), ft) /\ ft_cons ft.

  Definition block_ok (b : block) : Prop :=
    forall rho possible narrowed, rep rho -> consistent narrowed ->
      exists ft, eval_block acc narrow posof isany rho b possible narrowed =
        (map Some possible ++ wrap (fst (sem_block acc posof sigma b)), snd (sem_block acc posof sigma b), ft) /\ ft_cons ft.

  Lemma eval_stmt_if : forall rho c body orelse,
    eval_stmt acc narrow posof isany rho (SIf c body orelse) =
    match eval_cond acc narrow posof rho c with
    | (Some l, Some r) =>
        let '(r1, e1, f1) := eval_block acc narrow posof isany (l ++ rho) body [] [] in
        let '(r2, e2, f2) := eval_block acc narrow posof isany (r ++ rho) orelse [] [] in
        (r1 ++ r2, e1 ++ e2, ft_unite (ft_join l f1) (ft_join r f2))
    | (Some l, None) =>
        let '(r1, e1, f1) := eval_block acc narrow posof isany (l ++ rho) body [] [] in (r1, e1, ft_join l f1)
    | (None, Some r) =>
        let '(r2, e2, f2) := eval_block acc narrow posof isany (r ++ rho) orelse [] [] in (r2, e2, ft_join r f2)
    | (None, None) => ([None], [], Some [])
    end.
  Proof. reflexivity. Qed.
  Lemma eval_block_cons : forall rho s b possible narrowed,
    eval_block acc narrow posof isany rho (BCons s b) possible narrowed =
    let '(res, e, ft) := eval_stmt acc narrow posof isany rho s in
    if forallb is_some res then (map Some possible ++ res, e, None)
    else
      let f := match ft with Some f => if is_nil (somes res) then [] else only_removals isany rho f | None => [] end in
      let '(res', e', ft') := eval_block acc narrow posof isany (f ++ rho) b (possible ++ somes res) (f ++ narrowed) in
      (res', e ++ e', ft').
  Proof. reflexivity. Qed.
  Lemma sem_stmt_if : forall c body orelse,
    sem_stmt acc posof sigma (SIf c body orelse) =
    if sem_cond acc posof sigma c then sem_block acc posof sigma body else sem_block acc posof sigma orelse.
  Proof. reflexivity. Qed.
  Lemma sem_block_cons : forall s b,
    sem_block acc posof sigma (BCons s b) =
    match sem_stmt acc posof sigma s with
    | (Some r, e) => (Some r, e)
    | (None, e) => let (r', e') := sem_block acc posof sigma b in (r', e ++ e')
    end.
  Proof. reflexivity. Qed.

  Lemma block_single_all : (forall s, stmt_ok s) /\ (forall b, block_ok b).
  Proof.
    apply (stmt_block_ind stmt_ok block_ok); unfold stmt_ok, block_ok.
    - intros rho Hr. eexists. split; [reflexivity|]. apply consistent_nil.
    - intros r rho Hr. eexists. split; [reflexivity|]. exact I.
    - intros m rho Hr. eexists. split; [reflexivity|]. apply consistent_nil.
    - (* SIf *) intros c body IHb orelse IHo rho Hr. rewrite eval_stmt_if, sem_stmt_if.
      pose proof (proj1 cond_single_all c rho Hr) as Hc.
      destruct (sem_cond acc posof sigma c).
      + destruct Hc as [l [E Hl]]. rewrite E.
        destruct (IHb (l ++ rho) [] [] (rep_app _ _ Hl Hr) consistent_nil) as [ft [Eb Hf]]. rewrite Eb.
        eexists. split; [reflexivity|]. destruct ft as [f|]; simpl; auto. now apply consistent_app.
      + destruct Hc as [r [E Hrc]]. rewrite E.
        destruct (IHo (r ++ rho) [] [] (rep_app _ _ Hrc Hr) consistent_nil) as [ft [Eb Hf]]. rewrite Eb.
        eexists. split; [reflexivity|]. destruct ft as [f|]; simpl; auto. now apply consistent_app.
    - intros rho possible narrowed Hr Hn. eexists. split; [reflexivity|]. exact Hn.
    - (* BCons *) intros s IHs b IHb rho possible narrowed Hr Hn. rewrite eval_block_cons, sem_block_cons.
      destruct (IHs rho Hr) as [ft [Es Hf]]. rewrite Es.
      destruct (sem_stmt acc posof sigma s) as [[x|] e]; cbn [fst snd wrap].
      + eexists. split; [reflexivity|]. exact I.
      + cbn [forallb is_some andb somes]. rewrite app_nil_r.
        set (f := match ft with Some f => if @is_nil rtype [] then [] else only_removals isany rho f | None => [] end).
        assert (Hcf : consistent f) by (destruct ft; apply consistent_nil).
        destruct (IHb (f ++ rho) possible (f ++ narrowed) (rep_app _ _ Hcf Hr) (consistent_app _ _ Hcf Hn)) as [ft' [Eb Hf']].
        rewrite Eb. destruct (sem_block acc posof sigma b) as [r' e']. cbn [fst snd].
        eexists. split; [reflexivity|]. exact Hf'.
  Qed.

  Theorem evaluate_single : forall rho body dflt,
    rep rho ->
    evaluate acc narrow posof isany rho body dflt = sem_evaluate acc posof sigma body dflt.
  Proof.
    intros rho body dflt Hr. unfold evaluate, sem_evaluate.
    destruct (proj2 block_single_all body rho [] [] Hr consistent_nil) as [ft [E _]]. rewrite E.
    destruct (sem_block acc posof sigma body) as [[x|] e]; reflexivity.
  Qed.

End Single.
