(* Proofs/TypeEvalUnion.v — union arguments: what is proved, and the witness
   that the full distribution statement fails on the faithful model. *)
From Coq Require Import List Bool Arith PeanoNat Lia.
Import ListNotations.
Require Import PV.Eval.TypeEval.

Section Split.
  Variable acc : typ -> member -> bool -> bool.
  Variable narrow : typ -> member -> list member.

  (* docs "Interaction with unions": if only some members of a union match a
     condition, both branches are taken, with the parameter narrowed in each:
     the negative branch gets exactly the members that do not match; the
     positive branch exists iff some member matches, the negative one iff some
     member does not. *)
  Lemma is_of_type_splits : forall rho v T ex,
    let ms := get rho v in
    let r := is_of_type acc narrow rho v T ex in
    (fst r = None <-> (ms <> [] /\ forall m, In m ms -> acc T m ex = false)) /\
    (snd r = None <-> forall m, In m ms -> acc T m ex = true) /\
    (forall vm, snd r = Some vm -> (exists m, In m ms /\ acc T m ex = true) ->
       get vm v = filter (fun m => negb (acc T m ex)) ms) /\
    (forall vm, fst r = Some vm -> get vm v = nodupn (flat_map (narrow T) (filter (fun m => acc T m ex) ms))).
  Proof.
    intros rho v T ex ms r. unfold r, is_of_type. fold ms.
    assert (Hget : forall N, get [(v, N)] v = N).
    { intros N. unfold get. simpl. now rewrite Nat.eqb_refl. }
    destruct (forallb (fun m => acc T m ex) ms) eqn:Eall.
    - pose proof (proj1 (forallb_forall _ _) Eall) as Hall. cbn [fst snd].
      split; [|split; [|split]].
      + split; [discriminate|]. intros [Hne Hf]. destruct ms as [|m ms']; [congruence|].
        specialize (Hf m (or_introl eq_refl)). rewrite (Hall m (or_introl eq_refl)) in Hf. discriminate.
      + split; auto.
      + intros vm H. discriminate.
      + intros vm H. inversion H; subst. apply Hget.
    - assert (Hnotall : ~ (forall m, In m ms -> acc T m ex = true)).
      { intros Hall. assert (forallb (fun m => acc T m ex) ms = true) by (apply forallb_forall; auto). congruence. }
      destruct (existsb (fun m => acc T m ex) ms) eqn:Eex; cbn [fst snd].
      + apply existsb_exists in Eex. destruct Eex as [m0 [Hin0 Hacc0]].
        split; [|split; [|split]].
        * split; [discriminate|]. intros [_ Hf]. rewrite (Hf m0 Hin0) in Hacc0. discriminate.
        * split; [discriminate|]. intros Hall. contradiction.
        * intros vm H _. inversion H; subst. apply Hget.
        * intros vm H. inversion H; subst. apply Hget.
      + assert (Hnone : forall m, In m ms -> acc T m ex = false).
        { intros m Hm. destruct (acc T m ex) eqn:E; auto.
          assert (existsb (fun m => acc T m ex) ms = true) by (apply existsb_exists; eauto). congruence. }
        split; [|split; [|split]].
        * split; auto. intros _. split; auto. intros E. rewrite E in Eall. simpl in Eall. discriminate.
        * split; [discriminate|]. intros Hall. contradiction.
        * intros vm H [m [Hm Ha]]. rewrite (Hnone m Hm) in Ha. discriminate.
        * intros vm H. discriminate.
  Qed.
End Split.

(* ---- the full distribution statement -------------------------------------- *)

Definition sameset (a b : list nat) : Prop := forall x, In x a <-> In x b.

(* "for a union argument the result is the union of the results for each
   member evaluated separately" (returned types and show_error sites), for
   every body, when the union has no Any member, a matching member is not changed
   by the positive narrowing and the other arguments are present and union-free.  Since the fall-through repair (every statement visit returns a
   fall-through varmap) this holds without any restriction on the body: it is
   proved in Proofs/TypeEvalDistrib.v. *)
Definition union_distributes_full_statement : Prop :=
  forall (acc : typ -> member -> bool -> bool) (narrow : typ -> member -> list member) (posof : var -> posn)
         (isany : member -> bool),
    (forall T m ex, acc T m ex = true -> narrow T m = [m]) ->
    forall rho x ms body dflt,
      ms <> [] ->
      (forall m, In m ms -> isany m = false) ->
      (forall v, v <> x -> exists m, get rho v = [m]) ->
      sameset (fst (evaluate acc narrow posof isany ((x, ms) :: rho) body dflt))
              (flat_map (fun m => fst (evaluate acc narrow posof isany ((x, [m]) :: rho) body dflt)) ms) /\
      sameset (snd (evaluate acc narrow posof isany ((x, ms) :: rho) body dflt))
              (flat_map (fun m => snd (evaluate acc narrow posof isany ((x, [m]) :: rho) body dflt)) ms).

(* tables of a small world: member k is assignable exactly to type k *)
Definition acc_eq (T m : nat) (_ : bool) : bool := m =? T.
Definition narrow_eq (T m : nat) : list nat := if m =? T then [m] else [].
Definition pos_int (_ : var) : posn := PInt.
Definition no_any (_ : member) : bool := false.

(*  if is_of_type(x, T0): return R1
    if is_of_type(x, T0): return R3
    return R2
    Before the repair the union [0;1] gave [1;3;2] (the second test saw the
    un-narrowed union); now it is the union of the member results. *)
Definition fallthrough_body : block :=
  BCons (SIf (CType 0 0 true) (BCons (SReturn 1) BNil) BNil)
 (BCons (SIf (CType 0 0 true) (BCons (SReturn 3) BNil) BNil)
 (BCons (SReturn 2) BNil)).

Lemma fallthrough_values :
  evaluate acc_eq narrow_eq pos_int no_any [(0, [0; 1])] fallthrough_body 4 = ([1; 2], []) /\
  evaluate acc_eq narrow_eq pos_int no_any [(0, [0])] fallthrough_body 4 = ([1], []) /\
  evaluate acc_eq narrow_eq pos_int no_any [(0, [1])] fallthrough_body 4 = ([2], []).
Proof. repeat split; vm_compute; reflexivity. Qed.

(* the repaired `or`: is_of_type(x,T0) or is_of_type(x,T1) on members {0,1,2}:
   the body sees members 0 and 1, the else branch member 2, and the result is
   the union of the three member results *)
Definition or_body : block :=
  BCons (SIf (COr (CCons (CType 0 0 true) (CCons (CType 0 1 true) CNil)))
             (BCons (SIf (CType 0 0 true) (BCons (SReturn 1) BNil) (BCons (SError 7) (BCons (SReturn 2) BNil))) BNil)
             (BCons (SReturn 3) BNil)) BNil.

Lemma or_example :
  evaluate acc_eq narrow_eq pos_int no_any [(0, [0; 1; 2])] or_body 4 = ([1; 2; 3], [7]) /\
  evaluate acc_eq narrow_eq pos_int no_any [(0, [0])] or_body 4 = ([1], []) /\
  evaluate acc_eq narrow_eq pos_int no_any [(0, [1])] or_body 4 = ([2], [7]) /\
  evaluate acc_eq narrow_eq pos_int no_any [(0, [2])] or_body 4 = ([3], []).
Proof. repeat split; vm_compute; reflexivity. Qed.

Lemma tables_exact : forall T m ex, acc_eq T m ex = true -> narrow_eq T m = [m].
Proof. intros T m ex E; unfold acc_eq in E; unfold narrow_eq; now rewrite E. Qed.

(* ---- the hypothesis narrow_id is necessary -------------------------------- *)

Definition union_distributes_without_narrow_id : Prop :=
  forall (acc : typ -> member -> bool -> bool) (narrow : typ -> member -> list member) (posof : var -> posn)
         (isany : member -> bool),
    forall rho x ms body dflt,
      ms <> [] ->
      (forall m, In m ms -> isany m = false) ->
      (forall v, v <> x -> exists m, get rho v = [m]) ->
      sameset (fst (evaluate acc narrow posof isany ((x, ms) :: rho) body dflt))
              (flat_map (fun m => fst (evaluate acc narrow posof isany ((x, [m]) :: rho) body dflt)) ms).

(* member 9 plays Any: it matches every type when exclude_any=False, only type 9
   otherwise, and a permissive match converts it to the tested type *)
Definition acc_any (T m : nat) (ex : bool) : bool := if m =? 9 then negb ex || (T =? 9) else m =? T.
Definition narrow_any (T m : nat) : list nat := if m =? 9 then [T] else if m =? T then [m] else [].

(*  if not is_of_type(x, T0, exclude_any=False): return R1
    if is_of_type(x, T1): return R2
    else: return R3                                                        *)
Definition any_body : block :=
  BCons (SIf (CNot (CType 0 0 false)) (BCons (SReturn 1) BNil) BNil)
 (BCons (SIf (CType 0 1 true) (BCons (SReturn 2) BNil) (BCons (SReturn 3) BNil)) BNil).

Lemma any_values :
  fst (evaluate acc_any narrow_any pos_int no_any [(0, [9; 1])] any_body 4) = [1; 2; 3] /\
  fst (evaluate acc_any narrow_any pos_int no_any [(0, [9])] any_body 4) = [3] /\
  fst (evaluate acc_any narrow_any pos_int no_any [(0, [1])] any_body 4) = [1].
Proof. repeat split; vm_compute; reflexivity. Qed.

Lemma union_distributes_refuted_without_narrow_id : ~ union_distributes_without_narrow_id.
Proof.
  intros H.
  pose proof (H acc_any narrow_any pos_int no_any (@nil (var * list member)) 0 [9; 1] any_body 4) as Hr.
  assert (Hne : [9; 1] <> []) by discriminate.
  assert (Hna : forall m, In m [9; 1] -> no_any m = false) by reflexivity.
  assert (Ho : forall v, v <> 0 -> exists m, get (@nil (var * list member)) v = [m]).
  { intros v Hv. exists 0. reflexivity. }
  specialize (Hr Hne Hna Ho). unfold sameset in Hr. specialize (Hr 2). vm_compute in Hr.
  destruct Hr as [Hin _]. assert (X : 1 = 2 \/ 2 = 2 \/ 3 = 2 \/ False) by (right; left; reflexivity).
  specialize (Hin X). destruct Hin as [Hc|[Hc|Hc]]; try discriminate; contradiction.
Qed.

(* the hypotheses of the distribution theorem are satisfiable: any finite map
   whose bound values are singletons *)
Lemma others_unionfree_inhabited :
  forall v, v <> 0 -> exists m, get [(1, [7]); (2, [5])] v = [m].
Proof.
  intros v Hv. destruct v as [|[|[|v]]]; [congruence|exists 7|exists 5|exists 0]; reflexivity.
Qed.

(* ---- the hypothesis "no Any member" is necessary --------------------------- *)
(* for a variable whose value has an Any member the fall-through narrowing is
   skipped (a permissive match may have converted that member, so membership
   cannot be tracked): the imprecision of the un-narrowed fall-through remains
   exactly there (known finding C20-any-union-fallthrough) *)
Definition union_distributes_without_noany : Prop :=
  forall (acc : typ -> member -> bool -> bool) (narrow : typ -> member -> list member) (posof : var -> posn)
         (isany : member -> bool),
    (forall T m ex, acc T m ex = true -> narrow T m = [m]) ->
    forall rho x ms body dflt,
      ms <> [] ->
      (forall v, v <> x -> exists m, get rho v = [m]) ->
      sameset (fst (evaluate acc narrow posof isany ((x, ms) :: rho) body dflt))
              (flat_map (fun m => fst (evaluate acc narrow posof isany ((x, [m]) :: rho) body dflt)) ms).

Definition any_is_0 (m : member) : bool := m =? 0.

Lemma noany_values :
  fst (evaluate acc_eq narrow_eq pos_int any_is_0 [(0, [0; 1])] fallthrough_body 4) = [1; 3; 2] /\
  fst (evaluate acc_eq narrow_eq pos_int any_is_0 [(0, [0])] fallthrough_body 4) = [1] /\
  fst (evaluate acc_eq narrow_eq pos_int any_is_0 [(0, [1])] fallthrough_body 4) = [2].
Proof. repeat split; vm_compute; reflexivity. Qed.

Lemma union_distributes_refuted_without_noany : ~ union_distributes_without_noany.
Proof.
  intros H.
  pose proof (H acc_eq narrow_eq pos_int any_is_0 tables_exact (@nil (var * list member)) 0 [0; 1] fallthrough_body 4) as Hr.
  assert (Hne : [0; 1] <> []) by discriminate.
  assert (Ho : forall v, v <> 0 -> exists m, get (@nil (var * list member)) v = [m]).
  { intros v Hv. exists 0. reflexivity. }
  specialize (Hr Hne Ho). unfold sameset in Hr. specialize (Hr 3). vm_compute in Hr.
  destruct Hr as [Hin _]. assert (X : 1 = 3 \/ 3 = 3 \/ 2 = 3 \/ False) by (right; left; reflexivity).
  specialize (Hin X). destruct Hin as [Hc|[Hc|Hc]]; try discriminate; contradiction.
Qed.
