(* Proofs/Unite.v — the semilattice laws of unite_values, for any key
   identification E that is an equivalence on the operands' members. *)
From Coq Require Import List Bool Arith Lia NArith.
Import ListNotations.
Require Import PV.Core.Obj PV.Core.Val PV.Proofs.Dedup.

Definition members (l : list val) : list val := flat_map flatten l.
Definition reachable (v : val) : bool := negb (is_unreachable v).
Definition norm (E : val -> val -> bool) (l : list val) : list val :=
  filter reachable (dedup E (members l)).

Lemma unite_with_unfold : forall E l,
  unite_with E l =
  match norm E l with
  | [] => if existsb is_unreachable (dedup E (members l)) then VAnyUnreachable else VNever
  | [x] => x
  | r => mk_union r
  end.
Proof.
  intros. unfold unite_with, norm, reachable, members.
  destruct (filter _ _) as [|? [|? ?]]; reflexivity.
Qed.

(* ---- shape ---- *)
Lemma flatten_nonunion : forall v, is_union v = false -> flatten v = [v].
Proof.
  intros v H. destruct v as [l|t k|vs]; try reflexivity; try discriminate.
  destruct t; try reflexivity.
  destruct k as [|[l'|t' k'|vs'] [|z r]]; try reflexivity; discriminate.
Qed.

Lemma annotate_nonunion : forall md x, is_union x = false -> is_union (annotate md x) = false.
Proof.
  intros md x H. unfold annotate. destruct md as [|m md]; auto.
  destruct x as [l|t k|vs]; try reflexivity; try discriminate.
  destruct t; try reflexivity.
  destruct k as [|[l'|t' k'|vs'] [|z r]]; try reflexivity; discriminate.
Qed.

Definition all_nonunion (l : list val) : Prop := forall x, In x l -> is_union x = false.

Lemma flat_map_flatten_id : forall l, all_nonunion l -> flat_map flatten l = l.
Proof.
  induction l as [|a l IH]; intros H; simpl; auto.
  rewrite (flatten_nonunion a) by (apply H; left; auto). simpl. f_equal. apply IH.
  intros x Hx. apply H. right; auto.
Qed.

Lemma flat_spec : forall v, flat v = true -> all_nonunion (flatten v).
Proof.
  intros v H x Hx. unfold flat in H. rewrite forallb_forall in H. specialize (H x Hx).
  now apply negb_true_iff in H.
Qed.

Lemma members_nonunion : forall l, (forall v, In v l -> flat v = true) -> all_nonunion (members l).
Proof.
  intros l H x Hx. unfold members in Hx. apply in_flat_map in Hx. destruct Hx as [v [Hv Hx]].
  eapply flat_spec; eauto.
Qed.

Lemma norm_subset : forall E l x, In x (norm E l) -> In x (members l) /\ is_unreachable x = false.
Proof.
  intros E l x H. unfold norm in H. apply filter_In in H. destruct H as [H R]. split.
  - now apply dedup_subset in H.
  - unfold reachable in R. now apply negb_true_iff in R.
Qed.

(* the result never nests unions *)
Lemma unite_no_nesting : forall E l,
  (forall v, In v l -> flat v = true) ->
  all_nonunion (flatten (unite_with E l)).
Proof.
  intros E l Hf. rewrite unite_with_unfold.
  assert (Hn : all_nonunion (norm E l)).
  { intros x Hx. apply norm_subset in Hx. apply (members_nonunion l Hf). tauto. }
  destruct (norm E l) as [|x [|y r]] eqn:N.
  - destruct (existsb _ _); intros x [<-|[]] || intros x []; reflexivity.
  - rewrite flatten_nonunion by (apply Hn; left; auto). intros z [<-|[]]. apply Hn. left; auto.
  - unfold mk_union. rewrite flat_map_flatten_id by exact Hn. exact Hn.
Qed.

(* Never is the identity, on either side, exactly *)
Lemma unite_never_left : forall E l, unite_with E (VNever :: l) = unite_with E l.
Proof. reflexivity. Qed.

Lemma members_app : forall l1 l2, members (l1 ++ l2) = members l1 ++ members l2.
Proof. intros. unfold members. apply flat_map_app. Qed.

Lemma unite_never_right : forall E l, unite_with E (l ++ [VNever]) = unite_with E l.
Proof.
  intros. unfold unite_with. fold (members (l ++ [VNever])). fold (members l).
  rewrite members_app. simpl. now rewrite app_nil_r.
Qed.

(* ---- idempotence: needs only reflexivity of E on the members ---- *)
Lemma dedup_acc_absorb : forall (E : val -> val -> bool) l acc,
  (forall x, In x l -> mem_keys E acc x = true) -> dedup_acc E acc l = acc.
Proof.
  induction l as [|a l IH]; intros acc H; simpl; auto.
  rewrite H by (left; auto). apply IH. intros x Hx. apply H. right; auto.
Qed.

Lemma dedup_acc_app : forall (E : val -> val -> bool) l1 l2 acc,
  dedup_acc E acc (l1 ++ l2) = dedup_acc E (dedup_acc E acc l1) l2.
Proof. induction l1; intros; simpl; auto. Qed.

Lemma unite_idem : forall E a,
  (forall x, In x (flatten a) -> E x x = true) ->
  unite_with E [a; a] = unite_with E [a].
Proof.
  intros E a Hr. unfold unite_with. simpl. rewrite !app_nil_r.
  assert (D : dedup E (flatten a ++ flatten a) = dedup E (flatten a)).
  { unfold dedup. rewrite dedup_acc_app. apply dedup_acc_absorb.
    intros x Hx. apply dedup_acc_cover; auto. }
  now rewrite D.
Qed.

(* members: nothing is invented, nothing reachable is lost *)
Lemma unite_members_sub : forall E l y,
  In y (norm E l) -> In y (members l).
Proof. intros E l y H. apply norm_subset in H. tauto. Qed.

Lemma unite_members_cover : forall E l x,
  (forall k y, E k y = true -> is_unreachable k = is_unreachable y) ->
  In x (members l) -> E x x = true -> is_unreachable x = false ->
  mem_keys E (norm E l) x = true.
Proof.
  intros E l x Hunr Hx Hr Hu.
  assert (M : mem_keys E (dedup E (members l)) x = true) by (apply dedup_acc_cover; auto).
  apply mem_keys_true in M. destruct M as [k [Hk Ek]].
  apply mem_keys_true. exists k. split; auto. unfold norm. apply filter_In. split; auto.
  unfold reachable. rewrite (Hunr _ _ Ek), Hu. reflexivity.
Qed.

(* ---- results of uniting two lists with the same members up to E ---- *)
Inductive result_rel (E : val -> val -> bool) (P : val -> Prop) : val -> val -> Prop :=
| rr_same : forall r, r = VAnyUnreachable \/ r = VNever -> result_rel E P r r
| rr_single : forall x y, P x -> P y -> E x y = true -> E y x = true -> result_rel E P x y
| rr_union : forall K1 K2, set_eq E K1 K2 = true -> result_rel E P (VUnion K1) (VUnion K2).

Section Laws.
  Context (E : val -> val -> bool) (S : list val).
  Context (Hunr : forall k y, E k y = true -> is_unreachable k = is_unreachable y).
  Context (Hrefl : forall x, In x S -> E x x = true).
  Context (Hsym : forall x y, In x S -> In y S -> E x y = true -> E y x = true).
  Context (Htrans : forall x y z, In x S -> In y S -> In z S -> E x y = true -> E y z = true -> E x z = true).

  Definition covers (M1 M2 : list val) : Prop := forall x, In x M1 -> mem_keys E M2 x = true.

  Lemma dedup_covers : forall M1 M2,
    (forall x, In x M1 -> In x S) -> (forall x, In x M2 -> In x S) ->
    covers M1 M2 -> covers (dedup E M1) (dedup E M2).
  Proof.
    intros M1 M2 S1 S2 C x Hx. apply dedup_subset in Hx.
    specialize (C x Hx). apply mem_keys_true in C. destruct C as [k [Hk Ekx]].
    assert (M : mem_keys E (dedup E M2) k = true) by (apply dedup_acc_cover; auto).
    apply mem_keys_true in M. destruct M as [k' [Hk' Ek'k]].
    apply mem_keys_true. exists k'. split; auto.
    apply (Htrans k' k x); auto. apply S2. now apply dedup_subset in Hk'.
  Qed.

  Lemma filter_covers : forall K1 K2, covers K1 K2 -> covers (filter reachable K1) (filter reachable K2).
  Proof.
    intros K1 K2 C x Hx. apply filter_In in Hx. destruct Hx as [Hx R].
    specialize (C x Hx). apply mem_keys_true in C. destruct C as [k [Hk Ekx]].
    apply mem_keys_true. exists k. split; auto. apply filter_In. split; auto.
    unfold reachable in *. now rewrite (Hunr _ _ Ekx).
  Qed.

  Lemma existsb_unr_covers : forall K1 K2, covers K1 K2 ->
    existsb is_unreachable K1 = true -> existsb is_unreachable K2 = true.
  Proof.
    intros K1 K2 C H. apply existsb_exists in H. destruct H as [x [Hx Ux]].
    specialize (C x Hx). apply mem_keys_true in C. destruct C as [k [Hk Ekx]].
    apply existsb_exists. exists k. split; auto. now rewrite (Hunr _ _ Ekx).
  Qed.

  Lemma unite_with_rel : forall l1 l2,
    (forall x, In x (members l1) -> In x S) -> (forall x, In x (members l2) -> In x S) ->
    all_nonunion (members l1) -> all_nonunion (members l2) ->
    covers (members l1) (members l2) -> covers (members l2) (members l1) ->
    result_rel E (fun x => In x S) (unite_with E l1) (unite_with E l2).
  Proof.
    intros l1 l2 S1 S2 U1 U2 C12 C21. rewrite !unite_with_unfold.
    set (K1 := dedup E (members l1)). set (K2 := dedup E (members l2)).
    assert (CK12 : covers K1 K2) by (apply dedup_covers; auto).
    assert (CK21 : covers K2 K1) by (apply dedup_covers; auto).
    assert (SK1 : forall x, In x K1 -> In x S) by (intros x Hx; apply S1; now apply dedup_subset in Hx).
    assert (SK2 : forall x, In x K2 -> In x S) by (intros x Hx; apply S2; now apply dedup_subset in Hx).
    assert (R12 : covers (norm E l1) (norm E l2)) by exact (filter_covers _ _ CK12).
    assert (R21 : covers (norm E l2) (norm E l1)) by exact (filter_covers _ _ CK21).
    assert (N1 : nodupF E (norm E l1)) by (apply nodupF_filter, dedup_nodup).
    assert (N2 : nodupF E (norm E l2)) by (apply nodupF_filter, dedup_nodup).
    assert (SN1 : forall x, In x (norm E l1) -> In x S).
    { intros x Hx. apply SK1. unfold norm in Hx. apply filter_In in Hx. tauto. }
    assert (SN2 : forall x, In x (norm E l2) -> In x S).
    { intros x Hx. apply SK2. unfold norm in Hx. apply filter_In in Hx. tauto. }
    assert (Hlen : length (norm E l1) = length (norm E l2)).
    { apply (same_length E (fun x => In x S)); auto. }
    assert (Hseq : set_eq E (norm E l1) (norm E l2) = true).
    { apply (set_eq_true E (fun x => In x S)); auto. }
    assert (UN1 : all_nonunion (norm E l1)).
    { intros x Hx. apply U1. eapply unite_members_sub; eauto. }
    assert (UN2 : all_nonunion (norm E l2)).
    { intros x Hx. apply U2. eapply unite_members_sub; eauto. }
    destruct (norm E l1) as [|x1 [|y1 r1]] eqn:E1; destruct (norm E l2) as [|x2 [|y2 r2]] eqn:E2;
      simpl in Hlen; try discriminate.
    - destruct (existsb is_unreachable K1) eqn:X1.
      + rewrite (existsb_unr_covers _ _ CK12 X1). apply rr_same; auto.
      + destruct (existsb is_unreachable K2) eqn:X2.
        * rewrite (existsb_unr_covers _ _ CK21 X2) in X1. discriminate.
        * apply rr_same; auto.
    - apply rr_single.
      + apply SN1. left; auto.
      + apply SN2. left; auto.
      + assert (M := R21 x2 (or_introl eq_refl)). unfold mem_keys in M. simpl in M.
        now rewrite orb_false_r in M.
      + assert (M := R12 x1 (or_introl eq_refl)). unfold mem_keys in M. simpl in M.
        now rewrite orb_false_r in M.
    - unfold mk_union. rewrite !flat_map_flatten_id by assumption. apply rr_union. exact Hseq.
  Qed.

  (* ---- the same with covers restricted to reachable alternatives (unreachable ones are
     dropped by unite_values unless nothing else is left): needed for associativity ---- *)
  Definition covers_r (M1 M2 : list val) : Prop :=
    forall x, In x M1 -> is_unreachable x = false -> mem_keys E M2 x = true.

  Lemma dedup_covers_r : forall M1 M2,
    (forall x, In x M1 -> In x S) -> (forall x, In x M2 -> In x S) ->
    covers_r M1 M2 -> covers_r (dedup E M1) (dedup E M2).
  Proof.
    intros M1 M2 S1 S2 C x Hx Hu. apply dedup_subset in Hx.
    specialize (C x Hx Hu). apply mem_keys_true in C. destruct C as [k [Hk Ekx]].
    assert (M : mem_keys E (dedup E M2) k = true) by (apply dedup_acc_cover; auto).
    apply mem_keys_true in M. destruct M as [k' [Hk' Ek'k]].
    apply mem_keys_true. exists k'. split; auto.
    apply (Htrans k' k x); auto. apply S2. now apply dedup_subset in Hk'.
  Qed.

  Lemma filter_covers_r : forall K1 K2, covers_r K1 K2 -> covers (filter reachable K1) (filter reachable K2).
  Proof.
    intros K1 K2 C x Hx. apply filter_In in Hx. destruct Hx as [Hx R].
    unfold reachable in R. apply negb_true_iff in R.
    specialize (C x Hx R). apply mem_keys_true in C. destruct C as [k [Hk Ekx]].
    apply mem_keys_true. exists k. split; auto. apply filter_In. split; auto.
    unfold reachable. now rewrite (Hunr _ _ Ekx), R.
  Qed.

  Lemma norm_nil_all_unreachable : forall l,
    (forall x, In x (members l) -> In x S) -> norm E l = [] ->
    forall x, In x (members l) -> is_unreachable x = true.
  Proof.
    intros l SM HN x Hx.
    assert (M : mem_keys E (dedup E (members l)) x = true) by (apply dedup_acc_cover; auto).
    apply mem_keys_true in M. destruct M as [k [Hk Ekx]].
    destruct (is_unreachable x) eqn:U; auto. exfalso.
    assert (In k (norm E l)).
    { unfold norm. apply filter_In. split; auto. unfold reachable. now rewrite (Hunr _ _ Ekx), U. }
    rewrite HN in H. destruct H.
  Qed.

  Lemma existsb_unr_dedup : forall M,
    (forall x, In x M -> In x S) -> (forall x, In x M -> is_unreachable x = true) ->
    existsb is_unreachable (dedup E M) = match M with [] => false | _ => true end.
  Proof.
    intros M SM HU. destruct M as [|a M]; [reflexivity|].
    assert (Ma : mem_keys E (dedup E (a :: M)) a = true).
    { apply dedup_acc_cover; [apply Hrefl; apply SM; left; auto|left; auto]. }
    apply mem_keys_true in Ma. destruct Ma as [k [Hk _]].
    apply existsb_exists. exists k. split; auto. apply HU. now apply dedup_subset in Hk.
  Qed.

  Lemma unite_with_rel_r : forall l1 l2,
    (forall x, In x (members l1) -> In x S) -> (forall x, In x (members l2) -> In x S) ->
    all_nonunion (members l1) -> all_nonunion (members l2) ->
    covers_r (members l1) (members l2) -> covers_r (members l2) (members l1) ->
    ((forall x, In x (members l1) -> is_unreachable x = true) ->
     (forall x, In x (members l2) -> is_unreachable x = true) ->
     (members l1 = [] <-> members l2 = [])) ->
    result_rel E (fun x => In x S) (unite_with E l1) (unite_with E l2).
  Proof.
    intros l1 l2 S1 S2 U1 U2 C12 C21 Hflag. rewrite !unite_with_unfold.
    set (K1 := dedup E (members l1)). set (K2 := dedup E (members l2)).
    assert (CK12 : covers_r K1 K2) by (apply dedup_covers_r; auto).
    assert (CK21 : covers_r K2 K1) by (apply dedup_covers_r; auto).
    assert (SK1 : forall x, In x K1 -> In x S) by (intros x Hx; apply S1; now apply dedup_subset in Hx).
    assert (SK2 : forall x, In x K2 -> In x S) by (intros x Hx; apply S2; now apply dedup_subset in Hx).
    assert (R12 : covers (norm E l1) (norm E l2)) by exact (filter_covers_r _ _ CK12).
    assert (R21 : covers (norm E l2) (norm E l1)) by exact (filter_covers_r _ _ CK21).
    assert (N1 : nodupF E (norm E l1)) by (apply nodupF_filter, dedup_nodup).
    assert (N2 : nodupF E (norm E l2)) by (apply nodupF_filter, dedup_nodup).
    assert (SN1 : forall x, In x (norm E l1) -> In x S).
    { intros x Hx. apply SK1. unfold norm in Hx. apply filter_In in Hx. tauto. }
    assert (SN2 : forall x, In x (norm E l2) -> In x S).
    { intros x Hx. apply SK2. unfold norm in Hx. apply filter_In in Hx. tauto. }
    assert (Hlen : length (norm E l1) = length (norm E l2)).
    { apply (same_length E (fun x => In x S)); auto. }
    assert (Hseq : set_eq E (norm E l1) (norm E l2) = true).
    { apply (set_eq_true E (fun x => In x S)); auto. }
    assert (UN1 : all_nonunion (norm E l1)).
    { intros x Hx. apply U1. eapply unite_members_sub; eauto. }
    assert (UN2 : all_nonunion (norm E l2)).
    { intros x Hx. apply U2. eapply unite_members_sub; eauto. }
    destruct (norm E l1) as [|x1 [|y1 r1]] eqn:E1; destruct (norm E l2) as [|x2 [|y2 r2]] eqn:E2;
      simpl in Hlen; try discriminate.
    - assert (A1 := norm_nil_all_unreachable l1 S1 E1).
      assert (A2 := norm_nil_all_unreachable l2 S2 E2).
      unfold K1, K2. rewrite (existsb_unr_dedup _ S1 A1), (existsb_unr_dedup _ S2 A2).
      specialize (Hflag A1 A2).
      destruct (members l1) as [|a1 m1]; destruct (members l2) as [|a2 m2]; try (apply rr_same; auto).
      + destruct Hflag as [F _]. specialize (F eq_refl). discriminate.
      + destruct Hflag as [_ F]. specialize (F eq_refl). discriminate.
    - apply rr_single.
      + apply SN1. left; auto.
      + apply SN2. left; auto.
      + assert (M := R21 x2 (or_introl eq_refl)). unfold mem_keys in M. simpl in M.
        now rewrite orb_false_r in M.
      + assert (M := R12 x1 (or_introl eq_refl)). unfold mem_keys in M. simpl in M.
        now rewrite orb_false_r in M.
    - unfold mk_union. rewrite !flat_map_flatten_id by assumption. apply rr_union. exact Hseq.
  Qed.

  (* what the alternatives of a united value are, relative to the operands *)
  Lemma flatten_unite_sub : forall l x,
    all_nonunion (members l) ->
    In x (flatten (unite_with E l)) -> is_unreachable x = false -> In x (members l).
  Proof.
    intros l x U Hx Hu. rewrite unite_with_unfold in Hx.
    assert (UN : all_nonunion (norm E l)) by (intros y Hy; apply U; eapply unite_members_sub; eauto).
    destruct (norm E l) as [|a [|b r]] eqn:N.
    - destruct (existsb _ _); simpl in Hx.
      + destruct Hx as [<-|[]]. discriminate Hu.
      + destruct Hx.
    - rewrite flatten_nonunion in Hx by (apply UN; left; auto). destruct Hx as [<-|[]].
      eapply unite_members_sub. rewrite N. left; auto.
    - unfold mk_union in Hx. rewrite flat_map_flatten_id in Hx by exact UN. simpl in Hx.
      eapply unite_members_sub. rewrite N. exact Hx.
  Qed.

  Lemma flatten_unite_in_S : forall l x,
    (forall y, In y (members l) -> In y S) -> all_nonunion (members l) ->
    In x (flatten (unite_with E l)) -> x = VAnyUnreachable \/ In x S.
  Proof.
    intros l x SM U Hx. rewrite unite_with_unfold in Hx.
    assert (UN : all_nonunion (norm E l)) by (intros y Hy; apply U; eapply unite_members_sub; eauto).
    destruct (norm E l) as [|a [|b r]] eqn:N.
    - destruct (existsb _ _); simpl in Hx; [destruct Hx as [<-|[]]; auto|destruct Hx].
    - rewrite flatten_nonunion in Hx by (apply UN; left; auto). destruct Hx as [<-|[]].
      right. apply SM. eapply unite_members_sub. rewrite N. left; auto.
    - unfold mk_union in Hx. rewrite flat_map_flatten_id in Hx by exact UN. simpl in Hx.
      right. apply SM. eapply unite_members_sub. rewrite N. exact Hx.
  Qed.

  Lemma flatten_unite_nonunion : forall l,
    all_nonunion (members l) -> all_nonunion (flatten (unite_with E l)).
  Proof.
    intros l U. rewrite unite_with_unfold.
    assert (UN : all_nonunion (norm E l)) by (intros y Hy; apply U; eapply unite_members_sub; eauto).
    destruct (norm E l) as [|a [|b r]] eqn:N.
    - destruct (existsb _ _); intros y Hy; simpl in Hy; [destruct Hy as [<-|[]]; reflexivity|destruct Hy].
    - rewrite flatten_nonunion by (apply UN; left; auto). intros y [<-|[]]. apply UN. left; auto.
    - unfold mk_union. rewrite flat_map_flatten_id by exact UN. exact UN.
  Qed.

  Lemma flatten_unite_cover : forall l x,
    (forall y, In y (members l) -> In y S) -> all_nonunion (members l) ->
    In x (members l) -> is_unreachable x = false -> mem_keys E (flatten (unite_with E l)) x = true.
  Proof.
    intros l x SM U Hx Hu.
    assert (M : mem_keys E (norm E l) x = true) by (apply unite_members_cover; auto).
    rewrite unite_with_unfold.
    assert (UN : all_nonunion (norm E l)) by (intros y Hy; apply U; eapply unite_members_sub; eauto).
    destruct (norm E l) as [|a [|b r]] eqn:N.
    - discriminate M.
    - rewrite flatten_nonunion by (apply UN; left; auto). exact M.
    - unfold mk_union. rewrite flat_map_flatten_id by exact UN. exact M.
  Qed.

  (* when every alternative of the united value is unreachable, it is empty iff the operands are *)
  Lemma flatten_unite_nil : forall l,
    (forall y, In y (members l) -> In y S) -> all_nonunion (members l) ->
    (forall x, In x (flatten (unite_with E l)) -> is_unreachable x = true) ->
    (flatten (unite_with E l) = [] <-> members l = []).
  Proof.
    intros l SM U HU.
    assert (UN : all_nonunion (norm E l)) by (intros y Hy; apply U; eapply unite_members_sub; eauto).
    assert (HN : norm E l = []).
    { destruct (norm E l) as [|a r] eqn:N; auto. exfalso.
      assert (Ha : In a (norm E l)) by (rewrite N; left; auto).
      destruct (norm_subset E l a Ha) as [_ Hr].
      assert (Hc := flatten_unite_cover l a SM U (unite_members_sub E l a Ha) Hr).
      apply mem_keys_true in Hc. destruct Hc as [k [Hk Eka]].
      specialize (HU k Hk). rewrite (Hunr _ _ Eka), Hr in HU. discriminate. }
    revert HU. rewrite unite_with_unfold, HN.
    rewrite (existsb_unr_dedup _ SM (norm_nil_all_unreachable l SM HN)).
    destruct (members l); simpl; intros _; split; intros H; auto; discriminate.
  Qed.
End Laws.
