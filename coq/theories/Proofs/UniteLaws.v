(* Proofs/UniteLaws.v — the laws instantiated with the model's own key
   identification E_f n = (hash-equal && ==), plus facts about veq_f. *)
From Coq Require Import List Bool Arith Lia NArith.
Import ListNotations.
Require Import PV.Core.Obj PV.Core.Val PV.Proofs.Dedup PV.Proofs.Unite.

Lemma forall2b_length : forall {A} (f : A -> A -> bool) l1 l2,
  forall2b f l1 l2 = true -> length l1 = length l2.
Proof.
  induction l1 as [|x l1 IH]; destruct l2 as [|y l2]; simpl; intros H; try discriminate; auto.
  apply andb_true_iff in H. f_equal. apply IH. tauto.
Qed.

Lemma forall2b_ext : forall {A} (f g : A -> A -> bool) l1 l2,
  (forall x y, In x l1 -> In y l2 -> f x y = g x y) -> forall2b f l1 l2 = forall2b g l1 l2.
Proof.
  induction l1 as [|x l1 IH]; destruct l2 as [|y l2]; simpl; intros H; auto.
  rewrite H by auto. f_equal. apply IH. intros; apply H; auto.
Qed.

Lemma veq_f_S : forall n a b,
  veq_f (S n) a b =
  match a, b with
  | VLeaf x, VLeaf y => leaf_eqb x y
  | VNode s k1, VNode t k2 => node_veq (veq_f n) s k1 t k2
  | VUnion l1, VUnion l2 => forall2b (veq_f n) l1 l2 || set_eq (E_f n) l1 l2
  | _, _ => false
  end.
Proof. reflexivity. Qed.

(* == never identifies a reachable with an unreachable value *)
Lemma veq_unreachable : forall n x y, veq_f n x y = true -> is_unreachable x = is_unreachable y.
Proof.
  induction n as [|n IH]; intros x y H; [discriminate|].
  rewrite veq_f_S in H.
  destruct x as [l|t k|vs], y as [l'|t' k'|vs']; try discriminate; try reflexivity.
  - destruct l, l'; simpl in H; try discriminate; try reflexivity.
    simpl. apply N.eqb_eq in H. now subst.
  - destruct t, t'; try reflexivity; try (unfold node_veq in H; simpl in H; discriminate H).
    unfold node_veq in H. apply andb_true_iff in H. destruct H as [Ht Hk].
    assert (L := forall2b_length _ _ _ Hk).
    destruct k as [|a [|b r]], k' as [|a' [|b' r']]; simpl in L; try discriminate; try reflexivity.
    simpl in Hk. apply andb_true_iff in Hk. simpl. apply IH. tauto.
Qed.

Lemma E_f_unreachable : forall n k y, E_f n k y = true -> is_unreachable k = is_unreachable y.
Proof. intros n k y H. unfold E_f in H. apply andb_true_iff in H. eapply veq_unreachable. apply H. Qed.

(* ---- fuel ---- *)
Lemma depth_pos : forall v, 1 <= depth v.
Proof. destruct v; simpl; lia. Qed.

Lemma depth_kids : forall k x, In x k -> depth x <= fold_right (fun x m => Nat.max (depth x) m) 0 k.
Proof.
  induction k as [|a k IH]; simpl; intros x H; [contradiction|].
  destruct H as [->|H]; [lia|]. specialize (IH x H). lia.
Qed.

Lemma forallb_ext_in' : forall {A} (f g : A -> bool) l,
  (forall x, In x l -> f x = g x) -> forallb f l = forallb g l.
Proof. induction l; simpl; intros H; auto. rewrite H by auto. f_equal. apply IHl. auto. Qed.

Lemma existsb_ext_in' : forall {A} (f g : A -> bool) l,
  (forall x, In x l -> f x = g x) -> existsb f l = existsb g l.
Proof. induction l; simpl; intros H; auto. rewrite H by auto. f_equal. apply IHl. auto. Qed.

Lemma set_eq_ext : forall (E E' : val -> val -> bool) l1 l2,
  (forall x y, In x (l1 ++ l2) -> In y (l1 ++ l2) -> E x y = E' x y) ->
  set_eq E l1 l2 = set_eq E' l1 l2.
Proof.
  intros E E' l1 l2 H. unfold set_eq, dedup.
  assert (D1 : dedup_acc E [] l1 = dedup_acc E' [] l1).
  { apply dedup_acc_ext. simpl. intros; apply H; apply in_or_app; auto. }
  assert (D2 : dedup_acc E [] l2 = dedup_acc E' [] l2).
  { apply dedup_acc_ext. simpl. intros; apply H; apply in_or_app; auto. }
  rewrite D1, D2. f_equal.
  apply forallb_ext_in'. intros x Hx. unfold mem_keys.
  apply existsb_ext_in'. intros k Hk. apply H; apply in_or_app.
  - right. eapply dedup_subset. exact Hk.
  - left. eapply dedup_subset. exact Hx.
Qed.

Lemma keyed_incl_ext : forall {K} (f g : val -> val -> bool) (keq : K -> K -> bool) l1 l2,
  (forall p q, In p l1 -> In q l2 -> f (snd p) (snd q) = g (snd p) (snd q)) ->
  keyed_incl f keq l1 l2 = keyed_incl g keq l1 l2.
Proof.
  intros K f g keq l1 l2 H. unfold keyed_incl.
  apply forallb_ext_in'. intros p Hp. apply existsb_ext_in'. intros q Hq. now rewrite (H p q Hp Hq).
Qed.

Lemma in_combine_snd : forall {K} (ks : list K) (ts : list val) p, In p (combine ks ts) -> In (snd p) ts.
Proof. intros K ks ts [k v] H. simpl. eapply in_combine_r. exact H. Qed.

Lemma in_skipn : forall {A} n (l : list A) x, In x (skipn n l) -> In x l.
Proof. intros A n l x H. rewrite <- (firstn_skipn n l). apply in_or_app. now right. Qed.

Lemma in_firstn : forall {A} n (l : list A) x, In x (firstn n l) -> In x l.
Proof. intros A n l x H. rewrite <- (firstn_skipn n l). apply in_or_app. now left. Qed.

Lemma node_veq_ext : forall (f g : val -> val -> bool) s k1 t k2,
  (forall x y, In x k1 -> In y k2 -> f x y = g x y) ->
  node_veq f s k1 t k2 = node_veq g s k1 t k2.
Proof.
  intros f g s k1 t k2 H. unfold node_veq.
  destruct s, t; try (f_equal; apply forall2b_ext; exact H).
  - (* TypedDict *)
    destruct k1 as [|va1 ts1], k2 as [|va2 ts2]; try reflexivity.
    f_equal. rewrite (H va1 va2) by (left; reflexivity). f_equal; [f_equal|].
    + apply keyed_incl_ext. intros p q Hp Hq. apply H; right; eapply in_combine_snd; eauto.
    + apply forall2b_ext. intros x y Hx Hy. apply H; right; eapply in_skipn; eauto.
  - (* Callable *)
    f_equal; [f_equal; [f_equal|]|].
    + apply forall2b_ext. intros x y Hx Hy. apply H; eapply in_firstn; eauto.
    + apply keyed_incl_ext. intros p q Hp Hq. apply H; eapply in_skipn; eapply in_combine_snd; eauto.
    + apply forall2b_ext. intros x y Hx Hy. apply H; eapply in_skipn; eauto.
Qed.

Lemma veq_f_stable : forall n a b, depth a <= n -> depth b <= n -> veq_f (S n) a b = veq_f n a b.
Proof.
  induction n as [|n IH]; intros a b Da Db.
  - pose proof (depth_pos a). lia.
  - rewrite (veq_f_S (S n)), (veq_f_S n).
    destruct a as [l|t k|vs], b as [l'|t' k'|vs']; try reflexivity.
    + simpl in Da, Db. apply node_veq_ext. intros x y Hx Hy. apply IH.
      * pose proof (depth_kids _ _ Hx). lia.
      * pose proof (depth_kids _ _ Hy). lia.
    + simpl in Da, Db.
      assert (Hk : forall x, In x (vs ++ vs') -> depth x <= n).
      { intros x Hx. apply in_app_or in Hx. destruct Hx as [Hx|Hx];
          pose proof (depth_kids _ _ Hx); lia. }
      f_equal.
      * apply forall2b_ext. intros x y Hx Hy. apply IH; apply Hk; apply in_or_app; auto.
      * apply set_eq_ext. intros x y Hx Hy. unfold E_f. f_equal. apply IH; auto.
Qed.

(* ---- decidable guard ---- *)
Lemma equiv_onb_spec : forall E S, equiv_onb E S = true ->
  (forall x, In x S -> E x x = true) /\
  (forall x y, In x S -> In y S -> E x y = true -> E y x = true) /\
  (forall x y z, In x S -> In y S -> In z S -> E x y = true -> E y z = true -> E x z = true).
Proof.
  intros E S H. unfold equiv_onb in H. apply andb_true_iff in H. destruct H as [H H3].
  apply andb_true_iff in H. destruct H as [H1 H2].
  rewrite forallb_forall in H1, H2, H3. repeat split.
  - exact H1.
  - intros x y Hx Hy Exy. specialize (H2 x Hx). rewrite forallb_forall in H2. specialize (H2 y Hy).
    rewrite Exy in H2. exact H2.
  - intros x y z Hx Hy Hz Exy Eyz. specialize (H3 x Hx). rewrite forallb_forall in H3.
    specialize (H3 y Hy). rewrite forallb_forall in H3. specialize (H3 z Hz).
    rewrite Exy, Eyz in H3. exact H3.
Qed.

Definition fits (n : nat) (S : list val) : bool := forallb (fun x => depth x <=? n) S.

Lemma fits_spec : forall n S, fits n S = true -> forall x, In x S -> depth x <= n.
Proof. intros n S H x Hx. unfold fits in H. rewrite forallb_forall in H. apply Nat.leb_le. auto. Qed.

(* ---- from result_rel to == ---- *)
Lemma result_rel_veq : forall n Sup r1 r2,
  (forall x, In x Sup -> depth x <= n) ->
  result_rel (E_f n) (fun x => In x Sup) r1 r2 -> veq_f (S n) r1 r2 = true.
Proof.
  intros n Sup r1 r2 HS H. destruct H as [r Hr|x y Px Py Exy Eyx|K1 K2 Hs].
  - destruct Hr as [Hr|Hr]; subst r; reflexivity.
  - rewrite veq_f_stable by auto. unfold E_f in Exy. apply andb_true_iff in Exy. tauto.
  - rewrite veq_f_S. rewrite Hs. apply orb_true_r.
Qed.

Lemma in_mem_keys : forall (E : val -> val -> bool) M x, In x M -> E x x = true -> mem_keys E M x = true.
Proof. intros E M x H R. apply mem_keys_true. eauto. Qed.

(* commutativity *)
Lemma unite_comm : forall n a b,
  flat a = true -> flat b = true ->
  fits n (flatten a ++ flatten b) = true ->
  equiv_onb (E_f n) (flatten a ++ flatten b) = true ->
  veq_f (S n) (unite_f n [a; b]) (unite_f n [b; a]) = true.
Proof.
  intros n a b Fa Fb Hfit Heq.
  destruct (equiv_onb_spec _ _ Heq) as [Hr [Hs Ht]].
  set (Sup := flatten a ++ flatten b) in *.
  assert (M1 : members [a; b] = Sup) by (unfold members, Sup; simpl; now rewrite app_nil_r).
  assert (M2 : forall x, In x (members [b; a]) <-> In x Sup).
  { intros x. unfold members, Sup. simpl. rewrite app_nil_r. rewrite !in_app_iff. tauto. }
  apply (result_rel_veq n Sup); [apply fits_spec; auto|].
  unfold unite_f. apply unite_with_rel; auto.
  - apply E_f_unreachable.
  - rewrite M1. auto.
  - intros x Hx. now apply M2.
  - apply members_nonunion. intros v [<-|[<-|[]]]; auto.
  - apply members_nonunion. intros v [<-|[<-|[]]]; auto.
  - intros x Hx. apply in_mem_keys. apply M2. now rewrite M1 in Hx. apply Hr. now rewrite M1 in Hx.
  - intros x Hx. apply in_mem_keys. rewrite M1. now apply M2. apply Hr. now apply M2.
Qed.

(* associativity *)
Lemma members2 : forall x y, members [x; y] = flatten x ++ flatten y.
Proof. intros. unfold members. simpl. now rewrite app_nil_r. Qed.

Lemma unite_assoc : forall n a b c,
  flat a = true -> flat b = true -> flat c = true ->
  fits n (VAnyUnreachable :: flatten a ++ flatten b ++ flatten c) = true ->
  equiv_onb (E_f n) (VAnyUnreachable :: flatten a ++ flatten b ++ flatten c) = true ->
  veq_f (S n) (unite_f n [unite_f n [a; b]; c]) (unite_f n [a; unite_f n [b; c]]) = true.
Proof.
  intros n a b c Fa Fb Fc Hfit Heq.
  destruct (equiv_onb_spec _ _ Heq) as [Hr [Hs Ht]].
  set (Sup := VAnyUnreachable :: flatten a ++ flatten b ++ flatten c) in *.
  assert (Ia : forall x, In x (flatten a) -> In x Sup) by (intros x Hx; right; apply in_or_app; auto).
  assert (Ib : forall x, In x (flatten b) -> In x Sup).
  { intros x Hx. right. apply in_or_app. right. apply in_or_app. auto. }
  assert (Ic : forall x, In x (flatten c) -> In x Sup).
  { intros x Hx. right. apply in_or_app. right. apply in_or_app. auto. }
  assert (Na := flat_spec a Fa). assert (Nb := flat_spec b Fb). assert (Nc := flat_spec c Fc).
  assert (Hunr := E_f_unreachable n).
  (* the two inner unions *)
  assert (Sab : forall y, In y (members [a; b]) -> In y Sup).
  { intros y Hy. rewrite members2 in Hy. apply in_app_or in Hy. destruct Hy; auto. }
  assert (Sbc : forall y, In y (members [b; c]) -> In y Sup).
  { intros y Hy. rewrite members2 in Hy. apply in_app_or in Hy. destruct Hy; auto. }
  assert (Nab : all_nonunion (members [a; b])).
  { intros y Hy. rewrite members2 in Hy. apply in_app_or in Hy. destruct Hy; auto. }
  assert (Nbc : all_nonunion (members [b; c])).
  { intros y Hy. rewrite members2 in Hy. apply in_app_or in Hy. destruct Hy; auto. }
  set (u := unite_f n [a; b]). set (u' := unite_f n [b; c]).
  assert (Su : forall x, In x (flatten u) -> In x Sup).
  { intros x Hx. destruct (flatten_unite_in_S (E_f n) Sup [a; b] x Sab Nab Hx) as [->|H]; [left; reflexivity|exact H]. }
  assert (Su' : forall x, In x (flatten u') -> In x Sup).
  { intros x Hx. destruct (flatten_unite_in_S (E_f n) Sup [b; c] x Sbc Nbc Hx) as [->|H]; [left; reflexivity|exact H]. }
  assert (Nu : all_nonunion (flatten u)) by (apply flatten_unite_nonunion; exact Nab).
  assert (Nu' : all_nonunion (flatten u')) by (apply flatten_unite_nonunion; exact Nbc).
  assert (Cu : forall x, In x (members [a; b]) -> is_unreachable x = false -> mem_keys (E_f n) (flatten u) x = true).
  { intros x Hx Hu. apply (flatten_unite_cover (E_f n) Sup Hunr Hr); auto. }
  assert (Cu' : forall x, In x (members [b; c]) -> is_unreachable x = false -> mem_keys (E_f n) (flatten u') x = true).
  { intros x Hx Hu. apply (flatten_unite_cover (E_f n) Sup Hunr Hr); auto. }
  apply (result_rel_veq n Sup); [apply fits_spec; auto|].
  unfold unite_f at 1 2. apply unite_with_rel_r; auto; fold u; fold u'; rewrite ?members2.
  - intros x Hx. apply in_app_or in Hx. destruct Hx; auto.
  - intros x Hx. apply in_app_or in Hx. destruct Hx; auto.
  - intros x Hx. apply in_app_or in Hx. destruct Hx; auto.
  - intros x Hx. apply in_app_or in Hx. destruct Hx; auto.
  - (* left covers right *)
    intros x Hx Hu. rewrite mem_keys_app. apply in_app_or in Hx. destruct Hx as [Hx|Hx].
    + assert (Hm := flatten_unite_sub (E_f n) [a; b] x Nab Hx Hu). rewrite members2 in Hm.
      apply in_app_or in Hm. destruct Hm as [Hm|Hm].
      * rewrite (in_mem_keys _ _ _ Hm (Hr x (Ia x Hm))). reflexivity.
      * rewrite (Cu' x) by (rewrite ?members2; auto; apply in_or_app; auto). apply orb_true_r.
    + rewrite (Cu' x) by (rewrite ?members2; auto; apply in_or_app; auto). apply orb_true_r.
  - (* right covers left *)
    intros x Hx Hu. rewrite mem_keys_app. apply in_app_or in Hx. destruct Hx as [Hx|Hx].
    + rewrite (Cu x) by (rewrite ?members2; auto; apply in_or_app; auto). reflexivity.
    + assert (Hm := flatten_unite_sub (E_f n) [b; c] x Nbc Hx Hu). rewrite members2 in Hm.
      apply in_app_or in Hm. destruct Hm as [Hm|Hm].
      * rewrite (Cu x) by (rewrite ?members2; auto; apply in_or_app; auto). reflexivity.
      * rewrite (in_mem_keys _ _ _ Hm (Hr x (Ic x Hm))). apply orb_true_r.
  - (* the all-unreachable case: both sides are empty together *)
    intros A1 A2.
    assert (E1 : flatten u = [] <-> members [a; b] = []).
    { apply (flatten_unite_nil (E_f n) Sup Hunr Hr); auto. intros x Hx. apply A1. apply in_or_app; auto. }
    assert (E2 : flatten u' = [] <-> members [b; c] = []).
    { apply (flatten_unite_nil (E_f n) Sup Hunr Hr); auto. intros x Hx. apply A2. apply in_or_app; auto. }
    rewrite members2 in E1, E2.
    split; intros H; apply app_eq_nil in H; destruct H as [H1 H2].
    + apply E1 in H1. apply app_eq_nil in H1. destruct H1 as [Ha Hb]. rewrite Ha. simpl.
      apply E2. rewrite Hb, H2. reflexivity.
    + apply E2 in H2. apply app_eq_nil in H2. destruct H2 as [Hb Hc]. rewrite Hc, app_nil_r.
      apply E1. rewrite H1, Hb. reflexivity.
Qed.
