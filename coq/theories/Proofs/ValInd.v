(* Proofs/ValInd.v — structural induction on values with the children available *)
From Coq Require Import List.
Import ListNotations.
Require Import PV.Core.Obj PV.Core.Val.

Section ValInd.
  Variable P : val -> Prop.
  Hypothesis Hleaf : forall l, P (VLeaf l).
  Hypothesis Hnode : forall t k, Forall P k -> P (VNode t k).
  Hypothesis Hunion : forall vs, Forall P vs -> P (VUnion vs).
  Fixpoint val_ind' (v : val) : P v :=
    match v with
    | VLeaf l => Hleaf l
    | VNode t k =>
        Hnode t k ((fix go (l : list val) : Forall P l :=
                      match l with [] => Forall_nil P | x :: r => Forall_cons x (val_ind' x) (go r) end) k)
    | VUnion vs =>
        Hunion vs ((fix go (l : list val) : Forall P l :=
                      match l with [] => Forall_nil P | x :: r => Forall_cons x (val_ind' x) (go r) end) vs)
    end.
End ValInd.

