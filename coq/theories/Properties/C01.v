(* Properties/C01.v — inferred values are sound with respect to execution (mini-language).
   Only statements, `exact`, and Print Assumptions.  Model: PV.Infer.Mini (objects, abstract values with
   the membership relation `member`, expressions, statements, big-step semantics `eval`/`exec` producing
   a trace of (node, runtime object), abstract interpreter `infer`/`aexec`).  Tied to pyanalyze by the
   correspondence of harness/c01.py; everything outside the mini-language is decided by the differential
   oracle only (see design.d/C01.md). *)
From Coq Require Import ZArith List Bool.
Import ListNotations.
Require Import PV.Infer.Mini PV.Proofs.InferBase PV.Proofs.InferSound PV.Proofs.InferStmt.
Require Import PV.Gen.Ops PV.Ops.SeqIndex PV.Proofs.OpsSeqIndex PV.Proofs.InferCompose.
Require Import PV.Scopes.Syntax PV.Scopes.Analysis PV.Scopes.Paths PV.Scopes.Guards.
Require PV.Narrow.Base PV.Narrow.Model PV.Narrow.Guards.
Require Import PV.Proofs.InferNarrowBridge.

(* the property on the mini-language, guarded: == is only narrowed against non-numeric literals
   (stmt_okb).  For every program the analysis accepts — with whatever loop invariants `inv` the
   reaching-definitions analysis supplied; they are checked by aexec, not assumed — every argument
   environment described by the declared parameter values, and every run of any length: every
   (node, runtime object) of the trace is a member of a value inferred for that node. *)
Theorem C01_infer_sound_partial : forall inv fuel body params args a out,
  forallb stmt_okb body = true -> env_ok args params ->
  aexec inv body params = Some (a, out) ->
  forall n o, In (n, o) (fst (exec fuel args body)) -> exists v, In (n, v) a /\ member o v = true.
Proof. exact infer_sound_program. Qed.
Print Assumptions C01_infer_sound_partial.

(* a node whose inferred value is Never is never evaluated *)
Theorem C01_never_is_unreachable : forall inv fuel body params args a out n o,
  forallb stmt_okb body = true -> env_ok args params ->
  aexec inv body params = Some (a, out) ->
  In (n, o) (fst (exec fuel args body)) ->
  exists v, In (n, v) a /\ member o v = true /\ v <> VNever.
Proof. exact never_is_unreachable. Qed.
Print Assumptions C01_never_is_unreachable.

(* statement level, with the state after the block: a normally terminating run ends in an environment
   described by the abstract environment the analysis computed (None = the block always returns) *)
Theorem C01_block_sound : forall inv fuel ss r s a out t res,
  forallb stmt_okb ss = true -> env_ok r s ->
  ablock (aexec1 inv) ss s = Some (a, out) -> exec fuel r ss = (t, res) ->
  (forall n o, In (n, o) t -> exists v, In (n, v) a /\ member o v = true) /\
  (forall r', res = Normal r' -> exists s', out = Some s' /\ env_ok r' s').
Proof. exact aexec_sound. Qed.
Print Assumptions C01_block_sound.

(* expression level: names, tuples, subscripts with literal index, IfExp, comparisons, bool ops,
   with narrowing inside IfExp / and / or *)
Theorem C01_expression_sound : forall e r s a v t res,
  expr_okb e = true -> env_ok r s -> infer s e = Some (a, v) -> eval r e = (t, res) ->
  (forall n o, In (n, o) t -> exists w, In (n, w) a /\ member o w = true) /\
  (forall o, res = Some o -> member o v = true).
Proof. exact infer_sound. Qed.
Print Assumptions C01_expression_sound.

(* narrowing never loses the actual value (truthiness, is None, isinstance, == non-numeric literal) *)
Theorem C01_narrowing_keeps_value : forall k p v o,
  atom_okb k = true -> member o v = true -> atom_holds k o = p -> member o (narrow_val k p v) = true.
Proof. exact narrow_val_sound. Qed.
Print Assumptions C01_narrowing_keeps_value.

(* the constraint extracted from a condition is satisfied by the environment in the branch taken,
   and applying a satisfied constraint keeps the environment described *)
Theorem C01_condition_constraint_holds : forall e r t o,
  eval r e = (t, Some o) -> csat r (constraint_of e) (truthy o).
Proof. exact constraint_of_sound. Qed.
Print Assumptions C01_condition_constraint_holds.

Theorem C01_apply_constraint_sound : forall c r s,
  constr_okb c = true -> env_ok r s -> csat r c true -> env_ok r (apply_constr c s).
Proof. exact apply_constr_sound. Qed.
Print Assumptions C01_apply_constraint_sound.

(* subscript with a literal (possibly negative) index on unions of known-length sequences *)
Theorem C01_seq_getitem_sound : forall v i w os o,
  member (OTuple os) v = true -> seq_getitem v i = Some w -> tuple_index os i = Some o -> member o w = true.
Proof. exact seq_getitem_sound. Qed.
Print Assumptions C01_seq_getitem_sound.

(* the loop-invariant check: an environment described by a smaller abstract environment is described
   by the bigger one *)
Theorem C01_invariant_check_sound : forall r a b, env_ok r a -> aenv_le a b = true -> env_ok r b.
Proof. exact aenv_le_sound. Qed.
Print Assumptions C01_invariant_check_sound.

(* executable corollary used by the correspondence: in the guarded fragment the model's own
   differential test can never fail *)
Theorem C01_run_check_never_false : forall inv fuel params args body,
  forallb stmt_okb body = true -> env_okb args params = true ->
  run_check inv fuel params args body <> Some false.
Proof. exact run_check_never_false. Qed.
Print Assumptions C01_run_check_never_false.

(* the full statement (no guard) is refuted by the faithful model of the unchanged code:
   x : bool; `x if x == 0 else None` evaluates node `x` to False but infers Never *)
Theorem C01_infer_sound_refuted : ~ infer_sound_full_statement.
Proof. exact infer_sound_refuted. Qed.
Print Assumptions C01_infer_sound_refuted.

Theorem C01_narrow_eq_numeric_refuted :
  member (OBool false) (VTyped CBool) = true /\ atom_holds (KEq (OInt 0)) (OBool false) = true /\
  member (OBool false) (narrow_val (KEq (OInt 0)) true (VTyped CBool)) = false.
Proof. exact narrow_eq_numeric_refuted. Qed.
Print Assumptions C01_narrow_eq_numeric_refuted.

(* the hypotheses are satisfiable by a program with a loop, narrowing, a tuple and a negative subscript *)
Example C01_guard_inhabited :
  forallb stmt_okb example_prog = true /\ env_okb [(0, OInt 3)] [(0, VTyped CInt)] = true /\
  run_check example_inv 30 [(0, VTyped CInt)] [(0, OInt 3)] example_prog = Some true /\
  length (fst (exec 30 [(0, OInt 3)] example_prog)) = 12.
Proof. exact infer_sound_guard_inhabited. Qed.
Print Assumptions C01_guard_inhabited.

(* ---- composition with C19 (Ops/SeqIndex.v over PV.Gen.Ops, regenerated from implementation.py on
   every run): the mini-language's subscript rule is the int-key branch of
   _sequence_common_getitem_impl on sequences without unpacked members, so a change of the source's
   index arithmetic (in_range, forward_scan, index_from_back) changes Gen/Ops.v and these obligations. *)
Theorem C01_subscript_is_impl_rule : forall vs k,
  tuple_index vs k =
  match seq_getitem_int KTuple (single_members vs) k with
  | RMember w => Some w
  | _ => None
  end.
Proof. exact mini_subscript_is_impl_rule. Qed.
Print Assumptions C01_subscript_is_impl_rule.

(* soundness of the subscript obtained from C19_seq_index_sound (not re-proved) *)
Theorem C01_subscript_sound_from_C19 : forall vs k w os o,
  member (OTuple os) (VSeq vs) = true -> tuple_index vs k = Some w -> tuple_index os k = Some o ->
  member o w = true.
Proof. exact subscript_sound_from_c19. Qed.
Print Assumptions C01_subscript_sound_from_C19.

(* the analysis leaves the fragment on a subscript exactly when CPython raises IndexError
   (from C19_seq_index_error_iff) *)
Theorem C01_subscript_none_iff_index_error : forall vs k os,
  member (OTuple os) (VSeq vs) = true -> (tuple_index vs k = None <-> tuple_index os k = None).
Proof. exact subscript_none_iff_index_error. Qed.
Print Assumptions C01_subscript_none_iff_index_error.

(* ---- composition with C09 (Scopes/Analysis.v, the model of FunctionScope's collecting phase, and the
   strict path semantics of Scopes/Paths.v over assignments, uses, if/else, for/while with else,
   `while True`, break/continue, with, try/except/else/finally, nested to any depth).
   The value of a name at a use is the union of the values of the definition nodes reported for it;
   whatever definition d binds the variable along a strict path, an object of vals d is in that union.
   The reaching-definitions hypothesis of the C01 composition is discharged by
   C09_strict_sub_reported_partial (same guard lower_ok). *)
Theorem C01_name_value_sound_from_C09 : forall (vals : node -> val) p u d o,
  lower_ok p = true -> strict_reach p u d -> member o (vals d) = true ->
  member o (VUnion (map vals (reported p u))) = true.
Proof. exact name_value_sound_from_c09. Qed.
Print Assumptions C01_name_value_sound_from_C09.

Theorem C01_name_never_unreachable_from_C09 : forall (vals : node -> val) p u d o,
  lower_ok p = true -> strict_reach p u d -> member o (vals d) = true ->
  VUnion (map vals (reported p u)) <> VNever.
Proof. exact name_value_never_unreachable_from_c09. Qed.
Print Assumptions C01_name_never_unreachable_from_C09.

(* ---- composition with C02 (Narrow/Model.v: the model of pyanalyze's constraint machinery — predicates,
   Constraint.apply_to_value, constrain_value — tied to the source by the C02 translators and
   correspondence).  Common fragment: None / bool / int / str objects; Any, literal and class values and
   unions of them; truthiness, `is None`, isinstance(x, c), `== literal`.  emb / embv / embk embed Mini's
   objects, values and condition kinds into the C02 universe. *)

(* the two membership relations agree *)
Theorem C01_membership_agrees_with_C02 : forall o v, atom o = true -> frag v = true ->
  Narrow.Base.member (emb o) (embv v) = Mini.member o v.
Proof. exact emb_member. Qed.
Print Assumptions C01_membership_agrees_with_C02.

(* the run-time meanings of the conditions agree *)
Theorem C01_condition_meaning_agrees_with_C02 : forall k o, atom o = true -> atom_k k = true ->
  Narrow.Model.holds (embk k) (emb o) = Some (Mini.atom_holds k o).
Proof. exact emb_holds. Qed.
Print Assumptions C01_condition_meaning_agrees_with_C02.

(* whatever the C02 model keeps of a (non-union) value, Mini's narrow1 keeps *)
Theorem C01_narrowing_covers_C02 : forall k p w o,
  atom o = true -> fragv w = true -> atom_k k = true -> Mini.member o w = true ->
  Narrow.Base.member (emb o) (Narrow.Model.apply_constr (c02k k p) (Narrow.Base.plain (embv1 w))) = true ->
  exists w', Mini.narrow1 k p w = Some w' /\ Mini.member o w' = true.
Proof. exact narrow1_covers_c02. Qed.
Print Assumptions C01_narrowing_covers_C02.

(* "narrowing keeps the actual value" on the common fragment as a corollary of
   C02_narrow_keeps_value_partial (guard: C02's own quantifier restriction for ==: an object equal to
   the literal is the literal; it is implied by Mini's syntactic guard atom_okb) *)
Theorem C01_narrowing_keeps_value_from_C02 : forall k p v o,
  atom o = true -> frag v = true -> atom_k k = true -> eq_ok k o = true ->
  Mini.member o v = true -> Mini.atom_holds k o = p ->
  Mini.member o (Mini.narrow_val k p v) = true.
Proof. exact narrowing_keeps_value_from_c02. Qed.
Print Assumptions C01_narrowing_keeps_value_from_C02.
