(* Properties/C02.v — narrowing never loses the actual value and never widens.
   Only statements, `exact`, and Print Assumptions.

   Model (hand written, tied to the code by the correspondence check harness/c02.py):
     PV.Narrow.Base    classes, objects, values, run-time membership `member` (the spec)
     PV.Narrow.Model   is_assignable / is_overlapping / get_boolability / the predicates /
                       Constraint.apply_to_value / AND, OR, invert / constrain_value (`narrow`);
                       `holds` = run-time meaning of a condition (None: it raises)
     PV.Narrow.Guards  the decidable guard clauses and the full-strength statements
   PV.Gen.NarrowTable is regenerated from pyanalyze on every run. *)
From Coq Require Import ZArith List Bool NArith.
Import ListNotations.
Require Import PV.Narrow.Base PV.Narrow.Model PV.Narrow.Guards.
Require Import PV.Gen.NarrowTable PV.Gen.NarrowPreds PV.Gen.NarrowSrc.
Require Import PV.Proofs.NarrowSkel PV.Proofs.NarrowSrcTie.
Require Import PV.Narrow.CoreBridge PV.Proofs.NarrowCoreBridge.
Require Import PV.Proofs.NarrowBasics PV.Proofs.NarrowMain PV.Proofs.NarrowWiden PV.Proofs.NarrowVerdict.

(* the class table (mro, TypeObject.base_classes, artificial bases), the per-class
   _get_type_boolability results, the Boolability enum / _TRUE_BOOLABILITIES /
   _FALSE_BOOLABILITIES / is_safely_false and AST_TO_REVERSE dumped or translated from
   the implementation equal the tables the theorems below are proved about *)
Theorem C02_generated_tables_agree : tables_agree = true /\ forall op, gen_neg_op op = neg_op op.
Proof. exact (conj gen_tables_agree gen_neg_op_agrees). Qed.
Print Assumptions C02_generated_tables_agree.

(* the control flow of IsAssignablePredicate.__call__, LenPredicate.__call__, the is_truthy /
   is_value_object / add_annotation branches and the dispatch order of Constraint.apply_to_value,
   and EqualsPredicate's operator table, translated from the Python source on every run, equal the
   model's decision skeletons (the translator also pins the ast of 22 hand-transcribed functions) *)
Theorem C02_generated_predicates_agree :
  (forall ov asg univ po positive, gen_isassignable ov asg univ po positive = isassignable_skel ov asg univ po positive) /\
  (forall known k n star positive is_typed is_tuple,
     gen_lenpat known k n star positive is_typed is_tuple = lenpat_skel known k n star positive is_typed is_tuple) /\
  (forall sf st positive, gen_truthy sf st positive = truthy_skel sf st positive) /\
  (forall positive, gen_valueobject positive = valueobject_skel positive /\ gen_addannot positive = valueobject_skel positive) /\
  (forall positive use_is, gen_operator positive use_is = model_operator positive use_is) /\
  gen_dispatch = model_dispatch.
Proof.
  exact (conj gen_isassignable_agrees (conj gen_lenpat_agrees (conj gen_truthy_agrees
        (conj gen_valueobject_agrees (conj gen_operator_agrees gen_dispatch_agrees))))).
Qed.
Print Assumptions C02_generated_predicates_agree.

(* ... and the model's predicates are exactly those skeletons applied to the model's tests *)
Theorem C02_model_predicates_are_skeletons :
  (forall pat po s positive,
     pred_isassignable pat po s positive =
     interp (isassignable_skel (overlapping pat s) (pat_assignable pat s) (univ_assignable (sbase s) pat) po positive)
            s (map plain pat)) /\
  (forall n star s positive,
     pred_lenpat n star s positive =
     interp (lenpat_skel (match len_of_value s with Some _ => true | None => false end)
                         (match len_of_value s with Some k => k | None => 0%Z end)
                         (Z.of_nat n) star positive (tuple_typed (sbase s)) true)
            s [plain (VTuple (repeat (false, tuple_arg (sbase s)) n))]) /\
  (forall positive s,
     apply_constr (KTruthy positive) s =
     interp (truthy_skel (is_safely_false (boolab_of_b (sbase s))) (is_safely_true (boolab_of_b (sbase s))) positive) s []) /\
  (forall t positive s, apply_constr (KValueObject t positive) s = interp (valueobject_skel positive) s t) /\
  (forall n positive s, apply_constr (KAddAnnot n positive) s = interp (valueobject_skel positive) s [annotate s [HasAttrExt n]]).
Proof.
  exact (conj pred_isassignable_is_skel (conj pred_lenpat_is_skel (conj truthy_is_skel
        (conj valueobject_is_skel addannot_is_skel)))).
Qed.
Print Assumptions C02_model_predicates_are_skeletons.

(* how source conditions become constraints: the construction sites of name_check_visitor
   (_constraint_from_compare_op, visit_UnaryOp, visit_BoolOp), implementation (_isinstance_impl,
   _issubclass_impl, _bool_impl, _len_impl), signature (TypeIs, TypeGuard) and patma (singleton, value,
   sequence, mapping, class, or, make_constraint), read off the ast on every run, are exactly what
   cond_acon / match_seq / match_map build *)
Theorem C02_source_conditions_tie :
  (forall k ls, cond_acon (compare_cond k ls) = ALeaf (compare_leaf (gen_compare k) ls)) /\
  (forall cs, isassign_leaf gen_isinstance_site cs = Some (KPred (PIsAssignable (map VTyped cs) false) true) /\
              cond_acon (CIsInstance cs) = ALeaf (KPred (PIsAssignable (map VTyped cs) false) true)) /\
  (forall cs, isassign_leaf gen_issubclass_site cs = Some (KPred (PIsAssignable (map VSub cs) false) true) /\
              cond_acon (CIsSubclass cs) = ALeaf (KPred (PIsAssignable (map VSub cs) false) true)) /\
  (forall t, fst (fst gen_typeis_site) = T_predicate /\
             cond_acon (CTypeIs t) = ALeaf (KPred (PIsAssignable t (snd gen_typeis_site)) (snd (fst gen_typeis_site)))) /\
  (forall t, fst gen_typeguard_site = T_is_value_object /\
             cond_acon (CTypeGuard t) = ALeaf (KValueObject t (snd gen_typeguard_site))) /\
  (gen_bool_site = (T_is_truthy, true) /\ cond_acon CTruthy = ALeaf (KTruthy (snd gen_bool_site)) /\
   gen_len_site = true /\ gen_not_inverts = true /\ gen_and_reversed = true) /\
  (forall (pre : list epat) (star : bool) (post : list epat),
     let npat := (length pre + length post + (if star then 1 else 0))%nat in
     match_seq pre star post =
     CPAnd (CSeqIs (gen_seq_po npat star))
           (CPAnd (CSeqLen (fst (gen_seq_len npat star)) (snd (gen_seq_len npat star))) (CElems pre star post))) /\
  (forall kps, match_map kps = CPAnd (CMapIs (gen_map_po (length kps))) (CMapKeys kps)) /\
  (forall (c : cls) (l : obj),
     gen_make_positive = true /\ gen_matchor_is_or = true /\
     cond_acon (CIs l) = ALeaf (KPred (PEquals l gen_singleton_is) gen_make_positive) /\
     cond_acon (CEq l) = ALeaf (KPred (PEquals l gen_value_is) gen_make_positive) /\
     cond_acon (CMatchClass c) = ALeaf (KPred (PIsAssignable [VTyped c] (gen_class_po false false)) gen_make_positive) /\
     cond_acon (CIsInstance [c]) = ALeaf (KPred (PIsAssignable [VTyped c] (gen_class_po true false)) gen_make_positive) /\
     cond_acon CAlways = ALeaf (KPred PAlways gen_make_positive)).
Proof.
  exact (conj compare_tie (conj isinstance_tie (conj issubclass_tie (conj typeis_tie (conj typeguard_tie
        (conj bool_len_tie (conj match_seq_tie (conj match_map_tie match_misc_tie)))))))).
Qed.
Print Assumptions C02_source_conditions_tie.

(* inversion / application of the abstract constraints and the bodies of EqualsPredicate and
   InPredicate, translated from stacked_scopes.py / predicates.py, are the model's *)
Theorem C02_constraint_algebra_tie :
  (forall (a b : acon) (k : constr),
     invert (AAnd a b) = mk gen_and_invert (invert a) (invert b) /\
     invert (AOr a b) = mk gen_or_invert (invert a) (invert b) /\
     invert (AAlt a b) = mk gen_alt_invert (invert a) (invert b) /\
     apply_acon (AAlt a b) = apply_acon (mk gen_alt_apply_as a b) /\ gen_union_value_is_alt = true /\
     invert ANull = ANull /\ apply_acon ANull = [] /\
     (gen_leaf_invert_flips = true /\ invert (ALeaf k) = ALeaf (flip k)) /\
     (gen_and_apply_concat = true /\ apply_acon (AAnd a b) = apply_acon a ++ apply_acon b) /\
     (gen_leaf_apply_self = true /\ apply_acon (ALeaf k) = [k])) /\
  (forall a b c d e f g h i, gen_equals a b c d e f g h i = equals_skel a b c d e f g h i) /\
  (forall a b c d e f g h, gen_in a b c d e f g h = in_skel a b c d e f g h) /\
  (forall l use_is s positive, wf_obj l = true ->
     pred_equals l use_is s positive =
     einterp (equals_skel (is_known_b (sbase s))
                (Bool.eqb (if use_is then obj_eqb (known_obj (sbase s)) l else py_eq (known_obj (sbase s)) l) positive)
                positive (assignable_lit s l) (is_bool_lit l) (is_typed_b (sbase s))
                (cls_eqb (nominal_cls (sbase s)) CBool) (is_enum_lit l)
                (cls_eqb (nominal_cls (sbase s)) (class_of l))) s l) /\
  (forall ls s positive,
     pred_in ls s positive =
     iinterp (in_skel (is_known_b (sbase s)) (existsb (py_eq (known_obj (sbase s))) ls) positive true
                (match filter (assignable_lit s) ls with [] => false | _ => true end)
                (match in_pattern_type ls with Some c => is_enum c | None => false end)
                (match sbase s with VTyped _ => true | _ => false end)
                (match in_pattern_type ls, sbase s with Some c, VTyped c' => cls_eqb c c' | _, _ => false end)) s ls).
Proof.
  exact (conj invert_tie (conj gen_equals_agrees (conj gen_in_agrees (conj pred_equals_is_skel pred_in_is_skel)))).
Qed.
Print Assumptions C02_constraint_algebra_tie.

(* (1) the object that takes a branch is still in the type assigned in that branch:
   all condition kinds, arbitrary not/and/or nesting, both polarities, any union V *)
Theorem C02_narrow_keeps_value_partial : forall V c pol o,
  member o V = true -> holds c o = Some pol -> c02_guard c o = true ->
  member o (narrow V c pol) = true.
Proof. exact narrow_keeps_value_partial. Qed.
Print Assumptions C02_narrow_keeps_value_partial.

(* the full statement (no clause of the guard except well-formedness) is false for the
   faithful model of the unchanged code; one witness per guard clause *)
Theorem C02_narrow_keeps_value_refuted : ~ narrow_keeps_value_full_statement.
Proof. exact narrow_keeps_value_refuted. Qed.
Print Assumptions C02_narrow_keeps_value_refuted.

Theorem C02_promotion_negative_refuted :
  exists V c pol o, wf_obj o = true /\ cond_ok c o = true /\ member o V = true /\ holds c o = Some pol /\
    promotion_negative c o = true /\ member o (narrow V c pol) = false.
Proof. exact promotion_negative_refuted. Qed.
Print Assumptions C02_promotion_negative_refuted.

Theorem C02_subclass_bool_refuted :
  exists V c pol o, wf_obj o = true /\ cond_ok c o = true /\ member o V = true /\ holds c o = Some pol /\
    subclass_bool o = true /\ member o (narrow V c pol) = false.
Proof. exact subclass_bool_refuted. Qed.
Print Assumptions C02_subclass_bool_refuted.

Theorem C02_multiple_inheritance_refuted :
  exists V c pol o, wf_obj o = true /\ cond_ok c o = true /\ member o V = true /\ holds c o = Some pol /\
    multiple_inheritance o = true /\ member o (narrow V c pol) = false.
Proof. exact multiple_inheritance_refuted. Qed.
Print Assumptions C02_multiple_inheritance_refuted.

Theorem C02_enum_class_object_refuted :
  exists V c pol o, wf_obj o = true /\ cond_ok c o = true /\ member o V = true /\ holds c o = Some pol /\
    enum_class_object o = true /\ member o (narrow V c pol) = false.
Proof. exact enum_class_object_refuted. Qed.
Print Assumptions C02_enum_class_object_refuted.

Theorem C02_sequence_pattern_str_refuted :
  exists V c pol o, wf_obj o = true /\ cond_ok c o = true /\ member o V = true /\ holds c o = Some pol /\
    sequence_pattern_str c o = true /\ member o (narrow V c pol) = false.
Proof. exact sequence_pattern_str_refuted. Qed.
Print Assumptions C02_sequence_pattern_str_refuted.

Theorem C02_assert_promotion_refuted :
  exists V c pol o, wf_obj o = true /\ cond_ok c o = true /\ member o V = true /\ holds c o = Some pol /\
    assert_promotion c o = true /\ member o (narrow V c pol) = false.
Proof. exact assert_promotion_refuted. Qed.
Print Assumptions C02_assert_promotion_refuted.

Theorem C02_generic_pattern_negative_refuted :
  exists V c pol o, wf_obj o = true /\ cond_ok c o = true /\ member o V = true /\ holds c o = Some pol /\
    generic_pattern_negative c o = true /\ member o (narrow V c pol) = false.
Proof. exact generic_pattern_negative_refuted. Qed.
Print Assumptions C02_generic_pattern_negative_refuted.

(* after the repair of the positive is_instance / is_value branches *)
Example C02_assert_promotion_repaired :
  narrow [plain (VTyped CFloat)] (CAssertInst CInt) true = [plain (VTyped CInt)] /\
  c02_guard (CAssertInst CInt) (OInt 1) = true /\ holds (CAssertInst CInt) (OInt 1) = Some true /\
  narrow [plain (VTyped CFloat)] (CAssertIs (OBool true)) true = [plain (VKnown (OBool true))] /\
  narrow [plain (VSub CFloat)] (CAssertIs (OClass CInt)) true = [plain (VKnown (OClass CInt))].
Proof. exact assert_promotion_repaired. Qed.
Print Assumptions C02_assert_promotion_repaired.

(* after the repair of _deliteral: TypeIs[list[str]] on x: list[int] keeps the empty list *)
Example C02_generic_typeis_positive :
  narrow [plain (VGen (GList TIntE))] (CTypeIs [VGen (GList TStrE)]) true = [plain (VGen (GList TStrE))] /\
  c02_guard (CTypeIs [VGen (GList TStrE)]) (OList []) = true /\
  holds (CTypeIs [VGen (GList TStrE)]) (OList []) = Some true.
Proof. exact generic_typeis_positive. Qed.
Print Assumptions C02_generic_typeis_positive.

(* match statements: `case [a, b, *rest]` on a union of tuples of different lengths keeps exactly
   the tuples that can match, and the object that matches is covered by the main theorem *)
Example C02_match_seq_example :
  let V := [plain (VTuple [(false, TIntE)]); plain (VTuple [(false, TIntE); (false, TStrE)]);
            plain (VTuple [(false, TIntE); (false, TStrE); (false, TNoneE)]); plain (VTyped CStr)] in
  let c := match_seq [EWild; EWild] true [] in
  narrow V c true = [plain (VTuple [(false, TIntE); (false, TStrE)]);
                     plain (VTuple [(false, TIntE); (false, TStrE); (false, TNoneE)]);
                     plain (VGen GSeqPat)] /\
  holds c (OTuple [LInt 1; LStr []]) = Some true /\ c02_guard c (OTuple [LInt 1; LStr []]) = true /\
  holds c (OTuple [LInt 1]) = Some false /\ holds c (OStr [97%N]) = Some false /\
  narrow V c false = V.
Proof. exact match_seq_example. Qed.
Print Assumptions C02_match_seq_example.

Example C02_narrow_guard_inhabited :
  let V := [plain (VTyped CInt); plain (VTyped CStr); plain (VKnown ONone); plain (VTyped CE)] in
  let c := CAnd (CNot (CIs ONone)) (COr (CIsInstance [CInt; CBool]) (CEq (OEnum CE 0))) in
  c02_guard c (OInt 3) = true /\ holds c (OInt 3) = Some true /\
  c02_guard c (OStr [97%N]) = true /\ holds c (OStr [97%N]) = Some false /\
  narrow V c true = [plain (VTyped CInt); plain (VKnown (OEnum CE 0))] /\
  member (OStr [97%N]) (narrow V c false) = true /\ member (OInt 3) (narrow V c false) = false.
Proof. exact narrow_guard_inhabited. Qed.
Print Assumptions C02_narrow_guard_inhabited.

(* (2) nothing outside the original type and the tested type (no guard); membership
   modulo the MinLen/MaxLen annotations of V, exact for unannotated V *)
Theorem C02_narrow_no_widening : forall V c pol o,
  member o (narrow V c pol) = true -> bmember o V = true \/ bmember o (tested c) = true.
Proof. exact narrow_no_widening. Qed.
Print Assumptions C02_narrow_no_widening.

Theorem C02_narrow_no_widening_plain : forall V c pol o,
  unannotated V = true -> unannotated (tested c) = true ->
  member o (narrow V c pol) = true -> member o V = true \/ member o (tested c) = true.
Proof. exact narrow_no_widening_plain. Qed.
Print Assumptions C02_narrow_no_widening_plain.

(* union-valued conditions (`(a) if f() else (b)`, AlternativesConstraint): covered by the main theorem
   (CIfExp); neither branch may become empty when the two members disagree *)
Example C02_alternatives_example :
  let V := [plain (VKnown ONone); plain (VTuple [(true, TIntE)]); plain (VKnown (OInt 1))] in
  let c := CIfExp true (CIsInstance [CStr]) (CNot (CIsInstance [CStr])) in
  narrow V c false = V /\ narrow V c true = V /\
  holds c (OInt 1) = Some false /\ holds (CIfExp false (CIsInstance [CStr]) (CNot (CIsInstance [CStr]))) (OInt 1) = Some true /\
  c02_guard c (OInt 1) = true.
Proof. exact alternatives_example. Qed.
Print Assumptions C02_alternatives_example.

(* (1')/(2') the same two statements for what an `if` makes of x end to end, where visit_BoolOp
   first merges a narrowed copy of x (by the first operand) into the variable *)
Theorem C02_narrow_e2e_keeps_value_partial : forall V c pol o,
  member o V = true -> holds c o = Some pol -> c02_guard c o = true ->
  member o (narrow_e2e V c pol) = true.
Proof. exact narrow_e2e_keeps_value_partial. Qed.
Print Assumptions C02_narrow_e2e_keeps_value_partial.

Theorem C02_narrow_e2e_no_widening : forall V c pol o,
  member o (narrow_e2e V c pol) = true -> bmember o V = true \/ bmember o (tested c) = true.
Proof. exact narrow_e2e_no_widening. Qed.
Print Assumptions C02_narrow_e2e_no_widening.

(* (1'') stored conditions (`flag = <cond on x>; ...; if flag:`): FunctionScope._add_single_constraint applies the
   constraint only if every definition of x reaching the branch was current at the condition (the test is read
   off the source: gen_stale_test); then the object bound through any reaching definition d is kept *)
Theorem C02_stored_narrow_keeps_value : forall cur cons V c pol o d,
  In d cur -> member o V = true -> (In d cons -> holds c o = Some pol) -> c02_guard c o = true ->
  member o (stored_narrow cur cons V c pol) = true.
Proof. exact stored_narrow_keeps_value. Qed.
Print Assumptions C02_stored_narrow_keeps_value.

Theorem C02_stale_test_tie : gen_stale_test = model_stale_test.
Proof. exact stale_test_tie. Qed.
Print Assumptions C02_stale_test_tie.

(* the is_instance / is_value branches of Constraint.apply_to_value, translated from source, are the model's
   apply_isinstance / apply_isvalue *)
Theorem C02_apply_branches_tie :
  (forall a b c d e f g h i j k l, gen_isinstance_apply a b c d e f g h i j k l = isinstance_apply_skel a b c d e f g h i j k l) /\
  (forall a b c d e f g h i j k l m, gen_isvalue_apply a b c d e f g h i j k l m = isvalue_apply_skel a b c d e f g h i j k l m) /\
  (forall c positive s,
     apply_isinstance c positive s =
     ainterp (isinstance_apply_skel (is_any_b (sbase s)) positive (is_known_b (sbase s)) (isinst (known_obj (sbase s)) c)
                (is_typed_b (sbase s)) false (sub (nominal_cls (sbase s)) c) (sub c (nominal_cls (sbase s)))
                (promotable c (nominal_cls (sbase s))) (is_sub_b (sbase s)) true (isinst (OClass (sub_cls (sbase s))) c))
             s (plain VAny) (plain (VTyped c))) /\
  (forall l positive s,
     apply_isvalue l positive s =
     ainterp (isvalue_apply_skel (is_any_b (sbase s)) positive (is_known_b (sbase s)) (obj_eqb (known_obj (sbase s)) l)
                (is_typed_b (sbase s)) (isinst l (nominal_cls (sbase s))) (promotable (class_of l) (nominal_cls (sbase s)))
                (is_sub_b (sbase s)) true (is_class_obj l) true (sub (class_obj l) (sub_cls (sbase s)))
                (promotable (class_obj l) (sub_cls (sbase s))))
             s (plain VAny) (plain (VKnown l))).
Proof. exact apply_branches_tie. Qed.
Print Assumptions C02_apply_branches_tie.

(* the loops of Constraint.apply_to_values / _apply_compound / _constrain_value have the model's shape *)
Theorem C02_loops_tie :
  (gen_oneof_concat = true /\ forall cs s, apply_constr (KOneOf cs) s = flat_map (fun c => apply_constr c s) cs) /\
  (gen_allof_sequential = true /\ gen_apply_values_flatmap = true /\
   forall cs s, apply_constr (KAllOf cs) s = fold_left (fun vals c => flat_map (apply_constr c) vals) cs [s]) /\
  (gen_predicate_is_provider = true /\ forall p pos s, apply_constr (KPred p pos) s = apply_pred p s pos) /\
  (gen_constrain_fold = true /\ gen_constrain_applies = true /\
   forall v a, constrain v a = fold_left (fun vals k => flat_map (apply_constr k) vals) (apply_acon a) v).
Proof. exact loops_tie. Qed.
Print Assumptions C02_loops_tie.

(* (1c) `x in "<s>"` / `x not in "<s>"` (round 4): a container whose own __contains__ is not element-wise.
   InPredicate receives the container itself (read off the source) and, since the repair of
   C02-in-nonelementwise-container, leaves a non-Literal member alone unless the container is element-wise (part of
   the translated InPredicate skeleton): keeps-value holds without any clause.  The rule before the repair needed
   the clause nonelementwise_container and is refuted without it; the seeded rule (InPredicate receives the iterated
   elements) loses a Literal member *)
Theorem C02_in_arg_tie : gen_in_arg = model_in_arg.
Proof. exact in_arg_tie. Qed.
Print Assumptions C02_in_arg_tie.

Theorem C02_instr_keeps_value : forall V s pol o,
  wf_obj o = true -> member o V = true -> holds_instr s o = Some pol ->
  member o (instr_narrow V s pol) = true.
Proof. exact instr_keeps_value. Qed.
Print Assumptions C02_instr_keeps_value.

Theorem C02_instr_model_is_skeleton : forall s sv positive,
  is_known_b (sbase sv) = false ->
  pred_instr_with model_in_arg model_typed_rule s sv positive =
  iinterp (in_skel false false positive false
             (match filter (assignable_lit sv) (str_chars s) with [] => false | _ => true end)
             (match in_pattern_type (str_chars s) with Some c => is_enum c | None => false end)
             (match sbase sv with VTyped _ => true | _ => false end)
             (match in_pattern_type (str_chars s), sbase sv with Some c, VTyped c' => cls_eqb c c' | _, _ => false end))
          sv (str_chars s).
Proof. exact pred_instr_typed_is_skel. Qed.
Print Assumptions C02_instr_model_is_skeleton.

Theorem C02_instr_literals_kept : forall tr V s pol o,
  all_known V = true -> member o V = true -> holds_instr s o = Some pol ->
  member o (instr_narrow_with model_in_arg tr V s pol) = true.
Proof. exact instr_literals_kept. Qed.
Print Assumptions C02_instr_literals_kept.

(* statements about the rule InPredicate followed before the repair (not HEAD) *)
Theorem C02_instr_iterate_rule_keeps_value_partial : forall V s pol o,
  wf_obj o = true -> member o V = true -> holds_instr s o = Some pol -> nonelementwise_container s o = false ->
  member o (instr_narrow_with model_in_arg IterateAlways V s pol) = true.
Proof. exact instr_iterate_rule_keeps_value_partial. Qed.
Print Assumptions C02_instr_iterate_rule_keeps_value_partial.

Theorem C02_instr_iterate_rule_refuted :
  exists V s o, wf_obj o = true /\ member o V = true /\ holds_instr s o = Some true /\
    nonelementwise_container s o = true /\ member o (instr_narrow_with model_in_arg IterateAlways V s true) = false.
Proof. exact instr_iterate_rule_refuted. Qed.
Print Assumptions C02_instr_iterate_rule_refuted.

Theorem C02_instr_elements_rule_refuted :
  exists V s o, all_known V = true /\ member o V = true /\ holds_instr s o = Some true /\
    member o (instr_narrow_with ArgElements model_typed_rule V s true) = false.
Proof. exact instr_elements_rule_refuted. Qed.
Print Assumptions C02_instr_elements_rule_refuted.

(* the rule removed by 180079d (a helper's constraint applied to the caller's variable of the same name): not a
   statement about HEAD; the main theorem's hypothesis "the condition was evaluated on the bound object" is what
   that rule violated *)
Theorem C02_callee_leak_rule_refuted :
  exists V c pol o o', member o V = true /\ holds c o' = Some pol /\ c02_guard c o' = true /\
    member o (leak_narrow V c pol) = false.
Proof. exact callee_leak_rule_refuted. Qed.
Print Assumptions C02_callee_leak_rule_refuted.

(* `case <pattern> as p` (finding C02-subpattern-constraint-on-subject, = C01's): fine without sub-patterns,
   refuted with them *)
Theorem C02_as_bound_without_subpatterns : forall V whole o,
  member o V = true -> holds whole o = Some true -> c02_guard (CAnd whole CAlways) o = true ->
  member o (as_bound V whole CAlways) = true.
Proof. exact as_bound_without_subpatterns. Qed.
Print Assumptions C02_as_bound_without_subpatterns.

Theorem C02_subpattern_on_subject_refuted :
  exists V whole sub o, member o V = true /\ holds whole o = Some true /\ c02_guard whole o = true /\
    member o (as_bound V whole sub) = false.
Proof. exact subpattern_on_subject_refuted. Qed.
Print Assumptions C02_subpattern_on_subject_refuted.

(* (1d) round 5: the evaluated COMPARATOR_TO_OPERATOR table (all ten operators: each positive operator computes its
   comparison, each negative operator is the complement), and `len(x) in C` / `len(x) not in C`: keeps-value; the
   seeded rule (the negative operator of `in` is not the complement) is refuted *)
Theorem C02_comparator_table_agrees : forallb cmp_row_ok gen_cmp_rows = true.
Proof. exact comparator_table_agrees. Qed.
Print Assumptions C02_comparator_table_agrees.

Theorem C02_lenin_keeps_value : forall V ns pol o,
  member o V = true -> holds_lenin ns o = Some pol -> member o (lenin_narrow V ns pol) = true.
Proof. exact lenin_keeps_value. Qed.
Print Assumptions C02_lenin_keeps_value.

Theorem C02_lenin_seeded_rule_refuted :
  exists V ns pol o, member o V = true /\ holds_lenin ns o = Some pol /\
    member o (lenin_narrow_with false V ns pol) = false.
Proof. exact lenin_seeded_rule_refuted. Qed.
Print Assumptions C02_lenin_seeded_rule_refuted.

Theorem C02_stored_disjoint_rule_refuted :
  exists cur cons V c pol o d,
    In d cur /\ member o V = true /\ (In d cons -> holds c o = Some pol) /\ c02_guard c o = true /\
    member o (stored_narrow_with StaleIfDisjoint cur cons V c pol) = false.
Proof. exact stored_disjoint_rule_refuted. Qed.
Print Assumptions C02_stored_disjoint_rule_refuted.

(* (3) always-false / always-true verdicts of get_boolability are right for every member *)
Theorem C02_always_false_correct : forall V o,
  is_safely_false (boolab_of V) = true -> member o V = true -> truthy o = false.
Proof. exact always_false_correct. Qed.
Print Assumptions C02_always_false_correct.

Theorem C02_always_true_correct_partial : forall V o,
  is_safely_true (boolab_of V) = true -> member o V = true -> subclass_bool o = false ->
  truthy o = true.
Proof. exact always_true_correct_partial. Qed.
Print Assumptions C02_always_true_correct_partial.

Theorem C02_always_true_refuted : ~ always_true_full_statement.
Proof. exact always_true_refuted. Qed.
Print Assumptions C02_always_true_refuted.

Example C02_verdict_guard_inhabited :
  is_safely_true (boolab_of [plain (VTyped CA); plain (VKnown (OInt 3)); plain (VSub CInt)]) = true /\
  subclass_bool (OInst CB 0%N) = false /\ member (OInst CB 0%N) [plain (VTyped CA)] = true /\
  is_safely_false (boolab_of [plain (VKnown ONone); plain (VKnown (OInt 0)); plain (VTuple [])]) = true /\
  boolab_of [plain (VTyped CA); plain (VKnown ONone)] = boolable.
Proof. exact verdict_guard_inhabited. Qed.
Print Assumptions C02_verdict_guard_inhabited.

(* (4) the constraint algebra: inversion is an involution, `not` swaps the branches,
   De Morgan holds on the nose *)
Theorem C02_invert_involutive : forall a, invert (invert a) = a.
Proof. exact invert_involutive. Qed.
Print Assumptions C02_invert_involutive.

Theorem C02_not_swaps_branches : forall V c pol, narrow V (CNot c) pol = narrow V c (negb pol).
Proof. exact not_swaps_branches. Qed.
Print Assumptions C02_not_swaps_branches.

Theorem C02_de_morgan : forall V a b pol,
  narrow V (CNot (CAnd a b)) pol = narrow V (COr (CNot b) (CNot a)) pol /\
  narrow V (CNot (COr a b)) pol = narrow V (CAnd (CNot b) (CNot a)) pol.
Proof. exact de_morgan. Qed.
Print Assumptions C02_de_morgan.

(* (5) one notion of membership: on the common fragment (un-annotated Any / plain literals / classes /
   type[...] / list[t] / dict[k, v]; objects other than enum classes) C02's membership spec is the shared
   Core/Member.v spec instantiated with the C02 class table (whose promotion-aware subclass test
   sub_promo is TypeObject.can_assign's sub_art), and the main theorem holds for Core's member *)
Theorem C02_sub_promo_is_sub_art : forall a b, C.sub_promo narrow_ct (code a) (code b) = sub_art a b.
Proof. exact sub_promo_is_sub_art. Qed.
Print Assumptions C02_sub_promo_is_sub_art.

Theorem C02_member_narrow_iff_member_core : forall v o,
  common_value v = true -> common_obj o = true ->
  M.member narrow_ct (emb_value v) (emb o) = member o v.
Proof. exact member_narrow_iff_member_core. Qed.
Print Assumptions C02_member_narrow_iff_member_core.

Theorem C02_narrow_keeps_value_core : forall V c pol o,
  common_value V = true -> common_value (narrow V c pol) = true -> common_obj o = true ->
  M.member narrow_ct (emb_value V) (emb o) = true -> holds c o = Some pol -> c02_guard c o = true ->
  M.member narrow_ct (emb_value (narrow V c pol)) (emb o) = true.
Proof. exact narrow_keeps_value_core. Qed.
Print Assumptions C02_narrow_keeps_value_core.

Example C02_core_bridge_inhabited :
  let V := [plain (VTyped CFloat); plain (VKnown ONone); plain (VGen (GList TIntE)); plain (VSub CA)] in
  common_value V = true /\ common_obj (OInt 1) = true /\ common_obj (OList [LInt 1]) = true /\
  M.member narrow_ct (emb_value V) (emb (OInt 1)) = true /\
  M.member narrow_ct (emb_value V) (emb (OList [LInt 1])) = true /\
  M.member narrow_ct (emb_value V) (emb (OList [LStr []])) = false /\
  M.member narrow_ct (emb_value V) (emb (OClass CB)) = true /\
  common_value (narrow V (CIsInstance [CInt]) true) = true.
Proof. exact core_bridge_inhabited. Qed.
Print Assumptions C02_core_bridge_inhabited.
