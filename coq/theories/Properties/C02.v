(* Properties/C02.v — narrowing never loses the actual value and never widens.
   Only statements, `exact`, and Print Assumptions.  Model: PV.Narrow.* (hand
   written, tied to the code by the correspondence check harness/c02.py);
   PV.Gen.NarrowTable is regenerated from pyanalyze on every run. *)
From Coq Require Import ZArith List Bool NArith.
Import ListNotations.
Require Import PV.Narrow.Base PV.Narrow.Model PV.Narrow.Guards.
Require Import PV.Gen.NarrowTable.
Require Import PV.Proofs.NarrowBasics.

(* the class table, boolability table, Boolability enum and the comparison
   reversal table dumped from the implementation equal the model's *)
Theorem C02_generated_tables_agree : tables_agree = true /\ forall op, gen_neg_op op = neg_op op.
Proof. exact (conj gen_tables_agree gen_neg_op_agrees). Qed.
Print Assumptions C02_generated_tables_agree.

Theorem C02_invert_involutive : forall a, invert (invert a) = a.
Proof. exact invert_involutive. Qed.
Print Assumptions C02_invert_involutive.
