(* Properties/C03.v — assignability of a concrete value equals runtime membership.
   `ca` (Core/CanAssignK.v) models T.can_assign(KnownValue(o)) = runtime.is_assignable;
   `member` (Core/Member.v) is the structural-membership spec; `table` is
   Gen/ClassTable.v, dumped from the running implementation on every run. *)
From Coq Require Import ZArith List Bool NArith.
Import ListNotations.
Require Import PV.Core.Obj PV.Core.Val PV.Core.Cls PV.Core.Member PV.Core.CanAssignK PV.Core.C03Run.
Require Import PV.Proofs.C03Main PV.Proofs.C03Okb PV.Proofs.C03Witness PV.Gen.ClassTable.

(* for every class table: on every (type, object) pair derivable in the guard [ok]
   the model of is_assignable computes exactly the membership spec *)
Theorem C03_known_assign_iff_member_partial : forall ct T o, ok ct T o -> ca ct T o = member ct T o.
Proof. exact ok_ca_member. Qed.
Print Assumptions C03_known_assign_iff_member_partial.

(* the guard is decidable: okb (Core/C03Run.v) is a boolean procedure that implies ok;
   the harness evaluates okb on every generated case *)
Theorem C03_okb_sound : forall ct T o, okb ct T o = true -> ok ct T o.
Proof. exact okb_sound. Qed.
Print Assumptions C03_okb_sound.

Theorem C03_known_assign_iff_member_decidable : forall ct T o, okb ct T o = true -> ca ct T o = member ct T o.
Proof. exact okb_ca_member. Qed.
Print Assumptions C03_known_assign_iff_member_decidable.

Example C03_okb_examples :
  okb table ex_T ex_o = true /\ okb table ex_td ex_td_obj = true /\ ca table ex_td ex_td_obj = true /\
  okb table ex_T2 ex_o2 = true /\ member table ex_T2 ex_o2 = true.
Proof. exact okb_examples. Qed.
Print Assumptions C03_okb_examples.

(* uniting the element literals before checking them is harmless when nothing is merged *)
Theorem C03_dedup_safe_elements : forall (f : obj -> bool) es,
  length (dedup_lits es) = length es -> forallb f (dedup_lits es) = forallb f es.
Proof. exact forallb_dedup_safe. Qed.
Print Assumptions C03_dedup_safe_elements.

(* side conditions of [ok] on the table dumped from the implementation *)
Theorem C03_table_nominal_ok :
  forallb (fun c => forallb (fun d => Bool.eqb (nominal table c d) (sub_promo table c d)) classes) instance_classes = true.
Proof. exact table_nominal_ok. Qed.
Print Assumptions C03_table_nominal_ok.

Theorem C03_table_generic_ok :
  forallb (fun c => forallb (seq_table_ok c) generic_targets) [c_list; c_tuple; c_set; c_frozenset; c_dict] = true.
Proof. exact table_generic_ok. Qed.
Print Assumptions C03_table_generic_ok.

(* the unguarded statement is false on the unchanged code: three classes *)
Theorem C03_variadic_member_refuted : ~ c03_full_statement.
Proof. exact variadic_member_refuted. Qed.
Print Assumptions C03_variadic_member_refuted.

Example C03_literal_dedup_repaired :
  let T := VNode (TGeneric c_list) [tup2 t_int t_bool] in
  let o := OList 1 [OTuple 0 [OInt 1; OBool true]; OTuple 0 [OInt 1; OInt 1]] in
  ca table T o = false /\ member table T o = false /\ dedup_lits [OTuple 0 [OInt 1; OBool true]; OTuple 0 [OInt 1; OInt 1]] = [OTuple 0 [OInt 1; OBool true]; OTuple 0 [OInt 1; OInt 1]].
Proof. exact literal_dedup_repaired. Qed.
Print Assumptions C03_literal_dedup_repaired.

Theorem C03_typeddict_nonstr_key_refuted : ~ c03_full_statement.
Proof. exact typeddict_nonstr_key_refuted. Qed.
Print Assumptions C03_typeddict_nonstr_key_refuted.

Theorem C03_str_by_type_refuted : ~ c03_full_statement.
Proof. exact str_by_type_refuted. Qed.
Print Assumptions C03_str_by_type_refuted.

Example C03_guard_inhabited : ok table ex_T ex_o /\ ca table ex_T ex_o = true /\ member table ex_T ex_o = true.
Proof. exact guard_inhabited. Qed.
Print Assumptions C03_guard_inhabited.
