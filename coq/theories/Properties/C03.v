(* Properties/C03.v — assignability of a concrete value equals runtime membership. *)
From Coq Require Import ZArith List Bool NArith.
Import ListNotations.
Require Import PV.Core.Obj PV.Core.Val PV.Core.Cls PV.Core.Member PV.Core.CanAssignK PV.Core.C03Run.
Require Import PV.Gen.ClassTable.

(* the dumped table has bool <: int and the promotions int -> float -> complex *)
Example C03_table_promotions :
  nominal table c_bool c_int = true /\ nominal table c_int c_float = true /\
  nominal table c_bool c_complex = true /\ nominal table c_float c_int = false /\
  nominal table c_str c_int = false.
Proof. vm_compute. repeat split; reflexivity. Qed.
Print Assumptions C03_table_promotions.
