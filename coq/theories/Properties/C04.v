(* Properties/C04.v — placeholder replaced below *)
From Coq Require Import ZArith List Bool NArith.
Import ListNotations.
Require Import PV.Core.Obj PV.Core.Val PV.Core.Cls PV.Core.Member PV.Core.CanAssignK PV.Core.CanAssign.
Require Import PV.Gen.ClassTable.

Example C04_smoke : can_assign table false (VLeaf (LTyped c_float false)) (VLeaf (LTyped c_int false)) = true.
Proof. vm_compute. reflexivity. Qed.
Print Assumptions C04_smoke.
