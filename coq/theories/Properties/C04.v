(* Properties/C04.v — type-to-type assignability: lattice laws, Any, nominal soundness.
   `can_assign_f ct n excl A B` (Core/CanAssign.v) models A.can_assign(B, ctx) with
   ctx.should_exclude_any() = excl; `table` is Gen/ClassTable.v (dumped on every run). *)
From Coq Require Import ZArith List Bool NArith.
Import ListNotations.
Require Import PV.Core.Obj PV.Core.Val PV.Core.Cls PV.Core.Member PV.Core.CanAssignK PV.Core.CanAssign PV.Core.C04Run.
Require Import PV.Proofs.C04Laws PV.Proofs.C04Mono PV.Proofs.C04Refl PV.Proofs.C04Simple PV.Proofs.C04Sound PV.Proofs.C04Witness PV.Gen.ClassTable.

(* a union is accepted exactly when each member is (every class table, fuel, mode) *)
Theorem C04_union_right_iff_all : forall ct n e A bs,
  head_ok A = true ->
  can_assign_f ct (S n) e A (VUnion bs) = forallb (can_assign_f ct n e A) bs.
Proof. exact union_right_iff_all. Qed.
Print Assumptions C04_union_right_iff_all.

(* Never is accepted everywhere *)
Theorem C04_never_bottom : forall ct n e A, head_ok A = true -> can_assign_f ct (S n) e A VNever = true.
Proof. exact never_bottom. Qed.
Print Assumptions C04_never_bottom.

(* a union accepts whatever one of its members accepts *)
Theorem C04_union_left_iff_some : forall ct n e vs B,
  plain B = true ->
  can_assign_f ct (S n) e (VUnion vs) B = existsb (fun a => can_assign_f ct n e a B) vs.
Proof. exact union_left_iff_some. Qed.
Print Assumptions C04_union_left_iff_some.

Theorem C04_union_left_if_some_union : forall ct n e vs a bs,
  In a vs -> head_ok a = true -> forallb plain bs = true ->
  can_assign_f ct (S (S n)) e a (VUnion bs) = true ->
  can_assign_f ct (S (S (S n))) e (VUnion vs) (VUnion bs) = true.
Proof. exact union_left_if_some_union. Qed.
Print Assumptions C04_union_left_if_some_union.

(* Any is accepted by and accepts every value *)
Theorem C04_any_right : forall ct n A s, head_ok A = true -> can_assign_f ct (S n) false A (VLeaf (LAny s)) = true.
Proof. exact any_right. Qed.
Print Assumptions C04_any_right.

Theorem C04_any_left : forall ct n e s B, plain B = true -> can_assign_f ct (S n) e (VLeaf (LAny s)) B = true.
Proof. exact any_left. Qed.
Print Assumptions C04_any_left.

Theorem C04_annotated_left : forall ct n e md t B,
  can_assign_f ct (S n) e (VNode (TAnnot md) [t]) B = can_assign_f ct n e t B.
Proof. exact annotated_left. Qed.
Print Assumptions C04_annotated_left.

(* switching on "Any only matches Any" never turns a rejection into an acceptance *)
Theorem C04_exclude_any_monotone : forall ct n A B,
  can_assign_f ct n true A B = true -> can_assign_f ct n false A B = true.
Proof. exact exclude_any_monotone. Qed.
Print Assumptions C04_exclude_any_monotone.

(* fuel adequacy: more fuel never turns an acceptance into a rejection *)
Theorem C04_fuel_monotone : forall ct e n m A B, n <= m ->
  can_assign_f ct n e A B = true -> can_assign_f ct m e A B = true.
Proof. exact fuel_mono. Qed.
Print Assumptions C04_fuel_monotone.

(* every value of the reflexive fragment accepts itself, in both modes, for every class table *)
Theorem C04_reflexive : forall ct e A, refl_ok ct A = true ->
  exists n, forall m, n <= m -> can_assign_f ct m e A A = true.
Proof. exact reflexive. Qed.
Print Assumptions C04_reflexive.

Example C04_refl_ok_example :
  refl_ok table (VUnion [VNode (TGeneric c_dict) [VLeaf (LTyped c_str false); VNode (TSeq c_tuple [false; false]) [VUnion [VLeaf (LTyped c_int false); VLeaf (LKnown ONone)]; VLeaf (LTyped c_int false); VLeaf (LKnown ONone)]];
                         VNode (TAnnot [1%N]) [VNode (TSubclass false) [VLeaf (LTyped c_float false)]];
                         VLeaf (LNewType 1 c_int); VLeaf (LAny 2)]) = true.
Proof. exact refl_ok_example. Qed.
Print Assumptions C04_refl_ok_example.

(* ---- the simple fragment (Any, nominally compared classes, scalar literals, unions of those):
   what the type-variable solver (C15) manipulates ---- *)
(* closed form: beyond 3 units of fuel the verdict is TypeVar/Simple.v's s_acc over the atom relation *)
Theorem C04_simple_closed_form : forall ct n A B, simple A = true -> simple B = true ->
  can_assign_f ct (S (S (S n))) false A B = acc_simple ct A B.
Proof. exact simple_closed_form. Qed.
Print Assumptions C04_simple_closed_form.

(* transitive through a middle value that is not Any, for every class table whose nominal
   relation is transitive into nominally compared classes *)
Theorem C04_simple_transitive : forall ct, tassign_transitive ct -> nominal_upward ct ->
  forall A B C, simple A = true -> simple B = true -> simple C = true -> not_any B = true ->
  acc_simple ct A B = true -> acc_simple ct B C = true -> acc_simple ct A C = true.
Proof. exact acc_simple_trans. Qed.
Print Assumptions C04_simple_transitive.

(* ... and both table facts hold, for all class codes, on the table dumped from the implementation *)
Theorem C04_table_tassign_transitive : tassign_transitive table.
Proof. exact table_tassign_transitive. Qed.
Print Assumptions C04_table_tassign_transitive.

Theorem C04_table_nominal_upward : nominal_upward table.
Proof. exact table_nominal_upward. Qed.
Print Assumptions C04_table_nominal_upward.

Theorem C04_simple_transitive_table : forall n A B C,
  simple A = true -> simple B = true -> simple C = true -> not_any B = true ->
  can_assign_f table (S (S (S n))) false A B = true -> can_assign_f table (S (S (S n))) false B C = true ->
  can_assign_f table (S (S (S n))) false A C = true.
Proof. exact simple_transitive_table. Qed.
Print Assumptions C04_simple_transitive_table.

Theorem C04_simple_reflexive_table : forall n A,
  simple A = true -> forallb (atom_ok table) (atoms_of A) = true ->
  can_assign_f table (S (S (S n))) false A A = true.
Proof. exact simple_reflexive_table. Qed.
Print Assumptions C04_simple_reflexive_table.

(* ---- membership-soundness beyond the nominal core.  strict_f (Core/CanAssign.v) derives
   acceptances with the sound rules only (no bare-generic / variadic-tuple / NewType leniency,
   scalar literals only); it is a decidable guard that the harness evaluates on every pair. ---- *)
(* a strict derivation is an acceptance of the full model ... *)
Theorem C04_strict_implies_accept : forall ct n A B,
  strict_f ct n A B = true -> can_assign_f ct n false A B = true.
Proof. exact strict_implies_accept. Qed.
Print Assumptions C04_strict_implies_accept.

(* ... and is sound for membership: unions and Annotated on both sides, classes, scalar literals,
   type[C], element containers and mappings through the generic-bases table, fixed tuples;
   by induction on the derivation, for every class table satisfying four facts *)
Theorem C04_strict_sound : forall ct, sound_facts ct -> forall n A B,
  strict_f ct n A B = true -> forall o, member ct B o = true -> member ct A o = true.
Proof. exact strict_sound. Qed.
Print Assumptions C04_strict_sound.

(* the four facts hold on the table dumped from the implementation, for all class codes *)
Theorem C04_table_sound_facts : sound_facts table.
Proof. exact table_sound_facts. Qed.
Print Assumptions C04_table_sound_facts.

Theorem C04_strict_sound_table : forall n A B o,
  strict_f table n A B = true -> member table B o = true -> member table A o = true.
Proof. exact strict_sound_table. Qed.
Print Assumptions C04_strict_sound_table.

Example C04_strict_examples :
  strict_f table 6 (VNode (TGeneric c_Sequence) [VUnion [t_cls c_float; t_none]])
                   (VNode (TGeneric c_list) [VUnion [t_cls c_bool; t_none]]) = true /\
  strict_f table 6 (VNode (TGeneric c_Mapping) [t_cls c_str; VNode (TSeq c_tuple [false; false]) [VUnion [t_cls c_int; t_cls 40]; t_cls c_int; t_cls 40]])
                   (VNode (TGeneric c_dict) [t_cls c_str; VNode (TSeq c_tuple [false; false]) [VUnion [t_cls c_bool; t_cls 41]; t_cls c_bool; t_cls 41]]) = true /\
  strict_f table 6 (VNode (TSubclass false) [t_cls 40]) (VNode (TSubclass false) [t_cls 41]) = true /\
  strict_f table 6 (VNode (TGeneric c_list) [t_cls c_int]) (t_cls c_list) = false.
Proof. exact strict_examples. Qed.
Print Assumptions C04_strict_examples.

(* obligations over the table dumped from the implementation *)
Theorem C04_table_nominal_refl : forallb (fun c => tassign table c c) classes = true.
Proof. exact table_nominal_refl. Qed.
Print Assumptions C04_table_nominal_refl.

Theorem C04_table_object_top : forallb (fun c => tassign table c c_object) classes = true.
Proof. exact table_object_top. Qed.
Print Assumptions C04_table_object_top.

Theorem C04_table_nominal_sound :
  forallb (fun c' => forallb (fun c => forallb (fun d =>
     implb (sub_promo table c' c && tassign table c d && negb (protocol_like d) && negb (protocol_like c)) (sub_promo table c' d))
     classes) classes) classes = true.
Proof. exact table_nominal_sound. Qed.
Print Assumptions C04_table_nominal_sound.

(* soundness at full strength is false: one genuine class, one documented leniency *)
Theorem C04_sound_refuted_newtype : ~ sound_full_statement.
Proof. exact sound_refuted_newtype. Qed.
Print Assumptions C04_sound_refuted_newtype.

Theorem C04_sound_refuted_bare_generic : ~ sound_full_statement.
Proof. exact sound_refuted_bare_generic. Qed.
Print Assumptions C04_sound_refuted_bare_generic.

Example C04_laws_example :
  let A := VUnion [VLeaf (LTyped c_float false); VNode (TGeneric c_list) [VLeaf (LTyped c_str false)]] in
  let B := VUnion [VLeaf (LTyped c_bool false); VLeaf (LKnown (OList 1 [OStr [97%N]]))] in
  can_assign table false A B = true /\ can_assign table true A B = true /\
  can_assign table false B A = false /\
  can_assign table false A (VLeaf (LAny 2)) = true /\ can_assign table true A (VLeaf (LAny 2)) = false.
Proof. exact laws_example. Qed.
Print Assumptions C04_laws_example.
