(* Properties/C05.v — argument-to-parameter binding agrees with CPython. *)
From Coq Require Import List Bool NArith PeanoNat.
Import ListNotations.
Require Import PV.Binder.Kind PV.Binder.Sig PV.Binder.Bind PV.Binder.PyBind.
Require Import PV.Proofs.BinderStar.
Open Scope N_scope.

Example C05_reject_complete_refuted_witness :
  let s := [mkParam 1 POK false; mkParam 2 POK false] in
  call_ok s [RStarUnknown; RKw 2] = false /\ py_bind s 1 [2] = true.
Proof. exact reject_complete_refuted_witness. Qed.
Print Assumptions C05_reject_complete_refuted_witness.
