(* Properties/C05.v — argument-to-parameter binding agrees with CPython.
   Only statements, `exact`, and Print Assumptions.

   Model      : PV.Binder.Bind   (preprocess_args + Signature.bind_arguments, repaired code)
   Spec       : PV.Binder.PyBind (CPython's argument-driven binding algorithm)
   Validity   : PV.Binder.Sig.valid_sig over PV.Gen.Kinds (tables regenerated from signature.py) *)
From Coq Require Import List Bool NArith PeanoNat.
Import ListNotations.
Require Import PV.Binder.Kind PV.Gen.Kinds PV.Binder.Sig PV.Binder.Bind PV.Binder.PyBind.
Require Import PV.Proofs.BinderConcrete PV.Proofs.BinderValid PV.Proofs.BinderStar.
Open Scope N_scope.

(* Concrete call shapes: for EVERY valid signature (any number of parameters of
   any kind / default pattern) and EVERY call with n definite positionals and
   distinct definite keywords, the binder model accepts iff CPython binds. *)
Theorem C05_bind_concrete_iff_pybind : forall s a,
  valid_sig s = true -> concrete a -> names_nodup (map fst (keywords a)) = true ->
  accepts s a = py_bind s (length (positionals a)) (map fst (keywords a)).
Proof. exact bind_concrete_iff_pybind. Qed.
Print Assumptions C05_bind_concrete_iff_pybind.

(* What Signature.validate guarantees (over the regenerated tables) *)
Theorem C05_valid_sig_shape : forall s, valid_sig s = true ->
  names_nodup (map pname s) = true /\ pos_before_vp s = true.
Proof. exact valid_sig_shape. Qed.
Print Assumptions C05_valid_sig_shape.

Example C05_reject_complete_refuted_witness :
  let s := [mkParam 1 POK false; mkParam 2 POK false] in
  call_ok s [RStarUnknown; RKw 2] = false /\ py_bind s 1 [2] = true.
Proof. exact reject_complete_refuted_witness. Qed.
Print Assumptions C05_reject_complete_refuted_witness.
