(* Properties/C05.v — argument-to-parameter binding agrees with CPython.
   Only statements, `exact`, and Print Assumptions.

   Model      : PV.Binder.Bind   (preprocess_args + Signature.bind_arguments, REPAIRED code,
                                  repo_fixes/C05-stranger-keyword.diff; `bind_legacy` = before)
   Spec       : PV.Binder.PyBind (CPython's argument-driven binding algorithm)
   Validity   : PV.Binder.Sig.valid_sig over PV.Gen.Kinds (tables regenerated from signature.py)

   `accepts s a = false`  <->  the call is reported (incompatible_call). *)
From Coq Require Import List Bool NArith PeanoNat.
Import ListNotations.
Require Import PV.Binder.Kind PV.Gen.Kinds PV.Binder.Sig PV.Binder.Bind PV.Binder.PyBind.
Require Import PV.Proofs.BinderConcrete PV.Proofs.BinderValid PV.Proofs.BinderStar PV.Proofs.BinderMain PV.Proofs.BinderDef PV.Proofs.BinderGen PV.Proofs.BinderPositions PV.Proofs.BinderRaw PV.Proofs.BinderOnce PV.Proofs.BinderUnion.
Require Import PV.Binder.BindCore PV.Gen.BinderShape.
Open Scope N_scope.

(* 1. Concrete call shapes: for EVERY valid signature (any number of parameters,
      any kinds / default pattern) and EVERY call with n definite positionals and
      distinct definite keywords, the binder accepts iff CPython binds. *)
Theorem C05_bind_concrete_iff_pybind : forall s a,
  valid_sig s = true -> concrete a -> names_nodup (map fst (keywords a)) = true ->
  accepts s a = py_bind s (length (positionals a)) (map fst (keywords a)).
Proof. exact bind_concrete_iff_pybind. Qed.
Print Assumptions C05_bind_concrete_iff_pybind.

(* 2. Star-arguments of unknown length, acceptance: an accepted call has an
      expansion (n >= 0 extra positionals for *args, a set of extra keywords
      for **kwargs) that CPython binds.  Full strength for the repaired code. *)
Theorem C05_bind_star_accept_sound : forall s a,
  valid_sig s = true -> definite a -> names_nodup (map fst (keywords a)) = true ->
  accepts s a = true ->
  exists npos' kws', expansion a npos' kws' /\ py_bind s npos' kws' = true.
Proof. exact bind_star_accept_sound. Qed.
Print Assumptions C05_bind_star_accept_sound.

(* 2'. ... and the unrepaired code refutes it: def f(a); f(b=1, **kw) *)
Theorem C05_accept_sound_refuted_before_fix :
  let s := [mkParam 1 POK false] in
  let a := mkActuals [] false [(2, true)] true true in
  (exists b, bind_legacy s a = Some b) /\ accepts s a = false /\
  forall npos' kws', expansion a npos' kws' -> py_bind s npos' kws' = false.
Proof. exact accept_sound_legacy_refuted_witness. Qed.
Print Assumptions C05_accept_sound_refuted_before_fix.

(* 3. Star-arguments, rejection: the full statement ... *)
Definition C05_bind_star_reject_complete_full_statement : Prop := forall s a,
  valid_sig s = true -> definite a -> (star_kwargs a = true -> kwargs_required a = true) ->
  accepts s a = false ->
  forall npos' kws', nonempty_expansion a npos' kws' -> py_bind s npos' kws' = false.

(* ... is refuted by the faithful model (def g(a, b); g( *xs, b=1)) ... *)
Theorem C05_bind_star_reject_complete_refuted : ~ C05_bind_star_reject_complete_full_statement.
Proof. exact bind_star_reject_complete_refuted. Qed.
Print Assumptions C05_bind_star_reject_complete_refuted.

(* ... and holds outside the guard clause kw_after_star_args (known finding
   C05-keyword-after-star-args): a rejected call has NO binding expansion
   that takes at least one element from every star-argument. *)
Theorem C05_bind_star_reject_complete_partial : forall s a,
  valid_sig s = true -> definite a -> (star_kwargs a = true -> kwargs_required a = true) ->
  kw_after_star_args s a = false ->
  accepts s a = false ->
  forall npos' kws', nonempty_expansion a npos' kws' -> py_bind s npos' kws' = false.
Proof. exact bind_star_reject_complete_partial. Qed.
Print Assumptions C05_bind_star_reject_complete_partial.

Example C05_reject_complete_guard_inhabited :
  let s := [mkParam 1 POK false; mkParam 2 POK false; mkParam 3 KO false] in
  let a := mkActuals [true] true [(4, true)] true true in
  valid_sig s = true /\ definite a /\ kw_after_star_args s a = false /\ accepts s a = false.
Proof. exact reject_complete_guard_inhabited. Qed.
Print Assumptions C05_reject_complete_guard_inhabited.

(* 4. preprocess_args: every ActualArguments it builds from positional /
      keyword / *tuple-display / **dict-display / *unknown / **unknown arguments
      meets the side conditions of 2 and 3 (all flags definite, keywords
      distinct, kwargs_required set when **kwargs is passed). *)
Theorem C05_preprocess_wf : forall l a, preprocess l = Some a ->
  definite a /\ names_nodup (map fst (keywords a)) = true /\
  (star_kwargs a = true -> kwargs_required a = true).
Proof. exact preprocess_wf. Qed.
Print Assumptions C05_preprocess_wf.

(* 4'. ... but it forgets positionals that follow an unknown-length *args
       (known finding C05-positional-after-star-args): def f(a); f( *xs, 1, 2) *)
Theorem C05_accept_sound_raw_refuted :
  let s := [mkParam 1 POK false] in
  call_ok s [RStarUnknown; RPos; RPos] = true /\
  positional_after_star [RStarUnknown; RPos; RPos] = true /\
  forall n, py_bind s (n + 2) [] = false.
Proof. exact accept_sound_raw_refuted_witness. Qed.
Print Assumptions C05_accept_sound_raw_refuted.

(* 5. What Signature.validate guarantees (over the regenerated tables):
      distinct names and no positional parameter after *args. *)
Theorem C05_valid_sig_shape : forall s, valid_sig s = true ->
  names_nodup (map pname s) = true /\ pos_before_vp s = true.
Proof. exact valid_sig_shape. Qed.
Print Assumptions C05_valid_sig_shape.

(* 6. Signature.validate (over the regenerated KIND_TO_ALLOWED_PREVIOUS / CAN_HAVE_DEFAULT)
      accepts exactly the parameter lists a `def` header can denote:
      po.. / pok.. *vp ko.. **vk in that order, at most one *vp and **vk, neither with a
      default, no default-less po/pok after one with a default, distinct names. *)
Theorem C05_valid_sig_matches_def : forall s, valid_sig s = def_header_ok s.
Proof. exact valid_sig_matches_def. Qed.
Print Assumptions C05_valid_sig_matches_def.

(* 7. Tie to the current source.  harness/translate/binder.py regenerates from
      signature.py, on every run, (a) the five per-kind arms of the loop of
      Signature.bind_arguments by symbolic execution of their statements (gen_step),
      after checking the initial values of the tracked variables, and (b) the four
      rejecting checks after the loop (gen_finish).  The hand model is PROVED equal to
      them, so all theorems above are about what the source says now, and a
      behaviour-preserving refactor of bind_arguments re-proves instead of alarming.
      (What *args / **kwargs collect is value construction: correspondence-checked.) *)
Theorem C05_gen_step_is_model : forall a st p, gen_step a (core st) p = step_core a st p.
Proof. exact gen_step_is_model. Qed.
Print Assumptions C05_gen_step_is_model.

Theorem C05_gen_finish_is_model : forall a st, gen_finish a (core st) = finish_with eka a st.
Proof. exact gen_finish_is_model. Qed.
Print Assumptions C05_gen_finish_is_model.

(* the binder's verdict is computed entirely by generated code *)
Theorem C05_accepts_is_generated : forall s a,
  accepts s a = match gen_loop a (mkG 0 [] false false false) s with
                | Some (g, _) => gen_finish a g
                | None => false
                end.
Proof. exact accepts_is_generated. Qed.
Print Assumptions C05_accepts_is_generated.

(* 8. Positions: for a concrete call that binds, the entry the binder records for EVERY
      parameter agrees with where CPython takes that parameter's value from (`agrees`):
      Pos i <-> the i-th positional argument, Kw k <-> keyword k, Default <-> the default,
      *args <-> the same slice of positionals (Default when it is empty), **kwargs <-> the
      same keyword names in call order (Default when empty). No bound on sizes. *)
Theorem C05_bind_positions_correct : forall s a b,
  valid_sig s = true -> concrete a -> names_nodup (map fst (keywords a)) = true ->
  bind s a = Some b ->
  exists l, py_bind_full s (length (positionals a)) (map fst (keywords a)) = Some l
            /\ Forall2 agrees b l.
Proof. exact bind_positions_correct. Qed.
Print Assumptions C05_bind_positions_correct.

Example C05_positions_example :
  let s := [mkParam 1 PO false; mkParam 2 POK false; mkParam 3 POK true; mkParam 4 VP false;
            mkParam 5 KO false; mkParam 6 VK false] in
  let a := mkActuals [true; true; true; true] false [(5, true); (7, true)] false false in
  bind s a = Some [(1, Pos 0, One); (2, Pos 1, One); (3, Pos 2, One); (4, Args, Tuple 3 1 false);
                   (5, Kw 5, One); (6, Kwargs, Dict [7] false)]
  /\ py_bind_full s 4 [5; 7]
     = Some [(1, SPos 0); (2, SPos 1); (3, SPos 2); (4, SVarPos 3 1); (5, SKw 5); (6, SVarKw [7])].
Proof. exact positions_example. Qed.
Print Assumptions C05_positions_example.

(* 9. The star-argument half at the level of the RAW call  f(p.., *(..), *xs, .., k=..,
      **{..}, **kw, ..)  (positional section `ps`, keyword section `ks`, as ast.Call keeps
      them).  `raw_expands ne l npos kws`: replacing every *xs by some positionals (at
      least one when ne) and every **kw by some keywords (non-empty when ne), in place,
      yields npos positionals and the keywords kws in call order. *)

(* CPython's binder does not depend on the order of the keywords *)
Theorem C05_py_bind_perm : forall s n l l', valid_sig s = true -> Permutation.Permutation l l' ->
  py_bind s n l = py_bind s n l'.
Proof. exact py_bind_perm. Qed.
Print Assumptions C05_py_bind_perm.

(* what preprocess_args builds from a raw call (None = a keyword is given twice) *)
Theorem C05_preprocess_canonical : forall ps ks, canonical ps ks ->
  match preprocess (ps ++ ks) with
  | Some a => a = mkActuals (repeat true (cnt_before ps)) (has_star ps) (map mkkw (flatk ks)) (has_ku ks) (has_ku ks)
  | None => names_nodup (flatk ks) = false
  end.
Proof. exact preprocess_canonical. Qed.
Print Assumptions C05_preprocess_canonical.

(* an accepted raw call has an expansion that CPython binds — outside the guard
   positional_after_star (known finding C05-positional-after-star-args, refuted in 4') *)
Theorem C05_raw_accept_sound : forall s ps ks,
  valid_sig s = true -> canonical ps ks -> positional_after_star (ps ++ ks) = false ->
  call_ok s (ps ++ ks) = true ->
  exists npos kws, raw_expands false (ps ++ ks) npos kws /\ py_bind s npos kws = true.
Proof. exact raw_accept_sound. Qed.
Print Assumptions C05_raw_accept_sound.

(* a rejected raw call has no binding expansion that takes at least one element from every
   star-argument (several *xs / **kw, interleaved with explicit arguments, positionals after
   *xs included) — outside the guard kw_after_star_args (known finding
   C05-keyword-after-star-args) *)
Theorem C05_raw_reject_complete_partial : forall s ps ks,
  valid_sig s = true -> canonical ps ks ->
  (forall a, preprocess (ps ++ ks) = Some a -> kw_after_star_args s a = false) ->
  call_ok s (ps ++ ks) = false ->
  forall npos kws, raw_expands true (ps ++ ks) npos kws -> py_bind s npos kws = false.
Proof. exact raw_reject_complete_partial. Qed.
Print Assumptions C05_raw_reject_complete_partial.

(* 10. Binds-once (used per instance by the overload theorems of C08): when the binder
       accepts a call without star-arguments, every parameter has exactly one entry (in
       signature order), the positional arguments consumed — by Pos entries or by the slice
       *args collects — are exactly 0 .. n-1 in order, and the keyword arguments consumed —
       by Kw entries or by the names **kwargs collects — are a permutation of the call's
       keywords: no actual is bound twice or dropped. *)
Theorem C05_bind_binds_once : forall s a b,
  valid_sig s = true -> concrete a -> names_nodup (map fst (keywords a)) = true ->
  bind s a = Some b ->
  map (fun e : entry => fst (fst e)) b = map pname s
  /\ pos_used b = seq 0 (length (positionals a))
  /\ Permutation.Permutation (kw_used b) (map fst (keywords a)).
Proof. exact bind_binds_once. Qed.
Print Assumptions C05_bind_binds_once.

(* 11. Possibly-provided keywords (definitely_provided = False: a key that some member of a
       union of closed mappings passed as **x lacks; `preprocess_u` models the key-by-key
       merge of preprocess_args).  If the binder accepts a call without star-arguments,
       CPython binds it for EVERY set of keywords between the definitely provided ones and
       all of them — in particular for every member of the union. *)
Theorem C05_possible_keywords_sound : forall s a K,
  valid_sig s = true -> flagged a -> names_nodup K = true ->
  (forall k, kw_lookup k (keywords a) = Some true -> memN k K = true) ->
  (forall k, memN k K = true -> kw_lookup k (keywords a) <> None) ->
  accepts s a = true ->
  py_bind s (length (positionals a)) K = true.
Proof. exact possible_keywords_sound. Qed.
Print Assumptions C05_possible_keywords_sound.

Example C05_union_example :
  let s := [mkParam 1 POK false; mkParam 2 POK true; mkParam 9 VK false] in
  call_ok_u s [UKwUnion [[1]; [1; 2; 7]]] = true
  /\ py_bind s 0 [1] = true /\ py_bind s 0 [1; 2; 7] = true
  /\ call_ok_u [mkParam 1 POK false; mkParam 2 POK false] [UKwUnion [[1]; [1; 2]]] = false.
Proof. exact union_example. Qed.
Print Assumptions C05_union_example.
