(* Properties/C06.v — call checking: arguments against parameter types, result
   type.  Only statements, `exact`, and Print Assumptions.

   Call/Model.v: `cbind` = the C05 binder (PV.Binder.Bind.bind: positional-only,
   positional-or-keyword, *args, keyword-only, **kwargs parameters; positional,
   keyword, *star and **star arguments) with the argument values re-attached;
   `check_call` = first pass (bound generation through T_k, list[T_k],
   dict[T_k, T_j], Callable[[T_k], r]; defaults; collected *args/**kwargs as
   one bound), the C15 solver per type variable, second pass of every bound
   argument against the substituted annotation, default return.  The general
   theorems are over any value operations `O`; the last block instantiates them
   on the atom fragment (acceptance = the table dumped from the running
   implementation, membership = the table computed by CPython). *)
From Coq Require Import List Bool Arith NArith.
Import ListNotations.
Require Import PV.TypeVar.Base PV.TypeVar.Model PV.TypeVar.Spec PV.TypeVar.Simple PV.Call.Model.
Require Import PV.Binder.Kind PV.Binder.Sig PV.Binder.Bind PV.Binder.PyBind.
Require PV.Proofs.BinderStar.
Require Import PV.Proofs.CallSelf.
Require PV.Overload.Resolve.
Require Import PV.Proofs.CallOverload.
Require Import PV.Proofs.CallMain PV.Proofs.CallAtoms PV.Proofs.SolveAtoms PV.Proofs.CallCore.
Require PV.Core.Obj PV.Core.Val PV.Core.Cls PV.Core.Member PV.Core.CanAssignK PV.Proofs.C03Main.
Require Import PV.Gen.Solve PV.Gen.SolveAtoms PV.Gen.CallObjs PV.Gen.CheckCall.

(* generated obligation: the control structure of Signature.check_call_with_bound_args and
   _check_param_type_compatibility that Call/Model.v mirrors, extracted from the AST on every run
   (typevar pass guarded, first, over typevars_of_params minus the return key, unsubstituted, a
   rejected argument returns the default at once; bounds unified then resolved, errors return
   the default; argument pass over every bound argument, substituted, no early return; the
   default is exempt by identity; unannotated parameters accept) *)
Theorem C06_check_call_structure : check_call_structure_ok = true.
Proof. reflexivity. Qed.
Print Assumptions C06_check_call_structure.

(* C05 composed: "a call that binds" — for every valid signature and every concrete
   call, the model reports a binding failure exactly when CPython cannot bind the call *)
Theorem C06_binding_failure_iff_cpython_rejects : forall (V : Type) (s : @csig V) c,
  valid_sig (sig_of s) = true -> concrete_call c = true -> names_nodup (map fst (a_kw c)) = true ->
  (cbind s c = None <-> py_bind (sig_of s) (length (a_pos c)) (map fst (a_kw c)) = false).
Proof. exact @binding_failure_iff_cpython_rejects. Qed.
Print Assumptions C06_binding_failure_iff_cpython_rejects.

(* ... and with star arguments: a call that the model binds has an expansion of its
   *args / **kwargs arguments that CPython binds (C05_bind_star_accept_sound composed) *)
Theorem C06_bound_star_call_has_binding_expansion : forall (V : Type) (s : @csig V) c b,
  valid_sig (sig_of s) = true -> names_nodup (map fst (a_kw c)) = true -> cbind s c = Some b ->
  exists npos' kws', PV.Proofs.BinderStar.expansion (actuals_of c) npos' kws' /\ py_bind (sig_of s) npos' kws' = true.
Proof. exact @bound_star_call_has_binding_expansion. Qed.
Print Assumptions C06_bound_star_call_has_binding_expansion.

(* bind_self (methods, classmethods, constructors / dataclass __init__): index-shift lemma over the
   C05 binder — binding (receiver :: s) against one more definite positional in front is binding s
   against the original arguments with every positional index shifted by one ... *)
Theorem C06_binder_receiver_shift : forall (a : actuals) (p0 : param),
  pkind p0 = POK \/ pkind p0 = PO -> kw_lookup (pname p0) (keywords a) = None ->
  forall s, bind (p0 :: s) (a' a) = option_map (fun r => e0 p0 :: map she r) (bind s a).
Proof. exact bind_shift. Qed.
Print Assumptions C06_binder_receiver_shift.

(* ... hence a method / classmethod / constructor call is checked exactly like the call of the
   underlying function with the receiver prepended: same diagnostics, same inferred type (the
   receiver parameter is positional, unannotated, and not passed by keyword) *)
Theorem C06_check_call_with_receiver :
  forall (V : Type) (O : ops V) limit none_v (s : @csig V) selfp c selfv,
  pkind (cp selfp) = POK \/ pkind (cp selfp) = PO -> ann selfp = AnnNone ->
  kw_lookup (pname (cp selfp)) (keywords (actuals_of c)) = None ->
  check_call O limit none_v (with_receiver s selfp) (call_with_receiver c selfv) = check_call O limit none_v s c.
Proof. exact @check_call_with_receiver. Qed.
Print Assumptions C06_check_call_with_receiver.

(* C08 composed: an overloaded callee whose overloads are signatures of the call model (generic
   or not).  The per-overload acceptance that the C08 resolver model (Overload/Resolve.v) takes as an
   abstract function is instantiated with the C06 verdict; union-free, Any-free call (the call
   model does not track "matched due to Any", and union decomposition is C08's own subject):
   the call is typed with the return type of the first overload whose own check is clean ... *)
Theorem C06_overloaded_call_first_clean :
  forall (V : Type) (O : ops V) limit none_v (c : @ccall V) (ovs : list (@csig V * PV.Overload.Resolve.rtype)),
  PV.Overload.Resolve.resolve (map (osig_of O limit none_v c) ovs) (PV.Overload.Resolve.singletons [0]) =
  match find (fun sr => negb (diagnosed O limit none_v (fst sr) c)) ovs with
  | Some sr => PV.Overload.Resolve.RTypes [snd sr]
  | None => PV.Overload.Resolve.RErr
  end.
Proof. exact @overloaded_call_first_clean. Qed.
Print Assumptions C06_overloaded_call_first_clean.

(* ... and diagnosed iff every overload's own check diagnoses it *)
Theorem C06_overloaded_call_diagnosed_iff :
  forall (V : Type) (O : ops V) limit none_v (c : @ccall V) (ovs : list (@csig V * PV.Overload.Resolve.rtype)),
  PV.Overload.Resolve.resolve (map (osig_of O limit none_v c) ovs) (PV.Overload.Resolve.singletons [0]) = PV.Overload.Resolve.RErr <->
  forall sr, In sr ovs -> diagnosed O limit none_v (fst sr) c = true.
Proof. exact @overloaded_call_diagnosed_iff. Qed.
Print Assumptions C06_overloaded_call_diagnosed_iff.

(* signatures without type variables: one incompatible_argument per parameter with a
   rejected argument value, and nothing else — all parameter kinds, star arguments included *)
Theorem C06_nongeneric_diagnostics_are_the_rejected_parameters :
  forall (V : Type) (O : ops V) limit none_v s c b,
  no_tv s = true -> cbind s c = Some b ->
  forall d, In d (fst (check_call O limit none_v s c)) <->
    exists p vs x, In (p, BVals vs) b /\ d = IncompatibleArgument (pname (cp p)) /\
      In x vs /\ fits1 O none_v (fun _ => any_generic O) (ann p) x = false.
Proof. exact @nongeneric_diagnostics. Qed.
Print Assumptions C06_nongeneric_diagnostics_are_the_rejected_parameters.

(* diagnosed(call) <=> exists arg: not member(arg, declared(param)) *)
Theorem C06_diagnosed_iff_some_argument_not_member :
  forall (V : Type) (O : ops V) limit none_v (Obj : Type) (val : Obj -> V) (member : Obj -> V -> bool),
  (forall t o, acc O t (val o) = member o t) ->
  forall s c b, flat_sig s = true -> cbind s c = Some b -> literal_args val b ->
  (diagnosed O limit none_v s c = true <->
   exists p vs t o, In (p, BVals vs) b /\ ann p = AnnE (TTy t) /\ In (AV (val o)) vs /\ member o t = false).
Proof. exact @nongeneric_diagnosed_iff_nonmember. Qed.
Print Assumptions C06_diagnosed_iff_some_argument_not_member.

(* generic or not, any number of type variables: an accepted call comes with a value for
   every type variable under which every bound argument value fits the substituted
   parameter type, and the inferred type is the substituted return annotation —
   otherwise an error is reported *)
Theorem C06_accepted_call_arguments_fit_substituted_types :
  forall (V : Type) (O : ops V) limit none_v s c,
  diagnosed O limit none_v s c = false ->
  exists b sol, cbind s c = Some b /\ snd (check_call O limit none_v s c) = inferred O sol (cret s) /\
    forall p vs x, In (p, BVals vs) b -> In x vs -> fits1 O none_v sol (ann p) x = true.
Proof. exact @accepted_call_arguments_fit. Qed.
Print Assumptions C06_accepted_call_arguments_fit_substituted_types.

(* the C15 solver-level findings (incomparable / Any upper bounds, constraints vs upper
   bounds) cannot surface in an accepted call: every callback's parameter type — an upper
   bound of T_k — accepts the value chosen for T_k, and its result is accepted by the value
   chosen for its result variable *)
Theorem C06_accepted_call_respects_callback_bounds :
  forall (V : Type) (O : ops V) limit none_v s c,
  diagnosed O limit none_v s c = false ->
  exists b sol, cbind s c = Some b /\
    forall p vs k r pv qv, In (p, BVals vs) b -> ann p = AnnFun k r -> In (AFun pv qv) vs ->
      acc O pv (sol k) = true /\ (forall j, r = RVar j -> acc O (sol j) qv = true).
Proof. exact @accepted_call_respects_callback_bounds. Qed.
Print Assumptions C06_accepted_call_respects_callback_bounds.

(* with C15 (the solution accepts every lower bound): once the first pass and the solver
   succeed, an argument passed positionally or by keyword for a parameter annotated T_k is
   accepted by the value chosen for T_k — the second pass never reports it *)
Theorem C06_typevar_argument_accepted_by_solution :
  forall (V : Type) (O : ops V) limit none_v, acc_laws O ->
  forall s (b : list (@cparam V * @barg V)) l p k v,
  pass1 O limit none_v s b = inr l -> resolve_ok O limit l = true ->
  In (p, BVals [AV v]) b -> ann p = AnnE (TVarE k) ->
  acc O (sol_of O limit l k) v = true.
Proof. exact @typevar_argument_accepted_by_solution. Qed.
Print Assumptions C06_typevar_argument_accepted_by_solution.

(* ... and, by induction on the annotation, to any nesting depth of list[.], dict[., .],
   tuple[., ...], tuple[., .], Optional[.]: an argument passed for a parameter whose annotation
   mentions type variables but no callback fits the substituted annotation once the first pass and
   the solver succeeded.  The second pass can therefore only fail on concretely typed parameters
   and on a callback's parameter type (the upper-bound position) *)
Theorem C06_non_callback_argument_fits_after_first_pass :
  forall (V : Type) (O : ops V) limit none_v, acc_laws O ->
  forall s (b : list (@cparam V * @barg V)) l p e x,
  pass1 O limit none_v s b = inr l -> resolve_ok O limit l = true ->
  In (p, BVals [x]) b -> ann p = AnnE e -> tv_in e = true ->
  fits_e O none_v (sol_of O limit l) e x = true.
Proof. exact @non_callback_argument_fits_after_pass1. Qed.
Print Assumptions C06_non_callback_argument_fits_after_first_pass.

Theorem C06_callback_result_accepted :
  forall (V : Type) (O : ops V) limit none_v, acc_laws O ->
  forall s (b : list (@cparam V * @barg V)) l p k j pv qv,
  pass1 O limit none_v s b = inr l -> resolve_ok O limit l = true ->
  In (p, BVals [AFun pv qv]) b -> ann p = AnnFun k (RVar j) ->
  acc O (sol_of O limit l j) qv = true.
Proof. exact @callback_result_accepted. Qed.
Print Assumptions C06_callback_result_accepted.

(* result type: for `-> T_k` the inferred type contains every literal passed for a
   parameter annotated T_k (in particular the one an identity-like body returns) *)
Theorem C06_identity_result_member :
  forall (V : Type) (O : ops V) limit none_v (Obj : Type) (val : Obj -> V) (member : Obj -> V -> bool),
  (forall t o, acc O t (val o) = member o t) ->
  forall s c b p k o,
  cret s = RVar k -> diagnosed O limit none_v s c = false -> cbind s c = Some b ->
  In (p, BVals [AV (val o)]) b -> ann p = AnnE (TVarE k) ->
  member o (snd (check_call O limit none_v s c)) = true.
Proof. exact @identity_result_member. Qed.
Print Assumptions C06_identity_result_member.

(* ---- instantiation on the atom fragment: no hypotheses left ---- *)
Theorem C06_atoms_acceptance_is_runtime_membership : forall t o, acc atom_ops t (obj_val o) = member o t.
Proof. exact acc_literal_is_member. Qed.
Print Assumptions C06_atoms_acceptance_is_runtime_membership.

Theorem C06_atoms_diagnosed_iff_some_argument_not_member : forall s c b,
  flat_sig s = true -> cbind s c = Some b -> literal_args obj_val b ->
  (diagnosed atom_ops rrs_limit (SU [A_litNone]) s c = true <->
   exists p vs t o, In (p, BVals vs) b /\ ann p = AnnE (TTy t) /\ In (AV (obj_val o)) vs /\ member o t = false).
Proof. exact (nongeneric_diagnosed_iff_nonmember atom_ops rrs_limit (SU [A_litNone]) obj_val member acc_literal_is_member). Qed.
Print Assumptions C06_atoms_diagnosed_iff_some_argument_not_member.

Theorem C06_atoms_typevar_argument_accepted_by_solution :
  forall s (b : list (@cparam (@sval atom) * @barg (@sval atom))) l p k v,
  pass1 atom_ops rrs_limit (SU [A_litNone]) s b = inr l -> resolve_ok atom_ops rrs_limit l = true ->
  In (p, BVals [AV v]) b -> ann p = AnnE (TVarE k) ->
  acc atom_ops (sol_of atom_ops rrs_limit l k) v = true.
Proof. exact (typevar_argument_accepted_by_solution atom_ops rrs_limit (SU [A_litNone]) atom_laws). Qed.
Print Assumptions C06_atoms_typevar_argument_accepted_by_solution.

Theorem C06_atoms_identity_result_member : forall s c b p k o,
  cret s = RVar k -> diagnosed atom_ops rrs_limit (SU [A_litNone]) s c = false -> cbind s c = Some b ->
  In (p, BVals [AV (obj_val o)]) b -> ann p = AnnE (TVarE k) ->
  member o (snd (check_call atom_ops rrs_limit (SU [A_litNone]) s c)) = true.
Proof. exact (identity_result_member atom_ops rrs_limit (SU [A_litNone]) obj_val member acc_literal_is_member). Qed.
Print Assumptions C06_atoms_identity_result_member.

(* C03 composed: over the merged Core value model (every class table `ct`; any operations
   whose acceptance of a literal is Core's model `ca` of T.can_assign(KnownValue(o))), with
   Core's structural membership as the specification, on calls whose (declared type,
   literal) pairs are inside C03's guard `ok` *)
Theorem C06_core_diagnosed_iff_some_argument_not_member_partial :
  forall (ct : PV.Core.Cls.class_table) (O : ops PV.Core.Val.val) limit none_v,
  (forall T o, acc O T (kv o) = PV.Core.CanAssignK.ca ct T o) ->
  forall s c b, flat_sig s = true -> cbind s c = Some b -> literal_args kv b ->
  (forall p vs T o, In (p, BVals vs) b -> ann p = AnnE (TTy T) -> In (AV (kv o)) vs -> PV.Proofs.C03Main.ok ct T o) ->
  (diagnosed O limit none_v s c = true <->
   exists p vs T o, In (p, BVals vs) b /\ ann p = AnnE (TTy T) /\ In (AV (kv o)) vs /\ PV.Core.Member.member ct T o = false).
Proof. exact core_diagnosed_iff_nonmember_partial. Qed.
Print Assumptions C06_core_diagnosed_iff_some_argument_not_member_partial.

(* before repo_fixes/C06-empty-collection-lower-bound: an unused `*rest: TA` contributed the lower
   bound Any, the solver adopted it, and every check against TA passed.  With the bounds of
   m(g_float_float) for  def m(cb: Callable[[TA], Any], *rest: TA)  (TA bound=A):
   upper float (callback), upper A (declared), [lower Any,] upper A — *)
Theorem C06_unused_star_args_refuted_before_fix :
  resolve atom_ops [UpperBound (SU [A_float]); UpperBound (SU [A_clsA]); LowerBound SAny; UpperBound (SU [A_clsA])] = Sol SAny /\
  acc atom_ops (SU [A_float]) SAny = true /\
  resolve atom_ops [UpperBound (SU [A_float]); UpperBound (SU [A_clsA]); UpperBound (SU [A_clsA])] = Sol (SU [A_float; A_clsA]) /\
  acc atom_ops (SU [A_float]) (SU [A_float; A_clsA]) = false.
Proof. vm_compute. repeat split. Qed.
Print Assumptions C06_unused_star_args_refuted_before_fix.

(* known finding C06-star-union-different-lengths: `xs = (1, "a") if c else (2,)`; `f( *xs)` for
   def f(a: int, b: str = "").  preprocess_args merges tuples of different lengths into ONE star
   argument of unknown length whose element type is the union of all elements; the merged call is
   diagnosed although each alternative on its own is accepted *)
Example C06_star_union_different_lengths_witness :
  let s := mk_csig [mk_cparam (mkParam 0%N POK false) (AnnE (TTy (SU [A_int]))) None;
                    mk_cparam (mkParam 1%N POK true) (AnnE (TTy (SU [A_str]))) (Some (AV (obj_val O_litEmpty)))]
                   [] (RTy (SU [A_int])) in
  let call pos star := check_call atom_ops rrs_limit (SU [A_litNone]) s (mk_ccall pos star [] None) in
  fst (call [AV (obj_val O_lit1); AV (obj_val O_lita)] None) = [] /\
  fst (call [AV (obj_val O_lit2)] None) = [] /\
  fst (call [] (Some (AV (SU [A_lit1; A_lita; A_lit2])))) = [IncompatibleArgument 0%N; IncompatibleArgument 1%N].
Proof. vm_compute. repeat split. Qed.
Print Assumptions C06_star_union_different_lengths_witness.

(* non-trivial inputs:  def f(p0: T, /, p1: Callable[[T], U], *va: T, k: int = 0) -> T   (T, U unbounded) *)
Example C06_examples :
  let P n k d := mkParam n k d in
  let s := mk_csig [mk_cparam (P 0%N PO false) (AnnE (TVarE 0)) None;
                    mk_cparam (P 1%N POK false) (AnnFun 0 (RVar 1)) None;
                    mk_cparam (P 2%N VP false) (AnnE (TVarE 0)) None;
                    mk_cparam (P 3%N KO true) (AnnE (TTy (SU [A_int]))) (Some (AV (obj_val O_lit0)))]
                   [Unbounded; Unbounded] (RVar 0) in
  let g := AFun (SU [A_int]) (SU [A_str]) in
  (* f(True, g_int_str, 1)  -> accepted, T := Literal[True, 1] *)
  check_call atom_ops rrs_limit (SU [A_litNone]) s (mk_ccall [AV (obj_val O_litTrue); g; AV (obj_val O_lit1)] None [] None)
    = ([], SU [A_litTrue; A_lit1]) /\
  (* f("a", g_int_str): the callback's parameter type int is an upper bound of T: solver error *)
  fst (check_call atom_ops rrs_limit (SU [A_litNone]) s (mk_ccall [AV (obj_val O_lita); g] None [] None)) = [CannotResolve] /\
  (* f(1, p1=g, k="a"): k rejected *)
  fst (check_call atom_ops rrs_limit (SU [A_litNone]) s (mk_ccall [AV (obj_val O_lit1)] None [(1%N, g); (3%N, AV (obj_val O_lita))] None))
    = [IncompatibleArgument 3%N] /\
  (* f(p0=1, p1=g): positional-only parameter passed by keyword *)
  fst (check_call atom_ops rrs_limit (SU [A_litNone]) s (mk_ccall [] None [(0%N, AV (obj_val O_lit1)); (1%N, g)] None)) = [IncompatibleCall] /\
  (* f( *xs) with xs: list[int]: p0 and *va take int, p1 takes int too and is rejected *)
  fst (check_call atom_ops rrs_limit (SU [A_litNone]) s (mk_ccall [] (Some (AV (SU [A_int]))) [] None)) = [IncompatibleArgument 1%N].
Proof. vm_compute. repeat split. Qed.
Print Assumptions C06_examples.
