(* Properties/C06.v — call checking: arguments against parameter types, result type. *)
From Coq Require Import List Bool Arith NArith.
Import ListNotations.
Require Import PV.TypeVar.Base PV.TypeVar.Model PV.TypeVar.Spec PV.TypeVar.Simple PV.Call.Model.
Require Import PV.Proofs.CallBind.

Theorem C06_every_parameter_bound_once_in_order : forall (V Obj : Type) (s : @sig V) (c : @call Obj) b,
  bind s c = Some b -> map fst b = params s.
Proof. intros V Obj s c b H. exact (bind_go_params _ _ _ _ H). Qed.
Print Assumptions C06_every_parameter_bound_once_in_order.
