(* Properties/C06.v — call checking: arguments against parameter types, result
   type.  Only statements, `exact`, and Print Assumptions.

   Call/Model.v: `bind` (concrete calls), `check_call` (first pass over the
   parameters annotated with the type variable, the C15 solver, second pass
   over every bound argument against the substituted annotation, default
   return), `diagnosed`.  `val o` is the KnownValue of the literal argument
   object o; `member o t` is runtime membership.  The general theorems are over
   any value operations `O`; the last block instantiates them on the atom
   fragment, where acceptance is the table dumped from the running
   implementation and membership the table computed by CPython. *)
From Coq Require Import List Bool Arith NArith Permutation.
Import ListNotations.
Require Import PV.TypeVar.Base PV.TypeVar.Model PV.TypeVar.Spec PV.TypeVar.Simple PV.Call.Model.
Require Import PV.Proofs.CallBind PV.Proofs.CallMain PV.Proofs.CallAtoms PV.Proofs.SolveAtoms.
Require Import PV.Gen.Solve PV.Gen.SolveAtoms PV.Gen.CallObjs.

(* binding: every parameter exactly once, in order; no argument dropped or duplicated *)
Theorem C06_every_parameter_bound_once_in_order : forall (V Obj : Type) (s : @sig V) (c : @call Obj) b,
  bind s c = Some b -> map fst b = params s.
Proof. intros V Obj s c b H. exact (bind_go_params _ _ _ _ H). Qed.
Print Assumptions C06_every_parameter_bound_once_in_order.

Theorem C06_bound_arguments_are_the_call_arguments : forall (V Obj : Type) (s : @sig V) (c : @call Obj) b,
  bind s c = Some b -> Permutation (bound_objs b) (cpos c ++ map snd (ckw c)).
Proof. intros V Obj s c b H. exact (bind_go_objs _ _ _ _ H). Qed.
Print Assumptions C06_bound_arguments_are_the_call_arguments.

(* non-generic signatures: one incompatible_argument per parameter with a
   rejected argument, and nothing else *)
Theorem C06_nongeneric_diagnostics_are_the_rejected_parameters :
  forall (V : Type) (O : ops V) limit (Obj : Type) (val : Obj -> V) s c b,
  no_vars s = true -> bind s c = Some b ->
  forall d, In d (fst (check_call O limit val s c)) <->
    exists p ba t o, In (p, ba) b /\ d = IncompatibleArgument (pname p) /\
      ann p = AnnTy t /\ In o (objs_of ba) /\ acc O t (val o) = false.
Proof. exact @nongeneric_diagnostics. Qed.
Print Assumptions C06_nongeneric_diagnostics_are_the_rejected_parameters.

(* diagnosed(call) <=> exists arg: not member(arg, declared(param)) *)
Theorem C06_diagnosed_iff_some_argument_not_member :
  forall (V : Type) (O : ops V) limit (Obj : Type) (val : Obj -> V) (member : Obj -> V -> bool),
  (forall t o, acc O t (val o) = member o t) ->
  forall s c b, no_vars s = true -> bind s c = Some b ->
  (diagnosed O limit val s c = true <->
   exists p ba t o, In (p, ba) b /\ ann p = AnnTy t /\ In o (objs_of ba) /\ member o t = false).
Proof. exact @nongeneric_diagnosed_iff_nonmember. Qed.
Print Assumptions C06_diagnosed_iff_some_argument_not_member.

(* generic or not: an accepted call comes with a solution under which every
   argument is a member of the substituted parameter type, and the inferred
   type is the substituted return annotation — otherwise an error is reported *)
Theorem C06_accepted_call_arguments_fit_substituted_types :
  forall (V : Type) (O : ops V) limit (Obj : Type) (val : Obj -> V) (member : Obj -> V -> bool),
  (forall t o, acc O t (val o) = member o t) ->
  forall s c, diagnosed O limit val s c = false ->
  exists b sol, bind s c = Some b /\ snd (check_call O limit val s c) = inferred O sol (ret s) /\
    forall p ba t o, In (p, ba) b -> sub sol (ann p) = Some t -> In o (objs_of ba) -> member o t = true.
Proof. exact @accepted_call_arguments_fit. Qed.
Print Assumptions C06_accepted_call_arguments_fit_substituted_types.

(* with C15 (solution accepts every lower bound): the second pass never reports
   a parameter annotated with the bare type variable, so for a call that binds
   accepted <=> each T-argument fits the declaration on its own, the bounds are
   solvable, and every other argument is a member of its declared type *)
Theorem C06_generic_call_accepted_iff :
  forall (V : Type) (O : ops V) limit (Obj : Type) (val : Obj -> V) (member : Obj -> V -> bool),
  (forall t o, acc O t (val o) = member o t) -> acc_laws O ->
  forall s c b, bind s c = Some b ->
  (diagnosed O limit val s c = false <->
   pass1_fail O limit val (tdecl s) b = None /\
   is_err (mresolve O limit (flat_map (arg_bounds (tdecl s)) (t_values val b))) = false /\
   forall p ba t o, In (p, ba) b -> ann p = AnnTy t -> In o (objs_of ba) -> member o t = true).
Proof. exact @generic_accepted_iff. Qed.
Print Assumptions C06_generic_call_accepted_iff.

(* result type: for `-> T` the inferred type contains every argument passed for a
   parameter annotated T (in particular the one an identity-like body returns) *)
Theorem C06_identity_result_member :
  forall (V : Type) (O : ops V) limit (Obj : Type) (val : Obj -> V) (member : Obj -> V -> bool),
  (forall t o, acc O t (val o) = member o t) ->
  forall s c b p ba o,
  ret s = AnnVar -> diagnosed O limit val s c = false -> bind s c = Some b ->
  In (p, ba) b -> ann p = AnnVar -> In o (objs_of ba) ->
  member o (snd (check_call O limit val s c)) = true.
Proof. exact @identity_result_member. Qed.
Print Assumptions C06_identity_result_member.

(* ---- instantiation on the atom fragment: no hypotheses left ---- *)
Theorem C06_atoms_acceptance_is_runtime_membership : forall t o, acc atom_ops t (obj_val o) = member o t.
Proof. exact acc_literal_is_member. Qed.
Print Assumptions C06_atoms_acceptance_is_runtime_membership.

Theorem C06_atoms_diagnosed_iff_some_argument_not_member : forall s c b,
  no_vars s = true -> bind s c = Some b ->
  (diagnosed atom_ops rrs_limit obj_val s c = true <->
   exists p ba t o, In (p, ba) b /\ ann p = AnnTy t /\ In o (objs_of ba) /\ member o t = false).
Proof. exact (nongeneric_diagnosed_iff_nonmember atom_ops rrs_limit obj_val member acc_literal_is_member). Qed.
Print Assumptions C06_atoms_diagnosed_iff_some_argument_not_member.

Theorem C06_atoms_generic_call_accepted_iff : forall s c b, bind s c = Some b ->
  (diagnosed atom_ops rrs_limit obj_val s c = false <->
   pass1_fail atom_ops rrs_limit obj_val (tdecl s) b = None /\
   is_err (mresolve atom_ops rrs_limit (flat_map (arg_bounds (tdecl s)) (t_values obj_val b))) = false /\
   forall p ba t o, In (p, ba) b -> ann p = AnnTy t -> In o (objs_of ba) -> member o t = true).
Proof. exact (generic_accepted_iff atom_ops rrs_limit obj_val member acc_literal_is_member atom_laws). Qed.
Print Assumptions C06_atoms_generic_call_accepted_iff.

Theorem C06_atoms_identity_result_member : forall s c b p ba o,
  ret s = AnnVar -> diagnosed atom_ops rrs_limit obj_val s c = false -> bind s c = Some b ->
  In (p, ba) b -> ann p = AnnVar -> In o (objs_of ba) ->
  member o (snd (check_call atom_ops rrs_limit obj_val s c)) = true.
Proof. exact (identity_result_member atom_ops rrs_limit obj_val member acc_literal_is_member). Qed.
Print Assumptions C06_atoms_identity_result_member.

(* non-trivial inputs: def f(p0: T, p1: T, *, k: int = 0) -> T with T: (int, str) *)
Example C06_examples :
  let s := mk_sig [mk_param 0%N PosOrKw false AnnVar; mk_param 1%N PosOrKw false AnnVar;
                   mk_param 2%N KwOnly true (AnnTy (SU [A_int]))]
                  (Constrained [SU [A_int]; SU [A_str]]) AnnVar in
  check_call atom_ops rrs_limit obj_val s (mk_call [O_litTrue; O_lit1] []) = ([], SU [A_int]) /\
  fst (check_call atom_ops rrs_limit obj_val s (mk_call [O_lit1; O_lita] [])) = [CannotResolve] /\
  fst (check_call atom_ops rrs_limit obj_val s (mk_call [O_lit1_5] [(1%N, O_lit1)])) = [IncompatibleArgument 0%N] /\
  fst (check_call atom_ops rrs_limit obj_val s (mk_call [O_lit1; O_lit2] [(2%N, O_lita)])) = [IncompatibleArgument 2%N] /\
  fst (check_call atom_ops rrs_limit obj_val s (mk_call [O_lit1] [])) = [IncompatibleCall].
Proof. vm_compute. repeat split. Qed.
Print Assumptions C06_examples.
