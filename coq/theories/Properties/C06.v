(* Properties/C06.v — call checking (being extended in phase 2). *)
From Coq Require Import List Bool Arith NArith.
Import ListNotations.
Require Import PV.TypeVar.Base PV.TypeVar.Model PV.TypeVar.Spec PV.TypeVar.Simple PV.Call.Model.
Require Import PV.Binder.Kind PV.Binder.Sig PV.Binder.Bind PV.Binder.PyBind.
Require Import PV.Proofs.CallMain.

Theorem C06_binding_failure_iff_cpython_rejects : forall (V : Type) (s : @csig V) c,
  valid_sig (sig_of s) = true -> concrete_call c = true -> names_nodup (map fst (a_kw c)) = true ->
  (cbind s c = None <-> py_bind (sig_of s) (length (a_pos c)) (map fst (a_kw c)) = false).
Proof. exact @binding_failure_iff_cpython_rejects. Qed.
Print Assumptions C06_binding_failure_iff_cpython_rejects.
