(* Properties/C07.v — callable compatibility is behaviourally sound. *)
From Coq Require Import List Bool NArith PeanoNat.
Import ListNotations.
Require Import PV.Binder.Kind PV.Gen.Kinds PV.Binder.Sig PV.Binder.SigAssign PV.Binder.PyBind.
Require Import PV.Proofs.SigAssignRefute.
Open Scope N_scope.

Theorem C07_refute_posonly_name_into_kwargs :
  unsound_on [mkParam 1 PO false; mkParam 2 VK false] [mkParam 1 POK false; mkParam 2 VK false] 1 [1].
Proof. exact refute_posonly_name_into_kwargs. Qed.
Print Assumptions C07_refute_posonly_name_into_kwargs.
