(* Properties/C07.v — callable compatibility is behaviourally sound.
   Only statements, `exact`, and Print Assumptions.

   Model : PV.Binder.SigAssign (`sca` = Signature.can_assign: verdict on kinds / names /
           defaults + the list of type obligations; `kinds_ok`; guard `double_fill`)
   Spec  : PV.Binder.PyBind.py_bind (CPython's binder, shared with C05) *)
From Coq Require Import List Bool NArith PeanoNat.
Import ListNotations.
Require Import PV.Binder.Kind PV.Gen.Kinds PV.Binder.Sig PV.Binder.SigAssign PV.Binder.PyBind.
Require Import PV.Proofs.SigAssignRefute PV.Proofs.SigAssignSmall PV.Proofs.SigAssignLoop PV.Proofs.SigAssignSound PV.Proofs.BinderGen.
Require Import PV.Gen.BinderShape.
Open Scope N_scope.

(* The full statement: an accepted pair is behaviourally sound on every call. *)
Definition C07_sig_assign_binds_full_statement : Prop := forall e a npos kws,
  valid_sig e = true -> valid_sig a = true -> names_nodup kws = true ->
  kinds_ok e a = true -> py_bind e npos kws = true -> py_bind a npos kws = true.

(* It is refuted by the faithful model of the unchanged code, in four shapes with one
   mechanism (a positional-or-keyword parameter of the accepted callable is filled
   positionally and again by keyword); each witness also shows the guard fires. *)
Theorem C07_refute_posonly_name_into_kwargs :      (* (a, /, **b) <- (a, **b);  f(1, a=2) *)
  unsound_on [mkParam 1 PO false; mkParam 2 VK false] [mkParam 1 POK false; mkParam 2 VK false] 1 [1].
Proof. exact refute_posonly_name_into_kwargs. Qed.
Print Assumptions C07_refute_posonly_name_into_kwargs.

Theorem C07_refute_kwonly_hits_consumed_positional :   (* (a, /, *, b) <- (b);  f(1, b=2) *)
  unsound_on [mkParam 1 PO false; mkParam 2 KO false] [mkParam 2 POK false] 1 [2].
Proof. exact refute_kwonly_hits_consumed_positional. Qed.
Print Assumptions C07_refute_kwonly_hits_consumed_positional.

Theorem C07_refute_varargs_then_kwonly_hits_positional :   (* ( *a, b) <- (b, *a);  f(1, b=2) *)
  unsound_on [mkParam 1 VP false; mkParam 2 KO false] [mkParam 2 POK false; mkParam 1 VP false] 1 [2].
Proof. exact refute_varargs_then_kwonly_hits_positional. Qed.
Print Assumptions C07_refute_varargs_then_kwonly_hits_positional.

Theorem C07_refute_pok_absorbed_by_star_params :   (* (x, /, n) <- (n, *a, **k);  f(1, n=2) *)
  unsound_on [mkParam 1 PO false; mkParam 2 POK false]
             [mkParam 2 POK false; mkParam 3 VP false; mkParam 4 VK false] 1 [2].
Proof. exact refute_pok_absorbed_by_star_params. Qed.
Print Assumptions C07_refute_pok_absorbed_by_star_params.

Theorem C07_full_statement_refuted : ~ C07_sig_assign_binds_full_statement.
Proof. exact full_statement_refuted. Qed.
Print Assumptions C07_full_statement_refuted.

(* The partial statement (guard: no double fill possible), for signatures and calls of
   ANY size: an accepted pair outside the guard is behaviourally sound — every call the
   expected signature binds is bound by the accepted callable. *)
Theorem C07_sig_assign_binds_partial : forall e a npos kws,
  valid_sig e = true -> valid_sig a = true -> names_nodup kws = true ->
  kinds_ok e a = true -> double_fill e a = false ->
  py_bind e npos kws = true -> py_bind a npos kws = true.
Proof. exact sig_assign_binds_partial. Qed.
Print Assumptions C07_sig_assign_binds_partial.

(* the hypotheses are met non-trivially: (a, b=0, *, c) <- (a, b=0, d=0, *xs, c, **k),
   with the bound call f(1, c=2) *)
Example C07_partial_guard_inhabited :
  let e := [mkParam 1 POK false; mkParam 2 POK true; mkParam 3 KO false] in
  let a := [mkParam 1 POK false; mkParam 2 POK true; mkParam 4 POK true; mkParam 5 VP false;
            mkParam 3 KO false; mkParam 6 VK false] in
  valid_sig e = true /\ valid_sig a = true /\ kinds_ok e a = true /\ double_fill e a = false /\
  py_bind e 1 [3] = true.
Proof. exact partial_guard_inhabited. Qed.
Print Assumptions C07_partial_guard_inhabited.

(* the declarative reading of CPython's binder used by the proof (valid signatures):
   a call binds iff every parameter's slot condition holds, the positionals fit, and
   every keyword has a target *)
Theorem C07_py_bind_char : forall s npos kws, valid_sig s = true -> names_nodup kws = true ->
  (py_bind s npos kws = true <-> binds_char s npos kws).
Proof. exact py_bind_char. Qed.
Print Assumptions C07_py_bind_char.

(* Kept from phase 1: the same statement decided by computation on exhaustive small
   domains (all 229 valid signatures with <= 2 parameters over three names on both sides,
   and <= 2 against <= 3 parameters (865 signatures) in both directions, against every call
   with <= 3 positionals and <= 3 of 4 keywords) — an independent check of model + guard. *)
Theorem C07_sound_outside_guard_small_2x2 : small_domain_sound = true.
Proof. exact small_domain_sound_true. Qed.
Print Assumptions C07_sound_outside_guard_small_2x2.

Theorem C07_sound_outside_guard_small_2x3 : small_domain_sound_23 = true.
Proof. exact small_domain_sound_23_true. Qed.
Print Assumptions C07_sound_outside_guard_small_2x3.

Theorem C07_sound_outside_guard_small_3x2 : small_domain_sound_32 = true.
Proof. exact small_domain_sound_32_true. Qed.
Print Assumptions C07_sound_outside_guard_small_3x2.

(* Unbounded consequences of acceptance (any number of parameters): *)

(* an accepted callable takes *args / **kwargs whenever the expected signature does *)
Theorem C07_accept_var_params : forall e a, kinds_ok e a = true ->
  (has_kind VP e = true -> has_kind VP a = true) /\ (has_kind VK e = true -> has_kind VK a = true).
Proof. exact accept_var_params. Qed.
Print Assumptions C07_accept_var_params.

(* with types: acceptance = kinds verdict, every listed obligation, and return covariance;
   in particular every obligation (their parameter, my parameter) is contravariant *)
Theorem C07_sig_assign_variance : forall le le_ret e a,
  sig_can_assign le le_ret e a = true ->
  le_ret = true /\ kinds_ok e a = true /\
  exists obs, sca e a = Some obs /\ forall t m, In (t, m) obs -> le t m = true.
Proof. exact sig_assign_variance. Qed.
Print Assumptions C07_sig_assign_variance.

(* positional capacity: unless the accepted callable takes *args, it has at least as many
   positional parameters as the expected signature (so no call bound by e passes too many) *)
Theorem C07_accept_positional_capacity : forall e a,
  valid_sig e = true -> kinds_ok e a = true ->
  has_kind VP a = true \/ (length (pos_params e) <= length (pos_params a))%nat.
Proof. exact accept_positional_capacity_valid. Qed.
Print Assumptions C07_accept_positional_capacity.

(* keyword capacity: unless the accepted callable takes **kwargs, every keyword that
   names a parameter of the expected signature names a parameter of the accepted one *)
Theorem C07_accept_keyword_capacity : forall e a, kinds_ok e a = true ->
  has_kind VK a = true \/ forall k, kw_target e k = true -> kw_target a k = true.
Proof. exact accept_keyword_capacity. Qed.
Print Assumptions C07_accept_keyword_capacity.

(* required keyword-only parameters: every required keyword-only parameter of the accepted
   callable is a required keyword-only parameter, of the same name, of the expected
   signature — so every call the expected signature binds passes it *)
Theorem C07_accept_required_kwonly : forall e a,
  valid_sig a = true -> kinds_ok e a = true ->
  forall q, In q a -> pkind q = KO -> pdefault q = false ->
  exists m, In m e /\ pkind m = KO /\ pname m = pname q /\ pdefault m = false.
Proof. exact accept_required_kwonly. Qed.
Print Assumptions C07_accept_required_kwonly.

(* required positional-only parameters: a required positional-only parameter of the accepted
   callable at list index j faces a required positional-only parameter of the expected
   signature at index j — every call the expected signature binds passes it positionally *)
Theorem C07_accept_required_posonly : forall e a,
  valid_sig a = true -> kinds_ok e a = true ->
  forall j q, nth_error a j = Some q -> pkind q = PO -> pdefault q = false ->
  exists m, nth_error e j = Some m /\ pkind m = PO /\ pdefault m = false.
Proof. exact accept_required_posonly. Qed.
Print Assumptions C07_accept_required_posonly.

(* Tie to the current source.  harness/translate/binder.py regenerates from signature.py,
   on every run, the five per-kind arms of the comparison loop of Signature.can_assign
   (gen_sca_step: symbolic execution over the consumed-sets and the obligation list) and
   the final "takes extra (required) parameter" loop (gen_extra_required_ok).  The hand
   model is PROVED equal to them: all theorems of this file are about what the source says
   now, and a behaviour-preserving refactor of can_assign re-proves. *)
Require Import PV.Binder.SigAssignCore.
Theorem C07_gen_sca_step_is_model : forall a i st m, gen_sca_step a i st m = sca_step a i st m.
Proof. exact gen_sca_step_is_model. Qed.
Print Assumptions C07_gen_sca_step_is_model.

Theorem C07_sca_is_generated : forall e a,
  sca e a = match gen_sca_loop a 0 (mkC [] [] [] []) e with
            | None => None
            | Some st => if forallb (gen_extra_required_ok st) a then Some (rev (obl st)) else None
            end.
Proof. exact sca_is_generated. Qed.
Print Assumptions C07_sca_is_generated.

(* Typed half, connected to the Core value model: annotations = nominal classes of the
   class table generated from the running implementation (Gen/ClassTable.v), acceptance =
   the implementation's own TypedValue.can_assign on them (`tassign table`), membership =
   Core's specification for nominal types (`sub_promo`: subclassing + numeric promotion).
   If the typed signatures are accepted, then for every pair of annotations the comparison
   looks at, every runtime class that is a member of MY parameter's annotation is a member
   of THEIR parameter's annotation (parameter contravariance under membership). *)
Require Import PV.Core.Cls PV.Gen.ClassTable PV.Proofs.C04Witness PV.Proofs.SigAssignTyped.
Theorem C07_sig_assign_member_contravariant : forall ann_e ann_a le_ret e a,
  nominal ann_e -> nominal ann_a ->
  sig_can_assign (le_table ann_e ann_a) le_ret e a = true ->
  le_ret = true /\
  exists obs, sca e a = Some obs /\
    forall t m, In (t, m) obs ->
      forall c', In c' classes -> sub_promo table c' (ann_e m) = true -> sub_promo table c' (ann_a t) = true.
Proof. exact sig_assign_member_contravariant. Qed.
Print Assumptions C07_sig_assign_member_contravariant.

(* Overloads on either side (`ov_kinds_ok` = every expected overload is satisfied by some
   overload of the accepted callable, as Signature.can_assign / OverloadedSignature.can_assign
   decide): a call accepted by some overload of the expected side is bound by some overload
   of the accepted side.  Any number and size of overloads. *)
Theorem C07_overloads_sound : forall es as_ npos kws,
  (forall e, In e es -> valid_sig e = true) -> (forall a, In a as_ -> valid_sig a = true) ->
  (forall e a, In e es -> In a as_ -> double_fill e a = false) ->
  names_nodup kws = true -> ov_kinds_ok es as_ = true ->
  (exists e, In e es /\ py_bind e npos kws = true) ->
  exists a, In a as_ /\ py_bind a npos kws = true.
Proof. exact overloads_sound. Qed.
Print Assumptions C07_overloads_sound.

(* A union on the accepted side (`g1 if c else g2`, a variable assigned different functions in
   different branches): acceptance demands every member (`union_accepted_ok`), and then
   WHICHEVER member the value is at run time binds every call the expected signature binds. *)
Theorem C07_union_accepted_sound : forall e members npos kws,
  valid_sig e = true -> (forall a, In a members -> valid_sig a = true) ->
  (forall a, In a members -> double_fill e a = false) ->
  names_nodup kws = true -> union_accepted_ok e members = true ->
  py_bind e npos kws = true ->
  forall a, In a members -> py_bind a npos kws = true.
Proof. exact union_accepted_sound. Qed.
Print Assumptions C07_union_accepted_sound.
