(* Properties/C08.v — overload resolution follows first-match and distributes
   over unions.  Only statements, `exact`, and Print Assumptions.  All
   statements are about PV.Overload.Resolve (hand-written model of
   OverloadedSignature.check_call and the parameter loop it drives; tied to
   the code by the correspondence check of harness/c08.py). *)
From Coq Require Import List Bool Arith.
Import ListNotations.
Require Import PV.Overload.Resolve.
Require Import PV.Proofs.OverloadResolve.

(* Union-free calls (Any allowed): the model's loop is the docstring's
   resolver: first clean match wins, Any-matches keep looking. *)
Theorem C08_unionfree_is_reference : forall sigs t,
  resolve sigs (singletons t) = ref_unionfree sigs t [].
Proof. exact resolve_unionfree. Qed.
Print Assumptions C08_unionfree_is_reference.

(* No Any, no union: typed with the return type of the first overload whose
   parameters accept the arguments ... *)
Theorem C08_first_match : forall sigs t,
  (forall s, In s sigs -> accepts s t <> ViaAny) ->
  resolve sigs (singletons t) =
  match find (fun s => match accepts s t with Clean => true | _ => false end) sigs with
  | Some s => RTypes [os_ret s]
  | None => RErr
  end.
Proof. exact first_match. Qed.
Print Assumptions C08_first_match.

(* ... and diagnosed exactly when no overload accepts them. *)
Theorem C08_diagnosed_iff_none_accepts : forall sigs t,
  (forall s, In s sigs -> accepts s t <> ViaAny) ->
  (resolve sigs (singletons t) = RErr <-> forall s, In s sigs -> accepts s t <> Clean).
Proof. exact diagnosed_iff_none_accepts. Qed.
Print Assumptions C08_diagnosed_iff_none_accepts.
