(* Properties/C08.v — overload resolution follows first-match and distributes
   over unions.  Only statements, `exact`, and Print Assumptions.  All
   statements are about PV.Overload.Resolve: [resolve] is the hand-written
   model of OverloadedSignature.check_call (bind pre-filter, overload loop with
   any_rets / union_rets / union_and_any_rets, _unite_rets) driving the model
   of Signature.check_call_with_bound_args' parameter loop,
   _check_param_type_compatibility and decompose_union; [accepts],
   [ref_unionfree], [ref_union] are the specification: acceptance of a
   union-free argument tuple by one overload, and the docstring's resolver
   stated on whole member tuples.  What a single type check answers
   ([bp_acc]) and which parameter an argument is bound to ([bp_arg], [bp_dec])
   are universally quantified here; the harness instantiates them from the
   real binder / can_assign and checks the model's verdict end to end. *)
From Coq Require Import List Bool Arith.
Import ListNotations.
Require Import PV.Overload.Resolve.
Require Import PV.Proofs.OverloadResolve PV.Proofs.OverloadUnion PV.Proofs.OverloadSound PV.Proofs.OverloadPins.
Require Import PV.Gen.OverloadGen.
Require Import PV.Overload.Concrete PV.Proofs.OverloadConcrete.

(* Union-free calls (Any allowed): the parameter-wise loop is the docstring's
   resolver: the first clean match wins, matches due to Any keep looking. *)
Theorem C08_unionfree_is_reference : forall sigs t,
  resolve sigs (singletons t) = ref_unionfree sigs t [].
Proof. exact resolve_unionfree. Qed.
Print Assumptions C08_unionfree_is_reference.

(* No Any, no union: typed with the return type of the first overload whose
   parameters accept the arguments ... *)
Theorem C08_first_match : forall sigs t,
  (forall s, In s sigs -> accepts s t <> ViaAny) ->
  resolve sigs (singletons t) =
  match find (fun s => match accepts s t with Clean => true | _ => false end) sigs with
  | Some s => RTypes [os_ret s]
  | None => RErr
  end.
Proof. exact first_match. Qed.
Print Assumptions C08_first_match.

(* ... and diagnosed exactly when no overload accepts them. *)
Theorem C08_diagnosed_iff_none_accepts : forall sigs t,
  (forall s, In s sigs -> accepts s t <> ViaAny) ->
  (resolve sigs (singletons t) = RErr <-> forall s, In s sigs -> accepts s t <> Clean).
Proof. exact diagnosed_iff_none_accepts. Qed.
Print Assumptions C08_diagnosed_iff_none_accepts.

(* Exactly one union argument (index p, members R; the other arguments are the
   union-free tuple t), Any allowed: the parameter-wise loop with in-loop
   decomposition equals the docstring's resolver on whole member tuples.
   Guards: every overload that binds receives each argument in one parameter
   (binds_once — a fact about the binder, checked by the harness on every
   instantiation) and receives the union argument directly (decomposable_at);
   without the latter the statement is refuted, see below. *)
Theorem C08_resolve_eq_reference_partial : forall sigs t p R,
  p < length t -> R <> [] ->
  (forall s, In s sigs -> os_binds s = true -> binds_once s /\ decomposable_at p s = true) ->
  resolve sigs (upd p R (singletons t)) = ref_union (filter os_binds sigs) t p R [] [] [].
Proof. exact resolve_one_union. Qed.
Print Assumptions C08_resolve_eq_reference_partial.

(* Exactly one union argument, no Any: the call is accepted exactly when every
   member is accepted by some overload; it is never Any; and its type is the
   union of the result types of the members' own calls (contains each, and
   nothing else). *)
Theorem C08_one_union_distributes_partial : forall sigs t p R,
  p < length t -> R <> [] ->
  (forall s, In s sigs -> os_binds s = true -> binds_once s /\ decomposable_at p s = true) ->
  (forall s m, In s sigs -> In m R -> accepts s (upd p m t) <> ViaAny) ->
  (resolve sigs (upd p R (singletons t)) <> RErr <->
     forall m, In m R -> exists s, In s sigs /\ accepts s (upd p m t) = Clean) /\
  resolve sigs (upd p R (singletons t)) <> RAnyMulti /\
  (forall rs, resolve sigs (upd p R (singletons t)) = RTypes rs ->
     (forall m, In m R -> exists r, resolve sigs (singletons (upd p m t)) = RTypes [r] /\ In r rs) /\
     (forall r, In r rs -> exists m, In m R /\ resolve sigs (singletons (upd p m t)) = RTypes [r])).
Proof. exact one_union_distributes. Qed.
Print Assumptions C08_one_union_distributes_partial.

(* The full statement (no decomposable_at guard) is
   [one_union_full_statement]; the faithful model refutes it: a union argument
   collected by a star-args / star-star-kwargs parameter is never decomposed
   (known finding C08-union-into-variadic). *)
Theorem C08_one_union_refuted_variadic : ~ one_union_full_statement.
Proof. exact one_union_refuted_variadic. Qed.
Print Assumptions C08_one_union_refuted_variadic.

Example C08_one_union_guard_inhabited :
  0 < length [0] /\ [0; 1] <> [] /\
  (forall s, In s direct_sigs -> os_binds s = true -> binds_once s /\ decomposable_at 0 s = true) /\
  (forall s m, In s direct_sigs -> In m [0; 1] -> accepts s (upd 0 m [0]) <> ViaAny) /\
  resolve direct_sigs (upd 0 [0; 1] (singletons [0])) = RTypes [0; 1] /\
  resolve direct_sigs (singletons [0]) = RTypes [0] /\
  resolve direct_sigs (singletons [1]) = RTypes [1] /\
  resolve direct_sigs (upd 0 [0; 1; 2] (singletons [0])) = RErr.
Proof. exact one_union_guard_inhabited. Qed.
Print Assumptions C08_one_union_guard_inhabited.

(* An argument of type Any never selects one overload's type when several
   match: if two of the overloads the resolver looks at (every match up to and
   including the first clean one) have different return types, the call is
   Any[multiple_overload_matches] ... *)
Theorem C08_any_never_selects : forall sigs t s1 s2,
  In s1 (considered sigs t) -> In s2 (considered sigs t) -> os_ret s1 <> os_ret s2 ->
  resolve sigs (singletons t) = RAnyMulti.
Proof. exact any_never_selects. Qed.
Print Assumptions C08_any_never_selects.

(* ... and conversely a selected type is a single type shared by all of them. *)
Theorem C08_selected_type_is_common : forall sigs t rs,
  resolve sigs (singletons t) = RTypes rs ->
  exists r, rs = [r] /\ forall s, In s (considered sigs t) -> os_ret s = r.
Proof. exact selected_type_is_common. Qed.
Print Assumptions C08_selected_type_is_common.

(* Any number of union arguments, Any allowed, no guard: an accepted call is
   sound — every member tuple of the call (one member chosen from each
   argument) is accepted, cleanly or through Any, by some overload. *)
Theorem C08_accepted_is_sound : forall sigs args,
  resolve sigs args <> RErr ->
  forall t, Forall2 (fun m a => In m a) t args -> exists s, In s sigs /\ accepts s t <> Fail.
Proof. exact resolve_sound. Qed.
Print Assumptions C08_accepted_is_sound.

(* Tie to the source, re-checked on every run.  [gen_unite_rets] is regenerated
   from OverloadedSignature._unite_rets by harness/translate/overload.py and is
   the model's unite_rets; the other regions the model mirrors are pinned in
   Proofs/OverloadPins.v (pin_check_call_ok, pin_param_loop_ok, ...), which this
   file depends on, so an edit of any of them breaks the build of this file. *)
Theorem C08_unite_rets_is_translated : forall anys uanys unions clean,
  gen_unite_rets anys uanys unions clean = unite_rets anys uanys unions clean.
Proof. exact gen_unite_rets_is_model. Qed.
Print Assumptions C08_unite_rets_is_translated.

(* Concrete fragment, no abstract binding inputs: [os_binds], [bp_arg], [bp_dec]
   are computed by the C05 binder model (Binder.Bind.bind = bind_arguments) from
   concrete signatures and the call shape ([osig_of]); only the per-parameter
   type check [co_acc] stays a parameter.  The guard is a boolean that can be
   evaluated for any concrete overload set and call (the harness does, and it
   cross-checks resolve_concrete against the real checker). *)
Theorem C08_concrete_one_union : forall cs a t p R,
  p < length t -> R <> [] ->
  forallb (sig_guard_b p) (map (osig_of a) cs) = true ->
  resolve_concrete cs a (upd p R (singletons t)) =
  ref_union (filter os_binds (map (osig_of a) cs)) t p R [] [] [].
Proof. exact concrete_one_union. Qed.
Print Assumptions C08_concrete_one_union.

Theorem C08_concrete_one_union_distributes : forall cs a t p R,
  p < length t -> R <> [] ->
  forallb (sig_guard_b p) (map (osig_of a) cs) = true ->
  (forall s m, In s (map (osig_of a) cs) -> In m R -> accepts s (upd p m t) <> ViaAny) ->
  (resolve_concrete cs a (upd p R (singletons t)) <> RErr <->
     forall m, In m R -> exists s, In s (map (osig_of a) cs) /\ accepts s (upd p m t) = Clean) /\
  (forall rs, resolve_concrete cs a (upd p R (singletons t)) = RTypes rs ->
     (forall m, In m R -> exists r, resolve_concrete cs a (singletons (upd p m t)) = RTypes [r] /\ In r rs) /\
     (forall r, In r rs -> exists m, In m R /\ resolve_concrete cs a (singletons (upd p m t)) = RTypes [r])).
Proof. exact concrete_one_union_distributes. Qed.
Print Assumptions C08_concrete_one_union_distributes.

Example C08_concrete_example :
  forallb (sig_guard_b 0) (map (osig_of call1) [ex_c1; ex_c2]) = true /\
  resolve_concrete [ex_c1; ex_c2] call1 [[0; 1]] = RTypes [0; 1] /\
  resolve_concrete [ex_c1; ex_c2] call2 [[0; 1]; [5]] = RTypes [0; 1] /\
  resolve_concrete [ex_c1; ex_c2] callkw [[0; 1]] = RTypes [0; 1] /\
  resolve_concrete [ex_c1; ex_c2] call3 [[0; 1]; [5]; [5]] = RErr /\
  forallb (sig_guard_b 1) (map (osig_of call2) [ex_c1; ex_c2]) = false.
Proof. exact concrete_example. Qed.
Print Assumptions C08_concrete_example.

(* The overload loop itself is translated from the source on every run:
   gen_is_overload (the `is_overload=` argument: last-overload rule), gen_step
   (the if-chain on the CallReturn: is_error / remaining_arguments /
   used_any_for_match with the any_rets / union_rets / union_and_any_rets
   bookkeeping) and gen_after_loop; the loop assembled from them is the model. *)
Theorem C08_check_call_loop_is_translated : forall sigs args anys uanys unions,
  gen_loop sigs args anys uanys unions = loop sigs args anys uanys unions.
Proof. exact gen_loop_is_model. Qed.
Print Assumptions C08_check_call_loop_is_translated.

Example C08_concrete_star_example :
  resolve_concrete [ex_c1; ex_c2] callstar [[1]] = RTypes [1] /\
  resolve_concrete [ex_c1; ex_c2] callstar [[0]] = RTypes [0] /\
  resolve_concrete [ex_c1; ex_c2] callstar [[0; 1]] = RErr /\
  forallb (sig_guard_b 0) (map (osig_of callstar) [ex_c1; ex_c2]) = false.
Proof. exact concrete_star_example. Qed.
Print Assumptions C08_concrete_star_example.
