(* Properties/C09.v — name binding: reaching definitions and (possibly) undefined names.
   Only statements, `exact`, and Print Assumptions.  All statements are about
   PV.Scopes.Analysis (the model of FunctionScope's collecting phase as driven by
   name_check_visitor, for the repaired tree; tied to the code by the correspondence
   check of harness/c09.py) and PV.Scopes.Paths (strict path semantics). *)
From Coq Require Import NArith List Bool.
Import ListNotations.
Require Import PV.Scopes.Syntax PV.Scopes.Analysis PV.Scopes.Paths PV.Scopes.Guards.
Require Import PV.Proofs.ScopesMaps PV.Proofs.ScopesSound PV.Proofs.ScopesUpper PV.Proofs.ScopesWitness.
Require Import PV.Scopes.Sop PV.Scopes.Shapes PV.Gen.Scopes.
Open Scope N_scope.

(* The lower bound at full strength: every definition (or the unbound state) that reaches a
   use along a strict path is reported for that use.  The faithful model refutes it (two
   classes, both replayed on the real code: known findings). *)
Definition C09_strict_sub_reported_full_statement : Prop :=
  forall p u d, strict_reach p u d -> In d (reported p u).

Theorem C09_strict_sub_reported_refuted_dead_code_after_break :
  lower_ok w_dead = false /\ strict_reach w_dead 99 3 /\ ~ In 3 (reported w_dead 99).
Proof. exact (conj w_dead_guard (conj w_dead_reach w_dead_not_reported)). Qed.
Print Assumptions C09_strict_sub_reported_refuted_dead_code_after_break.

(* a break that leaves a try statement through its finally clause (the former known finding
   C09-jump-through-finally): since visit_Try hands the scope after the finally block to
   current_loop_scopes, the program is inside the guard and the definition made in the finally
   block is reported *)
Example C09_jump_through_finally_repaired :
  lower_ok w_fin = true /\ strict_reach w_fin 99 2 /\ reported w_fin 99 = [1; 2; 10].
Proof. exact w_fin_facts. Qed.
Print Assumptions C09_jump_through_finally_repaired.

(* For every function body built from assignments, uses, calls, pass, return, raise,
   break, continue, if/else, while/for with else (loops that may run zero times, loops that run
   at least once, `while True`), suppressing and non-suppressing
   with, and try/except/else/finally, nested to any depth, that satisfies the decidable guard
   lower_ok (nothing follows, in the same block, a break/continue or a statement ending in one in
   the current dict): strict reaching definitions are reported -- including break/continue that
   leave a try statement through its finally clause, and finally blocks ending in break/continue. *)
Theorem C09_strict_sub_reported_partial : forall p u d,
  lower_ok p = true -> strict_reach p u d -> In d (reported p u).
Proof. exact strict_sub_reported. Qed.
Print Assumptions C09_strict_sub_reported_partial.

(* ... in particular a use that can execute with the name unbound gets undefined_name or
   possibly_undefined_name *)
Theorem C09_unbound_use_is_reported_partial : forall p u,
  lower_ok p = true -> strict_reach p u UN ->
  undefined_name p u = true \/ possibly_undefined p u = true.
Proof. exact unbound_is_reported. Qed.
Print Assumptions C09_unbound_use_is_reported_partial.

(* every program without break/continue satisfies the guard *)
Theorem C09_jump_free_within_lower_ok : forall p, has_jump_b p = false -> lower_ok p = true.
Proof. exact nojump_lower_ok. Qed.
Print Assumptions C09_jump_free_within_lower_ok.

(* the analysis invariant behind the theorem, for every statement list and every live entry
   state: every use reached records its binding; along every normally terminating strict path
   the abstract state stays live and covers the concrete binding of every variable; every path
   ending in break/continue is covered by an exit scope of the loop body (the current dict when it
   holds LEAVES_LOOP, or a member of current_loop_scopes) that does not hold LEAVES_SCOPE *)
Theorem C09_block_invariant : forall b st, lower_ok_b b = true -> live (cur st) ->
  (forall t v u d0, upath_b b t v u -> satv v d0 (cur st) -> In (u, applyv t v d0) (u2d (visit_b b st))) /\
  (forall t, path_b b ONorm t -> live (cur (visit_b b st)) /\
     forall v d0, satv v d0 (cur st) -> satv v (applyv t v d0) (cur (visit_b b st))) /\
  (forall o t, is_jump o -> path_b b o t ->
     exists sc, In sc (exits (visit_b b st)) /\ ls sc = false /\
       forall v d0, satv v d0 (cur st) -> satv v (applyv t v d0) sc).
Proof. exact block_invariant. Qed.
Print Assumptions C09_block_invariant.

(* the hypotheses are satisfiable by non-trivial programs *)
Example C09_guard_inhabited :
  has_jump_b w_ok = false /\ strict_reach w_ok 8 2 /\
  reported w_ok 7 = [1; 0; 2; 3; 4] /\ possibly_undefined w_ok 7 = true /\ undefined_name w_ok 7 = false.
Proof. exact w_ok_facts. Qed.
Print Assumptions C09_guard_inhabited.

(* loops that run at least once (`for v in (K,):`, kind LAlways) are inside the lower-bound theorem;
   after such a loop and in its else clause the target is bound *)
Example C09_always_entered_loop :
  lower_ok w_always = true /\ reported w_always 3 = [5] /\ reported w_always 5 = [5] /\ reported w_always 6 = [5] /\
  undefined_name w_always 5 = false /\ possibly_undefined w_always 6 = false.
Proof. exact w_always_facts. Qed.
Print Assumptions C09_always_entered_loop.

Example C09_guard_inhabited_with_jumps :
  lower_ok w_brk = true /\ has_jump_b w_brk = true /\ strict_reach w_brk 8 1 /\
  reported w_brk 8 = [10; 1; 2] /\ reported w_brk 7 = [10; 1; 2].
Proof. exact w_brk_facts. Qed.
Print Assumptions C09_guard_inhabited_with_jumps.

(* ---- upper bound.  liberal_reach (Scopes/Paths.v): every statement of a try/with body may raise
   before and after it, a with statement may raise on entry, every loop may be left at its head
   after any number of rounds without its else clause. *)

(* the two specifications are nested: strict_reach <= liberal_reach, for every program *)
Theorem C09_strict_sub_liberal : forall p u d, strict_reach p u d -> liberal_reach p u d.
Proof. exact strict_sub_liberal. Qed.
Print Assumptions C09_strict_sub_liberal.

(* the upper bound at full strength is refuted by the faithful model (precision only; replayed
   on the real code: known finding C09-imprecise-reaching) *)
Definition C09_reported_sub_liberal_full_statement : Prop :=
  forall p u d, In d (reported p u) -> liberal_reach p u d.

Theorem C09_reported_sub_liberal_refuted :
  upper_ok w_upper = false /\ In 2 (reported w_upper 7) /\ ~ liberal_reach w_upper 7 2.
Proof. exact w_upper_facts. Qed.
Print Assumptions C09_reported_sub_liberal_refuted.

(* For every function body of the grammar that satisfies upper_ok (no break/continue, no loop
   else clause, no `while True`, no try-finally, no dead code, try bodies not empty) -- any
   nesting of assignments, uses, calls, return, raise, if/else, while/for, suppressing and
   non-suppressing with, try/except/else -- every reported definition (and the unbound state)
   reaches the use along a liberal path. *)
Theorem C09_reported_sub_liberal_partial : forall p u d,
  upper_ok p = true -> In d (reported p u) -> liberal_reach p u d.
Proof. exact reported_sub_liberal. Qed.
Print Assumptions C09_reported_sub_liberal_partial.

(* ... hence a name bound on every liberal path is not reported as possibly undefined *)
Theorem C09_bound_name_not_possibly_undefined_partial : forall p u,
  upper_ok p = true -> (forall d, liberal_reach p u d -> d <> UN) -> possibly_undefined p u = false.
Proof. exact bound_is_not_possibly. Qed.
Print Assumptions C09_bound_name_not_possibly_undefined_partial.

(* the upper guard is satisfiable together with the lower one by a non-trivial program
   (if + loop + try/except inside a suppressing with would violate nothing): w_ok has a loop else *)
Example C09_upper_guard_inhabited :
  upper_ok w_up_ok = true /\ lower_ok w_up_ok = true /\ reported w_up_ok 9 = [2; 3; 1; 0].
Proof. exact w_up_ok_facts. Qed.
Print Assumptions C09_upper_guard_inhabited.

(* ---- the source still has the shape the model was written for.  PV.Gen.Scopes is regenerated
   on every run from stacked_scopes.py (FunctionScope.subscope, loop_scope, get_combined_scope,
   combine_subscopes, suppressing_subscope, set, get_local, _add_single_constraint) and name_check_visitor.py (visit_If,
   visit_While, visit_For, _handle_loop_else, visit_try_except, visit_Try, visit_With,
   visit_single_cm, visit_Break/Continue/Return/Raise): the scope program of each function
   (see harness/translate/scopes.py) must equal the one recorded in Scopes/Shapes.v. *)
Theorem C09_source_scope_operations_unchanged :
  gen_scope_subscope = exp_scope_subscope /\ gen_scope_loop_scope = exp_scope_loop_scope /\
  gen_scope_get_combined_scope = exp_scope_get_combined_scope /\
  gen_scope_combine_subscopes = exp_scope_combine_subscopes /\
  gen_scope_suppressing_subscope = exp_scope_suppressing_subscope /\
  gen_scope_set = exp_scope_set /\ gen_scope_get_local = exp_scope_get_local /\
  gen_scope__add_single_constraint = exp_scope__add_single_constraint.
Proof.
  exact (conj gen_scope_subscope_is_expected (conj gen_scope_loop_scope_is_expected
    (conj gen_scope_get_combined_scope_is_expected (conj gen_scope_combine_subscopes_is_expected
    (conj gen_scope_suppressing_subscope_is_expected (conj gen_scope_set_is_expected
    (conj gen_scope_get_local_is_expected gen_scope__add_single_constraint_is_expected))))))).
Qed.
Print Assumptions C09_source_scope_operations_unchanged.

Theorem C09_source_visitors_unchanged :
  gen_visit_If = exp_visit_If /\ gen_visit_While = exp_visit_While /\ gen_visit_For = exp_visit_For /\
  gen_visit_handle_loop_else = exp_visit_handle_loop_else /\
  gen_visit_try_except = exp_visit_try_except /\ gen_visit_Try = exp_visit_Try /\
  gen_visit_With = exp_visit_With /\ gen_visit_single_cm = exp_visit_single_cm /\
  gen_visit_Break = exp_visit_Break /\ gen_visit_Continue = exp_visit_Continue /\
  gen_visit_Return = exp_visit_Return /\ gen_visit_Raise = exp_visit_Raise.
Proof.
  exact (conj gen_visit_If_is_expected (conj gen_visit_While_is_expected (conj gen_visit_For_is_expected
    (conj gen_visit_handle_loop_else_is_expected (conj gen_visit_try_except_is_expected (conj gen_visit_Try_is_expected
    (conj gen_visit_With_is_expected (conj gen_visit_single_cm_is_expected (conj gen_visit_Break_is_expected
    (conj gen_visit_Continue_is_expected (conj gen_visit_Return_is_expected gen_visit_Raise_is_expected))))))))))).
Qed.
Print Assumptions C09_source_visitors_unchanged.
