(* Properties/C09.v — name binding: reaching definitions and (possibly) undefined names.
   Only statements, `exact`, and Print Assumptions.  All statements are about
   PV.Scopes.Analysis (the model of FunctionScope's collecting phase as driven by
   name_check_visitor, for the repaired tree; tied to the code by the correspondence
   check of harness/c09.py) and PV.Scopes.Paths (strict path semantics). *)
From Coq Require Import NArith List Bool.
Import ListNotations.
Require Import PV.Scopes.Syntax PV.Scopes.Analysis PV.Scopes.Paths PV.Scopes.Guards.
Require Import PV.Proofs.ScopesMaps PV.Proofs.ScopesSound PV.Proofs.ScopesUpper PV.Proofs.ScopesWitness.
Open Scope N_scope.

(* The lower bound at full strength: every definition (or the unbound state) that reaches a
   use along a strict path is reported for that use.  The faithful model refutes it (two
   classes, both replayed on the real code: known findings). *)
Definition C09_strict_sub_reported_full_statement : Prop :=
  forall p u d, strict_reach p u d -> In d (reported p u).

Theorem C09_strict_sub_reported_refuted_dead_code_after_break :
  lower_ok w_dead = false /\ strict_reach w_dead 99 3 /\ ~ In 3 (reported w_dead 99).
Proof. exact (conj w_dead_guard (conj w_dead_reach w_dead_not_reported)). Qed.
Print Assumptions C09_strict_sub_reported_refuted_dead_code_after_break.

Theorem C09_strict_sub_reported_refuted_jump_through_finally :
  lower_ok w_fin = false /\ strict_reach w_fin 99 2 /\ ~ In 2 (reported w_fin 99).
Proof. exact (conj w_fin_guard (conj w_fin_reach w_fin_not_reported)). Qed.
Print Assumptions C09_strict_sub_reported_refuted_jump_through_finally.

(* For every function body built from assignments, uses, calls, pass, return, raise,
   break, continue, if/else, while/for with else, `while True`, suppressing and non-suppressing
   with, and try/except/else/finally, nested to any depth, that satisfies the decidable guard
   lower_ok (nothing follows a break/continue in its block; no break/continue leaves a try
   statement that has a finally clause): strict reaching definitions are reported. *)
Theorem C09_strict_sub_reported_partial : forall p u d,
  lower_ok p = true -> strict_reach p u d -> In d (reported p u).
Proof. exact strict_sub_reported. Qed.
Print Assumptions C09_strict_sub_reported_partial.

(* ... in particular a use that can execute with the name unbound gets undefined_name or
   possibly_undefined_name *)
Theorem C09_unbound_use_is_reported_partial : forall p u,
  lower_ok p = true -> strict_reach p u UN ->
  undefined_name p u = true \/ possibly_undefined p u = true.
Proof. exact unbound_is_reported. Qed.
Print Assumptions C09_unbound_use_is_reported_partial.

(* every program without break/continue satisfies the guard *)
Theorem C09_jump_free_within_lower_ok : forall p, has_jump_b p = false -> lower_ok p = true.
Proof. exact nojump_lower_ok. Qed.
Print Assumptions C09_jump_free_within_lower_ok.

(* the analysis invariant behind the theorem, for every statement list and every live entry
   state: every use reached records its binding; along every normally terminating strict path
   the abstract state stays live and covers the concrete binding of every variable; every path
   ending in break/continue is covered by a scope holding LEAVES_LOOP (the current dict or a
   member of current_loop_scopes) *)
Theorem C09_block_invariant : forall b st, lower_ok_b b = true -> live (cur st) ->
  (forall t v u d0, upath_b b t v u -> satv v d0 (cur st) -> In (u, applyv t v d0) (u2d (visit_b b st))) /\
  (forall t, path_b b ONorm t -> live (cur (visit_b b st)) /\
     forall v d0, satv v d0 (cur st) -> satv v (applyv t v d0) (cur (visit_b b st))) /\
  (forall o t, is_jump o -> path_b b o t ->
     exists sc, In sc (exits (visit_b b st)) /\ ll sc = true /\ ls sc = false /\
       forall v d0, satv v d0 (cur st) -> satv v (applyv t v d0) sc).
Proof. exact block_invariant. Qed.
Print Assumptions C09_block_invariant.

(* the hypotheses are satisfiable by non-trivial programs *)
Example C09_guard_inhabited :
  has_jump_b w_ok = false /\ strict_reach w_ok 8 2 /\
  reported w_ok 7 = [1; 0; 2; 3; 4] /\ possibly_undefined w_ok 7 = true /\ undefined_name w_ok 7 = false.
Proof. exact w_ok_facts. Qed.
Print Assumptions C09_guard_inhabited.

Example C09_guard_inhabited_with_jumps :
  lower_ok w_brk = true /\ has_jump_b w_brk = true /\ strict_reach w_brk 8 1 /\
  reported w_brk 8 = [10; 1; 2] /\ reported w_brk 7 = [10; 1; 2].
Proof. exact w_brk_facts. Qed.
Print Assumptions C09_guard_inhabited_with_jumps.

(* ---- upper bound.  liberal_reach (Scopes/Paths.v): every statement of a try/with body may raise
   before and after it, a with statement may raise on entry, every loop may be left at its head
   after any number of rounds without its else clause. *)

(* the two specifications are nested: strict_reach <= liberal_reach, for every program *)
Theorem C09_strict_sub_liberal : forall p u d, strict_reach p u d -> liberal_reach p u d.
Proof. exact strict_sub_liberal. Qed.
Print Assumptions C09_strict_sub_liberal.

(* the intended statement (guard upper_ok); proved so far for stage 1 only, decided by the
   differential check for the rest (loops, with, try/except) *)
Definition C09_reported_sub_liberal_upper_ok_statement : Prop :=
  forall p u d, upper_ok p = true -> In d (reported p u) -> liberal_reach p u d.

(* stage 1: every program built from assignments, uses, calls, pass, return, raise and if/else
   without dead code (upper1_ok = upper_ok && flat_b) *)
Theorem C09_reported_sub_liberal_partial : forall p u d,
  upper1_ok p = true -> In d (reported p u) -> liberal_reach p u d.
Proof. exact reported_sub_liberal_flat. Qed.
Print Assumptions C09_reported_sub_liberal_partial.
