(* Properties/C10.v — diagnostics are deterministic and independent of prior checks.
   Only statements, `exact`, and Print Assumptions.

   What is proved here is the ORDERING DISCIPLINE: sets are lists up to an
   arbitrary permutation (Det/SetConsumers.v); every place of the seven
   anchored files where a set is consumed (Gen/Sites.v, regenerated from the
   source on every run) feeds a consumer whose result does not depend on the
   permutation, except three named residual sites.  The runtime part (string
   hashing, addresses, caches of the real checker) is explored by the
   differential of harness/c10.py, not proved. *)
From Coq Require Import String List Bool NArith Permutation.
Import ListNotations.
Require Import PV.Det.SetConsumers PV.Det.Audit PV.Gen.Sites.
Require Import PV.Det.Memo PV.Det.StateAudit PV.Gen.State.
Require Import PV.Proofs.DetConsumers PV.Proofs.DetSites PV.Proofs.DetClosure PV.Proofs.DetMemo PV.Proofs.DetState.
Open Scope list_scope.

(* 1. every order-free consumer kind returns the same result for every arrangement of the set *)
Theorem C10_insensitive_kinds_perm_invariant : forall k a s s',
  insensitive k = true -> Permutation s s' -> res_equiv (run k a s) (run k a s').
Proof. exact insensitive_kinds_perm_invariant. Qed.
Print Assumptions C10_insensitive_kinds_perm_invariant.

(* 2. the two remaining kinds do expose the arrangement (so the classification is not vacuous) *)
Theorem C10_list_kind_refuted : exists a s s', Permutation s s' /\ run KList a s <> run KList a s'.
Proof. exact list_kind_refuted. Qed.
Print Assumptions C10_list_kind_refuted.

Theorem C10_first_kind_refuted : exists a s s', Permutation s s' /\ run KFirst a s <> run KFirst a s'.
Proof. exact first_kind_refuted. Qed.
Print Assumptions C10_first_kind_refuted.

(* 2b. short-circuiting all()/any() over a set: the result is arrangement-independent (1.), but
       the elements on which the body was evaluated are a prefix of the iteration order -- with a
       side-effecting body they are observable and do depend on the arrangement, unless every
       element passes.  (The inventory marks such sites `!effects`; they need an audit entry.) *)
Theorem C10_short_circuit_trace_refuted : exists p s s', Permutation s s' /\ ~ Permutation (all_trace p s) (all_trace p s').
Proof. exact all_trace_refuted. Qed.
Print Assumptions C10_short_circuit_trace_refuted.

Theorem C10_short_circuit_trace_is_prefix_and_total_when_all_hold : forall p s,
  (exists rest, s = all_trace p s ++ rest) /\ (forallb p s = true -> all_trace p s = s).
Proof. intros p s. split; [apply all_trace_prefix|apply all_trace_total]. Qed.
Print Assumptions C10_short_circuit_trace_is_prefix_and_total_when_all_hold.

(* 2c. the two order-exposing shapes that are harmless in special cases: a set with at most one
       element has a single arrangement (the join in Signature.validate, see 9b), and "keep the
       first success" is arrangement-independent exactly when the successes agree (the loop over
       artificial_bases in TypeObject.can_assign: its condition is not proved, the site stays residual) *)
Theorem C10_at_most_one_arrangement : forall (s s' : list N), length s <= 1 -> Permutation s s' -> s = s'.
Proof. exact at_most_one_arrangement. Qed.
Print Assumptions C10_at_most_one_arrangement.

Theorem C10_first_success_perm : forall (ok : N -> bool) (res : N -> N) s s',
  (forall x y, In x s -> In y s -> ok x = true -> ok y = true -> res x = res y) ->
  Permutation s s' -> option_map res (find ok s) = option_map res (find ok s').
Proof. exact first_success_perm. Qed.
Print Assumptions C10_first_success_perm.

Theorem C10_first_success_refuted : exists (ok : N -> bool) (res : N -> N) (s s' : list N),
  Permutation s s' /\ option_map res (find ok s) <> option_map res (find ok s').
Proof. exact first_success_refuted. Qed.
Print Assumptions C10_first_success_refuted.

(* 3. loops over a set whose body commutes *)
Theorem C10_commuting_loop_perm_invariant : forall (A : Type) (f : A -> N -> A),
  (forall a x y, f (f a x) y = f (f a y) x) ->
  forall s s', Permutation s s' -> forall a, fold_left f s a = fold_left f s' a.
Proof. exact fold_left_comm_perm. Qed.
Print Assumptions C10_commuting_loop_perm_invariant.

(* 4. worklist closures (`while pending: x = pending.pop() ...`): whatever element
      is popped at each step, the set of visited elements is the same *)
Theorem C10_worklist_closure_choice_independent : forall succ pend seen r1 r2,
  closure_run succ pend seen r1 -> closure_run succ pend seen r2 -> forall x, In x r1 <-> In x r2.
Proof. exact closure_choice_independent. Qed.
Print Assumptions C10_worklist_closure_choice_independent.

(* 4b. FunctionScope._resolve_origin in full: a definer unknown to this scope aborts the search
       (EMPTY_ORIGIN).  Whether the search aborts, and otherwise the visited set, do not depend
       on which element pop() returns *)
Theorem C10_resolve_origin_choice_independent : forall succ known pend seen r1 r2,
  oclosure_run succ known pend seen r1 -> oclosure_run succ known pend seen r2 ->
  match r1, r2 with
  | None, None => True
  | Some a, Some b => forall x, In x a <-> In x b
  | _, _ => False
  end.
Proof. exact oclosure_choice_independent. Qed.
Print Assumptions C10_resolve_origin_choice_independent.

(* 5. sorted(): the repaired protocol-member loop *)
Theorem C10_sorted_perm_invariant : forall s s', Permutation s s' ->
  sorted_list s = sorted_list s' /\ ascending (sorted_list s) /\ Permutation (sorted_list s) s.
Proof.
  intros s s' H. split; [apply sorted_list_perm; exact H|]. split; [apply sorted_list_ascending|apply sorted_list_is_perm].
Qed.
Print Assumptions C10_sorted_perm_invariant.

Theorem C10_protocol_member_report_perm_invariant : forall m m' fails, Permutation m m' ->
  protocol_new m fails = protocol_new m' fails.
Proof. exact protocol_new_perm_invariant. Qed.
Print Assumptions C10_protocol_member_report_perm_invariant.

(* 6. insertion-ordered de-duplication (unite_values, annotate_value, dict.fromkeys repairs):
      a function of the argument LIST with first-occurrence order; nesting and repetition
      do not change the member order *)
Theorem C10_fromkeys_first_occurrence_order : forall xs ys,
  NoDup (fromkeys xs) /\ (forall x, In x (fromkeys xs) <-> In x xs) /\
  fromkeys (xs ++ ys) = fromkeys xs ++ filter (fun y => negb (mem y xs)) (fromkeys ys).
Proof.
  intros xs ys. destruct (fromkeys_spec xs) as [H1 H2]. split; [exact H1|]. split; [exact H2|apply fromkeys_app].
Qed.
Print Assumptions C10_fromkeys_first_occurrence_order.

Theorem C10_unite_order_nesting_invariant : forall a b c,
  unite [unite [a; b]; c] = unite [a; b; c] /\ unite [a; a] = unite [a].
Proof. intros a b c. split; [apply unite_nested|apply unite_idempotent]. Qed.
Print Assumptions C10_unite_order_nesting_invariant.

(* 7. the repairs keep the reported elements (a permutation of what the unrepaired code
      listed, and equal to it for the identity arrangement), while the unrepaired
      consumers are refuted *)
Definition C10_unrepaired_consumers_full_statement : Prop :=
  forall a1 a2, is_arrangement a1 -> is_arrangement a2 ->
    (forall kw c, extra_kwargs_old a1 kw c = extra_kwargs_old a2 kw c) /\
    (forall cs, or_apply_old a1 cs = or_apply_old a2 cs) /\
    (forall after before, new_nodes_old a1 after before = new_nodes_old a2 after before) /\
    (forall m fails, protocol_old a1 m fails = protocol_old a2 m fails).

Theorem C10_unrepaired_consumers_refuted : ~ C10_unrepaired_consumers_full_statement.
Proof.
  intros H. destruct extra_kwargs_old_refuted as [a1 [a2 [kw [c [H1 [H2 Hne]]]]]].
  apply Hne. apply (H a1 a2 H1 H2).
Qed.
Print Assumptions C10_unrepaired_consumers_refuted.

Theorem C10_repairs_refine_unrepaired : forall arrange, is_arrangement arrange ->
  (forall kw c, Permutation (extra_kwargs_old arrange kw c) (extra_kwargs_new kw c)) /\
  (forall cs, Permutation (or_apply_old arrange cs) (or_apply_new cs)) /\
  (forall after before, Permutation (new_nodes_old arrange after before) (new_nodes_new after before)).
Proof.
  intros arrange Ha. split; [|split]; intros; apply Ha.
Qed.
Print Assumptions C10_repairs_refine_unrepaired.

Theorem C10_extra_kwargs_keep_call_order : forall kw1 kw2 consumed,
  extra_kwargs_new (kw1 ++ kw2) consumed = extra_kwargs_new kw1 consumed ++ extra_kwargs_new kw2 consumed.
Proof. exact extra_kwargs_new_keeps_call_order. Qed.
Print Assumptions C10_extra_kwargs_keep_call_order.

(* 8. caches in front of a function of the key: the history of earlier lookups is irrelevant *)
Theorem C10_memo_history_independent : forall f h1 h2 k,
  snd (memo_call f (replay_history f [] h1) k) = snd (memo_call f (replay_history f [] h2) k).
Proof. exact memo_history_independent. Qed.
Print Assumptions C10_memo_history_independent.

(* 8b. a cache whose key is a projection of the input (resolution_cache is keyed by
       _LookupContext(varname, node, state)): history-independent whenever the key determines
       the cached result, and -- conversely -- any two inputs with equal keys and different
       results give a history that changes an answer.  The key that keeps the node is
       injective; the key that forgets it is refuted. *)
Theorem C10_keyed_memo_history_independent : forall key f, key_determines key f ->
  forall h1 h2 x, answer_after key f h1 x = answer_after key f h2 x /\ answer_after key f h1 x = f x.
Proof. exact keyed_memo_history_independent. Qed.
Print Assumptions C10_keyed_memo_history_independent.

Theorem C10_keyed_memo_needs_determining_key : forall key f x y,
  key x = key y -> f x <> f y -> answer_after key f [x] y <> answer_after key f [] y.
Proof. exact keyed_memo_needs_determining_key. Qed.
Print Assumptions C10_keyed_memo_needs_determining_key.

Theorem C10_node_in_key_suffices : forall f h1 h2 x,
  answer_after full_key f h1 x = answer_after full_key f h2 x.
Proof. exact full_key_history_independent. Qed.
Print Assumptions C10_node_in_key_suffices.

Theorem C10_name_only_key_refuted : exists f h x, answer_after name_only_key f h x <> answer_after name_only_key f [] x.
Proof. exact name_only_key_refuted. Qed.
Print Assumptions C10_name_only_key_refuted.

(* 8b'. the two-way memo of stacked_scopes._memoized_invert (computing inv x = y also records
        y -> x): history-independent when inv is an involution on the memoised objects, and an
        earlier call changes a later answer otherwise.  pyanalyze's invert() is an involution only
        up to logical equivalence; the memo is per constraint object and constraint objects are not
        shared between programs (Det/StateAudit.v), so the dependence stays inside one check, whose
        call sequence is a function of the source. *)
Theorem C10_two_way_memo_history_independent : forall inv, (forall z, inv (inv z) = z) ->
  forall h1 h2 x, two_way_answer inv h1 x = two_way_answer inv h2 x.
Proof. exact two_way_memo_history_independent. Qed.
Print Assumptions C10_two_way_memo_history_independent.

Theorem C10_two_way_memo_needs_involution : forall inv x,
  inv (inv x) <> x -> inv x <> x -> two_way_answer inv [x] (inv x) <> two_way_answer inv [] (inv x).
Proof. exact two_way_memo_needs_involution. Qed.
Print Assumptions C10_two_way_memo_needs_involution.

(* 8c. state that outlives one check, regenerated from EVERY non-test module: every module- or
       class-level mutable object that is stored through and every functools.cache/lru_cache
       function is audited; the process-global caches are exactly the five named below; the
       cache of the shared sentinel is `_empty_constrained.resolution_cache`, whose key -- analysed field by field, not as
       text -- takes varname, node and state over from the lookup context unchanged; every other
       cache lookup/store of the seven files uses exactly the pinned key expression *)
Theorem C10_global_state_classified :
  forallb state_classified state_items = true /\ state_audit_live state_items = true /\
  (cache_keys = pinned_cache_keys \/ cache_keys = pinned_cache_keys_after_protocol_fix) /\
  resolution_key_ok resolution_key_fields = true /\
  map st_name (filter (fun s => match lookup_state s (state_audit ++ state_audit_extra)%list with Some (SProcessCache _) => true | _ => false end) state_items)
  = ["_empty_constrained"; "directory_has_init"; "get_all_error_codes"; "_get_checker"; "_typing_name_cache"]%string.
Proof.
  destruct all_state_items_classified as [H1 H2]. split; [exact H1|]. split; [exact H2|].
  split; [pose proof cache_keys_are_pinned as Hk; apply orb_true_iff in Hk; destruct Hk as [Hk|Hk]; [left|right]; apply keys_eqb_eq; exact Hk|].
  split; [exact resolution_cache_key_keeps_what_determines_the_result|exact process_global_caches_are_exactly].
Qed.
Print Assumptions C10_global_state_classified.

(* 8d. values handed out by caches are returned by reference (a BoundsMap is a dict of lists): every
       in-place mutation of a not-obviously-fresh object and every aliasing store in the value /
       type-object / signature / typevar / arg_spec / checker modules is one of the audited rows *)
Theorem C10_mutation_sites_pinned : mutation_sites = pinned_mutation_sites.
Proof. apply keys_eqb_eq. exact mutation_sites_are_pinned. Qed.
Print Assumptions C10_mutation_sites_pinned.

(* 9. the inventory regenerated from the current source is completely classified,
      the audit table has no stale entry, and the residual sites are exactly the three named ones *)
Theorem C10_all_sites_classified : forallb classified sites = true /\ audit_live sites = true.
Proof. split; [exact all_sites_classified|exact audit_has_no_stale_entry]. Qed.
Print Assumptions C10_all_sites_classified.

Theorem C10_residual_sites : map (fun s => (s_func s, s_expr s)) (filter is_residual sites) =
  [ ("TypeObject.can_assign", "other.artificial_bases");
    ("ClassAttributeChecker.check_unused_attributes", "existing_attrs - attrs_read - ignored") ]%string.
Proof. exact residual_sites_are_exactly. Qed.
Print Assumptions C10_residual_sites.

(* 9b. Signature.validate's join: over the table KIND_TO_ALLOWED_PREVIOUS regenerated from
       signature.py, a signature built from POSITIONAL_ONLY / VAR_POSITIONAL parameters (the only
       kind whose InvalidSignature text is shown) has at most one disallowed previous kind *)
Theorem C10_validate_join_is_singleton :
  forallb (fun k => Nat.leb (length (disallowed ["POSITIONAL_ONLY"; "VAR_POSITIONAL"]%string k)) 1)
          ["POSITIONAL_ONLY"; "VAR_POSITIONAL"]%string = true
  /\ allowed_for "POSITIONAL_ONLY" <> [] /\ allowed_for "VAR_POSITIONAL" <> [].
Proof. exact validate_join_is_singleton. Qed.
Print Assumptions C10_validate_join_is_singleton.

(* the hypotheses above are satisfiable by non-trivial inputs *)
Example C10_guard_inhabited :
  Permutation [3%N; 1%N; 2%N] [2%N; 3%N; 1%N] /\ sorted_list [3%N; 1%N; 2%N] = [1%N; 2%N; 3%N]
  /\ fromkeys [2%N; 1%N; 2%N; 3%N; 1%N] = [2%N; 1%N; 3%N] /\ is_arrangement (@rev N)
  /\ length sites > 100.
Proof.
  split; [apply (Permutation_app_comm [3%N; 1%N] [2%N])|].
  split; [reflexivity|]. split; [reflexivity|]. split; [intros l; apply Permutation_sym, Permutation_rev|].
  vm_compute. repeat constructor.
Qed.
Print Assumptions C10_guard_inhabited.
