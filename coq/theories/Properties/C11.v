(* Properties/C11.v — suppression and enabling are a pure projection of the
   diagnostics.  Only statements, `exact`, and Print Assumptions.

   All statements are about PV.Lines.Suppress (model of node_visitor.show_error,
   has_file_level_ignore, get_unused_ignores, show_errors_for_{unused,bare}_ignores
   after the repair repo_fixes/C11-first-line-prev-ignore) instantiated with the
   constants regenerated from the source on every run (PV.Gen.Codes:
   IGNORE_COMMENT, the error-code registry, the codes of the two final passes).
   A file is an arbitrary list of lines of arbitrary characters; a raw stream
   is an arbitrary list of show_error calls; settings are arbitrary. *)
From Coq Require Import List Bool NArith ZArith Arith.
Import ListNotations.
Require Import PV.Options.Base PV.Options.Parse PV.Gen.Options PV.Proofs.OptionsParse.
Require Import PV.Lines.Text PV.Lines.Suppress PV.Lines.Place.
Require Import PV.Proofs.LinesSuppress PV.Proofs.LinesText PV.Proofs.LinesPlace PV.Proofs.LinesGen PV.Proofs.LinesOptions.
Require Import PV.Gen.Codes PV.Gen.SuppressGen.

Notation IGN := IGNORE_COMMENT.
Notation nm := code_name.
Notation U := unused_ignore_code.
Notation B := bare_ignore_code.

(* ---- the translated functions are the model's functions -------------- *)

Theorem C11_gen_is_model :
  (forall f ln c, 1 <= ln ->
     SuppressGen.line_ignore f ln (Some c) = option_map Z.of_nat (Suppress.line_ignore IGN nm f ln c)) /\
  (forall c ls i, SuppressGen.fl_scan c ls i = Suppress.fl_scan IGN nm c ls i) /\
  (forall f usd, SuppressGen.unused_lines f usd = Suppress.unused_lines IGN f usd) /\
  (forall f, SuppressGen.bare_lines f = Suppress.bare_lines IGN f) /\
  SuppressGen.show_error_gates = [0; 1; 2; 3; 4; 5; 6; 8].
Proof. exact gen_is_model. Qed.
Print Assumptions C11_gen_is_model.

(* ---- the pipeline is a projection ------------------------------------ *)

(* what show_error lets through = a per-diagnostic filter of the first
   occurrences: `live` looks at the code only (enabled, no file-level ignore),
   `kept` at the diagnostic and the file only (no comment on its line / the
   line before) — no diagnostic influences another one *)
Theorem C11_main_is_projection : forall st f raw,
  main IGN nm st f raw = filter (kept IGN nm f) (dedup (filter (live IGN nm st f) raw)).
Proof. exact (main_is_projection IGN nm). Qed.
Print Assumptions C11_main_is_projection.

Theorem C11_order_preserved : forall st f raw, sublist (main IGN nm st f raw) raw.
Proof. exact (main_order_preserved IGN nm). Qed.
Print Assumptions C11_order_preserved.

(* disabling any set S of codes removes exactly the diagnostics of those codes
   from what the raw stream produces — for every file, with or without comments *)
Theorem C11_disable_is_projection : forall S st f raw,
  main IGN nm (disable S st) f raw = filter (not_in S) (main IGN nm st f raw).
Proof. exact (disable_main_projection IGN nm). Qed.
Print Assumptions C11_disable_is_projection.

(* the whole output (raw stream, then unused-ignore pass, then bare-ignore pass):
   projection whenever the same comment lines are credited under both settings … *)
Theorem C11_disable_is_projection_full : forall S st f raw,
  same_used IGN f (used (run_raw IGN nm (disable S st) f raw)) (used (run_raw IGN nm st f raw)) ->
  emit IGN nm (disable S st) f U B raw = filter (not_in S) (emit IGN nm st f U B raw).
Proof. exact (fun S st f raw => disable_emit_projection IGN nm S st f U B raw). Qed.
Print Assumptions C11_disable_is_projection_full.

(* … in particular for every file without ignore comments (the property's D(P)) *)
Theorem C11_disable_is_projection_comment_free : forall S st f raw,
  comment_free IGN f ->
  emit IGN nm (disable S st) f U B raw = filter (not_in S) (emit IGN nm st f U B raw).
Proof. exact (fun S st f raw => disable_emit_projection_comment_free IGN nm S st f U B raw). Qed.
Print Assumptions C11_disable_is_projection_comment_free.

(* end to end: D(P, disable S) is computed from the raw stream the checker produces *under the
   disabling configuration*.  It is the projection of D(P) whenever that stream, restricted to the
   codes that stay enabled, is the one produced with everything enabled — an explicit, decidable
   hypothesis that the harness checks for every program and code subset (a change that makes a probe
   under catch_errors() see fewer errors when a code is disabled violates exactly it) *)
Theorem C11_disable_end_to_end : forall S st f raw raw',
  raw_indep S st raw raw' ->
  main IGN nm (disable S st) f raw' = filter (not_in S) (main IGN nm st f raw).
Proof. exact (disable_end_to_end IGN nm). Qed.
Print Assumptions C11_disable_end_to_end.

Theorem C11_disable_end_to_end_comment_free : forall S st f raw raw',
  comment_free IGN f -> raw_indep S st raw raw' ->
  emit IGN nm (disable S st) f U B raw' = filter (not_in S) (emit IGN nm st f U B raw).
Proof. exact (fun S st f raw raw' => disable_end_to_end_comment_free IGN nm S st f U B raw raw'). Qed.
Print Assumptions C11_disable_end_to_end_comment_free.

(* the hypothesis of the full form cannot be dropped: disabling the only code an
   `ignore[code]` comment suppresses makes that comment unused (and reported) *)
Theorem C11_disable_full_needs_same_used : exists S st f raw,
  emit IGN nm (disable S st) f U B raw <> filter (not_in S) (emit IGN nm st f U B raw).
Proof. exact disable_full_counterexample. Qed.
Print Assumptions C11_disable_full_needs_same_used.

(* ---- the disabling routes, through the option lookup of C18 ------------ *)

(* is_enabled is Options.is_error_code_enabled: C18's `effective` for an error-code option.
   Whatever the route, a new configuration under which every code of S looks up 0 and every
   other code is configured as before yields the projection *)
Theorem C11_config_disable_projection : forall (cf cf' : N -> code_conf) S mp f raw,
  (forall c, mem_N c S = true ->
     effective true (cf_files (cf' c)) (cf_cli (cf' c)) (cf_default (cf' c)) mp = Some (Some 0%Z)) ->
  (forall c, mem_N c S = false -> cf' c = cf c) ->
  main IGN nm (enabled_by cf' mp) f raw = filter (not_in S) (main IGN nm (enabled_by cf mp) f raw).
Proof. exact (config_disable_projection IGN nm). Qed.
Print Assumptions C11_config_disable_projection.

(* command line / `settings`: a `False` instance for every code of S wins over any accepted file stack
   (uses C18_cli_wins) *)
Theorem C11_cli_route_projection : forall cf S mp f raw,
  (forall c, mem_N c S = true -> exists l, parse_main true (cf_files (cf c)) = Ok l) ->
  main IGN nm (enabled_by (with_cli_off S cf) mp) f raw
  = filter (not_in S) (main IGN nm (enabled_by cf mp) f raw).
Proof. exact (cli_route_projection IGN nm). Qed.
Print Assumptions C11_cli_route_projection.

(* main config file, top-level setting or per-module override: no command-line instance for the
   codes of S, and every setting of the main file applicable to module path mp (at least one) is
   `false` — no extended file can re-enable the code (uses C18_main_beats_extended) *)
Theorem C11_file_route_projection : forall cf cf' S mp f raw,
  (forall c, mem_N c S = true ->
     cf_cli (cf' c) = [] /\
     exists l sec, parse_main true (cf_files (cf' c)) = Ok l /\ nth_error (cf_files (cf' c)) 0 = Some sec /\
       (exists y, In y (own true sec 0) /\ is_applicable_to y mp = true) /\
       (forall y, In y (own true sec 0) -> is_applicable_to y mp = true -> value y = 0%Z)) ->
  (forall c, mem_N c S = false -> cf' c = cf c) ->
  main IGN nm (enabled_by cf' mp) f raw = filter (not_in S) (main IGN nm (enabled_by cf mp) f raw).
Proof. exact (file_route_projection IGN nm). Qed.
Print Assumptions C11_file_route_projection.

(* the routes are inhabited: an override section for module prefix [1] that sets the code to false
   disables it for module [1; 2] and not for module [3], against a top-level `true` *)
Example C11_override_route_example :
  let files := [[ESet 1%Z; EOverrides (OVList [OSec (Some [1%N]) [ESet 0%Z]])]] in
  let cf := fun _ : N => mk_conf files [] 1%Z in
  enabled_by cf [1%N; 2%N] 3%N = false /\ enabled_by cf [3%N] 3%N = true /\
  enabled_by (with_cli_off [3%N] cf) [3%N] 3%N = false /\ enabled_by (with_cli_off [3%N] cf) [3%N] 9%N = true.
Proof. vm_compute. repeat split. Qed.
Print Assumptions C11_override_route_example.

(* ---- what one comment suppresses ------------------------------------- *)

(* a diagnostic is suppressed by line i+1 exactly when it is on that line and
   the line carries a trailing comment for it (bare, or naming its code), or it
   is on the line after, that line has no trailing comment for it, and line i+1
   is — after strip() — exactly the comment (bare, or naming its code) *)
Theorem C11_suppressor_exact : forall f d i,
  suppressor IGN nm f d = Some i <->
  d_obey d = true /\ exists ln, d_line d = Some ln /\
    ((i = ln - 1 /\ trailing_hit IGN nm (line_at f (ln - 1)) (d_code d) = true)
     \/ (i = ln - 2 /\ 2 <= ln /\ trailing_hit IGN nm (line_at f (ln - 1)) (d_code d) = false
         /\ own_hit IGN nm (line_at f (ln - 2)) (d_code d) = true)).
Proof. exact (suppressor_exact IGN nm). Qed.
Print Assumptions C11_suppressor_exact.

(* adding a trailing comment to line n of any file removes exactly the
   diagnostics of line n that the comment names (all, when bare) *)
Theorem C11_trailing_ignore_exact : forall st f raw n L',
  well_lined raw -> 1 <= n <= length f ->
  starts_hash (line_at f (n - 1)) = false -> starts_hash L' = false ->
  (forall c, trailing_hit IGN nm (line_at f (n - 1)) c = false) ->
  (forall c, own_hit IGN nm (line_at f (n - 1)) c = false) ->
  (forall c, own_hit IGN nm L' c = false) ->
  main IGN nm st (set_line (n - 1) L' f) raw
  = filter (fun d => negb (targets_line n d && trailing_hit IGN nm L' (d_code d))) (main IGN nm st f raw).
Proof. exact (trailing_exact IGN nm). Qed.
Print Assumptions C11_trailing_ignore_exact.

(* inserting an own-line comment C before line n (the diagnostics move down
   with their lines) removes exactly the diagnostics of the old line n that C
   names — provided C does not land in the leading comment block (then it is a
   file-level ignore, see below) and the old line n-1 was not itself an own-line
   ignore comment (which the insertion would separate from its target) *)
Theorem C11_ownline_ignore_exact : forall st f raw n C,
  well_lined raw -> 1 <= n <= length f ->
  not_leading f (n - 1) C ->
  (n >= 2 -> forall c, own_hit IGN nm (line_at f (n - 2)) c = false) ->
  main IGN nm st (insert_line (n - 1) C f) (map (shift_diag n) raw)
  = map (shift_diag n)
      (filter (fun d => negb (targets_line n d && own_hit IGN nm C (d_code d))) (main IGN nm st f raw)).
Proof. exact (ownline_exact IGN nm). Qed.
Print Assumptions C11_ownline_ignore_exact.

(* the line-1 boundary (the repaired defect): a comment on the last line does
   not act on line 1 in the model of the repaired code, and did before *)
Theorem C11_first_line_has_no_previous_line : forall f c,
  Suppress.line_ignore IGN nm f 1 c = if trailing_hit IGN nm (line_at f 0) c then Some 0 else None.
Proof. exact (line_ignore_first_line IGN nm). Qed.
Print Assumptions C11_first_line_has_no_previous_line.

Theorem C11_unrepaired_wraps_to_last_line : exists f c,
  line_ignore_wrap IGN nm f 1 c = Some (length f - 1) /\ length f > 2 /\ Suppress.line_ignore IGN nm f 1 c = None.
Proof. exact wrap_refuted. Qed.
Print Assumptions C11_unrepaired_wraps_to_last_line.

(* ---- file-level ignores ---------------------------------------------- *)

Theorem C11_file_level_ignore_all : forall st f raw i,
  file_level IGN nm f None = Some i -> emit IGN nm st f U B raw = [].
Proof. exact (fun st f raw i => file_level_bare_suppresses_everything IGN nm st f U B raw i). Qed.
Print Assumptions C11_file_level_ignore_all.

Theorem C11_file_level_ignore_code : forall st f raw c i,
  file_level IGN nm f (Some c) = Some i -> forall d, In d (emit IGN nm st f U B raw) -> d_code d <> c.
Proof. exact (fun st f raw c i => file_level_code_suppresses_all IGN nm st f U B raw c i). Qed.
Print Assumptions C11_file_level_ignore_code.

(* ---- unused ignores --------------------------------------------------- *)

(* used_ignores = the comment lines credited with a suppression: the lines that
   `suppressor` names for a live first-occurrence diagnostic, and the file-level
   comment that dropped an enabled diagnostic *)
Theorem C11_used_is_credit : forall st f raw i,
  In i (used (run_raw IGN nm st f raw)) <-> In i (credit IGN nm st f raw).
Proof. exact (used_is_credit IGN nm). Qed.
Print Assumptions C11_used_is_credit.

(* a line containing the ignore text is reported unused exactly when it is
   credited with nothing (given unused_ignore is enabled and not itself
   file-level ignored) *)
Theorem C11_unused_iff_suppressed_nothing : forall st f raw i l,
  nth_error f i = Some l -> has_any IGN l = true ->
  st U = true -> file_level IGN nm f (Some U) = None ->
  (In (fake IGN U i l) (tail_unused IGN nm st f U (used (run_raw IGN nm st f raw)))
   <-> ~ In i (credit IGN nm st f raw)).
Proof. exact (fun st f => unused_iff_not_credited IGN nm st f U). Qed.
Print Assumptions C11_unused_iff_suppressed_nothing.

(* ---- the generated constants have the shape the model relies on -------- *)

Theorem C11_codes_well_formed :
  NoDup code_names /\
  (forall n, In n code_names -> n <> [] /\ forallb name_char n = true) /\
  (forall c c', (c < n_codes)%N -> (c' < n_codes)%N ->
     own_tag IGN nm c (tag IGN nm c') = N.eqb c c' /\
     has_tag IGN nm c (tag IGN nm c') = N.eqb c c' /\
     has_bare IGN (tag IGN nm c') = false /\ own_bare IGN (tag IGN nm c') = false) /\
  has_bare IGN IGN = true /\ own_bare IGN IGN = true /\ starts_hash IGN = true.
Proof. exact codes_well_formed. Qed.
Print Assumptions C11_codes_well_formed.

(* the comment lines of the property (and the ones the fixer inserts), at any indentation: an own-line comment for
   exactly its code, a trailing hit for exactly its code, file-level only at
   indentation 0 *)
Theorem C11_comment_line_features : forall k c c', (c < n_codes)%N -> (c' < n_codes)%N ->
  own_hit IGN nm (comment_line IGN nm k (Some c)) c' = N.eqb c' c /\
  trailing_hit IGN nm (comment_line IGN nm k (Some c)) c' = N.eqb c' c /\
  starts_hash (comment_line IGN nm k (Some c)) = Nat.eqb k 0 /\
  has_any IGN (comment_line IGN nm k (Some c)) = true.
Proof. exact comment_line_features. Qed.
Print Assumptions C11_comment_line_features.

Theorem C11_bare_comment_line_features : forall k c',
  own_hit IGN nm (comment_line IGN nm k None) c' = true /\
  trailing_hit IGN nm (comment_line IGN nm k None) c' = true /\
  starts_hash (comment_line IGN nm k None) = Nat.eqb k 0.
Proof. exact bare_comment_line_features. Qed.
Print Assumptions C11_bare_comment_line_features.

(* ---- the two known findings, as statements about the model ------------- *)

(* known finding C11-ignore-text-in-string: the pipeline looks at the text of a
   line, not at its tokens *)
Theorem C11_ignore_text_in_string_acts : forall c,
  trailing_hit IGN nm string_literal_line c = true /\ has_any IGN string_literal_line = true.
Proof. exact ignore_text_in_string_acts. Qed.
Print Assumptions C11_ignore_text_in_string_acts.

(* known finding C11-splitlines-vs-tokenizer: when splitlines() cuts the
   tokenizer's line 1 at a form feed, the trailing comment of line 2 is missed *)
Theorem C11_splitlines_shift_acts : forall c,
  Suppress.line_ignore IGN nm [ff_line_a ++ [12%N] ++ ff_line_b; ff_line_2] 2 c = Some 1 /\
  Suppress.line_ignore IGN nm [ff_line_a; ff_line_b; ff_line_2] 2 c = None.
Proof. exact splitlines_shift_acts. Qed.
Print Assumptions C11_splitlines_shift_acts.

Example C11_nonvacuous :
  (* line 2 has an undefined_name (3) and an unsupported_operation (9); an own-line
     ignore[undefined_name] before it removes exactly the first, and is used;
     a second comment for another code on line 1 is reported unused *)
  let f := [ comment_line IGN nm 4 (Some 9%N) ++ [120%N];
             comment_line IGN nm 4 (Some 3%N);
             [32%N; 32%N; 120%N] ] in
  let raw := [ mk_diag 1 3 (Some 3) 2 true; mk_diag 2 9 (Some 3) 4 true; mk_diag 1 3 (Some 3) 2 true ] in
  map (fun d => (d_code d, d_line d)) (emit IGN nm (fun _ => true) f U B raw)
  = [ (9%N, Some 3); (U, Some 1) ].
Proof. vm_compute. reflexivity. Qed.
Print Assumptions C11_nonvacuous.
