(* Properties/C11.v — suppression and enabling are a pure projection of the
   diagnostics.  Only statements, `exact`, and Print Assumptions.

   All statements are about PV.Lines.Suppress (model of node_visitor.show_error,
   has_file_level_ignore, get_unused_ignores, show_errors_for_{unused,bare}_ignores
   after the repair repo_fixes/C11-first-line-prev-ignore) instantiated with the
   constants regenerated from the source on every run (PV.Gen.Codes:
   IGNORE_COMMENT, the error-code registry, the codes of the two final passes).
   A file is an arbitrary list of lines of arbitrary characters; a raw stream
   is an arbitrary list of show_error calls; settings are arbitrary. *)
From Coq Require Import List Bool NArith Arith.
Import ListNotations.
Require Import PV.Lines.Text PV.Lines.Suppress.
Require Import PV.Proofs.LinesSuppress.
Require Import PV.Gen.Codes.

Notation IGN := IGNORE_COMMENT.
Notation nm := code_name.
Notation U := unused_ignore_code.
Notation B := bare_ignore_code.


(* ---- the pipeline is a projection ------------------------------------ *)

(* what show_error lets through = a per-diagnostic filter of the first
   occurrences: `live` looks at the code only (enabled, no file-level ignore),
   `kept` at the diagnostic and the file only (no comment on its line / the
   line before) — no diagnostic influences another one *)
Theorem C11_main_is_projection : forall st f raw,
  main IGN nm st f raw = filter (kept IGN nm f) (dedup (filter (live IGN nm st f) raw)).
Proof. exact (main_is_projection IGN nm). Qed.
Print Assumptions C11_main_is_projection.

Theorem C11_order_preserved : forall st f raw, sublist (main IGN nm st f raw) raw.
Proof. exact (main_order_preserved IGN nm). Qed.
Print Assumptions C11_order_preserved.

(* disabling any set S of codes removes exactly the diagnostics of those codes
   from what the raw stream produces — for every file, with or without comments *)
Theorem C11_disable_is_projection : forall S st f raw,
  main IGN nm (disable S st) f raw = filter (not_in S) (main IGN nm st f raw).
Proof. exact (disable_main_projection IGN nm). Qed.
Print Assumptions C11_disable_is_projection.

(* the whole output (raw stream, then unused-ignore pass, then bare-ignore pass):
   projection whenever the same comment lines are credited under both settings … *)
Theorem C11_disable_is_projection_full : forall S st f raw,
  same_used IGN f (used (run_raw IGN nm (disable S st) f raw)) (used (run_raw IGN nm st f raw)) ->
  emit IGN nm (disable S st) f U B raw = filter (not_in S) (emit IGN nm st f U B raw).
Proof. exact (fun S st f raw => disable_emit_projection IGN nm S st f U B raw). Qed.
Print Assumptions C11_disable_is_projection_full.

(* … in particular for every file without ignore comments (the property's D(P)) *)
Theorem C11_disable_is_projection_comment_free : forall S st f raw,
  comment_free IGN f ->
  emit IGN nm (disable S st) f U B raw = filter (not_in S) (emit IGN nm st f U B raw).
Proof. exact (fun S st f raw => disable_emit_projection_comment_free IGN nm S st f U B raw). Qed.
Print Assumptions C11_disable_is_projection_comment_free.


(* ---- what one comment suppresses ------------------------------------- *)

(* a diagnostic is suppressed by line i+1 exactly when it is on that line and
   the line carries a trailing comment for it (bare, or naming its code), or it
   is on the line after, that line has no trailing comment for it, and line i+1
   is — after strip() — exactly the comment (bare, or naming its code) *)
Theorem C11_suppressor_exact : forall f d i,
  suppressor IGN nm f d = Some i <->
  d_obey d = true /\ exists ln, d_line d = Some ln /\
    ((i = ln - 1 /\ trailing_hit IGN nm (line_at f (ln - 1)) (d_code d) = true)
     \/ (i = ln - 2 /\ 2 <= ln /\ trailing_hit IGN nm (line_at f (ln - 1)) (d_code d) = false
         /\ own_hit IGN nm (line_at f (ln - 2)) (d_code d) = true)).
Proof. exact (suppressor_exact IGN nm). Qed.
Print Assumptions C11_suppressor_exact.





(* ---- file-level ignores ---------------------------------------------- *)

Theorem C11_file_level_ignore_all : forall st f raw i,
  file_level IGN nm f None = Some i -> emit IGN nm st f U B raw = [].
Proof. exact (fun st f raw i => file_level_bare_suppresses_everything IGN nm st f U B raw i). Qed.
Print Assumptions C11_file_level_ignore_all.

Theorem C11_file_level_ignore_code : forall st f raw c i,
  file_level IGN nm f (Some c) = Some i -> forall d, In d (emit IGN nm st f U B raw) -> d_code d <> c.
Proof. exact (fun st f raw c i => file_level_code_suppresses_all IGN nm st f U B raw c i). Qed.
Print Assumptions C11_file_level_ignore_code.

(* ---- unused ignores --------------------------------------------------- *)

(* used_ignores = the comment lines credited with a suppression: the lines that
   `suppressor` names for a live first-occurrence diagnostic, and the file-level
   comment that dropped an enabled diagnostic *)
Theorem C11_used_is_credit : forall st f raw i,
  In i (used (run_raw IGN nm st f raw)) <-> In i (credit IGN nm st f raw).
Proof. exact (used_is_credit IGN nm). Qed.
Print Assumptions C11_used_is_credit.

(* a line containing the ignore text is reported unused exactly when it is
   credited with nothing (given unused_ignore is enabled and not itself
   file-level ignored) *)
Theorem C11_unused_iff_suppressed_nothing : forall st f raw i l,
  nth_error f i = Some l -> has_any IGN l = true ->
  st U = true -> file_level IGN nm f (Some U) = None ->
  (In (fake IGN U i l) (tail_unused IGN nm st f U (used (run_raw IGN nm st f raw)))
   <-> ~ In i (credit IGN nm st f raw)).
Proof. exact (fun st f => unused_iff_not_credited IGN nm st f U). Qed.
Print Assumptions C11_unused_iff_suppressed_nothing.



Example C11_nonvacuous :
  (* line 2 has an undefined_name (3) and an unsupported_operation (9); an own-line
     ignore[undefined_name] before it removes exactly the first, and is used;
     a second comment for another code on line 1 is reported unused *)
  let f := [ comment_line IGN nm 4 (Some 9%N) ++ [120%N];
             comment_line IGN nm 4 (Some 3%N);
             [32%N; 32%N; 120%N] ] in
  let raw := [ mk_diag 1 3 (Some 3) 2 true; mk_diag 2 9 (Some 3) 4 true; mk_diag 1 3 (Some 3) 2 true ] in
  map (fun d => (d_code d, d_line d)) (emit IGN nm (fun _ => true) f U B raw)
  = [ (9%N, Some 3); (U, Some 1) ].
Proof. vm_compute. reflexivity. Qed.
Print Assumptions C11_nonvacuous.
