(* Properties/C12.v — totality: no crash, no internal error, well-formed output.
   Only statements, `exact`, and Print Assumptions.

   Proved: crash-freedom / well-formedness of the MODELLED operations
   (show_error's location and context rendering, isinstance-chain dispatch of
   get_boolability over the value classes regenerated from value.py, the
   annotation visitor's node dispatch, constraint construction, max()/next()
   guards).  "For every syntactically valid module" over the whole checker is
   explored by harness/c12.py, not proved. *)
From Coq Require Import String List Bool ZArith Arith.
Import ListNotations.
Require Import PV.Total.Emit PV.Total.Dispatch PV.Total.Ops PV.Total.Column PV.Gen.Total.
Require Import PV.Proofs.TotalEmit PV.Proofs.TotalOps PV.Proofs.TotalGen PV.Proofs.TotalColumn.
Open Scope list_scope.

(* 1. show_error, for the constants TRANSLATED from the current node_visitor.py
      (Gen.Total.show_error_params: CONTEXT_LINES, the extra line after, offset and guard of the
      previous-line lookup): a line number inside the file is rendered without raising, every
      context line is inside the file, the reported line is among them, at most
      2*CONTEXT_LINES + extra context lines, and the caret follows the reported line when a
      column is known.  Proved for EVERY parameter record satisfying params_ok, so a
      behaviour-preserving change of the constants re-proves. *)
Theorem C12_emit_wellformed : forall (A : Type) (P : emit_params) (lines : list A) lineno col,
  params_ok P = true ->
  (1 <= lineno <= Z.of_nat (length lines))%Z ->
  exists ctx, emit_p P lines (Some lineno) col = Emitted (Some lineno) col ctx /\
    wellformed_position lines (Emitted (Some lineno) col ctx) /\
    (Z.of_nat (length ctx) <= 2 * ep_context P + ep_after_extra P)%Z /\
    (forall c, col = Some c -> In (lineno, true) ctx).
Proof. exact emit_wellformed. Qed.
Print Assumptions C12_emit_wellformed.

Theorem C12_show_error_params_ok : params_ok show_error_params = true.
Proof. exact show_error_params_ok. Qed.
Print Assumptions C12_show_error_params_ok.

(* 2. exactly when it raises: the line number is not a valid subscript for
      lines[lineno-1] (the previous line is only read where its subscript is non-negative) *)
Theorem C12_emit_crash_iff : forall (A : Type) (P : emit_params) (lines : list A) lineno col,
  params_ok P = true ->
  (emit_p P lines (Some lineno) col = Crash <->
   ~ (1 - Z.of_nat (length lines) <= lineno <= Z.of_nat (length lines))%Z).
Proof. exact emit_crash_iff. Qed.
Print Assumptions C12_emit_crash_iff.

Theorem C12_emit_without_position_total : forall (A : Type) (P : emit_params) (lines : list A) col,
  emit_p P lines None col = Emitted None col [].
Proof. exact emit_without_position_total. Qed.
Print Assumptions C12_emit_without_position_total.

(* the unguarded statement is false: positions outside the file crash or are rendered outside it *)
Definition C12_emit_full_statement : Prop := emit_full_statement.
Theorem C12_emit_full_statement_refuted : ~ C12_emit_full_statement.
Proof. exact emit_full_statement_refuted. Qed.
Print Assumptions C12_emit_full_statement_refuted.

(* 2b. the column: `ast` reports the UTF-8 byte offset.  For a line of ASCII characters it is
       the character position, hence inside the line; in general it is never left of the
       character and exceeds it by exactly the extra bytes of the wide characters before the
       node -- so it can leave the line (known finding C12-column-byte-offset, guard
       `all_ascii line = false`) *)
Definition C12_col_in_line_full_statement : Prop := col_in_line_full_statement.
Theorem C12_col_in_line_refuted : ~ C12_col_in_line_full_statement.
Proof. exact col_in_line_refuted. Qed.
Print Assumptions C12_col_in_line_refuted.

Theorem C12_col_in_line_partial : forall ws k, all_ascii ws = true -> (k <= length ws)%nat -> col_in_line ws k = true.
Proof. exact col_in_line_ascii. Qed.
Print Assumptions C12_col_in_line_partial.

Theorem C12_col_is_position_plus_extra_bytes : forall ws k, wellformed_widths ws = true -> (k <= length ws)%nat ->
  (k <= reported_col ws k)%nat /\
  reported_col ws k = (k + fold_right (fun w acc => (w - 1) + acc) 0 (firstn k ws))%nat.
Proof.
  intros ws k Hw Hk. split; [apply col_not_left_of_character; assumption|apply byte_offset_firstn; assumption].
Qed.
Print Assumptions C12_col_is_position_plus_extra_bytes.

(* 2c. the repair proposed in repo_fixes/C12-column-character-offset (the translator regenerates
       Gen.Total.column_converted: does the CURRENT show_error convert the byte offset?): with
       the conversion the reported column IS the character position, inside the line for every
       line -- and whatever byte offset is converted, the result never leaves the line *)
Theorem C12_converted_col_in_line : forall ws k, wellformed_widths ws = true -> (k <= length ws)%nat ->
  reported_col_gen true ws k = k /\ (reported_col_gen true ws k <= length ws)%nat.
Proof. exact converted_col_in_line. Qed.
Print Assumptions C12_converted_col_in_line.

Theorem C12_converted_col_never_outside : forall ws b, (chars_before ws b <= length ws)%nat.
Proof. exact converted_col_never_outside. Qed.
Print Assumptions C12_converted_col_never_outside.

(* 3. Python subscripting *)
Theorem C12_py_index_defined_iff : forall (A : Type) (l : list A) i,
  (exists x, py_index l i = Some x) <-> (- Z.of_nat (length l) <= i < Z.of_nat (length l))%Z.
Proof. exact py_index_some. Qed.
Print Assumptions C12_py_index_defined_iff.

(* 4. isinstance chains with a crashing fall-through *)
Theorem C12_dispatch_total_iff : forall h handled c,
  crashes h handled c = false <-> exists d, In d handled /\ subclass h c d = true.
Proof. exact dispatch_total_iff. Qed.
Print Assumptions C12_dispatch_total_iff.

(* 5. get_boolability over the value classes of the CURRENT value.py / boolability.py *)
Definition C12_boolability_total_full_statement : Prop := boolability_total_full_statement.
Theorem C12_boolability_total_refuted : ~ C12_boolability_total_full_statement.
Proof. exact boolability_total_refuted. Qed.
Print Assumptions C12_boolability_total_refuted.

Theorem C12_boolability_total_partial : forall c, In c (map fst value_hierarchy) ->
  mem_str c boolab_guard = false -> boolab_crashes c = false.
Proof. exact boolability_total_partial. Qed.
Print Assumptions C12_boolability_total_partial.

Theorem C12_boolability_guard_exact_and_repairs :
  forallb boolab_crashes boolab_guard = true /\
  boolab_crashes "TypeAliasValue" = false /\ boolab_crashes "ParamSpecArgsValue" = false /\
  boolab_crashes "ParamSpecKwargsValue" = false /\ boolab_crashes "CallableValue" = false /\
  boolab_crashes "SequenceValue" = false.
Proof. split; [exact boolab_guard_exact|exact boolability_repaired_classes]. Qed.
Print Assumptions C12_boolability_guard_exact_and_repairs.

(* 5b. unwrapping a TypeVar can yield a union AFTER get_boolability took the outer union apart
       (x: Optional[AnyStr]): _get_boolability_no_mvv survives iff it delegates unions back
       (regenerated flag); on the unchanged tree it does not (known finding
       C12-boolability-typevar-in-union, fix proposed) *)
Theorem C12_boolability_delegation_suffices :
  mem_str "MultiValuedValue" boolability_delegated = true -> boolab_unwrapped_union_crashes = false.
Proof. exact delegation_suffices. Qed.
Print Assumptions C12_boolability_delegation_suffices.

(* 6. the annotation visitor of the CURRENT annotations.py raises for no expression kind;
      a raising generic_visit crashes on exactly the kinds without a method *)
Theorem C12_annotation_visitor_total : forall k, In k expr_kinds -> annotation_crashes k = false.
Proof. exact annotation_visitor_total. Qed.
Print Assumptions C12_annotation_visitor_total.

Theorem C12_raising_generic_visit_crashes : forall methods k,
  visitor_crashes methods k = true <-> ~ In k methods.
Proof. exact raising_generic_visit_crashes. Qed.
Print Assumptions C12_raising_generic_visit_crashes.

(* 6b. every if/elif chain of the package that compares one subject with the members of one
       enum and ends in `assert False` / raise (ParameterKind in bind_arguments, can_assign,
       to_argument; ConstraintType in apply_to_value) handles EVERY member of the enum as
       regenerated from the source, except the one named nested chain; typevar.solve handles
       every Bound class of value.py *)
Theorem C12_enum_chains_total_partial : forall ch, In ch enum_chains -> chain_guard ch = false -> chain_total ch = true.
Proof. exact enum_chains_total_partial. Qed.
Print Assumptions C12_enum_chains_total_partial.

Theorem C12_total_chain_covers_every_member : forall f fn subj e handled m,
  chain_total (f, fn, subj, e, handled) = true -> In m (members_of e) -> In m handled.
Proof. exact chain_total_covers. Qed.
Print Assumptions C12_total_chain_covers_every_member.

Theorem C12_enum_chains_guard_exact : forallb (fun ch => negb (chain_guard ch) || negb (chain_total ch)) enum_chains = true
  /\ (4 <= length (filter (fun ch => negb (chain_guard ch)) enum_chains))%nat.
Proof. exact enum_chains_guard_exact. Qed.
Print Assumptions C12_enum_chains_guard_exact.

Theorem C12_bound_chain_total : forall c, In c bound_family -> crashes [] bound_chain_handled c = false.
Proof. exact bound_chain_total. Qed.
Print Assumptions C12_bound_chain_total.

(* 6c. NameCheckVisitor._get_typeis_parameter, translated statement by statement into
       Gen.Total.typeis_index (cm / im = is_classmethod / is_instancemethod, n = len(info.params)):
       the subscript info.params[index] is in range whenever it is reached, and the function
       returns exactly the parameter after self/cls when there is one *)
Theorem C12_typeis_index_in_range : forall cm im n i, typeis_index cm im n = Some i -> (i < n)%nat.
Proof. exact typeis_index_in_range. Qed.
Print Assumptions C12_typeis_index_in_range.

Theorem C12_typeis_index_spec : forall cm im n,
  typeis_index cm im n = (let k := if cm || im then 1 else 0 in if (k <? n)%nat then Some k else None)%nat.
Proof. exact typeis_index_spec. Qed.
Print Assumptions C12_typeis_index_spec.

(* 7. constraints: however And/Or constraints are built (make, invert), apply never
      meets `left, *rest = []` *)
Theorem C12_constraint_apply_total : forall s, built s -> apply_crashes s = false.
Proof. exact built_apply_total. Qed.
Print Assumptions C12_constraint_apply_total.

(* 8. max() over a non-empty list and the len == 1 guard of next(iter()) *)
Theorem C12_max_total : forall l, l <> [] -> exists m, max_list l = Some m /\ forall x, In x l -> (x <= m)%nat.
Proof. exact max_list_total. Qed.
Print Assumptions C12_max_total.

Theorem C12_guarded_next_total : forall s, guarded_next s <> None.
Proof. exact guarded_next_total. Qed.
Print Assumptions C12_guarded_next_total.

(* 9. the registry of error codes regenerated from error_code.py *)
Theorem C12_codes_registry_wellformed :
  nodup_str registered_codes = true /\ mem_str "internal_error" registered_codes = true /\
  mem_str "invalid_annotation" registered_codes = true /\ (50 <= length registered_codes)%nat.
Proof. exact codes_registry_wellformed. Qed.
Print Assumptions C12_codes_registry_wellformed.

(* the hypotheses are satisfiable by non-trivial inputs *)
Example C12_guard_inhabited :
  (exists ctx, emit [1; 2; 3; 4; 5; 6; 7; 8; 9]%nat (Some 5%Z) (Some 2%Z) = Emitted (Some 5%Z) (Some 2%Z) ctx /\ length ctx = 7%nat) /\
  mem_str "GenericValue" boolab_guard = false /\ In "GenericValue" (map fst value_hierarchy) /\
  built (make_or [SAtom; invert (make_and [SAtom; SAtom])]) /\
  emit [1; 2]%nat (Some 3%Z) None = Crash /\ apply_crashes (SOr 0) = true /\ max_list [] = None.
Proof.
  split; [eexists; split; vm_compute; reflexivity|]. split; [reflexivity|]. split; [vm_compute; tauto|].
  split.
  - apply b_or. intros c [H|[H|[]]]; subst.
    + apply b_atom.
    + apply b_inv. apply b_and. intros c [H|[H|[]]]; subst; apply b_atom.
  - repeat split; reflexivity.
Qed.
Print Assumptions C12_guard_inhabited.
