(* Properties/C13.v -- static and runtime views of declarations agree.
   Only statements, `exact`, and Print Assumptions.

   Models: Annot/Routes.v (route_ast = annotations._Visitor + _type_from_value,
   also used for every string; route_runtime = _type_from_runtime on the
   evaluated object; route_visitor = value_of_annotation), Annot/DefSig.v
   (compute_parameters vs from_signature) and the binder of C05 for calls.
   The per-form behaviour of both evaluators and the kind logic of both
   signature builders come from PV.Gen.Annot (regenerated from annotations.py,
   functions.py and arg_spec.py on every run); the rest is tied to the real code
   by harness/c13.py.  That "what evaluating E produces" matches CPython's typing
   module is part of that correspondence, not a theorem. *)
From Coq Require Import NArith ZArith List Bool.
Import ListNotations.
Require Import PV.Annot.Forms PV.Gen.Annot PV.Annot.Routes PV.Annot.DefSig PV.Proofs.AnnotRoutes.

(* ---- generated tables meet what the proofs rely on ----------------------- *)

Theorem C13_gen_tables_agree :
  act ast_table FUnion = act rt_table FUnion /\ act ast_table FLiteral = act rt_table FLiteral /\
  act ast_table FTupleVar = act rt_table FTupleVar /\ act ast_table FTupleEmpty = act rt_table FTupleEmpty /\
  act ast_table FTupleFixed = act rt_table FTupleFixed /\ act ast_table FType = act rt_table FType /\
  act ast_table FAnnotated = act rt_table FAnnotated /\ act ast_table FFinal = act rt_table FFinal /\
  act ast_table FClassVar = act rt_table FClassVar /\ act ast_table FUnpack = act rt_table FUnpack /\
  act ast_table FCallable = act rt_table FCallable /\ act ast_table FGenericClass = act rt_table FGenericClass /\
  act ast_table FTypeAlias = act rt_table FTypeAlias.
Proof. exact tables_agree. Qed.
Print Assumptions C13_gen_tables_agree.

Theorem C13_gen_tables_optional :
  (exists b, act ast_table FOptional = Some (ActOptional b)) /\ act rt_table FUnion = Some ActUniteMembers.
Proof. exact tables_optional. Qed.
Print Assumptions C13_gen_tables_optional.

Theorem C13_gen_tables_literal_star :
  act ast_table FLiteral = Some (ActUniteLiterals true) /\ ast_visit_starred = true /\
  act rt_table FTupleFixed = Some ActSeqMembers /\ act rt_table FUnpack = Some ActUnpacked.
Proof. exact tables_literal_star. Qed.
Print Assumptions C13_gen_tables_literal_star.

Theorem C13_gen_signature_builders :
  def_kind_order = [PosOnly; PosOrKw; VarPos; KwOnly; VarKw] /\
  (forall k pr, rt_kind k pr = if (match k with PosOrKw => true | _ => false end) && pr then (PosOnly, true) else (k, false)) /\
  (forall k v, gen_wrap k v = match k with VarPos => TGeneric tuple_c [v] | VarKw => TGeneric dict_c [TTyped str_c; v] | _ => v end).
Proof. exact (conj gen_def_kind_order (conj gen_rt_kind gen_wrap_spec)). Qed.
Print Assumptions C13_gen_signature_builders.

(* full strength (on the tree with the three C13 repairs): for every annotation
   expression of the vocabulary, of any nesting depth,
   value(E via AST) = value("E" via string) = value(eval(E) via runtime)
   = value(E written in the checked module) *)
Theorem C13_routes_commute : forall e,
  route_runtime e = route_ast e /\ route_ast (EStr e) = route_ast e /\ route_visitor e = route_ast e /\
  route_visitor (EStr e) = route_ast e /\ route_runtime (EStr e) = route_ast e.
Proof. exact routes_commute_all. Qed.
Print Assumptions C13_routes_commute.

(* Optional[X] is None|X on one route and X|None on the other: one value *)
Theorem C13_optional_order_irrelevant : forall v, unite [TNone; v] = unite [v; TNone].
Proof. exact unite_optional_comm. Qed.
Print Assumptions C13_optional_order_irrelevant.

(* the forms that diverged before the repairs *)
Theorem C13_routes_repaired_forms :
  route_ast (EFinal (EClass 1)) = TTyped 1 /\ route_ast (EClassVar (EOptional (EClass 1))) = TUnion true [TTyped 1] /\
  route_ast (ELitNested [1%Z] [2%Z]) = TUnion false [TLit 1; TLit 2] /\
  route_runtime (ELitNested [1%Z] [2%Z]) = TUnion false [TLit 1; TLit 2] /\
  route_ast (EStarTuple [EClass 1] (EClass 2)) = TSeq [(false, TTyped 1); (true, TTyped 2)] /\
  route_runtime (EStarTuple [EClass 1] (EClass 2)) = TSeq [(false, TTyped 1); (true, TTyped 2)] /\
  route_ast (EStarTuple [EClass 1] (EClass 2)) = route_ast (EUnpackTuple [EClass 1] (EClass 2)).
Proof. exact routes_repaired_forms. Qed.
Print Assumptions C13_routes_repaired_forms.

Example C13_routes_example :
  route_runtime ex_annot = route_ast ex_annot /\
  route_ast ex_annot =
    TUnion true [TGeneric 5 [TUnion false [TTyped 1; TSeq [(false, TTyped 2); (false, TUnion false [TLit 1; TLit 2])]];
                             TCall [TUnion true [TTyped 1]] TAny]].
Proof. exact routes_example. Qed.
Print Assumptions C13_routes_example.

(* ---- signatures ------------------------------------------------------------ *)
(* full strength (on the tree with repo_fixes/C13-private-name-def-route): for every
   parameter list -- any names (private or not), kinds, defaults, annotations, return --
   the def node and the function object give the same names, kinds and defaults, the i-th
   parameter keeps the declared type of its route, and those types are equal up to the
   representation of an unannotated *args / **kwargs *)
Theorem C13_gen_def_private_rule : def_private_rule = true.
Proof. exact gen_def_private_rule. Qed.
Print Assumptions C13_gen_def_private_rule.

Theorem C13_def_sig_eq_runtime_sig : forall ps r,
  map erase (sig_from_def ps) = map erase (sig_from_runtime ps) /\
  map s_type (sig_from_def ps) = map def_type ps /\
  map s_type (sig_from_runtime ps) = map rt_type ps /\
  (forall p, norm_type (p_kind p) (def_type p) = norm_type (p_kind p) (rt_type p)) /\
  ret_from_def r = ret_from_runtime r.
Proof. exact def_sig_eq_runtime_sig. Qed.
Print Assumptions C13_def_sig_eq_runtime_sig.

(* the code before the repair (def route without the PEP 484 rule) *)
Theorem C13_def_sig_legacy_refuted :
  map s_kind (sig_from_def_legacy ex_private) = [PosOrKw; PosOrKw] /\
  map s_kind (sig_from_runtime ex_private) = [PosOnly; PosOnly] /\
  map s_kind (sig_from_def ex_private) = [PosOnly; PosOnly].
Proof. exact def_sig_legacy_refuted. Qed.
Print Assumptions C13_def_sig_legacy_refuted.

Example C13_def_sig_example :
  sig_from_runtime ex_sig =
    [mkSParam 1 PosOnly false (TTyped 1); mkSParam 2 PosOrKw true (TUnion true [TTyped 2]);
     mkSParam 3 VarPos false TAny; mkSParam 4 KwOnly true TAny;
     mkSParam 5 VarKw false (TGeneric dict_c [TTyped str_c; TTyped 1])] /\
  map s_type (sig_from_def ex_sig) =
    [TTyped 1; TUnion true [TTyped 2]; TGeneric tuple_c [TAny]; TAny; TGeneric dict_c [TTyped str_c; TTyped 1]].
Proof. exact def_sig_example. Qed.
Print Assumptions C13_def_sig_example.

(* ---- the owning class of an unannotated self --------------------------------- *)
(* the runtime route walks function.__qualname__; for a class nested to any depth in classes
   it finds the innermost class (the one the def route takes from the enclosing ClassDef) *)
Theorem C13_gen_self_walk : self_walk_on_previous = true.
Proof. exact gen_self_walk. Qed.
Print Assumptions C13_gen_self_walk.

Theorem C13_owner_resolved_at_any_depth : forall names, names <> [] ->
  exists c, owner_from_qualname (chain names) names = Some c /\ cname c = last names 0%N.
Proof. exact owner_resolved_at_any_depth. Qed.
Print Assumptions C13_owner_resolved_at_any_depth.

Theorem C13_owner_on_module_fails_when_nested : forall n1 n2 rest,
  N.eqb n1 n2 = false ->
  owner_from_qualname_on_module (chain (n1 :: n2 :: rest)) (n1 :: n2 :: rest) = None.
Proof. exact owner_on_module_fails_when_nested. Qed.
Print Assumptions C13_owner_on_module_fails_when_nested.

(* ---- calls ---------------------------------------------------------------- *)
(* full strength: the same call (any raw argument list) judged by the binder of C05
   against both signatures: same verdict, same binding, same declared type for every
   bound argument *)
Require Import PV.Annot.Calls.
Require PV.Binder.Bind PV.TypeVar.Base PV.Call.Model.

Theorem C13_call_judged_identically : forall ps raw,
  call_in_defining_scope ps raw = call_from_importer ps raw.
Proof. exact call_judged_identically. Qed.
Print Assumptions C13_call_judged_identically.

(* ... and checked by the call model of C06 (argument types against declared types,
   for any assignability relation O and any call with argument values): the same list
   of diagnostics (incompatible_call, incompatible_argument, ...) and the same result type *)
Theorem C13_call_checked_identically : forall (O : PV.TypeVar.Base.ops tval) limit ps r c,
  check_in_defining_scope O limit ps r c = check_from_importer O limit ps r c.
Proof. exact call_checked_identically. Qed.
Print Assumptions C13_call_checked_identically.

Theorem C13_call_legacy_refuted :
  call_in_defining_scope_legacy ex_private [Bind.RKw 1; Bind.RKw 2] <> None /\
  call_from_importer ex_private [Bind.RKw 1; Bind.RKw 2] = None /\
  call_in_defining_scope ex_private [Bind.RKw 1; Bind.RKw 2] = None.
Proof. exact call_legacy_refuted. Qed.
Print Assumptions C13_call_legacy_refuted.

Example C13_call_example :
  call_from_importer ex_sig [Bind.RPos; Bind.RPos; Bind.RPos; Bind.RKw 4; Bind.RKw 9] <> None /\
  call_from_importer ex_sig [Bind.RKw 1] = None /\
  call_from_importer ex_sig [] = None.
Proof. exact call_example. Qed.
Print Assumptions C13_call_example.
