(* Properties/C13.v -- static and runtime views of declarations agree.
   Only statements, `exact`, and Print Assumptions.

   Models: Annot/Routes.v (route_ast = annotations._Visitor + _type_from_value,
   also used for every string; route_runtime = _type_from_runtime on the
   evaluated object; route_visitor = value_of_annotation) and Annot/DefSig.v
   (compute_parameters vs from_signature).  They are tied to the real code by
   harness/c13.py; that the model of "what evaluating E produces" matches
   CPython's typing module is part of that correspondence, not a theorem. *)
From Coq Require Import NArith ZArith List Bool.
Import ListNotations.
Require Import PV.Annot.Routes PV.Annot.DefSig PV.Proofs.AnnotRoutes.

(* the full statement: every route gives the same type for every expression *)
Definition C13_routes_commute_full_statement : Prop := routes_commute_full_statement.

Theorem C13_routes_commute_full_statement_refuted : ~ C13_routes_commute_full_statement.
Proof. exact routes_commute_full_statement_refuted. Qed.
Print Assumptions C13_routes_commute_full_statement_refuted.

(* outside the three refuted classes: for annotation expressions of any
   nesting depth, value(E via AST) = value("E" via string) = value(eval(E) via
   runtime) = value(E written in the checked module) *)
Theorem C13_routes_commute_partial : forall e, routes_guard e = true ->
  route_runtime e = route_ast e /\ route_ast (EStr e) = route_ast e /\ route_visitor e = route_ast e /\
  route_visitor (EStr e) = route_ast e /\ route_runtime (EStr e) = route_ast e.
Proof. exact routes_commute_partial. Qed.
Print Assumptions C13_routes_commute_partial.

(* Optional[X] is None|X on one route and X|None on the other: one value *)
Theorem C13_optional_order_irrelevant : forall v, unite [TNone; v] = unite [v; TNone].
Proof. exact unite_optional_comm. Qed.
Print Assumptions C13_optional_order_irrelevant.

(* one refutation per guard clause *)
Theorem C13_routes_refuted_final :
  route_runtime (EFinal (EClass 1)) = TTyped 1 /\ route_ast (EFinal (EClass 1)) = TErr.
Proof. exact routes_refuted_final. Qed.
Print Assumptions C13_routes_refuted_final.

Theorem C13_routes_refuted_nested_literal :
  route_runtime (ELitNested [1%Z] [2%Z]) = TUnion false [TLit 1; TLit 2] /\ route_ast (ELitNested [1%Z] [2%Z]) = TErr.
Proof. exact routes_refuted_nested_literal. Qed.
Print Assumptions C13_routes_refuted_nested_literal.

Theorem C13_routes_refuted_star :
  route_runtime (EStarTuple [EClass 1] (EClass 2)) = TSeq [(false, TTyped 1); (false, TGeneric tuple_c [TTyped 2])] /\
  route_ast (EStarTuple [EClass 1] (EClass 2)) = TCrash /\
  route_visitor (EStarTuple [EClass 1] (EClass 2)) = TSeq [(false, TAny)].
Proof. exact routes_refuted_star. Qed.
Print Assumptions C13_routes_refuted_star.

Example C13_routes_guard_inhabited :
  routes_guard ex_annot = true /\
  route_ast ex_annot =
    TUnion true [TGeneric 5 [TUnion false [TTyped 1; TSeq [(false, TTyped 2); (false, TUnion false [TLit 1; TLit 2])]];
                             TCall [TUnion true [TTyped 1]] TAny]].
Proof. exact routes_guard_inhabited. Qed.
Print Assumptions C13_routes_guard_inhabited.

(* parameters and return type derived from the def statement = derived from the
   runtime signature (names, kinds, defaults, annotations), for parameter lists
   of any length, when no parameter name is "private" (__x) and every
   annotation satisfies the routes guard *)
Theorem C13_def_sig_eq_runtime_sig_partial : forall ps r,
  forallb param_ok ps = true -> match r with Some e => routes_guard e | None => true end = true ->
  map norm_sparam (sig_from_def ps) = map norm_sparam (sig_from_runtime ps) /\
  ret_from_def r = ret_from_runtime r.
Proof. exact def_sig_eq_runtime_sig_partial. Qed.
Print Assumptions C13_def_sig_eq_runtime_sig_partial.

Theorem C13_def_sig_private_refuted :
  map s_kind (sig_from_def ex_private) = [PosOrKw; PosOrKw] /\
  map s_kind (sig_from_runtime ex_private) = [PosOnly; PosOnly].
Proof. exact def_sig_private_refuted. Qed.
Print Assumptions C13_def_sig_private_refuted.

Example C13_def_sig_guard_inhabited :
  forallb param_ok ex_sig = true /\
  map norm_sparam (sig_from_runtime ex_sig) =
    [mkSParam 1 PosOnly false (TTyped 1); mkSParam 2 PosOrKw true (TUnion true [TTyped 2]);
     mkSParam 3 VarPos false (TGeneric tuple_c [TAny]); mkSParam 4 KwOnly true TAny;
     mkSParam 5 VarKw false (TGeneric dict_c [TTyped str_c; TTyped 1])].
Proof. exact def_sig_guard_inhabited. Qed.
Print Assumptions C13_def_sig_guard_inhabited.
