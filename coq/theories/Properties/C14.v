(* Properties/C14.v — value algebra: unions form a semilattice; equality, hashing.
   Only statements, `exact`, and Print Assumptions.  The model functions
   (PV.Core.Val / PV.Core.Subst) are tied to pyanalyze/value.py by the
   correspondence check in harness/c14.py. *)
From Coq Require Import ZArith List Bool NArith.
Import ListNotations.
Require Import PV.Core.Obj PV.Core.Val PV.Core.Subst.
Require Import PV.Proofs.Dedup PV.Proofs.Unite PV.Proofs.UniteLaws PV.Proofs.SubstLaws PV.Proofs.SubstElim PV.Proofs.C14Witness.

(* the result of unite_values never nests unions (for any key identification) *)
Theorem C14_unite_no_nesting : forall E l,
  (forall v, In v l -> flat v = true) ->
  forall m, In m (flatten (unite_with E l)) -> is_union m = false.
Proof. exact unite_no_nesting. Qed.
Print Assumptions C14_unite_no_nesting.

(* Never is the identity on both sides, exactly *)
Theorem C14_unite_never_identity : forall E l,
  unite_with E (VNever :: l) = unite_with E l /\ unite_with E (l ++ [VNever]) = unite_with E l.
Proof. intros E l. split; [apply unite_never_left | apply unite_never_right]. Qed.
Print Assumptions C14_unite_never_identity.

(* idempotence: uniting a value with itself changes nothing (needs only x == x, hash x == hash x) *)
Theorem C14_unite_idem : forall E a,
  (forall x, In x (flatten a) -> E x x = true) ->
  unite_with E [a; a] = unite_with E [a].
Proof. exact unite_idem. Qed.
Print Assumptions C14_unite_idem.

(* the alternatives of the result are alternatives of the operands ... *)
Theorem C14_unite_members_sub : forall E l y,
  In y (norm E l) -> In y (flat_map flatten l).
Proof. exact unite_members_sub. Qed.
Print Assumptions C14_unite_members_sub.

(* ... and every reachable alternative of an operand is represented *)
Theorem C14_unite_members_cover : forall n l x,
  In x (flat_map flatten l) -> E_f n x x = true -> is_unreachable x = false ->
  mem_keys (E_f n) (norm (E_f n) l) x = true.
Proof. intros n l x. apply unite_members_cover. apply E_f_unreachable. Qed.
Print Assumptions C14_unite_members_cover.

(* commutativity up to ==, whenever "hash-equal and ==" is an equivalence on the alternatives *)
Theorem C14_unite_comm_partial : forall n a b,
  flat a = true -> flat b = true ->
  fits n (flatten a ++ flatten b) = true ->
  equiv_onb (E_f n) (flatten a ++ flatten b) = true ->
  veq_f (S n) (unite_f n [a; b]) (unite_f n [b; a]) = true.
Proof. exact unite_comm. Qed.
Print Assumptions C14_unite_comm_partial.

(* associativity up to ==, under the same kind of guard (Any[unreachable] added: it is what
   uniting only-unreachable operands returns) *)
Theorem C14_unite_assoc_partial : forall n a b c,
  flat a = true -> flat b = true -> flat c = true ->
  fits n (VAnyUnreachable :: flatten a ++ flatten b ++ flatten c) = true ->
  equiv_onb (E_f n) (VAnyUnreachable :: flatten a ++ flatten b ++ flatten c) = true ->
  veq_f (S n) (unite_f n [unite_f n [a; b]; c]) (unite_f n [a; unite_f n [b; c]]) = true.
Proof. exact unite_assoc. Qed.
Print Assumptions C14_unite_assoc_partial.

Example C14_assoc_example :
  let a := VUnion [w_int; w_list1] in let b := w_tup (VUnion [w_int; w_str]) in let c := VUnion [w_str; w_int; VAnyUnreachable] in
  flat a = true /\ flat b = true /\ flat c = true /\
  fits 10 (VAnyUnreachable :: flatten a ++ flatten b ++ flatten c) = true /\
  equiv_onb (E_f 10) (VAnyUnreachable :: flatten a ++ flatten b ++ flatten c) = true /\
  unite_f 10 [unite_f 10 [a; b]; c] = VUnion [w_int; w_list1; w_tup (VUnion [w_int; w_str]); w_str].
Proof. exact assoc_example. Qed.
Print Assumptions C14_assoc_example.

(* substituting type variables is the identity on values without type variables (whose
   derived fields and unions are in the form the constructors / unite_values produce) *)
Theorem C14_subst_id_on_closed : forall n m v, closed v = true -> canonical n v -> subst_f n m v = v.
Proof. exact subst_id_on_closed. Qed.
Print Assumptions C14_subst_id_on_closed.

(* substitution replaces every occurrence: after substituting a map with closed range, no mapped
   type variable occurs in the result (well-shaped values without CallableValue, whose
   substitution returns the signature itself when nothing changed up to ==) *)
Theorem C14_subst_eliminates : forall n m tv v,
  In tv (map fst m) -> (forall k x, In (k, x) m -> closed x = true) -> elim_ok v = true ->
  occurs tv (subst_f n m v) = false.
Proof. exact subst_eliminates. Qed.
Print Assumptions C14_subst_eliminates.

Example C14_subst_closed_example :
  closed w_closed = true /\ canonical 10 w_closed /\
  subst_f 10 [(1%N, w_float)] w_closed = w_closed /\
  subst_f 10 [(1%N, w_float)] (VNode (TGeneric c_list) [VNode (TTypeVar 1 false) []]) = VNode (TGeneric c_list) [w_float].
Proof. exact subst_closed_example. Qed.
Print Assumptions C14_subst_closed_example.

Theorem C14_unite_comm_refuted : ~ unite_comm_full_statement.
Proof. exact unite_comm_refuted. Qed.
Print Assumptions C14_unite_comm_refuted.

(* equal values do not always hash equal: two named classes *)
Theorem C14_eq_hash_refuted_union_order : ~ eq_implies_hash_eq_full_statement.
Proof. exact eq_hash_refuted_union_order. Qed.
Print Assumptions C14_eq_hash_refuted_union_order.

Theorem C14_eq_hash_refuted_unhashable_literal : ~ eq_implies_hash_eq_full_statement.
Proof. exact eq_hash_refuted_unhashable_literal. Qed.
Print Assumptions C14_eq_hash_refuted_unhashable_literal.

Theorem C14_eq_hash_refuted_kwonly_order : ~ eq_implies_hash_eq_full_statement.
Proof. exact eq_hash_refuted_kwonly_order. Qed.
Print Assumptions C14_eq_hash_refuted_kwonly_order.

(* the order in which the keys of a TypedDict are declared is invisible to ==, hash and unite *)
Example C14_typeddict_key_order_consistent :
  veq w_td_xy w_td_yx = true /\ heq w_td_xy w_td_yx = true /\ unite [w_td_xy; w_td_yx] = w_td_xy.
Proof. exact typeddict_key_order_consistent. Qed.
Print Assumptions C14_typeddict_key_order_consistent.

Theorem C14_veq_transitive_refuted : ~ veq_transitive_full_statement.
Proof. exact veq_transitive_refuted. Qed.
Print Assumptions C14_veq_transitive_refuted.

(* fuel adequacy: beyond the depth of the operands the fuel does not matter *)
Theorem C14_veq_fuel_stable : forall n a b, depth a <= n -> depth b <= n -> veq_f (S n) a b = veq_f n a b.
Proof. exact veq_f_stable. Qed.
Print Assumptions C14_veq_fuel_stable.

Example C14_guard_inhabited :
  let a := VUnion [w_int; w_list1; w_tup (VUnion [w_int; w_str])] in
  let b := VUnion [w_td w_A; w_str; w_int] in
  flat a = true /\ flat b = true /\ fits 10 (flatten a ++ flatten b) = true /\
  equiv_onb (E_f 10) (flatten a ++ flatten b) = true /\
  unite_f 10 [a; b] = VUnion [w_int; w_list1; w_tup (VUnion [w_int; w_str]); w_td w_A; w_str].
Proof. exact guard_inhabited. Qed.
Print Assumptions C14_guard_inhabited.
