(* Properties/C15.v — type-variable solutions satisfy the bounds they were
   solved from.  Only statements, `exact`, and Print Assumptions.

   `solve`, `remove_redundant_solutions`, `rrs_limit` are PV.Gen.Solve,
   regenerated from pyanalyze/typevar.py on every run; `atom_ops` is the simple
   fragment over the atoms whose acceptance table is dumped from the running
   implementation (PV.Gen.SolveAtoms).  `acc O a b` = a.is_assignable(b).
   Hypothesis `acc_laws O` (TypeVar/Spec.v) is proved for `atom_ops`
   (C15_atom_ops_satisfy_laws); for pyanalyze's full can_assign it is validated
   by the correspondence stream only. *)
From Coq Require Import List Bool Arith Permutation.
Import ListNotations.
Require Import PV.TypeVar.Base PV.TypeVar.Model PV.TypeVar.Spec PV.TypeVar.Simple.
Require Import PV.Proofs.SolveGen PV.Proofs.SolveAtoms PV.Proofs.SolveGenMain PV.Proofs.SolveCall PV.Proofs.SolveCallGen PV.Proofs.SolveOr.
Require Import PV.Gen.Solve PV.Gen.SolveAtoms.
Require PV.Core.Val PV.Core.CanAssign PV.Gen.ClassTable.
Require Import PV.Proofs.SolveCore.

(* the translated source computes the reference model *)
Theorem C15_generated_solve_is_reference_model : forall (V : Type) (O : ops V) bs,
  solve O bs = msolve O rrs_limit bs.
Proof. exact @solve_is_model. Qed.
Print Assumptions C15_generated_solve_is_reference_model.

(* the functions around solve that the hand-written parts of the model mirror
   (de-duplication in resolve_bounds_map, is_assignable = "can_assign is not an
   error", bound generation in TypeVarValue) still have the expected shape *)
Theorem C15_bound_generation_shape : bound_generation_shape_ok = true.
Proof. reflexivity. Qed.
Print Assumptions C15_bound_generation_shape.

(* the value chosen accepts every lower bound: all bound lists, every order, no guard *)
Theorem C15_solution_accepts_every_lower_bound : forall (V : Type) (O : ops V), acc_laws O ->
  forall bs v l, solve O bs = Sol v -> In (LowerBound l) bs -> acc O v l = true.
Proof. exact @gen_lower. Qed.
Print Assumptions C15_solution_accepts_every_lower_bound.

(* every upper bound accepts the value chosen: under the guard
   (upper bounds pairwise comparable and none of them Any; no constraints) *)
Theorem C15_upper_bounds_accept_solution_partial : forall (V : Type) (O : ops V), acc_laws O ->
  forall bs v u, solve O bs = Sol v ->
  uppers_ok O (uppers bs) = true -> oneofs bs = [] ->
  In (UpperBound u) bs -> acc O u v = true.
Proof. exact @gen_upper_partial. Qed.
Print Assumptions C15_upper_bounds_accept_solution_partial.

Theorem C15_upper_full_statement_refuted :
  ~ (forall bs v u, solve atom_ops bs = Sol v -> In (UpperBound u) bs -> acc atom_ops u v = true).
Proof. exact upper_full_statement_refuted. Qed.
Print Assumptions C15_upper_full_statement_refuted.

(* the three refuting classes, one witness each (replays of the known findings) *)
Theorem C15_upper_refuted_incomparable_uppers_united :
  solve atom_ops [UpperBound (SU [A_int]); UpperBound (SU [A_str]); LowerBound (SU [A_lit1])] = Sol (SU [A_lit1]) /\
  acc atom_ops (SU [A_str]) (SU [A_lit1]) = false.
Proof. split; [apply upper_refuted_incomparable|apply upper_refuted_incomparable]. Qed.
Print Assumptions C15_upper_refuted_incomparable_uppers_united.

Theorem C15_upper_refuted_any_upper_erases_uppers :
  solve atom_ops [UpperBound (SU [A_int]); UpperBound SAny; LowerBound (SU [A_str])] = Sol (SU [A_str]) /\
  acc atom_ops (SU [A_int]) (SU [A_str]) = false.
Proof. split; [apply upper_refuted_any_upper|apply upper_refuted_any_upper]. Qed.
Print Assumptions C15_upper_refuted_any_upper_erases_uppers.

Theorem C15_upper_refuted_constraint_not_checked_against_uppers :
  solve atom_ops [LowerBound (SU [A_lit1]); UpperBound (SU [A_int]); IsOneOf [SU [A_float]; SU [A_str]]] = Sol (SU [A_float]) /\
  acc atom_ops (SU [A_int]) (SU [A_float]) = false.
Proof. split; [apply upper_refuted_constraint|apply upper_refuted_constraint]. Qed.
Print Assumptions C15_upper_refuted_constraint_not_checked_against_uppers.

(* with constraints the value chosen is one of them, or Any: no guard *)
Theorem C15_solution_is_a_declared_constraint : forall (V : Type) (O : ops V), acc_laws O ->
  forall bs v cs, solve O bs = Sol v -> last_oneof bs = Some cs -> In v cs \/ is_any O v = true.
Proof. exact @gen_constraints. Qed.
Print Assumptions C15_solution_is_a_declared_constraint.

(* ... and Any is chosen only when the unconstrained solution is Any, or when
   two or more constraints accept it *)
Theorem C15_any_instead_of_constraint_only_when : forall (V : Type) (O : ops V),
  forall bs v cs, solve O bs = Sol v -> last_oneof bs = Some cs -> ~ In v cs ->
  exists s, base_solution O (fold_left (add_lower O) (lowers bs) None)
                            (fold_left (add_upper O) (uppers bs) None) = Sol s /\
            (is_any O s = true \/ 2 <= length (filter (fun o => acc O o s) cs)).
Proof. exact @gen_constraints_any_only_when. Qed.
Print Assumptions C15_any_instead_of_constraint_only_when.

(* accepted => all bounds satisfied; hence: no satisfying value => error *)
Theorem C15_accepted_solution_satisfies_all_bounds_partial : forall (V : Type) (O : ops V), acc_laws O ->
  forall bs v, solve O bs = Sol v -> sound_guard O bs = true -> satisfies O v bs.
Proof. exact @gen_sound_partial. Qed.
Print Assumptions C15_accepted_solution_satisfies_all_bounds_partial.

Theorem C15_unsatisfiable_bounds_are_diagnosed_partial : forall (V : Type) (O : ops V), acc_laws O ->
  forall bs, (forall v, ~ satisfies O v bs) -> sound_guard O bs = true -> solve O bs = Err.
Proof. exact @gen_unsat_is_error_partial. Qed.
Print Assumptions C15_unsatisfiable_bounds_are_diagnosed_partial.

(* converse (no false diagnosis), same guard *)
Theorem C15_error_means_unsatisfiable_partial : forall (V : Type) (O : ops V), acc_laws O ->
  forall bs v, solve O bs = Err -> sound_guard O bs = true -> is_any O v = false -> ~ satisfies O v bs.
Proof. exact @gen_error_means_unsat_partial. Qed.
Print Assumptions C15_error_means_unsatisfiable_partial.

Theorem C15_error_means_unsatisfiable_full_statement_refuted :
  ~ (forall bs v, solve atom_ops bs = Err -> is_any atom_ops v = false -> ~ satisfies atom_ops v bs).
Proof. exact error_means_unsat_full_statement_refuted. Qed.
Print Assumptions C15_error_means_unsatisfiable_full_statement_refuted.

(* the verdict does not depend on the order of the bounds: under the guard *)
Theorem C15_verdict_is_order_independent_partial : forall (V : Type) (O : ops V), acc_laws O ->
  forall bs bs', Permutation bs bs' -> perm_guard O bs = true ->
  is_err (solve O bs) = is_err (solve O bs').
Proof. exact @gen_perm_verdict_partial. Qed.
Print Assumptions C15_verdict_is_order_independent_partial.

Theorem C15_order_independence_full_statement_refuted :
  ~ (forall bs bs', Permutation bs bs' -> is_err (solve atom_ops bs) = is_err (solve atom_ops bs')).
Proof. exact perm_full_statement_refuted. Qed.
Print Assumptions C15_order_independence_full_statement_refuted.

(* the same through resolve_bounds_map's de-duplication (tuple(dict.fromkeys(bounds))) *)
Theorem C15_resolve_solution_accepts_every_lower_bound : forall (V : Type) (O : ops V), acc_laws O ->
  forall bs v l, resolve O bs = Sol v -> In (LowerBound l) bs -> acc O v l = true.
Proof. exact @gen_resolve_lower. Qed.
Print Assumptions C15_resolve_solution_accepts_every_lower_bound.

Theorem C15_resolve_verdict_is_order_independent_partial : forall (V : Type) (O : ops V), acc_laws O ->
  forall bs bs', Permutation bs bs' -> perm_guard O (dedup (bound_eqb O) bs) = true ->
  is_err (resolve O bs) = is_err (resolve O bs').
Proof. exact @gen_resolve_perm_verdict_partial. Qed.
Print Assumptions C15_resolve_verdict_is_order_independent_partial.

(* one call whose parameters are annotated with the bare type variable
   (Model.call_solution: each argument contributes LowerBound(arg) plus the
   declaration's inherent bounds; every argument is first solved on its own).
   All upper bounds are then copies of the declared bound, so no guard is
   needed: the property holds at full strength for this family of calls. *)
Theorem C15_call_solution_accepts_every_argument : forall (V : Type) (O : ops V), acc_laws O ->
  forall limit d args v a, call_solution O limit d args = Sol v -> In a args -> acc O v a = true.
Proof. exact @call_solution_accepts_arguments. Qed.
Print Assumptions C15_call_solution_accepts_every_argument.

Theorem C15_call_solution_within_declared_bound : forall (V : Type) (O : ops V), acc_laws O ->
  forall limit b args v, call_solution O limit (Bounded b) args = Sol v -> acc O b v = true.
Proof. exact @call_solution_within_declared_bound. Qed.
Print Assumptions C15_call_solution_within_declared_bound.

Theorem C15_call_solution_is_a_declared_constraint : forall (V : Type) (O : ops V), acc_laws O ->
  forall limit cs args v, cs <> [] -> args <> [] ->
  call_solution O limit (Constrained cs) args = Sol v -> In v cs \/ is_any O v = true.
Proof. exact @call_solution_is_a_constraint. Qed.
Print Assumptions C15_call_solution_is_a_declared_constraint.

Theorem C15_order_independence_refuted_incomparable_uppers :
  let bs := [UpperBound (SU [A_litNone]); UpperBound (SU [A_lita; A_float; A_lit1]); UpperBound (SU [A_bool]); LowerBound (SU [A_lit1_5])] in
  let bs' := [UpperBound (SU [A_litNone]); UpperBound (SU [A_bool]); UpperBound (SU [A_lita; A_float; A_lit1]); LowerBound (SU [A_lit1_5])] in
  Permutation bs bs' /\ is_err (solve atom_ops bs) = true /\ is_err (solve atom_ops bs') = false.
Proof. split; [apply perm_refuted_incomparable|split; apply perm_refuted_incomparable]. Qed.
Print Assumptions C15_order_independence_refuted_incomparable_uppers.

(* one call with callbacks: parameters annotated T receive `args`, parameters annotated
   Callable[[T], ..] receive callbacks whose parameter types are `cbs` (upper bounds, via
   TypeVarValue.can_be_assigned); T is unbounded or has a declared bound.  Under the combined
   guard — the callback parameter types and the declared bound are pairwise comparable and none
   is Any — the value chosen accepts every argument, is accepted by every callback's parameter
   type and by the declared bound *)
Theorem C15_callbacks_solution_sound_partial : forall (V : Type) (O : ops V), acc_laws O ->
  forall limit d args cbs v,
  (forall cs, d <> Constrained cs) ->
  uppers_ok O (declared_upper d ++ cbs) = true ->
  callbacks_solution O limit d args cbs = Sol v ->
  (forall a, In a args -> acc O v a = true) /\
  (forall p, In p cbs -> acc O p v = true) /\
  (forall b, d = Bounded b -> acc O b v = true).
Proof. exact @callbacks_solution_sound_partial. Qed.
Print Assumptions C15_callbacks_solution_sound_partial.

(* the guard is needed (two incomparable callbacks: f(1, g_int, g_str) solves T := Literal[1], which
   str does not accept) and inhabited (bound float, callbacks taking float and object) *)
Example C15_callbacks_guard_needed_and_inhabited :
  callbacks_solution atom_ops rrs_limit Unbounded [SU [A_lit1]] [SU [A_int]; SU [A_str]] = Sol (SU [A_lit1]) /\
  acc atom_ops (SU [A_str]) (SU [A_lit1]) = false /\
  uppers_ok atom_ops [SU [A_int]; SU [A_str]] = false /\
  uppers_ok atom_ops (declared_upper (Bounded (SU [A_float])) ++ [SU [A_float]; SU [A_object]]) = true /\
  callbacks_solution atom_ops rrs_limit (Bounded (SU [A_float])) [SU [A_lit1]; SU [A_litTrue]] [SU [A_float]; SU [A_object]]
    = Sol (SU [A_lit1; A_litTrue]).
Proof. vm_compute. repeat split. Qed.
Print Assumptions C15_callbacks_guard_needed_and_inhabited.

(* OrBound — what intersect_bounds_maps produces when several alternatives of a union
   annotation accept an argument with different bounds — is ignored by solve: every theorem
   above holds for the bounds with the OrBounds removed, and a type variable that only
   receives the OrBound of two distinct alternatives is left unconstrained (Any) *)
Theorem C15_orbound_is_ignored : forall (V : Type) (O : ops V) bs,
  solve O (filter (fun b => negb (is_orbound b)) bs) = solve O bs.
Proof. exact @solve_ignores_orbound. Qed.
Print Assumptions C15_orbound_is_ignored.

Theorem C15_intersect_of_distinct_alternatives_is_unconstrained : forall (V : Type) (O : ops V) (a1 a2 : list (bound V)),
  list_eqb (bound_eqb O) a2 a1 = false ->
  solve O (intersect_bounds O [a1; a2]) = Sol (any_generic O).
Proof. exact @intersect_of_distinct_alternatives_is_unconstrained. Qed.
Print Assumptions C15_intersect_of_distinct_alternatives_is_unconstrained.

(* the hypotheses hold on the simple fragment over the implementation's own
   acceptance table, so every theorem above applies to `atom_ops` outright *)
Theorem C15_atom_ops_satisfy_laws : acc_laws atom_ops.
Proof. exact atom_laws. Qed.
Print Assumptions C15_atom_ops_satisfy_laws.

(* ---- the hypotheses discharged for the MODELLED IMPLEMENTATION RELATION: Core's model of
   Value.can_assign (Core/CanAssign.v, over the class table dumped from the implementation) on the
   simple fragment of C04 — Any; unions (any length, also empty and singleton) of atoms; atoms = the
   nominally compared classes of the generated table with reflexive tassign, and scalar literals
   (None, bool, int, float, complex, str, bytes, IntEnum members, plain instances, class objects).
   `core_ops` are the C15 operations over these atoms, `embed` maps a C15 value to the Core value.
   (The union operation of core_ops is s_unite; its agreement with Core's unite model is not
   proved here — unite_values is tied by the correspondence stream.) ---- *)
Theorem C15_core_ops_satisfy_laws : acc_laws core_ops.
Proof. exact core_laws. Qed.
Print Assumptions C15_core_ops_satisfy_laws.

Theorem C15_core_acceptance_is_core_can_assign : forall n a b,
  PV.Core.CanAssign.can_assign_f PV.Gen.ClassTable.table (S (S (S n))) false (embed a) (embed b) = acc core_ops a b.
Proof. exact core_acc_is_can_assign. Qed.
Print Assumptions C15_core_acceptance_is_core_can_assign.

Theorem C15_core_solution_accepts_every_lower_bound : forall bs v l n,
  solve core_ops bs = Sol v -> In (LowerBound l) bs ->
  PV.Core.CanAssign.can_assign_f PV.Gen.ClassTable.table (S (S (S n))) false (embed v) (embed l) = true.
Proof. exact core_solution_accepts_every_lower_bound. Qed.
Print Assumptions C15_core_solution_accepts_every_lower_bound.

Theorem C15_core_upper_bounds_accept_solution_partial : forall bs v u n,
  solve core_ops bs = Sol v -> uppers_ok core_ops (uppers bs) = true -> oneofs bs = [] ->
  In (UpperBound u) bs ->
  PV.Core.CanAssign.can_assign_f PV.Gen.ClassTable.table (S (S (S n))) false (embed u) (embed v) = true.
Proof. exact core_upper_bounds_accept_solution_partial. Qed.
Print Assumptions C15_core_upper_bounds_accept_solution_partial.

Theorem C15_core_verdict_is_order_independent_partial : forall bs bs',
  Permutation bs bs' -> perm_guard core_ops bs = true ->
  is_err (solve core_ops bs) = is_err (solve core_ops bs').
Proof. exact core_verdict_order_independent_partial. Qed.
Print Assumptions C15_core_verdict_is_order_independent_partial.

(* the guards are satisfiable by non-trivial inputs *)
Example C15_guards_inhabited :
  let bs := [LowerBound (SU [A_lit1]); UpperBound (SU [A_object]); LowerBound (SU [A_lita]); UpperBound (SU [A_float; A_str])] in
  sound_guard atom_ops bs = true /\ perm_guard atom_ops bs = true /\
  solve atom_ops bs = Sol (SU [A_lit1; A_lita]) /\
  solve atom_ops (rev bs) = Sol (SU [A_lita; A_lit1]) /\
  solve atom_ops [LowerBound (SU [A_litTrue]); IsOneOf [SU [A_int]; SU [A_float]; SU [A_str]]] = Sol (SU [A_int]).
Proof. vm_compute. repeat split. Qed.
Print Assumptions C15_guards_inhabited.
