(* Properties/C16.v — automatic fixes are safe.  Only statements, `exact`, and
   Print Assumptions.

   Scope of the theorems: the add-ignores machinery (Replacement, _apply_changes_to_lines,
   the add_ignores branch of show_error, the repeat loop), modelled in PV.Lines.Fixer on top of
   the suppression model of C11 and instantiated with the constants regenerated from the source.
   The node replacements built with ast_decompiler (unused variable, missing_f, use_fstrings,
   too_many_positional_args) are outside the model: translation validation in harness/c16.py. *)
From Coq Require Import List Bool NArith ZArith Arith.
Import ListNotations.
Require Import PV.Lines.Text PV.Lines.Suppress PV.Lines.Place PV.Lines.Fixer.
Require Import PV.Proofs.LinesSuppress PV.Proofs.LinesPlace PV.Proofs.LinesText PV.Proofs.LinesFixer PV.Proofs.LinesFixerGen.
Require Import PV.Gen.Codes PV.Gen.ApplyGen.

Notation IGN := IGNORE_COMMENT.
Notation nm := code_name.
Notation U := unused_ignore_code.
Notation B := bare_ignore_code.

(* ---- tie: the translated functions are the model's --------------------- *)
Theorem C16_gen_is_model :
  (forall changes f, ApplyGen.apply_changes changes f = Fixer.apply_changes changes f) /\
  (forall f ln c, 1 <= ln ->
     ApplyGen.add_ignore_repl f ln (Some c) = Fixer.add_ignore_repl IGN nm f ln c) /\
  ApplyGen.iteration_limit = 150.
Proof. exact fixer_gen_is_model. Qed.
Print Assumptions C16_gen_is_model.

(* ---- applying a replacement -------------------------------------------- *)

(* whatever the replacement, the lines before the first deleted line are untouched *)
Theorem C16_apply_keeps_prefix : forall change rest (f : file) k,
  r_del change <> [] ->
  (forall d, In d (r_del change) -> k < d <= length f) ->
  firstn k (Fixer.apply_changes (change :: rest) f) = firstn k f.
Proof. exact apply_keeps_prefix. Qed.
Print Assumptions C16_apply_keeps_prefix.

(* ... and so are the lines after the last deleted one: the result is
   (the first max_line lines minus the deleted ones) ++ additions ++ (the lines after max_line),
   for every replacement whose deleted line numbers are distinct and in range *)
Theorem C16_apply_shape : forall change rest (f : file) adds,
  r_add change = Some adds -> r_del change <> [] -> NoDup (r_del change) ->
  (forall d, In d (r_del change) -> 1 <= d <= length f) ->
  exists pre,
    Fixer.apply_changes (change :: rest) f = pre ++ adds ++ skipn (list_max (r_del change)) f
    /\ length pre = list_max (r_del change) - length (r_del change).
Proof. exact apply_shape. Qed.
Print Assumptions C16_apply_shape.

Theorem C16_apply_keeps_suffix : forall change rest (f : file) adds,
  r_add change = Some adds -> r_del change <> [] -> NoDup (r_del change) ->
  (forall d, In d (r_del change) -> 1 <= d <= length f) ->
  skipn (list_max (r_del change) - length (r_del change) + length adds) (Fixer.apply_changes (change :: rest) f)
  = skipn (list_max (r_del change)) f.
Proof. exact apply_keeps_suffix. Qed.
Print Assumptions C16_apply_keeps_suffix.

(* the add-ignore replacement is exactly: insert the comment line above the reported line *)
Theorem C16_add_ignore_is_insertion : forall f ln c rest, 1 <= ln <= length f ->
  Fixer.apply_changes (Fixer.add_ignore_repl IGN nm f ln c :: rest) f
  = insert_line (ln - 1) (comment_line IGN nm (indentation (line_at f (ln - 1))) (Some c)) f.
Proof. exact apply_add_ignore. Qed.
Print Assumptions C16_add_ignore_is_insertion.

(* the inserted line holds only a comment, so the lines that carry code are the same list *)
Theorem C16_add_ignore_preserves_code_lines : forall i k c f,
  code_lines (insert_line i (comment_line IGN nm k c) f) = code_lines f.
Proof. exact (fun i k c f => code_lines_insert i _ f (comment_line_comment_only k c)). Qed.
Print Assumptions C16_add_ignore_preserves_code_lines.

(* ---- one iteration ------------------------------------------------------ *)

(* full statement: after one add-ignores step for the first reported diagnostic d0, exactly the
   diagnostics on d0's line with d0's code are gone, every other one is still reported *)
Definition C16_step_exact_full_statement : Prop :=
  forall st f raw d0 rest n0, st U = false -> st B = false -> base_okb f raw = true ->
  main IGN nm st f raw = d0 :: rest -> d_line d0 = Some n0 ->
  exists f' raw', fix_step IGN nm st U B f raw = Some (f', raw') /\
    main IGN nm st f' raw'
    = map (shift_diag n0) (filter (fun d => negb (fixed_by n0 (d_code d0) d)) (main IGN nm st f raw)).

(* refuted outside the guard: the comment for a column-0 line directly below the leading '#' block
   is a file-level ignore (known finding C16-first-code-line) *)
Theorem C16_step_exact_refuted :
  exists f' raw', fix_step IGN nm all_but_tail U B first_line_file first_line_raw = Some (f', raw')
    /\ main IGN nm all_but_tail first_line_file first_line_raw = first_line_raw
    /\ main IGN nm all_but_tail f' raw' = []
    /\ base_okb first_line_file first_line_raw = true
    /\ fix_guardb all_but_tail first_line_file first_line_raw = false.
Proof. exact first_line_becomes_file_level. Qed.
Print Assumptions C16_step_exact_refuted.

Theorem C16_step_exact_partial : forall st f raw d0 rest n0,
  st U = false -> st B = false -> fix_guardb st f raw = true ->
  main IGN nm st f raw = d0 :: rest -> d_line d0 = Some n0 ->
  fix_step IGN nm st U B f raw
  = Some (insert_line (n0 - 1) (comment_line IGN nm (indentation (line_at f (n0 - 1))) (Some (d_code d0))) f,
          map (shift_diag n0) raw)
  /\ main IGN nm st (insert_line (n0 - 1) (comment_line IGN nm (indentation (line_at f (n0 - 1))) (Some (d_code d0))) f)
          (map (shift_diag n0) raw)
     = map (shift_diag n0) (filter (fun d => negb (fixed_by n0 (d_code d0) d)) (main IGN nm st f raw))
  /\ fix_inv st (insert_line (n0 - 1) (comment_line IGN nm (indentation (line_at f (n0 - 1))) (Some (d_code d0))) f)
             (map (shift_diag n0) raw).
Proof.
  exact (fun st f raw d0 rest n0 HU HB G M L =>
    conj (fix_step_some st f raw d0 rest n0 HU HB (fix_guardb_sound st f raw G) M L)
      (conj (fix_step_main st f raw d0 rest n0 (fix_guardb_sound st f raw G) M L)
            (fix_step_inv st f raw d0 rest n0 (fix_guardb_sound st f raw G) M L))).
Qed.
Print Assumptions C16_step_exact_partial.

(* ---- the iteration ------------------------------------------------------ *)

(* full statement: the repeat loop ends within the iteration limit with no diagnostic left and the
   same code lines *)
Definition C16_add_ignores_terminates_full_statement : Prop :=
  forall st f raw, st U = false -> st B = false -> base_okb f raw = true ->
  exists f' raw', iterate IGN nm ApplyGen.iteration_limit st U B f raw = Some (f', raw') /\
    emit IGN nm st f' U B raw' = [] /\ code_lines f' = code_lines f.

(* refuted: two different codes on one line alternate until the limit (known finding C16-two-codes-one-line) *)
Theorem C16_add_ignores_terminates_refuted :
  iterate IGN nm 150 all_but_tail U B two_codes_file two_codes_raw = None
  /\ base_okb two_codes_file two_codes_raw = true
  /\ fix_guardb all_but_tail two_codes_file two_codes_raw = false.
Proof. exact two_codes_diverges. Qed.
Print Assumptions C16_add_ignores_terminates_refuted.

(* and with unused_ignore enabled it never ends as soon as one comment is unused
   (known finding C16-unused-ignore-enabled) *)
Theorem C16_unused_ignore_enabled_refuted :
  iterate IGN nm 150 (fun c => negb (N.eqb c B)) U B unused_file unused_raw = None.
Proof. exact unused_ignore_enabled_diverges. Qed.
Print Assumptions C16_unused_ignore_enabled_refuted.

(* under the decidable guard (first_code_line, comment_above, two_codes_one_line clauses) and
   with the two comment-hygiene codes disabled (their default): the loop ends after at most one
   iteration per reported diagnostic, nothing is reported any more, the code lines are unchanged.
   No bound on the size of the file or the number of diagnostics. *)
Theorem C16_add_ignores_terminates_partial : forall k st f raw,
  st U = false -> st B = false ->
  fix_guardb st f raw = true -> length (main IGN nm st f raw) <= k ->
  exists f' raw',
    iterate IGN nm k st U B f raw = Some (f', raw') /\
    emit IGN nm st f' U B raw' = [] /\
    code_lines f' = code_lines f.
Proof.
  exact (fun k st f raw HU HB G => add_ignores_terminates k st f raw HU HB (fix_guardb_sound st f raw G)).
Qed.
Print Assumptions C16_add_ignores_terminates_partial.

Example C16_guard_inhabited :
  fix_guardb all_but_tail ok_file ok_raw = true /\ length (main IGN nm all_but_tail ok_file ok_raw) = 4
  /\ exists f' raw', iterate IGN nm 4 all_but_tail U B ok_file ok_raw = Some (f', raw') /\ length f' = 8.
Proof. exact guard_inhabited. Qed.
Print Assumptions C16_guard_inhabited.
