(* Properties/C16.v — automatic fixes are safe.  Only statements, `exact`, and
   Print Assumptions.

   Scope of the theorems: the add-ignores machinery (Replacement, _apply_changes_to_lines,
   the add_ignores branch of show_error, the repeat loop), modelled in PV.Lines.Fixer on top of
   the suppression model of C11 and instantiated with the constants regenerated from the source.
   The node replacements built with ast_decompiler (unused variable, missing_f, use_fstrings,
   too_many_positional_args) are outside the model: translation validation in harness/c16.py. *)
From Coq Require Import List Bool NArith ZArith Arith.
Import ListNotations.
Require Import PV.Lines.Text PV.Lines.Suppress PV.Lines.Place PV.Lines.Fixer.
Require Import PV.Proofs.LinesSuppress PV.Proofs.LinesPlace PV.Proofs.LinesText PV.Proofs.LinesFixer PV.Proofs.LinesFixerGen.
Require Import PV.Gen.Codes PV.Gen.ApplyGen PV.Gen.CopyGen.
Require Import PV.Ast.Copy PV.Proofs.AstCopy.
Require Import PV.Lines.Range PV.Gen.RangeGen PV.Proofs.LinesRange.

Notation IGN := IGNORE_COMMENT.
Notation nm := code_name.
Notation U := unused_ignore_code.
Notation B := bare_ignore_code.

(* ---- tie: the translated functions are the model's --------------------- *)
Theorem C16_gen_is_model :
  (forall changes f, ApplyGen.apply_changes changes f = Fixer.apply_changes changes f) /\
  (forall f ln c, 1 <= ln ->
     ApplyGen.add_ignore_repl f ln (Some c) = Fixer.add_ignore_repl IGN nm f ln c) /\
  ApplyGen.iteration_limit = 150.
Proof. exact fixer_gen_is_model. Qed.
Print Assumptions C16_gen_is_model.

(* ---- applying a replacement -------------------------------------------- *)

(* whatever the replacement, the lines before the first deleted line are untouched *)
Theorem C16_apply_keeps_prefix : forall change rest (f : file) k,
  r_del change <> [] ->
  (forall d, In d (r_del change) -> k < d <= length f) ->
  firstn k (Fixer.apply_changes (change :: rest) f) = firstn k f.
Proof. exact apply_keeps_prefix. Qed.
Print Assumptions C16_apply_keeps_prefix.

(* ... and so are the lines after the last deleted one: the result is
   (the first max_line lines minus the deleted ones) ++ additions ++ (the lines after max_line),
   for every replacement whose deleted line numbers are distinct and in range *)
Theorem C16_apply_shape : forall change rest (f : file) adds,
  r_add change = Some adds -> r_del change <> [] -> NoDup (r_del change) ->
  (forall d, In d (r_del change) -> 1 <= d <= length f) ->
  exists pre,
    Fixer.apply_changes (change :: rest) f = pre ++ adds ++ skipn (list_max (r_del change)) f
    /\ length pre = list_max (r_del change) - length (r_del change).
Proof. exact apply_shape. Qed.
Print Assumptions C16_apply_shape.

Theorem C16_apply_keeps_suffix : forall change rest (f : file) adds,
  r_add change = Some adds -> r_del change <> [] -> NoDup (r_del change) ->
  (forall d, In d (r_del change) -> 1 <= d <= length f) ->
  skipn (list_max (r_del change) - length (r_del change) + length adds) (Fixer.apply_changes (change :: rest) f)
  = skipn (list_max (r_del change)) f.
Proof. exact apply_keeps_suffix. Qed.
Print Assumptions C16_apply_keeps_suffix.

(* the replacement replace_node / remove_node build for a statement spanning lines a..b
   (Replacement(range(a, b + 1), new_lines)): every line outside [a, b] is kept in place and
   order, the range is replaced by exactly the new lines — `[]` for a removal, the `pass` line
   for a removal that would empty a block, the re-written statement otherwise *)
Theorem C16_statement_replacement : forall (f : file) a b adds rest,
  1 <= a -> a <= b -> b <= length f ->
  Fixer.apply_changes (mk_repl (seq a (S (b - a))) (Some adds) :: rest) f
  = firstn (a - 1) f ++ adds ++ skipn b f.
Proof. exact apply_range. Qed.
Print Assumptions C16_statement_replacement.

(* the add-ignore replacement (after the repair repo_fixes/C16-add-ignore-trailing-fallback) is exactly:
   append a trailing comment to the reported line when a comment line above cannot work, otherwise
   insert the comment line above it *)
Theorem C16_add_ignore_is_insertion_or_trailing : forall f ln c rest, 1 <= ln <= length f ->
  Fixer.apply_changes (Fixer.add_ignore_repl IGN nm f ln c :: rest) f
  = if use_trailing IGN f ln
    then set_line (ln - 1) (trail_line IGN nm (line_at f (ln - 1)) c) f
    else insert_line (ln - 1) (comment_line IGN nm (indentation (line_at f (ln - 1))) (Some c)) f.
Proof. exact apply_add_ignore. Qed.
Print Assumptions C16_add_ignore_is_insertion_or_trailing.

(* an inserted line holds only a comment, so the lines that carry code are the same list *)
Theorem C16_add_ignore_preserves_code_lines : forall i k c f,
  code_lines (insert_line i (comment_line IGN nm k c) f) = code_lines f.
Proof. exact (fun i k c f => code_lines_insert i _ f (comment_line_comment_only k c)). Qed.
Print Assumptions C16_add_ignore_preserves_code_lines.

(* a line with the trailing comment appended: a trailing hit for exactly one more code; still an
   ordinary code line (not an own-line comment, not blank, no dangling backslash) *)
Theorem C16_trailing_comment_features : forall l c0 c, (c0 < n_codes)%N -> (c < n_codes)%N ->
  trailing_hit IGN nm (trail_line IGN nm l c0) c = trailing_hit IGN nm l c || N.eqb c c0.
Proof. exact trail_line_features. Qed.
Print Assumptions C16_trailing_comment_features.

Theorem C16_trailing_comment_shape : forall l c0, lstrip l <> [] -> starts_hash l = false ->
  starts_hash (trail_line IGN nm l c0) = false /\
  (forall c, own_hit IGN nm (trail_line IGN nm l c0) c = false) /\
  lstrip (trail_line IGN nm l c0) <> [] /\
  ends_backslash (rstrip (trail_line IGN nm l c0)) = false.
Proof. exact trail_line_shape. Qed.
Print Assumptions C16_trailing_comment_shape.

(* ---- one iteration ------------------------------------------------------ *)

(* under the guard "every reported line is an ordinary code line" (does not start with '#', is not an
   own-line ignore comment, is not blank, does not end in a backslash — a decidable check, fix_guardb):
   the step is the insertion / trailing comment, exactly the diagnostics on the reported line with the
   reported code are gone, every other one is still reported (moved down with its line when a comment
   line was inserted), and the guard still holds.  No condition any more on two codes per line, on the
   line above, or on the position below the leading comment block. *)
Theorem C16_step_exact : forall st f raw d0 rest,
  st U = false -> st B = false -> fix_guardb f raw = true ->
  main IGN nm st f raw = d0 :: rest ->
  exists n0, d_line d0 = Some n0 /\
    fix_step IGN nm st U B f raw = Some (step_file f n0 (d_code d0), step_raw f n0 raw) /\
    main IGN nm st (step_file f n0 (d_code d0)) (step_raw f n0 raw)
      = map (step_shift f n0) (filter (fun d => negb (fixed_by n0 (d_code d0) d)) (main IGN nm st f raw)) /\
    fix_inv (step_file f n0 (d_code d0)) (step_raw f n0 raw).
Proof.
  exact (fun st f raw d0 rest HU HB G M =>
    match fix_step_some st f raw d0 rest HU HB (fix_guardb_sound f raw G) M with
    | ex_intro _ n0 (conj L0 FS) =>
        ex_intro _ n0 (conj L0 (conj FS (conj (fix_step_main st f raw d0 rest n0 (fix_guardb_sound f raw G) M L0)
                                              (fix_step_inv st f raw d0 rest n0 (fix_guardb_sound f raw G) M L0))))
    end).
Qed.
Print Assumptions C16_step_exact.

(* ---- the iteration ------------------------------------------------------ *)

(* the repeat loop ends after at most one iteration per reported diagnostic with nothing left to
   report, and the file differs from the original only by inserted comment-only lines and appended
   trailing comments.  No bound on the size of the file or on the number of diagnostics, any number
   of error codes per line; unused_ignore / bare_ignore at their default (off). *)
Theorem C16_add_ignores_terminates : forall k st f raw,
  st U = false -> st B = false ->
  fix_guardb f raw = true -> length (main IGN nm st f raw) <= k ->
  exists f' raw',
    iterate IGN nm k st U B f raw = Some (f', raw') /\
    emit IGN nm st f' U B raw' = [] /\
    comment_edit f f'.
Proof.
  exact (fun k st f raw HU HB G => add_ignores_terminates k st f raw HU HB (fix_guardb_sound f raw G)).
Qed.
Print Assumptions C16_add_ignores_terminates.

(* the statement without any guard stays refuted by the one class left (known finding
   C16-continuation-line, narrowed): a reported line that itself ends in a backslash gets the comment
   line above it, whatever is there *)
Definition C16_add_ignores_terminates_full_statement : Prop :=
  forall k st f raw, st U = false -> st B = false ->
  (forall d, In d raw -> exists n, d_line d = Some n /\ 1 <= n <= length f) ->
  length (main IGN nm st f raw) <= k ->
  exists f' raw', iterate IGN nm k st U B f raw = Some (f', raw') /\ emit IGN nm st f' U B raw' = [] /\ comment_edit f f'.

Theorem C16_guard_excludes_backslash_line :
  fix_guardb [[100%N]; [32%N; 120%N; 32%N; 92%N]; [32%N; 121%N]] [mk_diag 1 3 (Some 2) 1 true] = false.
Proof. exact guard_excludes_backslash. Qed.
Print Assumptions C16_guard_excludes_backslash_line.

(* the former refutations, now positive: three codes on one line end after three steps; a reported
   line 1 gets a trailing comment and the diagnostic two lines below is still reported; and the model
   of the code before the repair still alternates until ITERATION_LIMIT *)
Theorem C16_three_codes_terminate :
  fix_guardb three_codes_file three_codes_raw = true /\
  exists f' raw', iterate IGN nm 3 all_but_tail U B three_codes_file three_codes_raw = Some (f', raw')
    /\ length f' = 3 /\ emit IGN nm all_but_tail f' U B raw' = [].
Proof. exact three_codes_terminate. Qed.
Print Assumptions C16_three_codes_terminate.

Theorem C16_first_line_not_file_level :
  exists f' raw', fix_step IGN nm all_but_tail U B first_line_file first_line_raw = Some (f', raw')
    /\ length f' = 3 /\ main IGN nm all_but_tail f' raw' = [mk_diag 2 3 (Some 3) 0 true].
Proof. exact first_line_not_file_level. Qed.
Print Assumptions C16_first_line_not_file_level.

Theorem C16_unrepaired_two_codes_diverge :
  old_iterate 150 all_but_tail three_codes_file (firstn 2 three_codes_raw) = None.
Proof. exact unrepaired_two_codes_diverge. Qed.
Print Assumptions C16_unrepaired_two_codes_diverge.

(* ---- replace_node / remove_node at the level of lines ------------------ *)

(* analysis_lib.get_line_range_for_node (regenerated from the source) is the model's *)
Theorem C16_range_gen_is_model :
  (forall a b, RangeGen.is_part_of_same_node a b = Range.is_part_of_same_node a b) /\
  (forall lines first last0, RangeGen.line_range lines first last0 = Range.line_range lines first last0).
Proof. exact range_gen_is_model. Qed.
Print Assumptions C16_range_gen_is_model.

(* the statement's line range is one consecutive, in-bounds range starting at its first line
   (first = node.lineno or the first decorator; last0 = max(first + 1, end_lineno of the children)) *)
Theorem C16_line_range_consecutive : forall lines first last0,
  1 <= first -> first < last0 -> last0 - 1 <= length lines ->
  exists last, Range.line_range lines first last0 = seq first (S (last - 1 - first))
    /\ last0 <= last /\ last - 1 <= length lines.
Proof. exact line_range_consecutive. Qed.
Print Assumptions C16_line_range_consecutive.

(* Replacement(get_line_range_for_node(statement), new_lines) applied to the file: the lines before the
   statement, then new_lines (the decompiled statement; [] for a removal; the `pass` line), then the
   lines after the range — every line outside the range is kept, in place and in order *)
Theorem C16_replace_node_lines : forall (f : file) first last0 new_lines rest,
  1 <= first -> first < last0 -> last0 - 1 <= length f ->
  exists last, last0 <= last /\ last - 1 <= length f /\
    Fixer.apply_changes (mk_repl (Range.line_range f first last0) (Some new_lines) :: rest) f
    = firstn (first - 1) f ++ new_lines ++ skipn (last - 1) f.
Proof. exact replace_node_lines. Qed.
Print Assumptions C16_replace_node_lines.

(* ---- the AST copier behind replace_node --------------------------------- *)
(* NodeTransformer.generic_visit rebuilds every node from its visited fields; ReplaceNodeTransformer
   returns the replacement for the one node to replace.  Model: PV.Ast.Copy (nodes with identity,
   fields holding a node / a list / another value, list entries that may be None or other non-node
   values).  The body of the list loop is regenerated from the source (Gen/CopyGen.v). *)

(* the translated loop body is the model's, and the loop as a whole is an entry-by-entry map:
   nothing is dropped, duplicated or reordered; None entries (Dict.keys for `**m`, kw_defaults for
   keyword-only parameters without default) are kept *)
Theorem C16_copier_gen_is_model : forall visit value acc,
  CopyGen.item_body visit value acc = Copy.item_body visit value acc.
Proof. exact gen_item_body. Qed.
Print Assumptions C16_copier_gen_is_model.

Theorem C16_copier_list_is_map : forall target replacement l,
  CopyGen.copy_list (fun n => VAst (rn target replacement n)) l = rn_items target replacement l
  /\ items_length (rn_items target replacement l) = items_length l.
Proof. exact (fun t r l => conj (gen_copy_list_is_map t r l) (rn_items_length t r l)). Qed.
Print Assumptions C16_copier_list_is_map.

(* copy_id: the copier is the identity on every (sub)tree that does not contain the node to replace *)
Theorem C16_copy_id : forall target replacement,
  (forall n, occ target n = false -> rn target replacement n = n) /\
  (forall l, occ_items target l = false -> rn_items target replacement l = l).
Proof. exact (fun t r => conj (copy_id t r) (copy_id_items t r)). Qed.
Print Assumptions C16_copy_id.

(* the node to replace becomes the replacement; every other node keeps identity, kind and fields *)
Theorem C16_copier_replaces_target : forall target replacement,
  (forall n, node_id n = target -> rn target replacement n = replacement) /\
  (forall i k fs, i <> target -> rn target replacement (Node i k fs) = Node i k (rn_fields target replacement fs)).
Proof. exact (fun t r => conj (rn_root t r) (rn_keeps_node t r)). Qed.
Print Assumptions C16_copier_replaces_target.

(* with unique node identities the replacement happens at most once, and it happens iff the node occurs *)
Theorem C16_replaced_at_most_once : forall target n,
  NoDup (ids n) -> hits target n <= 1 /\ (hits target n = 0 <-> occ target n = false).
Proof. exact (fun t n ND => conj (replaced_at_most_once t n ND) (proj1 (replaced_iff_occurs t) n)). Qed.
Print Assumptions C16_replaced_at_most_once.

Example C16_copier_keeps_none_entries :
  (* Dict(keys=[None, k], values=[m, <target>]) with the second value replaced *)
  let d := Node 1 7 (FCons (FList (ICons VNone (ICons (VAst (Node 2 3 FNil)) INil)))
                    (FCons (FList (ICons (VAst (Node 3 4 FNil)) (ICons (VAst (Node 4 5 FNil)) INil))) FNil)) in
  rn 4 (Node 9 6 FNil) d
  = Node 1 7 (FCons (FList (ICons VNone (ICons (VAst (Node 2 3 FNil)) INil)))
             (FCons (FList (ICons (VAst (Node 3 4 FNil)) (ICons (VAst (Node 9 6 FNil)) INil))) FNil)).
Proof. vm_compute. reflexivity. Qed.
Print Assumptions C16_copier_keeps_none_entries.
