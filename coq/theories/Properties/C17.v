(* Properties/C17.v — format-string diagnostics agree with CPython's formatter.
   Only statements, `exact`, and Print Assumptions.

   Model      : PV.Format.Percent   (pyanalyze/format_strings.py, %-formatting;
                the conversion-type sets come from PV.Gen.FormatRe, regenerated
                from the source on every run)
   Spec       : PV.Format.PyPercent (CPython 3.12's `%` algorithm)
   Guards     : PV.Format.Guards    (one clause per known finding)
   Theorems quantify over parsed templates (lists of conversion specifiers of
   any length) and literal argument tuples / dicts / scalars of any size. *)
From Coq Require Import ZArith List Bool NArith.
Import ListNotations.
Require Import PV.Gen.FormatRe PV.Gen.FormatAccept PV.Gen.FormatLoops PV.Format.Percent PV.Format.PyPercent PV.Format.Guards PV.Format.StrFormat PV.Format.FormatEval PV.Format.Typed.
Require Import PV.Proofs.FormatPins PV.Proofs.FormatConv PV.Proofs.FormatPercent PV.Proofs.FormatStr PV.Proofs.FormatScan PV.Proofs.FormatEvalProofs PV.Proofs.FormatGen PV.Proofs.FormatTyped PV.Proofs.FormatStrScan.

(* the regex text / flags / conversion sets / %c range the scanner model was written for *)
Theorem C17_regex_pinned : regex_text = expected_regex_text /\ regex_flags = [2; 1]%N.
Proof. exact regex_pinned. Qed.
Print Assumptions C17_regex_pinned.

Theorem C17_conversion_sets_pinned :
  numeric_conversion_types = [69; 70; 71; 88; 100; 101; 102; 103; 105; 111; 117; 120]%N /\
  integer_conversion_types = [88; 111; 120]%N /\
  format_string_conversions = [97; 114; 115]%N /\
  c_range_bounds = [c_limit].
Proof. exact conversion_sets_pinned. Qed.
Print Assumptions C17_conversion_sets_pinned.

(* CPython raises  ==>  pyanalyze reports, outside three named classes *)
Theorem C17_percent_raise_reported : forall is_bytes specs a,
  overflow_clause specs a = false ->
  bytes_mapping_clause is_bytes specs = false ->
  nonstr_keys_clause specs a = false ->
  py_raises is_bytes specs a = true ->
  pa_reports is_bytes specs 0 a = true.
Proof. exact percent_raise_reported. Qed.
Print Assumptions C17_percent_raise_reported.

(* pyanalyze reports  ==>  CPython raises, or the report is one of the two
   documented stricter lint rules — outside three named classes *)
Theorem C17_percent_report_sound : forall is_bytes specs a,
  c_range_clause is_bytes specs a = false ->
  bytes_mapping_clause is_bytes specs = false ->
  escape_only_mapping_clause is_bytes specs a = false ->
  dict_keys_unique a ->
  pa_reports is_bytes specs 0 a = true ->
  py_raises is_bytes specs a = true \/ lint_only is_bytes specs a = true.
Proof. exact percent_report_sound. Qed.
Print Assumptions C17_percent_report_sound.

(* the unguarded statements are false for the faithful model (known findings) *)
Theorem C17_percent_raise_reported_refuted : ~ percent_raise_reported_full_statement.
Proof. exact raise_reported_refuted. Qed.
Print Assumptions C17_percent_raise_reported_refuted.

Theorem C17_percent_report_sound_refuted : ~ percent_report_sound_full_statement.
Proof. exact report_sound_refuted. Qed.
Print Assumptions C17_percent_report_sound_refuted.

Theorem C17_refutation_witnesses :
  (* "%d" % 1e999 ; b"%(a)s" % {"a": b"x"} ; "%(a)s" % {1: 2} : raise, nothing reported *)
  (py_raises false [bare 100] (AScalar (OFloat false)) = true /\
   pa_reports false [bare 100] 0 (AScalar (OFloat false)) = false) /\
  (let cs := mk_cspec 115 (Some [97%N]) None FNone FNone None in
   py_raises true [cs] (ADict [(KStr [97%N], OBytes [120%N])]) = true /\
   pa_reports true [cs] 0 (ADict [(KStr [97%N], OBytes [120%N])]) = false) /\
  (let cs := mk_cspec 115 (Some [97%N]) None FNone FNone None in
   py_raises false [cs] (ADict [(KOther, OInt 2)]) = true /\
   pa_reports false [cs] 0 (ADict [(KOther, OInt 2)]) = false) /\
  (* "%c" % 300 ; "%%" % {"a": 1} : reported, formats fine, not a lint rule *)
  (pa_reports false [bare 99] 0 (AScalar (OInt 300)) = true /\
   py_raises false [bare 99] (AScalar (OInt 300)) = false /\
   lint_only false [bare 99] (AScalar (OInt 300)) = false) /\
  (pa_reports false [bare 37] 0 (ADict [(KStr [97%N], OInt 1)]) = true /\
   py_raises false [bare 37] (ADict [(KStr [97%N], OInt 1)]) = false /\
   lint_only false [bare 37] (ADict [(KStr [97%N], OInt 1)]) = false).
Proof.
  exact (conj raise_reported_refuted_overflow (conj raise_reported_refuted_bytes_keys
        (conj raise_reported_refuted_nonstr_keys (conj report_sound_refuted_c_range report_sound_refuted_escape_only)))).
Qed.
Print Assumptions C17_refutation_witnesses.

(* CPython's argument cursor on a key-less template = a left-to-right walk over
   get_serial_specifiers() *)
Theorem C17_serial_walk : forall is_bytes a specs st, forallb clean_spec specs = true ->
  option_map st_items (py_steps is_bytes a st specs) =
  if forallb nums_ok_spec specs then consume is_bytes (serial_specifiers specs) (st_items st) else None.
Proof. exact steps_bridge. Qed.
Print Assumptions C17_serial_walk.

(* per conversion: accepted literal ==> CPython converts it; rejected ==> CPython raises *)
Theorem C17_conversion_accept_sound : forall is_bytes t o,
  (t = ch_b -> is_bytes = true) -> obj_big o = false ->
  type_accept is_bytes t o = [] -> conv_ok is_bytes t o = true.
Proof. exact accept_ok_conv_ok. Qed.
Print Assumptions C17_conversion_accept_sound.

Theorem C17_conversion_reject_sound : forall is_bytes t o,
  (t =? ch_c)%N && c_range_obj is_bytes o = false ->
  type_accept is_bytes t o <> [] -> conv_ok is_bytes t o = false.
Proof. exact accept_err_conv_bad. Qed.
Print Assumptions C17_conversion_reject_sound.

(* the inferred type is the type of the actual result (str for str, bytes for bytes) *)
Theorem C17_percent_result_type : forall is_bytes, pa_result_is_bytes is_bytes = py_result_is_bytes is_bytes.
Proof. exact percent_result_type. Qed.
Print Assumptions C17_percent_result_type.

(* templates as characters: when both parsers split the template identically *)
Theorem C17_percent_chars_raise_reported : forall is_bytes t a specs pieces,
  pa_scan is_bytes t = Some (specs, pieces) -> count_bad_pieces pieces = 0%nat ->
  py_scan is_bytes t = PSOk specs ->
  overflow_clause specs a = false ->
  bytes_mapping_clause is_bytes specs = false ->
  nonstr_keys_clause specs a = false ->
  py_raises_chars is_bytes t a = Some true ->
  pa_reports_chars is_bytes t a = Some true.
Proof. exact percent_chars_raise_reported. Qed.
Print Assumptions C17_percent_chars_raise_reported.

Theorem C17_percent_chars_report_sound : forall is_bytes t a specs pieces,
  pa_scan is_bytes t = Some (specs, pieces) -> count_bad_pieces pieces = 0%nat ->
  py_scan is_bytes t = PSOk specs ->
  c_range_clause is_bytes specs a = false ->
  bytes_mapping_clause is_bytes specs = false ->
  escape_only_mapping_clause is_bytes specs a = false ->
  dict_keys_unique a ->
  pa_reports_chars is_bytes t a = Some true ->
  py_raises_chars is_bytes t a = Some true \/ lint_only is_bytes specs a = true.
Proof. exact percent_chars_report_sound. Qed.
Print Assumptions C17_percent_chars_report_sound.

Example C17_percent_guards_inhabited :
  let sa := mk_cspec 100 (Some [97%N]) None FNone FNone None in
  let sb := mk_cspec 115 (Some [98%N]) None FNone FNone None in
  let d := ADict [(KStr [97%N], OStr [120%N]); (KStr [98%N], OInt 1)] in
  let s1 := mk_cspec 100 None None FStar FNone None in
  let t := ATuple [OInt 5; OInt 3; OInt 65] in
  (overflow_clause [sa; sb] d = false /\ bytes_mapping_clause false [sa; sb] = false /\
   nonstr_keys_clause [sa; sb] d = false /\ c_range_clause false [sa; sb] d = false /\
   escape_only_mapping_clause false [sa; sb] d = false /\
   py_raises false [sa; sb] d = true /\ pa_reports false [sa; sb] 0 d = true) /\
  (overflow_clause [s1; bare 99] t = false /\ c_range_clause false [s1; bare 99] t = false /\
   py_raises false [s1; bare 99] t = false /\ pa_reports false [s1; bare 99] 0 t = false) /\
  (py_raises false [bare 115] (ATuple [OInt 1; OInt 2]) = true /\
   pa_reports false [bare 115] 0 (ATuple [OInt 1; OInt 2]) = true).
Proof. exact percent_guards_inhabited. Qed.
Print Assumptions C17_percent_guards_inhabited.

(* ------------------------------------------------------------------ str.format *)
(* fields in iter_replacement_fields order (nested ones included), any number of
   positional arguments, any keyword names.
   CPython raises (numbering switch, IndexError, KeyError)  ==>  _str_format_impl reports;
   no guard: the mixed-numbering class (former C17-format-auto-manual-mix) is repaired *)
Theorem C17_format_raise_reported : forall fs nargs kw,
  py_fields_raise fs nargs kw AInit 0 = true ->
  nonempty (pa_fields_check fs nargs kw) = true.
Proof. exact format_raise_reported. Qed.
Print Assumptions C17_format_raise_reported.

(* the field loop and CPython's numbering/lookup agree in every numbering state *)
Theorem C17_format_loop_iff_raises : forall fs nargs kw st cur,
  nonempty (loop_errs fs nargs kw st cur) = py_fields_raise fs nargs kw st cur.
Proof. exact loop_err_iff_raises. Qed.
Print Assumptions C17_format_loop_iff_raises.

(* reported  ==>  CPython raises, or every report is the documented
   "... argument(s) were not used" rule; no guard needed *)
Theorem C17_format_report_sound : forall fs nargs kw,
  nonempty (pa_fields_check fs nargs kw) = true ->
  py_fields_raise fs nargs kw AInit 0 = true \/ forallb is_unused (pa_fields_check fs nargs kw) = true.
Proof. exact format_report_sound. Qed.
Print Assumptions C17_format_report_sound.

(* "{} {0}".format(1): ValueError in CPython, reported as a numbering switch *)
Theorem C17_format_mix_witness :
  let fs := [mk_field ANone [] None false; mk_field (ANum 0) [] None false] in
  py_fields_raise fs 1 [] AInit 0 = true /\ pa_fields_check fs 1 [] = [FMix] /\ mix_clause fs = true.
Proof. exact format_mix_witness. Qed.
Print Assumptions C17_format_mix_witness.

Example C17_format_examples :
  pa_format_check [123; 125; 32; 123; 48; 125]%N 1 [] = Some (RFields [FMix]) /\
  py_format_verdict [123; 125; 32; 123; 48; 125]%N 1 [] = VRaises /\
  pa_format_check [123; 48; 125; 123; 49; 125]%N 1 [] = Some (RFields [FOutOfRange]) /\
  py_format_verdict [123; 48; 125; 123; 49; 125]%N 1 [] = VRaises /\
  pa_format_check [123; 97; 125]%N 0 [[97]; [98]]%N = Some (RFields [FUnusedNamed]) /\
  py_format_verdict [123; 97; 125]%N 0 [[97]; [98]]%N = VFine /\
  pa_format_check [123; 48; 33; 120; 125]%N 1 [] = Some (RParse 4 PUnknownConversion) /\
  py_format_verdict [123; 48; 33; 120; 125]%N 1 [] = VRaises /\
  py_format_verdict [123; 58; 123; 58; 123; 125; 125; 125]%N 3 [] = VRaises.
Proof. exact format_examples. Qed.
Print Assumptions C17_format_examples.

(* ------------------------------------------------------------------ scanner agreement (phase 2) *)
(* Templates of any length without '(' and whose regex-digits are ASCII digits:
   whenever the regex scanner leaves no '%' in a raw piece, CPython's parser
   reads exactly the same specifiers.  (Both scanners are models; each is tied
   to its implementation by the differential check.) *)
Theorem C17_scan_agree_fragment : forall is_bytes t specs pieces,
  frag is_bytes t = true ->
  pa_scan is_bytes t = Some (specs, pieces) -> count_bad_pieces pieces = 0%nat ->
  py_scan is_bytes t = PSOk specs.
Proof. exact scan_agree_fragment. Qed.
Print Assumptions C17_scan_agree_fragment.

(* hence, on that fragment, the character-level theorems need no hypothesis about CPython's parser *)
Theorem C17_percent_fragment_raise_reported : forall is_bytes t a specs pieces,
  frag is_bytes t = true ->
  pa_scan is_bytes t = Some (specs, pieces) ->
  overflow_clause specs a = false ->
  bytes_mapping_clause is_bytes specs = false ->
  nonstr_keys_clause specs a = false ->
  py_raises_chars is_bytes t a = Some true ->
  pa_reports_chars is_bytes t a = Some true.
Proof. exact percent_fragment_raise_reported. Qed.
Print Assumptions C17_percent_fragment_raise_reported.

Theorem C17_percent_fragment_report_sound : forall is_bytes t a specs pieces,
  frag is_bytes t = true ->
  pa_scan is_bytes t = Some (specs, pieces) -> count_bad_pieces pieces = 0%nat ->
  c_range_clause is_bytes specs a = false ->
  bytes_mapping_clause is_bytes specs = false ->
  escape_only_mapping_clause is_bytes specs a = false ->
  dict_keys_unique a ->
  pa_reports_chars is_bytes t a = Some true ->
  py_raises_chars is_bytes t a = Some true \/ lint_only is_bytes specs a = true.
Proof. exact percent_fragment_report_sound. Qed.
Print Assumptions C17_percent_fragment_report_sound.

Example C17_fragment_example :
  let t := [97; 37; 45; 53; 46; 50; 108; 100; 37; 37; 98; 10]%N in
  frag false t = true /\
  pa_scan false t = Some ([mk_cspec 100 None (Some [45%N]) (FNum 5) (FNum 2) (Some 108%N); bare 37], [[97]; []; [98]; []; [10]; [10]]%N) /\
  py_scan false t = PSOk [mk_cspec 100 None (Some [45%N]) (FNum 5) (FNum 2) (Some 108%N); bare 37].
Proof. exact fragment_example. Qed.
Print Assumptions C17_fragment_example.

(* ------------------------------------------------------------------ str.format on characters, extended specification (phase 2) *)
Theorem C17_format_chars_raise_reported : forall t nargs kw fs fs',
  pa_parse t = Some (fs, []) -> py_parse t = PYOk fs' -> map f_name fs = map f_name fs' ->
  py_fields_raise fs' nargs kw AInit 0 = true ->
  option_map freport_reports (pa_format_check t nargs kw) = Some true.
Proof. exact format_chars_raise_reported. Qed.
Print Assumptions C17_format_chars_raise_reported.

Theorem C17_format_chars_report_sound : forall t nargs kw fs fs' l,
  pa_parse t = Some (fs, []) -> py_parse t = PYOk fs' -> map f_name fs = map f_name fs' ->
  pa_format_check t nargs kw = Some (RFields l) -> nonempty l = true ->
  py_format_verdict t nargs kw = VRaises \/ forallb is_unused l = true.
Proof. exact format_chars_report_sound. Qed.
Print Assumptions C17_format_chars_report_sound.

Theorem C17_format_result_type : pa_format_result_is_str = py_format_result_is_str.
Proof. exact format_result_type. Qed.
Print Assumptions C17_format_result_type.

(* the extended specification (attribute/index paths, conversions, nested specs,
   format-spec validation) raises  ==>  reported, outside the three str.format findings *)
Theorem C17_format_full_raise_reported : forall a fs,
  forallb tfield_no_path fs = true ->
  forallb tfield_plain fs = true ->
  eval_fields a fs AInit 0 = VR ->
  nonempty (pa_fields_check (flat_map flatten_tfield fs) (nargs_of a) (kw_of a)) = true.
Proof. exact format_full_raise_reported. Qed.
Print Assumptions C17_format_full_raise_reported.

Theorem C17_format_full_report_sound : forall a fs,
  nonempty (pa_fields_check (flat_map flatten_tfield fs) (nargs_of a) (kw_of a)) = true ->
  eval_fields a fs AInit 0 = VR \/
  forallb is_unused (pa_fields_check (flat_map flatten_tfield fs) (nargs_of a) (kw_of a)) = true.
Proof. exact format_full_report_sound. Qed.
Print Assumptions C17_format_full_report_sound.

(* every raise of the structural specification is a raise of the extended one;
   on fields without path, conversion and spec the two coincide (nothing undecided) *)
Theorem C17_format_struct_raise_is_full_raise : forall a fs st cur,
  py_fields_raise (flat_map flatten_tfield fs) (nargs_of a) (kw_of a) st cur = true ->
  eval_fields a fs st cur = VR.
Proof. exact struct_raise_full_raise. Qed.
Print Assumptions C17_format_struct_raise_is_full_raise.

Theorem C17_format_simple_full_eq_struct : forall a fs st cur,
  forallb tfield_simple fs = true ->
  eval_fields a fs st cur =
  if py_fields_raise (flat_map flatten_tfield fs) (nargs_of a) (kw_of a) st cur then VR else VF.
Proof. exact simple_full_eq_struct. Qed.
Print Assumptions C17_format_simple_full_eq_struct.

(* "{0.nope}".format(1) and "{:d}".format("s"): raise, nothing reported *)
Theorem C17_format_full_refuted :
  let a1 := mk_fargs [FInt 1] [] in
  let f1 := mk_tf (ANum 0) [(false, [110; 111; 112; 101]%N)] None [] in
  let a2 := mk_fargs [FStr [115%N]] [] in
  let f2 := mk_tf ANone [] None [SLit 100] in
  (eval_fields a1 [f1] AInit 0 = VR /\ pa_fields_check (flatten_tfield f1) 1 [] = [] /\ tfield_no_path f1 = false) /\
  (eval_fields a2 [f2] AInit 0 = VR /\ pa_fields_check (flatten_tfield f2) 1 [] = [] /\ tfield_plain f2 = false).
Proof. exact format_full_refuted. Qed.
Print Assumptions C17_format_full_refuted.

(* ------------------------------------------------------------------ phase 3 *)
(* the regex-scanner model is total (finditer needs at most 2*length+2 matches) *)
Theorem C17_pa_scan_total : forall is_bytes t, exists specs pieces, pa_scan is_bytes t = Some (specs, pieces).
Proof. exact pa_scan_total. Qed.
Print Assumptions C17_pa_scan_total.

(* a template without '(' has no mapping key *)
Theorem C17_fragment_no_mapping : forall is_bytes t specs pieces,
  frag is_bytes t = true -> pa_scan is_bytes t = Some (specs, pieces) -> needs_mapping specs = false.
Proof. exact fragment_no_mapping. Qed.
Print Assumptions C17_fragment_no_mapping.

(* hence on the fragment: CPython raises ==> reported, for every template (characters)
   and every literal argument; the only clause left is numeric overflow *)
Theorem C17_percent_fragment_raise_reported_total : forall is_bytes t a,
  frag is_bytes t = true ->
  exists specs pieces, pa_scan is_bytes t = Some (specs, pieces) /\
    (overflow_clause specs a = false ->
     py_raises_chars is_bytes t a = Some true -> pa_reports_chars is_bytes t a = Some true).
Proof. exact percent_fragment_raise_reported_total. Qed.
Print Assumptions C17_percent_fragment_raise_reported_total.

(* the functions translated from format_strings.py on this run are the model *)
Theorem C17_gen_accept_is_model : forall is_bytes t o,
  gen_accept is_bytes t (view_of_obj o) = type_accept is_bytes t o.
Proof. exact gen_accept_is_model. Qed.
Print Assumptions C17_gen_accept_is_model.

Theorem C17_gen_star_is_model : forall o,
  gen_star_accept (view_of_obj o) = (if int_like o then [] else [EStar]).
Proof. exact gen_star_is_model. Qed.
Print Assumptions C17_gen_star_is_model.

Theorem C17_gen_lint_is_model : forall is_bytes nm cs,
  spec_lint is_bytes nm cs =
  gen_spec_lint is_bytes cs ++
  (if nm && negb (c_type cs =? ch_pct)%N
      && (negb (is_some (c_key cs)) || is_star (c_prec cs) || is_star (c_width cs))
   then [LCombine] else []).
Proof. exact gen_lint_is_model. Qed.
Print Assumptions C17_gen_lint_is_model.

(* typed (non-literal) arguments, key-less templates, tuples of any length.
   Soundness: a reported conversion error names an alternative [a] of the argument
   at position [i] such that CPython raises for EVERY run-time member of [a],
   whatever the other arguments are *)
Theorem C17_typed_report_sound : forall is_bytes specs (l : list uval),
  needs_mapping specs = false -> pa_lint is_bytes specs 0 = [] ->
  zip_accept_u is_bytes (serial_specifiers specs) l <> [] ->
  exists i u a, nth_error l i = Some u /\ In a u /\
    forall os o, nth_error os i = Some o -> conc a o -> norange is_bytes a ->
      py_raises is_bytes specs (ATuple os) = true.
Proof. exact typed_report_sound. Qed.
Print Assumptions C17_typed_report_sound.

Theorem C17_typed_arity_sound : forall is_bytes specs os,
  needs_mapping specs = false -> pa_lint is_bytes specs 0 = [] ->
  length os <> length (serial_specifiers specs) ->
  py_raises is_bytes specs (ATuple os) = true.
Proof. exact typed_arity_sound. Qed.
Print Assumptions C17_typed_arity_sound.

(* Completeness: wrong arity, or an alternative all of whose run-time members fail
   the conversion  ==>  reported *)
Theorem C17_typed_raise_reported : forall is_bytes specs (l : list uval),
  (length l <> length (serial_specifiers specs) \/
   exists i s u a, nth_error (serial_specifiers specs) i = Some s /\ nth_error l i = Some u /\ In a u /\
                   complete_guard is_bytes s a /\
                   forall o, conc a o -> serial_ok is_bytes s o = false) ->
  accept_tuple_typed is_bytes specs (TTuple l) <> [].
Proof. exact typed_raise_reported. Qed.
Print Assumptions C17_typed_raise_reported.

Theorem C17_typed_of_literals : forall is_bytes ss os,
  zip_accept_u is_bytes ss (map (fun o => [AK o]) os) = zip_accept is_bytes ss os.
Proof. exact typed_of_literals. Qed.
Print Assumptions C17_typed_of_literals.

Example C17_typed_examples :
  accept_tuple_typed false [bare 100; bare 115] (TTuple [[AT TyInt; AT TyStr]; [AT TyAny]]) = [ENumeric] /\
  accept_tuple_typed false [bare 99] (TTuple [[AT TyInt]]) = [] /\
  accept_tuple_typed false [bare 120] (TScalar (AT TyFloat)) = [EInteger] /\
  accept_tuple_typed false [mk_cspec 100 None None FStar FNone None] (TTuple [[AT TyFloat; AT TyStr]; [AT TyBool]]) = [EStar] /\
  accept_tuple_typed false [bare 100] TOpaque = [].
Proof. exact typed_examples. Qed.
Print Assumptions C17_typed_examples.

(* an f-string replacement field with a literal operand is the str.format field
   "{0<conv>:<spec>}" applied to it: same verdict *)
Theorem C17_fstring_field_is_format_field : forall o conv spec,
  eval_fields (mk_fargs [o] []) [mk_tf (ANum 0) [] conv (map SLit spec)] AInit 0 =
  check_spec (apply_conv o conv) spec.
Proof. exact fstring_field_is_format_field. Qed.
Print Assumptions C17_fstring_field_is_format_field.

(* ------------------------------------------------------------------ phase 4 *)
(* str.format templates of any length without the characters . [ ! : (plain fields
   and escapes): pyanalyze's parser records no error <-> CPython's parser accepts,
   with the same fields; it records an error <-> CPython raises *)
Theorem C17_format_scan_agree_fragment : forall t fs errs,
  ffrag t = true -> pa_parse t = Some (fs, errs) ->
  (errs = [] -> py_parse t = PYOk fs) /\ (errs <> [] -> py_parse t = PYRaise).
Proof. exact format_scan_agree_fragment. Qed.
Print Assumptions C17_format_scan_agree_fragment.

(* hence, on that fragment, no hypothesis about CPython's parser and no guard at all *)
Theorem C17_format_fragment_raise_reported : forall t nargs kw fs errs,
  ffrag t = true -> pa_parse t = Some (fs, errs) ->
  py_format_verdict t nargs kw = VRaises ->
  option_map freport_reports (pa_format_check t nargs kw) = Some true.
Proof. exact format_fragment_raise_reported. Qed.
Print Assumptions C17_format_fragment_raise_reported.

Theorem C17_format_fragment_report_sound : forall t nargs kw fs errs r,
  ffrag t = true -> pa_parse t = Some (fs, errs) ->
  pa_format_check t nargs kw = Some r -> freport_reports r = true ->
  py_format_verdict t nargs kw = VRaises \/
  (exists l, r = RFields l /\ forallb is_unused l = true).
Proof. exact format_fragment_report_sound. Qed.
Print Assumptions C17_format_fragment_report_sound.

Example C17_format_fragment_example :
  let t := [123; 97; 125; 123; 125; 123; 123; 120; 125; 125]%N in
  ffrag t = true /\
  pa_parse t = Some ([plain_field [97%N]; plain_field []], []) /\
  py_parse t = PYOk [plain_field [97%N]; plain_field []].
Proof. exact format_fragment_example. Qed.
Print Assumptions C17_format_fragment_example.

(* the loops translated from the source on this run are the model *)
Theorem C17_gen_loops_are_model :
  (forall specs, gen_needs_mapping specs = needs_mapping specs) /\
  (forall specs, gen_serial_specifiers specs = serial_specifiers specs) /\
  (forall is_bytes specs n, gen_pa_lint is_bytes specs n = pa_lint is_bytes specs n) /\
  (forall is_bytes specs a,
     accept_tuple is_bytes specs a =
     gen_accept_tail (serial_accept is_bytes) (gen_serial_specifiers specs)
       (match a with ATuple l => l | ADict _ => [OOther true] | AScalar o => [o] end)) /\
  (forall is_bytes specs (l : list uval),
     accept_tuple_typed is_bytes specs (TTuple l) =
     gen_accept_tail (serial_accept_u is_bytes) (gen_serial_specifiers specs) l) /\
  (forall fields nargs kw st cur, gen_field_loop fields nargs kw st cur = pa_field_loop fields nargs kw st cur) /\
  (forall fields nargs kw, gen_fields_check fields nargs kw = pa_fields_check fields nargs kw).
Proof.
  exact (conj gen_needs_mapping_is_model (conj gen_serial_specifiers_is_model (conj gen_pa_lint_is_model
        (conj gen_accept_tail_is_model (conj gen_accept_tail_typed_is_model
        (conj gen_field_loop_is_model gen_fields_check_is_model)))))).
Qed.
Print Assumptions C17_gen_loops_are_model.

(* round 4: the hand-written Signature of str.format in get_default_argspecs has the
   parameter kinds CPython exhibits: receiver positional-only, *args, **kwargs
   (Gen/FormatSigs.v, regenerated from the source and from the running CPython) *)
Theorem C17_str_format_signature_pinned :
  map snd PV.Gen.FormatSigs.str_format_params_src = PV.Gen.FormatSigs.str_format_kinds_cpython /\
  PV.Gen.FormatSigs.str_format_kinds_cpython = [0; 2; 4]%N.
Proof. exact str_format_signature_pinned. Qed.
Print Assumptions C17_str_format_signature_pinned.
