(* Properties/C17.v — format-string diagnostics agree with CPython's formatter.
   Only statements, `exact`, and Print Assumptions. *)
From Coq Require Import ZArith List Bool NArith.
Import ListNotations.
Require Import PV.Gen.FormatRe PV.Format.Percent PV.Format.PyPercent.
Require Import PV.Proofs.FormatPins.

Theorem C17_regex_pinned : regex_text = expected_regex_text /\ regex_flags = [2; 1]%N.
Proof. exact regex_pinned. Qed.
Print Assumptions C17_regex_pinned.
