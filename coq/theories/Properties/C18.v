(* Properties/C18.v — configuration layering follows the documented precedence.
   Only statements, `exact`, and Print Assumptions.  All statements are about
   PV.Gen.Options (regenerated from pyanalyze/options.py on every run) and the
   hand-written parser model PV.Options.Parse (tied by the correspondence check). *)
From Coq Require Import ZArith List Bool NArith.
Import ListNotations.
Require Import PV.Options.Base PV.Options.Parse.
Require Import PV.Proofs.OptionsSort PV.Proofs.OptionsLookup PV.Proofs.OptionsParse PV.Proofs.OptionsMain PV.Proofs.OptionsInherit.
Require Import PV.Gen.Options.

(* lookup = value of the first applicable instance of minimal (not cli, priority, -len prefix) *)
Theorem C18_lookup_is_first_min : forall (cli file : list (inst Z)) mp,
  get_value_from_instances (from_option_list cli file) mp = option_map value (chosen (cli ++ file) mp).
Proof. exact (@lookup_chosen Z). Qed.
Print Assumptions C18_lookup_is_first_min.

Theorem C18_applicable_iff_prefix : forall (i : inst Z) mp,
  is_applicable_to i mp = true <-> exists rest, mp = applicable_to i ++ rest.
Proof. exact (@is_applicable_iff_prefix Z). Qed.
Print Assumptions C18_applicable_iff_prefix.

Theorem C18_cli_wins : forall is_code files v cli d mp l,
  parse_main is_code files = Ok l ->
  effective is_code files (v :: cli) d mp = Some (Some v).
Proof. exact cli_value_effective. Qed.
Print Assumptions C18_cli_wins.

Theorem C18_main_beats_extended : forall is_code files sec d mp l b,
  parse_main is_code files = Ok l -> nth_error files 0 = Some sec ->
  (exists y, In y (own is_code sec 0) /\ is_applicable_to y mp = true) ->
  chosen (cli_insts [] ++ l) mp = Some b ->
  In b (own is_code sec 0) /\ effective is_code files [] d mp = Some (Some (value b)).
Proof. exact main_beats_extended. Qed.
Print Assumptions C18_main_beats_extended.

(* same statement one level down: in every reached file, own settings have the
   file's priority and everything it extends has a strictly larger number *)
Theorem C18_nearer_file_has_lower_priority : forall is_code files fuel seen n p l sec,
  parse_file is_code files fuel seen n p = Ok l -> nth_error files n = Some sec ->
  (forall i, In i (own is_code sec p) -> In i l /\ priority i = p) /\
  (forall i, In i l -> In i (own is_code sec p) \/ (p + 1 <= priority i)%Z).
Proof. exact parse_file_own_or_deeper. Qed.
Print Assumptions C18_nearer_file_has_lower_priority.

Theorem C18_nearer_file_wins : forall (L : list (inst Z)) mp b,
  chosen L mp = Some b -> forall y, In y L -> is_applicable_to y mp = true ->
  from_command_line y = from_command_line b -> (priority b <= priority y)%Z.
Proof. exact (@nearer_file_wins Z). Qed.
Print Assumptions C18_nearer_file_wins.

Theorem C18_most_specific_override_wins : forall is_code files mp l b y,
  parse_main is_code files = Ok l ->
  chosen (cli_insts [] ++ l) mp = Some b ->
  In y l -> is_applicable_to y mp = true -> priority y = priority b ->
  length (applicable_to y) <= length (applicable_to b).
Proof. exact most_specific_override_wins. Qed.
Print Assumptions C18_most_specific_override_wins.

Theorem C18_default_last : forall is_code files d mp l,
  parse_main is_code files = Ok l ->
  (forall y, In y l -> is_applicable_to y mp = false) ->
  effective is_code files [] d mp = Some (Some d).
Proof. exact default_iff_nothing_applies. Qed.
Print Assumptions C18_default_last.

Theorem C18_concat_order : forall (d : list Z) (cli file : list (inst (list Z))) mp,
  concat_get_value_from_instances d (from_option_list cli file) mp =
  flat_map value (sort_by sort_key (filter (fun i => is_applicable_to i mp) (cli ++ file))) ++ d.
Proof. exact (@concat_order Z). Qed.
Print Assumptions C18_concat_order.

Theorem C18_sorted_is_stable_sorted : forall (l : list (inst Z)),
  sorted sort_key (sort_by sort_key l) /\ forall y, In y (sort_by sort_key l) <-> In y l.
Proof. intros l. split; [apply sort_by_sorted|intros y; apply sort_by_In]. Qed.
Print Assumptions C18_sorted_is_stable_sorted.

Theorem C18_rejects_invalid : forall is_code files cli d mp,
  effective is_code files cli d mp = None <-> parse_main is_code files = Err.
Proof. exact effective_none_iff_error. Qed.
Print Assumptions C18_rejects_invalid.

Theorem C18_accepted_is_valid : forall is_code files fuel seen n p l,
  parse_file is_code files fuel seen n p = Ok l ->
  ~ In n seen /\ exists sec, nth_error files n = Some sec /\ bad_file sec = false.
Proof. exact parse_file_ok_rejects. Qed.
Print Assumptions C18_accepted_is_valid.

(* disable_all: a section yields an explicit `false` for an error code exactly when its
   (last) disable_all is true and the section does not itself set the code to true *)
Theorem C18_disable_all_semantics : forall (es : list (entry unit)) mp p en dis i,
  In i (direct true es mp p en dis) <->
    (exists v, In v (settings es) /\ i = mk_inst v mp false p) \/
    (final_disable es dis = true /\ (en || sets_true es) = false /\ i = mk_inst 0%Z mp false p).
Proof. exact (@direct_disable_all unit). Qed.
Print Assumptions C18_disable_all_semantics.

(* is_error_code_enabled_anywhere is an upper bound of the per-module lookups (a code enabled for some
   module -- by an explicit setting or by its default -- is enabled "anywhere"), and claims nothing else *)
Theorem C18_enabled_somewhere_enabled_anywhere : forall (d : bool) (stored : list (inst bool)) mp,
  get_value_for_no_default d stored mp = Some true -> enabled_anywhere d stored = true.
Proof. exact enabled_somewhere_enabled_anywhere. Qed.
Print Assumptions C18_enabled_somewhere_enabled_anywhere.

Theorem C18_enabled_anywhere_sources : forall (d : bool) (stored : list (inst bool)),
  enabled_anywhere d stored = true -> d = true \/ exists i, In i stored /\ value i = true.
Proof. exact enabled_anywhere_sources. Qed.
Print Assumptions C18_enabled_anywhere_sources.

(* the same, end to end over the parser model: whatever the files and the command line say, a code
   enabled for some module path is enabled "anywhere" *)
Theorem C18_enabled_for_a_module_enabled_anywhere : forall files cli d mp v,
  effective true files cli d mp = Some (Some v) -> v <> 0%Z -> effective_anywhere files cli d = Some true.
Proof. exact enabled_for_a_module_enabled_anywhere. Qed.
Print Assumptions C18_enabled_for_a_module_enabled_anywhere.

(* inheritance down the module tree: a setting for a package applies to all its submodules ... *)
Theorem C18_setting_applies_to_submodules : forall (i : inst Z) mp rest,
  is_applicable_to i mp = true -> is_applicable_to i (mp ++ rest) = true.
Proof. exact (@applicable_to_submodules Z). Qed.
Print Assumptions C18_setting_applies_to_submodules.

(* ... the lookup sees the module path only through the applicability tests ... *)
Theorem C18_lookup_depends_on_applicability : forall (L : list (inst Z)) mp mp',
  (forall i, In i L -> is_applicable_to i mp = is_applicable_to i mp') ->
  get_value_from_instances L mp = get_value_from_instances L mp'.
Proof. exact (@lookup_depends_on_applicability Z). Qed.
Print Assumptions C18_lookup_depends_on_applicability.

(* ... so, whatever the files and the command line say, a submodule for which no section names a path
   longer than its ancestor mp has exactly mp's effective value (nothing leaks in from sibling sections) *)
Theorem C18_submodule_inherits : forall is_code files cli d mp rest l,
  parse_main is_code files = Ok l ->
  (forall i, In i l -> is_applicable_to i (mp ++ rest) = true -> length (applicable_to i) <= length mp) ->
  effective is_code files cli d (mp ++ rest) = effective is_code files cli d mp.
Proof. exact submodule_inherits. Qed.
Print Assumptions C18_submodule_inherits.

Theorem C18_submodule_inherits_concat : forall (d : list Z) (cli file : list (inst (list Z))) mp rest,
  (forall i, In i (cli ++ file) -> is_applicable_to i (mp ++ rest) = true -> length (applicable_to i) <= length mp) ->
  concat_get_value_from_instances d (from_option_list cli file) (mp ++ rest) =
  concat_get_value_from_instances d (from_option_list cli file) mp.
Proof. exact (@submodule_inherits_concat Z). Qed.
Print Assumptions C18_submodule_inherits_concat.

(* a setting that reaches the ancestor is never lost below it: the submodule never falls back to the default *)
Theorem C18_submodule_never_falls_to_default : forall (L : list (inst Z)) mp rest,
  chosen L mp <> None -> chosen L (mp ++ rest) <> None.
Proof. exact (@submodule_never_falls_to_default Z). Qed.
Print Assumptions C18_submodule_never_falls_to_default.

Example C18_inherit_nonvacuous : exists l,
  parse_main false ex_files = Ok l /\
  forallb (fun i => implb (is_applicable_to i ([1%N; 4%N] ++ [9%N])) (Nat.leb (length (applicable_to i)) 2)) l = true /\
  effective false ex_files [] 0 ([1%N; 4%N] ++ [9%N]) = Some (Some 8%Z) /\
  effective false ex_files [] 0 ([1%N; 2%N] ++ [9%N]) = Some (Some 9%Z).
Proof. exact ex_inherit. Qed.
Print Assumptions C18_inherit_nonvacuous.

Example C18_nonvacuous :
  effective false ex_files [] 0 [1%N; 2%N; 3%N] = Some (Some 9%Z) /\
  effective false ex_files [] 0 [1%N; 4%N] = Some (Some 8%Z) /\
  effective false ex_files [] 0 [5%N; 6%N] = Some (Some 7%Z) /\
  effective false ex_files [42%Z] 0 [1%N; 2%N] = Some (Some 42%Z) /\
  effective false [[EExtend (XFile 0)]] [] 0 [] = None /\
  effective false [[EOverrides (OVList [OSec (Some [5%N]) [ESet 4]]) ; EExtend (XFile 1)]; [EOverrides (OVList [OSec (Some [5%N; 6%N]) [ESet 2]])]] [] 0 [5%N; 6%N] = Some (Some 4%Z) /\
  effective true [[EDisableAll true; EOverrides (OVList [OSec (Some [5%N]) [ESet 1]])]] [] 1 [5%N] = Some (Some 1%Z) /\
  effective true [[EDisableAll true; EOverrides (OVList [OSec (Some [5%N]) [ESet 1]])]] [] 1 [6%N] = Some (Some 0%Z).
Proof. exact ex_chain. Qed.
Print Assumptions C18_nonvacuous.
