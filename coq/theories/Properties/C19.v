(* Properties/C19.v -- operations on known objects agree with performing them.
   Only statements, `exact`, and Print Assumptions.

   Two models: Ops/Dispatch.v (the left/right dunder fallback for unary and
   binary operators over observations of the real objects) and Ops/SeqIndex.v
   (indexing / slicing a SequenceValue).  Both use PV.Gen.Ops, regenerated from
   name_check_visitor.py / implementation.py on every run; both are tied to the
   real checker by harness/c19.py.  Attribute access has no model: pyanalyze
   asks the real object, and so does the check (differential against CPython). *)
From Coq Require Import ZArith List Bool.
Import ListNotations.
Require Import PV.Gen.Ops PV.Ops.Dispatch PV.Ops.SeqIndex.
Require Import PV.Proofs.OpsDispatch PV.Proofs.OpsSeqIndex.
Local Open Scope Z_scope.

(* ---- generated code meets the arithmetic the proofs rely on ------------- *)

Theorem C19_gen_in_range : forall n k, in_range n k = true <-> - n <= k < n.
Proof. exact in_range_spec. Qed.
Print Assumptions C19_gen_in_range.

Theorem C19_gen_index_from_back : forall k, index_from_back k = - k - 1.
Proof. exact index_from_back_spec. Qed.
Print Assumptions C19_gen_index_from_back.

Theorem C19_gen_combine : forall (V : Type) (le re ra : bool) (lr rr d a : V),
  combine le re ra lr rr d a =
  if le then (if re then d else rr) else (if re then lr else if ra then a else lr).
Proof. exact combine_spec. Qed.
Print Assumptions C19_gen_combine.

(* ---- operators ---------------------------------------------------------- *)

(* the full statement: for stubs that agree with the objects, a diagnostic is
   shown exactly when CPython raises TypeError *)
Definition C19_binop_full_statement : Prop := @binop_full_statement nat.

Theorem C19_binop_full_statement_refuted : ~ C19_binop_full_statement.
Proof. exact binop_full_statement_refuted. Qed.
Print Assumptions C19_binop_full_statement_refuted.

Theorem C19_binop_diag_iff_typeerror_partial : forall (O : Type) si rp (l r : side O),
  stub_consistent l = true -> stub_consistent r = true -> binop_guard si rp l r = true ->
  (pa_binop l r = VDiag <-> py_binop si rp l r = PTypeError).
Proof. exact (@binop_diag_iff_typeerror_partial). Qed.
Print Assumptions C19_binop_diag_iff_typeerror_partial.

Theorem C19_binop_literal_correct : forall (O : Type) si rp (l r : side O) v,
  stub_consistent l = true -> stub_consistent r = true -> binop_guard si rp l r = true ->
  subclass_priority rp l r = false ->
  pa_binop l r = VLit v -> py_binop si rp l r = PVal v.
Proof. exact (@binop_literal_correct). Qed.
Print Assumptions C19_binop_literal_correct.

Theorem C19_binop_disagreement_blames_stub : forall (O : Type) si rp (l r : side O),
  binop_guard si rp l r = true ->
  ~ (pa_binop l r = VDiag <-> py_binop si rp l r = PTypeError) ->
  stub_consistent l = false \/ stub_consistent r = false.
Proof. exact (@binop_disagreement_blames_stub). Qed.
Print Assumptions C19_binop_disagreement_blames_stub.

Theorem C19_binop_same_impl_refuted :
  stub_consistent notimpl_side = true /\ stub_consistent (ok_side 7) = true /\
  pa_binop notimpl_side (ok_side 7) = VLit 7%nat /\
  py_binop true false notimpl_side (ok_side 7) = PTypeError.
Proof. exact binop_same_impl_refuted. Qed.
Print Assumptions C19_binop_same_impl_refuted.

Theorem C19_binop_subclass_priority_refuted :
  pa_binop (ok_side 1) (ok_side 2) = VLit 1%nat /\
  py_binop false true (ok_side 1) (ok_side 2) = PVal 2%nat.
Proof. exact binop_subclass_priority_refuted. Qed.
Print Assumptions C19_binop_subclass_priority_refuted.

Theorem C19_unop_diag_iff_typeerror : forall (O : Type) (s : side O),
  stub_consistent s = true -> is_notimpl (s_out s) = false ->
  (pa_unop s = VDiag <-> py_unop s = PTypeError).
Proof. exact (@unop_diag_iff_typeerror). Qed.
Print Assumptions C19_unop_diag_iff_typeerror.

Theorem C19_unop_literal_correct : forall (O : Type) (s : side O) v,
  stub_consistent s = true -> pa_unop s = VLit v -> py_unop s = PVal v.
Proof. exact (@unop_literal_correct). Qed.
Print Assumptions C19_unop_literal_correct.

Example C19_binop_guard_inhabited :
  pa_binop notimpl_side notimpl_side = VDiag /\ py_binop false false notimpl_side notimpl_side = PTypeError /\
  binop_guard false false notimpl_side notimpl_side = true /\
  pa_binop notimpl_side (ok_side 3) = VLit 3%nat /\ py_binop false false notimpl_side (ok_side 3) = PVal 3%nat /\
  binop_guard false false notimpl_side (ok_side 3) = true /\
  pa_binop (ok_side 4) notimpl_side = VLit 4%nat /\ py_binop false false (ok_side 4) notimpl_side = PVal 4%nat /\
  pa_binop raising_side missing_side = VDiag /\ py_binop false false raising_side missing_side = PTypeError /\
  binop_guard false false raising_side missing_side = true /\
  @pa_binop nat (mkSide true false false ORaiseOther) (mkSide true false false ORaiseOther) = VTyped /\
  @py_binop nat true false (mkSide true false false ORaiseOther) (mkSide true false false ORaiseOther) = POther.
Proof. exact binop_examples. Qed.
Print Assumptions C19_binop_guard_inhabited.

(* ---- subscripts ---------------------------------------------------------- *)

(* whenever the checker answers with one member's type, every concrete
   sequence matching the pattern has an element at that index, of that type
   (unbounded member lists, any number of unpacked members, any key) *)
Theorem C19_seq_index_sound : forall (T O : Type) (mem : O -> T -> Prop) kind (ms : members T) key os t,
  matches mem os ms -> seq_getitem_int kind ms key = RMember t ->
  exists o, py_nth os key = Some o /\ mem o t.
Proof. exact (@seq_index_sound). Qed.
Print Assumptions C19_seq_index_sound.

Theorem C19_seq_common_sound : forall (T O : Type) (mem : O -> T -> Prop) (ms : members T) os o,
  matches mem os ms -> In o os -> exists t, In t (map snd ms) /\ mem o t.
Proof. exact (@seq_common_sound). Qed.
Print Assumptions C19_seq_common_sound.

(* "Tuple index out of range" is shown exactly when CPython raises IndexError *)
Theorem C19_seq_index_error_iff : forall (T O : Type) (mem : O -> T -> Prop) (ms : members T) l key os,
  member_sequence ms = Some l -> matches mem os ms ->
  (seq_getitem_int KTuple ms key = ROutOfRange <-> py_nth os key = None).
Proof. exact (@seq_index_error_iff). Qed.
Print Assumptions C19_seq_index_error_iff.

Theorem C19_seq_index_error_only_fixed_tuple : forall (T : Type) kind (ms : members T) key,
  seq_getitem_int kind ms key = ROutOfRange ->
  kind = KTuple /\ exists l, member_sequence ms = Some l /\
    ~ (- Z.of_nat (length l) <= key < Z.of_nat (length l)).
Proof. exact (@seq_index_error_only_fixed_tuple). Qed.
Print Assumptions C19_seq_index_error_only_fixed_tuple.

Theorem C19_seq_slice_sound : forall (T O : Type) (mem : O -> T -> Prop) (ms : members T) s os r,
  matches mem os ms -> seq_getitem_slice ms s = SMembers r ->
  exists os', py_slice os s = Some os' /\ Forall2 mem os' r.
Proof. exact (@seq_slice_sound). Qed.
Print Assumptions C19_seq_slice_sound.

Theorem C19_seq_slice_crash_iff : forall (T : Type) (ms : members T) s l,
  member_sequence ms = Some l ->
  (seq_getitem_slice ms s = SCrash <-> sl_step s = Some 0).
Proof. exact (@seq_slice_crash_iff). Qed.
Print Assumptions C19_seq_slice_crash_iff.

(* the offset of the unrepaired code (-key + 1) refutes C19_seq_index_sound:
   tuple[int0, *tuple[int1, ...], int2, int3, int4] at -1 answers int2 *)
Theorem C19_seq_index_unrepaired_refuted :
  ~ (forall (ms : members nat) key os t, matches eq os ms ->
       seq_getitem_int_unrepaired ms key = RMember t -> exists o, py_nth os key = Some o /\ o = t).
Proof. exact seq_index_unrepaired_refuted. Qed.
Print Assumptions C19_seq_index_unrepaired_refuted.

Example C19_seq_index_nonvacuous :
  matches eq ex_tuple ex_members /\
  seq_getitem_int KTuple ex_members (-1) = RMember 4%nat /\
  seq_getitem_int KTuple ex_members (-3) = RMember 2%nat /\
  seq_getitem_int KTuple ex_members (-4) = RCommon /\
  seq_getitem_int KTuple ex_members 0 = RMember 0%nat /\
  seq_getitem_int KTuple ex_members 1 = RCommon /\
  seq_getitem_int KTuple [(false, 7%nat); (false, 8%nat)] 2 = ROutOfRange.
Proof.
  split; [exact ex_matches|].
  destruct seq_index_examples as (A & B & C & D & E & F & _). repeat split; assumption.
Qed.
Print Assumptions C19_seq_index_nonvacuous.
