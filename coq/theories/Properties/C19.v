(* Properties/C19.v -- operations on known objects agree with performing them.
   Only statements, `exact`, and Print Assumptions.

   Two models: Ops/Dispatch.v (the left/right dunder fallback for unary and
   binary operators over observations of the real objects) and Ops/SeqIndex.v
   (indexing / slicing a SequenceValue).  Both use PV.Gen.Ops, regenerated from
   name_check_visitor.py / implementation.py on every run; both are tied to the
   real checker by harness/c19.py.  Attribute access has no model: pyanalyze
   asks the real object, and so does the check (differential against CPython). *)
From Coq Require Import ZArith List Bool.
Import ListNotations.
Require Import PV.Ops.AttrBase PV.Gen.Ops PV.Ops.Dispatch PV.Ops.SeqIndex PV.Ops.Attr.
Require Import PV.Proofs.OpsDispatch PV.Proofs.OpsSeqIndex PV.Proofs.OpsAttr.
Local Open Scope Z_scope.

(* ---- generated code meets the arithmetic the proofs rely on ------------- *)

Theorem C19_gen_in_range : forall n k, in_range n k = true <-> - n <= k < n.
Proof. exact in_range_spec. Qed.
Print Assumptions C19_gen_in_range.

Theorem C19_gen_index_from_back : forall k, index_from_back k = - k - 1.
Proof. exact index_from_back_spec. Qed.
Print Assumptions C19_gen_index_from_back.

Theorem C19_gen_combine : forall (V : Type) (le re ra : bool) (lr rr d a : V),
  combine le re ra lr rr d a =
  if le then (if re then d else rr) else (if re then lr else if ra then a else lr).
Proof. exact combine_spec. Qed.
Print Assumptions C19_gen_combine.

(* ---- operators ---------------------------------------------------------- *)

(* the full statement: for stubs that agree with the objects, a diagnostic is
   shown exactly when CPython raises TypeError *)
Definition C19_binop_full_statement : Prop := @binop_full_statement nat.

Theorem C19_binop_full_statement_refuted : ~ C19_binop_full_statement.
Proof. exact binop_full_statement_refuted. Qed.
Print Assumptions C19_binop_full_statement_refuted.

Theorem C19_binop_diag_iff_typeerror_partial : forall (O : Type) si rp (l r : side O),
  stub_consistent l = true -> stub_consistent r = true -> binop_guard si rp l r = true ->
  (pa_binop l r = VDiag <-> py_binop si rp l r = PTypeError).
Proof. exact (@binop_diag_iff_typeerror_partial). Qed.
Print Assumptions C19_binop_diag_iff_typeerror_partial.

Theorem C19_binop_literal_correct : forall (O : Type) si rp (l r : side O) v,
  stub_consistent l = true -> stub_consistent r = true -> binop_guard si rp l r = true ->
  subclass_priority rp l r = false ->
  pa_binop l r = VLit v -> py_binop si rp l r = PVal v.
Proof. exact (@binop_literal_correct). Qed.
Print Assumptions C19_binop_literal_correct.

Theorem C19_binop_disagreement_blames_stub : forall (O : Type) si rp (l r : side O),
  binop_guard si rp l r = true ->
  ~ (pa_binop l r = VDiag <-> py_binop si rp l r = PTypeError) ->
  stub_consistent l = false \/ stub_consistent r = false.
Proof. exact (@binop_disagreement_blames_stub). Qed.
Print Assumptions C19_binop_disagreement_blames_stub.

Theorem C19_binop_same_impl_refuted :
  stub_consistent notimpl_side = true /\ stub_consistent (ok_side 7) = true /\
  pa_binop notimpl_side (ok_side 7) = VLit 7%nat /\
  py_binop true false notimpl_side (ok_side 7) = PTypeError.
Proof. exact binop_same_impl_refuted. Qed.
Print Assumptions C19_binop_same_impl_refuted.

Theorem C19_binop_subclass_priority_refuted :
  pa_binop (ok_side 1) (ok_side 2) = VLit 1%nat /\
  py_binop false true (ok_side 1) (ok_side 2) = PVal 2%nat.
Proof. exact binop_subclass_priority_refuted. Qed.
Print Assumptions C19_binop_subclass_priority_refuted.

Theorem C19_unop_diag_iff_typeerror : forall (O : Type) (s : side O),
  stub_consistent s = true -> is_notimpl (s_out s) = false ->
  (pa_unop s = VDiag <-> py_unop s = PTypeError).
Proof. exact (@unop_diag_iff_typeerror). Qed.
Print Assumptions C19_unop_diag_iff_typeerror.

Theorem C19_unop_literal_correct : forall (O : Type) (s : side O) v,
  stub_consistent s = true -> pa_unop s = VLit v -> py_unop s = PVal v.
Proof. exact (@unop_literal_correct). Qed.
Print Assumptions C19_unop_literal_correct.

Example C19_binop_guard_inhabited :
  pa_binop notimpl_side notimpl_side = VDiag /\ py_binop false false notimpl_side notimpl_side = PTypeError /\
  binop_guard false false notimpl_side notimpl_side = true /\
  pa_binop notimpl_side (ok_side 3) = VLit 3%nat /\ py_binop false false notimpl_side (ok_side 3) = PVal 3%nat /\
  binop_guard false false notimpl_side (ok_side 3) = true /\
  pa_binop (ok_side 4) notimpl_side = VLit 4%nat /\ py_binop false false (ok_side 4) notimpl_side = PVal 4%nat /\
  pa_binop raising_side missing_side = VDiag /\ py_binop false false raising_side missing_side = PTypeError /\
  binop_guard false false raising_side missing_side = true /\
  @pa_binop nat (mkSide true false false ORaiseOther) (mkSide true false false ORaiseOther) = VTyped /\
  @py_binop nat true false (mkSide true false false ORaiseOther) (mkSide true false false ORaiseOther) = POther.
Proof. exact binop_examples. Qed.
Print Assumptions C19_binop_guard_inhabited.

(* ---- subscripts ---------------------------------------------------------- *)

(* whenever the checker answers with one member's type, every concrete
   sequence matching the pattern has an element at that index, of that type
   (unbounded member lists, any number of unpacked members, any key) *)
Theorem C19_seq_index_sound : forall (T O : Type) (mem : O -> T -> Prop) kind (ms : members T) key os t,
  matches mem os ms -> seq_getitem_int kind ms key = RMember t ->
  exists o, py_nth os key = Some o /\ mem o t.
Proof. exact (@seq_index_sound). Qed.
Print Assumptions C19_seq_index_sound.

Theorem C19_seq_common_sound : forall (T O : Type) (mem : O -> T -> Prop) (ms : members T) os o,
  matches mem os ms -> In o os -> exists t, In t (map snd ms) /\ mem o t.
Proof. exact (@seq_common_sound). Qed.
Print Assumptions C19_seq_common_sound.

(* "Tuple index out of range" is shown exactly when CPython raises IndexError *)
Theorem C19_seq_index_error_iff : forall (T O : Type) (mem : O -> T -> Prop) (ms : members T) l key os,
  member_sequence ms = Some l -> matches mem os ms ->
  (seq_getitem_int KTuple ms key = ROutOfRange <-> py_nth os key = None).
Proof. exact (@seq_index_error_iff). Qed.
Print Assumptions C19_seq_index_error_iff.

Theorem C19_seq_index_error_only_fixed_tuple : forall (T : Type) kind (ms : members T) key,
  seq_getitem_int kind ms key = ROutOfRange ->
  kind = KTuple /\ exists l, member_sequence ms = Some l /\
    ~ (- Z.of_nat (length l) <= key < Z.of_nat (length l)).
Proof. exact (@seq_index_error_only_fixed_tuple). Qed.
Print Assumptions C19_seq_index_error_only_fixed_tuple.

Theorem C19_seq_slice_sound : forall (T O : Type) (mem : O -> T -> Prop) (ms : members T) s os r,
  matches mem os ms -> seq_getitem_slice ms s = SMembers r ->
  exists os', py_slice os s = Some os' /\ Forall2 mem os' r.
Proof. exact (@seq_slice_sound). Qed.
Print Assumptions C19_seq_slice_sound.

Theorem C19_seq_slice_step_zero_generic : forall (T : Type) (ms : members T) s l,
  member_sequence ms = Some l ->
  (seq_getitem_slice ms s = SGeneric <-> sl_step s = Some 0) /\
  (sl_step s = Some 0 <-> py_slice l s = None).
Proof. exact (@seq_slice_step_zero_generic). Qed.
Print Assumptions C19_seq_slice_step_zero_generic.

(* the offset of the unrepaired code (-key + 1) refutes C19_seq_index_sound:
   tuple[int0, *tuple[int1, ...], int2, int3, int4] at -1 answers int2 *)
Theorem C19_seq_index_unrepaired_refuted :
  ~ (forall (ms : members nat) key os t, matches eq os ms ->
       seq_getitem_int_unrepaired ms key = RMember t -> exists o, py_nth os key = Some o /\ o = t).
Proof. exact seq_index_unrepaired_refuted. Qed.
Print Assumptions C19_seq_index_unrepaired_refuted.

Example C19_seq_index_nonvacuous :
  matches eq ex_tuple ex_members /\
  seq_getitem_int KTuple ex_members (-1) = RMember 4%nat /\
  seq_getitem_int KTuple ex_members (-3) = RMember 2%nat /\
  seq_getitem_int KTuple ex_members (-4) = RCommon /\
  seq_getitem_int KTuple ex_members 0 = RMember 0%nat /\
  seq_getitem_int KTuple ex_members 1 = RCommon /\
  seq_getitem_int KTuple [(false, 7%nat); (false, 8%nat)] 2 = ROutOfRange.
Proof.
  split; [exact ex_matches|].
  destruct seq_index_examples as (A & B & C & D & E & F & _). repeat split; assumption.
Qed.
Print Assumptions C19_seq_index_nonvacuous.

(* ---- augmented assignment and comparison chains ----------------------------- *)

(* t op= x: the in-place dunder first, then the binary operator; a diagnostic is shown
   exactly when CPython ends in TypeError (guard: binop_guard, and the in-place method
   does not raise TypeError itself while the binary operator would work) *)
Theorem C19_aug_diag_iff_typeerror_partial : forall (O : Type) si rp (i l r : side O),
  stub_consistent i = true -> stub_consistent l = true -> stub_consistent r = true ->
  aug_guard si rp i l r = true ->
  (pa_aug i l r = VDiag <-> py_aug si rp i l r = PTypeError).
Proof. exact (@aug_diag_iff_typeerror_partial). Qed.
Print Assumptions C19_aug_diag_iff_typeerror_partial.

Theorem C19_aug_literal_correct : forall (O : Type) si rp (i l r : side O) v,
  stub_consistent i = true -> stub_consistent l = true -> stub_consistent r = true ->
  aug_guard si rp i l r = true -> subclass_priority rp l r = false ->
  pa_aug i l r = VLit v -> py_aug si rp i l r = PVal v.
Proof. exact (@aug_literal_correct). Qed.
Print Assumptions C19_aug_literal_correct.

Theorem C19_aug_inplace_raises_refuted :
  pa_aug raising_side (ok_side 1) missing_side = VLit 1%nat /\
  py_aug false false raising_side (ok_side 1) missing_side = PTypeError /\
  inplace_raises_binop_ok raising_side (ok_side 1) missing_side = true.
Proof. exact aug_inplace_raises_refuted. Qed.
Print Assumptions C19_aug_inplace_raises_refuted.

Example C19_aug_guard_inhabited :
  pa_aug missing_side notimpl_side (ok_side 3) = VLit 3%nat /\ py_aug false false missing_side notimpl_side (ok_side 3) = PVal 3%nat /\
  pa_aug missing_side notimpl_side notimpl_side = VDiag /\ py_aug false false missing_side notimpl_side notimpl_side = PTypeError /\
  pa_aug (ok_side 9) notimpl_side notimpl_side = VLit 9%nat /\ py_aug false false (ok_side 9) notimpl_side notimpl_side = PVal 9%nat /\
  aug_guard false false missing_side notimpl_side notimpl_side = true.
Proof. exact aug_examples. Qed.
Print Assumptions C19_aug_guard_inhabited.

(* a op1 b op2 c: reported exactly when one of the links, performed on its own, raises *)
Theorem C19_chain_diag_iff : forall (d1 d2 x1 x2 : bool),
  (d1 = true <-> x1 = true) -> (d2 = true <-> x2 = true) ->
  (pa_chain d1 d2 = true <-> py_chain_raises x1 x2 = true).
Proof. exact chain_diag_iff. Qed.
Print Assumptions C19_chain_diag_iff.

(* ---- attribute access ------------------------------------------------------- *)

Theorem C19_gen_attr_dispatch :
  mro_step_order = [SStubNonCallable; SAnnotations; SBaseDict; SStubCallable] /\
  (forall a b c, fallback_ignores a b c = negb a && (b || c)).
Proof. exact (conj gen_mro_step_order gen_fallback_ignores). Qed.
Print Assumptions C19_gen_attr_dispatch.

Definition C19_attr_full_statement : Prop := attr_full_statement.

Theorem C19_attr_full_statement_refuted : ~ C19_attr_full_statement.
Proof. exact attr_full_statement_refuted. Qed.
Print Assumptions C19_attr_full_statement_refuted.

(* for any known object (instance, module, class, Enum class), any list of base classes and
   any order of the lookup steps: an undefined attribute is reported exactly when performing
   the access raises AttributeError -- provided stubs / annotations / class dicts do not claim
   an attribute the object lacks, and the missing attribute is not silenced (__getattr__
   defined, or a configured ignored name) *)
Theorem C19_attr_diag_iff_raises_partial : forall order o,
  attr_guard o = true -> (attr_diag order o = true <-> py_attr_raises o = true).
Proof. exact attr_diag_iff_raises_partial. Qed.
Print Assumptions C19_attr_diag_iff_raises_partial.

(* for an instance the checker performs the access: no assumption about stubs at all *)
Theorem C19_attr_instance_exact : forall order o,
  o_kind o = KInstance -> silenced o = false ->
  (attr_diag order o = true <-> py_attr_raises o = true).
Proof. exact attr_instance_exact. Qed.
Print Assumptions C19_attr_instance_exact.

Theorem C19_attr_known_is_real : forall order o, lookup_attr order o = LKnown -> o_real o = RHas.
Proof. exact attr_known_is_real. Qed.
Print Assumptions C19_attr_known_is_real.

(* one refutation per known finding about attributes *)
Theorem C19_attr_refutations :
  pa_attr ex_enum_sunder = false /\ py_attr_raises ex_enum_sunder = true /\ claim_faithful ex_enum_sunder = false /\
  pa_attr ex_getattr_override = false /\ py_attr_raises ex_getattr_override = true /\ silenced ex_getattr_override = true /\
  pa_attr ex_ignored_name = false /\ py_attr_raises ex_ignored_name = true /\ silenced ex_ignored_name = true.
Proof. exact attr_refutations. Qed.
Print Assumptions C19_attr_refutations.

Example C19_attr_guard_inhabited :
  pa_attr ex_enum_dynamic = true /\
  pa_attr (mkObs KInstance RRaisesAttr [] false false false false false) = true /\
  pa_attr (mkObs KInstance RHas [] false false false true false) = false /\
  pa_attr (mkObs KModule RRaisesAttr [] false false false false false) = true /\
  pa_attr (mkObs KClass RRaisesAttr [mkBase NoStub false false] false false true false false) = true /\
  lookup_attr mro_step_order (mkObs KClass RHas [mkBase StubCallable false true] false false true false false) = LKnown /\
  lookup_attr mro_step_order (mkObs KClass RHas [mkBase StubValue false true] false false true false false) = LStub /\
  attr_guard ex_enum_dynamic = true.
Proof. exact attr_examples. Qed.
Print Assumptions C19_attr_guard_inhabited.
