(* Properties/C20.v — type evaluation functions follow their specification. *)
From Coq Require Import List Bool Arith.
Import ListNotations.
Require Import PV.Eval.TypeEval.
Require Import PV.Proofs.TypeEvalBasic.

Theorem C20_argument_kinds : forall f p,
  kind_match f p =
  match f with
  | KProvided => (doc_kind p =? 0) || (doc_kind p =? 1)
  | KPositional => doc_kind p =? 0
  | KKeyword => doc_kind p =? 1
  end.
Proof. exact kind_match_doc. Qed.
Print Assumptions C20_argument_kinds.
