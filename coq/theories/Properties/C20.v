(* Properties/C20.v — type evaluation functions follow their specification.
   Only statements, `exact`, and Print Assumptions.  All statements are about
   PV.Eval.TypeEval: [evaluate] / [eval_cond] / [is_of_type] are the hand-written
   model of pyanalyze/type_evaluation.py (ConditionEvaluator, EvaluateVisitor,
   decompose_union, unite_varmaps, CombinedReturn; the repaired visit_BoolOp);
   [sem_evaluate] is the reference interpreter of docs/type_evaluation.md on
   union-free arguments.  What one type check answers ([acc], with the
   exclude_any flag), what the positive branch narrows a member to ([narrow])
   and how each parameter was filled ([posof]) are universally quantified; the
   harness instantiates them from the real code and checks the model end to end. *)
From Coq Require Import List Bool Arith.
Import ListNotations.
Require Import PV.Eval.TypeEval.
Require Import PV.Proofs.TypeEvalBasic PV.Proofs.TypeEvalSingle PV.Proofs.TypeEvalUnion PV.Proofs.TypeEvalDistrib PV.Proofs.TypeEvalPins.
Require Import PV.Gen.TypeEvalGen.

(* is_provided / is_positional / is_keyword select by the documented argument
   kind: int and star-args positions are POSITIONAL (0), str and star-star-kwargs
   positions KEYWORD (1), DEFAULT (2) and UNKNOWN (3) are "not provided" *)
Theorem C20_argument_kinds : forall f p,
  kind_match f p =
  match f with
  | KProvided => (doc_kind p =? 0) || (doc_kind p =? 1)
  | KPositional => doc_kind p =? 0
  | KKeyword => doc_kind p =? 1
  end.
Proof. exact kind_match_doc. Qed.
Print Assumptions C20_argument_kinds.

(* Union-free arguments: for every body (nested if/elif/else, and/or/not of the
   primitive conditions, return, show_error, pass) the evaluator's result —
   the returned type and the set of show_error sites — is that of the documented
   symbolic execution: the branch taken is the one the conditions' boolean
   meaning selects (is_of_type by [acc] with the exclude_any flag given),
   show_error fires exactly in executed branches, execution stops at the first
   return.  Guard narrow_id: a matching member is not changed by narrowing
   (fails only for an Any argument tested with exclude_any=False, which is
   narrowed to the tested type; that case is decided by the correspondence). *)
Theorem C20_eval_unionfree_eq_spec :
  forall (acc : typ -> member -> bool -> bool) (narrow : typ -> member -> list member) (posof : var -> posn)
         (isany : member -> bool),
  (forall T m ex, acc T m ex = true -> narrow T m = [m]) ->
  forall (sigma : var -> member) rho body dflt,
  (forall v, get rho v = [sigma v]) ->
  evaluate acc narrow posof isany rho body dflt = sem_evaluate acc posof sigma body dflt.
Proof. exact evaluate_single. Qed.
Print Assumptions C20_eval_unionfree_eq_spec.

(* One is_of_type test on a union argument (docs "Interaction with unions"):
   the positive branch exists iff some member matches, the negative branch iff
   some member does not; the negative branch sees exactly the non-matching
   members, the positive branch the (narrowed) matching members. *)
Theorem C20_is_of_type_splits_union :
  forall (acc : typ -> member -> bool -> bool) (narrow : typ -> member -> list member) rho v T ex,
  let ms := get rho v in
  let r := is_of_type acc narrow rho v T ex in
  (fst r = None <-> (ms <> [] /\ forall m, In m ms -> acc T m ex = false)) /\
  (snd r = None <-> forall m, In m ms -> acc T m ex = true) /\
  (forall vm, snd r = Some vm -> (exists m, In m ms /\ acc T m ex = true) ->
     get vm v = filter (fun m => negb (acc T m ex)) ms) /\
  (forall vm, fst r = Some vm -> get vm v = nodupn (flat_map (narrow T) (filter (fun m => acc T m ex) ms))).
Proof. exact is_of_type_splits. Qed.
Print Assumptions C20_is_of_type_splits_union.

(* Union distribution for WHOLE bodies, with no restriction on the body
   ("for a union argument the result is the union of the results for each member
   evaluated separately"): one union argument x with members ms, the other
   arguments present and union-free, no Any member in the union (isany false on ms),
   matching members unchanged by narrowing.  Covers the and/or
   partial-match bookkeeping (narrowed / remaining varmaps, key intersection in
   unite_varmaps, the repaired early exits) and the fall-through varmaps of the
   repaired visit_block / visit_If (statements after an `if` in which only some
   members returned see only the members that fell through). *)
Theorem C20_union_distributes : union_distributes_full_statement.
Proof. exact union_distributes. Qed.
Print Assumptions C20_union_distributes.

(* the former counterexample (known finding C20-fallthrough-not-narrowed, now
   repaired): the union call is the union of the member calls *)
Example C20_fallthrough_repaired :
  evaluate acc_eq narrow_eq pos_int no_any [(0, [0; 1])] fallthrough_body 4 = ([1; 2], []) /\
  evaluate acc_eq narrow_eq pos_int no_any [(0, [0])] fallthrough_body 4 = ([1], []) /\
  evaluate acc_eq narrow_eq pos_int no_any [(0, [1])] fallthrough_body 4 = ([2], []).
Proof. exact fallthrough_values. Qed.
Print Assumptions C20_fallthrough_repaired.

(* Non-trivial instance where distribution holds on the model, through the
   repaired `or` (members 0 and 1 reach the body, member 2 the else branch;
   types and show_error sites are the unions of the member results). *)
Example C20_union_or_distributes_example :
  evaluate acc_eq narrow_eq pos_int no_any [(0, [0; 1; 2])] or_body 4 = ([1; 2; 3], [7]) /\
  evaluate acc_eq narrow_eq pos_int no_any [(0, [0])] or_body 4 = ([1], []) /\
  evaluate acc_eq narrow_eq pos_int no_any [(0, [1])] or_body 4 = ([2], [7]) /\
  evaluate acc_eq narrow_eq pos_int no_any [(0, [2])] or_body 4 = ([3], []).
Proof. exact or_example. Qed.
Print Assumptions C20_union_or_distributes_example.

(* every condition, for a union argument: the left / right variable maps denote
   exactly the members for which the condition is true / false under the
   reference semantics (this is the and/or bookkeeping lemma the theorem above
   rests on) *)
Theorem C20_condition_splits_union :
  forall (acc : typ -> member -> bool -> bool) (narrow : typ -> member -> list member) (posof : var -> posn),
  (forall T m ex, acc T m ex = true -> narrow T m = [m]) ->
  forall (x : var) (sigma : var -> member) c rho,
  others x sigma rho -> nonempty (get rho x) ->
  cret_sets x sigma rho (eval_cond acc narrow posof rho c)
    (filter (fun m => sem_cond acc posof (sig_m x sigma m) c) (get rho x))
    (filter (fun m => negb (sem_cond acc posof (sig_m x sigma m) c)) (get rho x)).
Proof. exact condition_splits_union. Qed.
Print Assumptions C20_condition_splits_union.

Example C20_tables_hypotheses_inhabited :
  forall T m ex, acc_eq T m ex = true -> narrow_eq T m = [m].
Proof. exact tables_exact. Qed.
Print Assumptions C20_tables_hypotheses_inhabited.

(* Tie to the source, re-checked on every run.  [gen_kind_match] is regenerated
   from ConditionEvaluator.visit_Call by harness/translate/typeeval.py and is the
   model's kind_match; the other regions the model mirrors (visit_BoolOp,
   visit_is_of_type, decompose_union, unite_varmaps, visit_block, visit_If, the
   evaluator hand-off in signature.py, ...) are pinned in Proofs/TypeEvalPins.v,
   which this file depends on, so an edit of any of them breaks the build. *)
Theorem C20_kind_predicates_are_translated : forall f p, gen_kind_match f p = kind_match f p.
Proof. exact gen_kind_match_is_model. Qed.
Print Assumptions C20_kind_predicates_are_translated.

(* The hypothesis narrow_id of C20_union_distributes is necessary: with an Any-like
   member that a permissive match converts to the tested type, the faithful model
   gives a strict superset (known finding C20-any-conversion-superset). *)
Theorem C20_union_distributes_refuted_without_narrow_id : ~ union_distributes_without_narrow_id.
Proof. exact union_distributes_refuted_without_narrow_id. Qed.
Print Assumptions C20_union_distributes_refuted_without_narrow_id.

(* "the other arguments are present and union-free" is satisfiable by a finite
   variable map (an unbound variable holds the single member 0 in the model) *)
Example C20_unionfree_env_inhabited :
  forall v, v <> 0 -> exists m, get [(1, [7]); (2, [5])] v = [m].
Proof. exact others_unionfree_inhabited. Qed.
Print Assumptions C20_unionfree_env_inhabited.

(* The hypothesis "no Any member" is necessary: for a variable whose value has an
   Any member the repaired visit_block skips the fall-through narrowing (a
   permissive match may have converted that member, so membership cannot be
   tracked), and the un-narrowed fall-through gives a strict superset there
   (known finding C20-any-union-fallthrough). *)
Theorem C20_union_distributes_refuted_without_noany : ~ union_distributes_without_noany.
Proof. exact union_distributes_refuted_without_noany. Qed.
Print Assumptions C20_union_distributes_refuted_without_noany.

(* visit_BoolOp is translated from the source on every run (gen_and_step,
   gen_or_step: the per-operand if-chain with narrowed_varmap / remaining_varmaps /
   context narrowing / early exits; gen_and_end, gen_or_end: the result after the
   loop); the loops assembled from them are the model's eval_and / eval_or, about
   which C20_condition_splits_union and C20_union_distributes are proved. *)
Theorem C20_boolop_is_translated :
  forall (acc : typ -> member -> bool -> bool) (narrow : typ -> member -> list member) (posof : var -> posn)
         cs rho narrowed remaining,
  gen_and acc narrow posof rho cs narrowed remaining = eval_and acc narrow posof rho cs narrowed remaining /\
  gen_or acc narrow posof rho cs narrowed remaining = eval_or acc narrow posof rho cs narrowed remaining.
Proof. exact boolop_is_translated. Qed.
Print Assumptions C20_boolop_is_translated.
