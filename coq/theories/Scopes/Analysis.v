(* Scopes/Analysis.v — the collecting-phase abstract machine of
   pyanalyze.stacked_scopes.FunctionScope, driven as name_check_visitor drives
   it (visit_If / visit_While / visit_For / _handle_loop_else / visit_With /
   visit_try_except / visit_Try / visit_Return / visit_Raise / visit_Break /
   visit_Continue), for the tree with the C09 repairs applied
   (repo_fixes/C09-*.diff):
     - get_local records the uninitialized marker when the name has no current
       definition (so a later visit of the same node cannot hide it);
     - suppressing_subscope merges the assignments made while the block was
       visited (all assignments syntactically inside it), never LEAVES_SCOPE /
       LEAVES_LOOP, and hands the inner scope to combine_subscopes so that a
       block ending in break/continue still reaches the loop's exit scopes;
     - the else clause of a loop that may run zero times starts from
       (state before the loop) U (state after the body);
     - visit_Try hands the scope after the exception-path visit of the finally block to
       current_loop_scopes when a break/continue leaves the try statement.
   No proofs in this file. *)
From Coq Require Import NArith List Bool.
Import ListNotations.
Require Import PV.Scopes.Syntax PV.Scopes.Guards.

Definition vmap := list (var * list node).

(* a SubScope dict: ordinary variables, plus presence of the two pseudo-variables
   LEAVES_SCOPE (ls) and LEAVES_LOOP (ll); the node lists stored under those two
   keys are never observed after the repair, only the presence of the key is *)
Record scope := mkScope { vars : vmap; ls : bool; ll : bool }.

Fixpoint lookup (m : vmap) (v : var) : option (list node) :=
  match m with
  | [] => None
  | (w, l) :: r => if N.eqb w v then Some l else lookup r v
  end.

(* scope.get(v, [_UNINITIALIZED]) *)
Definition lookupU (m : vmap) (v : var) : list node :=
  match lookup m v with Some l => l | None => [UN] end.

Definition lookupE (m : vmap) (v : var) : list node :=
  match lookup m v with Some l => l | None => [] end.

Fixpoint upd (m : vmap) (v : var) (l : list node) : vmap :=
  match m with
  | [] => [(v, l)]
  | (w, x) :: r => if N.eqb w v then (w, l) :: r else (w, x) :: upd r v l
  end.

Definition keys (m : vmap) : list var := map fst m.

Record state := mkState {
  cur : scope;                 (* name_to_current_definition_nodes *)
  loops : list scope;          (* current_loop_scopes, without the main scope *)
  u2d : list (N * node)        (* usage_to_definition_nodes, as (use, node) pairs *)
}.

Definition strip_ls (c : scope) : scope := mkScope (vars c) false (ll c).
Definition strip_ll (c : scope) : scope := mkScope (vars c) (ls c) false.

(* entering `with self.subscope()`: a copy of the current dict without LEAVES_SCOPE *)
Definition enter (st : state) : state := mkState (strip_ls (cur st)) (loops st) (u2d st).
(* leaving it: the old dict is current again; everything else persists *)
Definition restore (st0 st1 : state) : state := mkState (cur st0) (loops st1) (u2d st1).

Definition set_var (v : var) (d : node) (st : state) : state :=
  mkState (mkScope (upd (vars (cur st)) v [d]) (ls (cur st)) (ll (cur st))) (loops st) (u2d st).
Definition set_ls (st : state) : state :=
  mkState (mkScope (vars (cur st)) true (ll (cur st))) (loops st) (u2d st).
Definition set_ll (st : state) : state :=
  mkState (mkScope (vars (cur st)) (ls (cur st)) true) (loops st) (u2d st).

(* get_local in the collecting phase (repaired) *)
Definition get_var (v : var) (u : N) (st : state) : state :=
  mkState (cur st) (loops st) (u2d st ++ map (fun d => (u, d)) (lookupU (vars (cur st)) v)).

(* get_combined_scope *)
Definition keeps (sc : scope) : bool := negb (ll sc) && negb (ls sc).
Definition kept (S : list scope) : list scope := filter keeps S.
Definition diverted (S : list scope) : list scope := filter ll S.
Definition keys_union (K : list scope) : list var :=
  nodup N.eq_dec (flat_map (fun sc => keys (vars sc)) K).
Definition merged (K : list scope) : vmap :=
  map (fun v => (v, nodup N.eq_dec (flat_map (fun sc => lookupU (vars sc) v) K))) (keys_union K).
Definition combined (S : list scope) : scope :=
  match kept S with
  | [] => mkScope [] true false
  | K => mkScope (merged K) false false
  end.

Definition update_vars (m r : vmap) : vmap := fold_left (fun acc kv => upd acc (fst kv) (snd kv)) r m.

(* combine_subscopes: dict.update with the combined scope; scopes holding
   LEAVES_LOOP go to current_loop_scopes *)
Definition combine (S : list scope) (st : state) : state :=
  let r := combined S in
  mkState (mkScope (update_vars (vars (cur st)) (vars r)) (ls (cur st) || ls r) (ll (cur st)))
          (loops st ++ diverted S) (u2d st).

(* the assignments recorded by suppressing_subscope, grouped by variable *)
Definition grouped (a : list (var * node)) : vmap :=
  map (fun v => (v, nodup N.eq_dec (map snd (filter (fun p => N.eqb (fst p) v) a))))
      (nodup N.eq_dec (map fst a)).

(* new_scope of suppressing_subscope: dummy[k] ++ rest[k] over all keys *)
Definition merge_rest (dv rest : vmap) : vmap :=
  map (fun v => (v, lookupE dv v ++ lookupE rest v)) (nodup N.eq_dec (keys dv ++ keys rest)).

(* the part of suppressing_subscope after the block: st0 = state at entry,
   s1 = state when the inner subscope ends.  Result: (inner scope, new state) *)
Definition suppress_leave (rest : vmap) (st0 s1 : state) : scope * state :=
  let inner := cur s1 in
  let st1 := restore st0 s1 in
  let dummy := strip_ls (cur st1) in
  let newsc := mkScope (merge_rest (vars dummy) rest) false (ll dummy) in
  (inner, combine [dummy; newsc; inner] st1).

(* ---- the pieces of visit_While / visit_For / _handle_loop_else between the visits of the
   sub-blocks (st = state before the statement) *)

(* with subscope() as body_scope: with loop_scope(): -- the main loop scope is current,
   current_loop_scopes is a fresh list *)
Definition loop_body_entry (st : state) : state :=
  mkState (strip_ls (cur (enter st))) [] (u2d st).
(* loop_scopes = main scope followed by the scopes diverted by combine_subscopes *)
Definition loop_scopes (m1 : state) : list scope := cur m1 :: loops m1.
(* leaving loop_scope: combine the loop scopes (LEAVES_LOOP removed) into body_scope *)
Definition loop_after_body (st m1 : state) : state :=
  combine (map strip_ll (loop_scopes m1)) (mkState (cur (enter st)) (loops st) (u2d m1)).
(* _handle_loop_else, always_entered branch *)
Definition loop_st2 (forever : bool) (st o2 : state) : state :=
  if forever then combine [cur o2] (restore st o2) else restore st o2.
Definition loop_bs (forever : bool) (st2 o2 : state) : scope :=
  if forever then strip_ls (cur st2) else cur o2.
(* the else subscope (repaired: starts from not-entered U body_scope) *)
Definition loop_else_entry (forever : bool) (e : block) (st2 o2 : state) : state :=
  if negb (is_nil e) && negb forever
  then combine [cur (enter st2); cur o2] (enter st2)
  else enter st2.
Definition loop_st4 (forever : bool) (st2 o2 e2 : state) : state :=
  combine [loop_bs forever st2 o2; cur e2] (restore st2 e2).
Definition loop_finish (forever : bool) (L : list scope) (st5 : state) : state :=
  if forever && forallb (fun sc => negb (ll sc)) L then set_ls st5 else st5.

(* ---- the pieces of visit_try_except *)
Definition te_body_entry (st : state) : state := enter (enter (enter st)).
Definition te_after_body (b : block) (st s1 : state) : scope * state :=
  suppress_leave (grouped (assigned_b b)) (enter (enter st)) s1.
Definition te_else_entry (st : state) (sf : scope * state) : state :=
  combine [fst sf] (enter (restore (enter st) (snd sf))).
Definition te_handlers_entry (st : state) (sf : scope * state) (e2 : state) : state :=
  restore (restore (enter st) (snd sf)) e2.
Definition te_finish (st e2 : state) (hr : list scope * state) : state :=
  combine (cur e2 :: fst hr) (restore st (snd hr)).

(* ---- the pieces of visit_Try with a finally clause *)
Definition fin_te_entry (st : state) : state := enter (enter st).
Definition fin_after_te (a : list (var * node)) (st t : state) : scope * state :=
  suppress_leave (grouped a) (enter st) t.
Definition fin_first_entry (st : state) (sf : scope * state) : state :=
  combine [cur (snd sf)] (enter (restore st (snd sf))).
(* after the first visit of the finally block (g2; its dict is `interrupted_scope`): when the
   try statement contains a break/continue of an enclosing loop, or the finally block itself
   ended in one, and the block did not leave the scope, that dict joins current_loop_scopes *)
Definition fin_mid (jump : bool) (st : state) (sf : scope * state) (g2 : state) : state :=
  let r := restore (restore st (snd sf)) g2 in
  if (jump || ll (cur g2)) && negb (ls (cur g2))
  then mkState (cur r) (loops r ++ [cur g2]) (u2d r) else r.
Definition fin_second_entry (jump : bool) (st : state) (sf : scope * state) (g2 : state) : state :=
  combine [fst sf] (fin_mid jump st sf g2).

Definition if_mid (st s1 : state) : state := enter (restore st s1).
Definition if_finish (st s1 s2 : state) : state :=
  combine [cur s1; cur s2] (restore (restore st s1) s2).

Fixpoint visit_s (s : stmt) (st : state) {struct s} : state :=
  match s with
  | SAssign v d => set_var v d st
  | SUse v u => get_var v u st
  | SCall | SPass => st
  | SReturn | SRaise => set_ls st
  | SBreak | SContinue => set_ll st
  | SIf b e =>
      let s1 := visit_b b (enter st) in
      let s2 := visit_b e (if_mid st s1) in
      if_finish st s1 s2
  | SLoop k b e =>
      let forever := is_forever k in
      let always := is_always k in
      let m1 := visit_b b (loop_body_entry st) in
      let o2 := loop_after_body st m1 in
      let st2 := loop_st2 always st o2 in
      let e2 := visit_b e (loop_else_entry always e st2 o2) in
      let st4 := loop_st4 always st2 o2 e2 in
      (* second collecting visit of the body *)
      let r1 := visit_b b (enter st4) in
      loop_finish forever (loop_scopes m1) (restore st4 r1)
  | SWith sup b =>
      if sup then snd (suppress_leave (grouped (assigned_b b)) st (visit_b b (enter st)))
      else visit_b b st
  | STry b hs e f =>
      let try_except := fun (st : state) =>
        let s1 := visit_b b (te_body_entry st) in
        let sf := te_after_body b st s1 in
        let e2 := visit_b e (te_else_entry st sf) in
        let hr := visit_hs hs (strip_ls (cur (enter st))) (cur (snd sf)) (te_handlers_entry st sf e2) in
        te_finish st e2 hr in
      if is_nil f then try_except st
      else
        let sf := fin_after_te (assigned_b b ++ assigned_hs hs ++ assigned_b e) st (try_except (fin_te_entry st)) in
        let g2 := visit_b f (fin_first_entry st sf) in
        visit_b f (fin_second_entry (free_jump_b b || free_jump_hs hs || free_jump_b e) st sf g2)
  end
with visit_b (b : block) (st : state) {struct b} : state :=
  match b with
  | BNil => st
  | BCons s r => visit_b r (visit_s s st)
  end
with visit_hs (hs : handlers) (dummy failure : scope) (o : state) {struct hs} : list scope * state :=
  match hs with
  | HNil => ([], o)
  | HCons h r =>
      let h2 := visit_b h (combine [dummy; failure] (enter o)) in
      let rr := visit_hs r dummy failure (restore o h2) in
      (cur h2 :: fst rr, snd rr)
  end.

Definition init : state := mkState (mkScope [] false false) [] [].

Definition analyse (p : block) : list (N * node) := u2d (visit_b p init).

Definition reported (p : block) (u : N) : list node :=
  nodup N.eq_dec (map snd (filter (fun x => N.eqb (fst x) u) (analyse p))).

(* resolve_name: every recorded node is the marker -> undefined_name (inside a
   function whose enclosing scopes do not define the name); the marker together
   with a real definition -> possibly_undefined_name *)
Definition only_un (l : list node) : bool := forallb (N.eqb UN) l.
Definition undefined_name (p : block) (u : N) : bool := only_un (reported p u).
Definition possibly_undefined (p : block) (u : N) : bool :=
  existsb (N.eqb UN) (reported p u) && negb (only_un (reported p u)).
