(* Scopes/Analysis.v — the collecting-phase abstract machine of
   pyanalyze.stacked_scopes.FunctionScope, driven as name_check_visitor drives
   it (visit_If / visit_While / visit_For / _handle_loop_else / visit_With /
   visit_try_except / visit_Try / visit_Return / visit_Raise / visit_Break /
   visit_Continue), for the tree with the C09 repairs applied
   (repo_fixes/C09-*.diff):
     - get_local records the uninitialized marker when the name has no current
       definition (so a later visit of the same node cannot hide it);
     - suppressing_subscope merges the assignments made while the block was
       visited (all assignments syntactically inside it), never LEAVES_SCOPE /
       LEAVES_LOOP, and hands the inner scope to combine_subscopes so that a
       block ending in break/continue still reaches the loop's exit scopes;
     - the else clause of a loop that may run zero times starts from
       (state before the loop) U (state after the body).
   No proofs in this file. *)
From Coq Require Import NArith List Bool.
Import ListNotations.
Require Import PV.Scopes.Syntax.

Definition vmap := list (var * list node).

(* a SubScope dict: ordinary variables, plus presence of the two pseudo-variables
   LEAVES_SCOPE (ls) and LEAVES_LOOP (ll); the node lists stored under those two
   keys are never observed after the repair, only the presence of the key is *)
Record scope := mkScope { vars : vmap; ls : bool; ll : bool }.

Fixpoint lookup (m : vmap) (v : var) : option (list node) :=
  match m with
  | [] => None
  | (w, l) :: r => if N.eqb w v then Some l else lookup r v
  end.

(* scope.get(v, [_UNINITIALIZED]) *)
Definition lookupU (m : vmap) (v : var) : list node :=
  match lookup m v with Some l => l | None => [UN] end.

Definition lookupE (m : vmap) (v : var) : list node :=
  match lookup m v with Some l => l | None => [] end.

Fixpoint upd (m : vmap) (v : var) (l : list node) : vmap :=
  match m with
  | [] => [(v, l)]
  | (w, x) :: r => if N.eqb w v then (w, l) :: r else (w, x) :: upd r v l
  end.

Definition keys (m : vmap) : list var := map fst m.

Record state := mkState {
  cur : scope;                 (* name_to_current_definition_nodes *)
  loops : list scope;          (* current_loop_scopes, without the main scope *)
  u2d : list (N * node)        (* usage_to_definition_nodes, as (use, node) pairs *)
}.

Definition strip_ls (c : scope) : scope := mkScope (vars c) false (ll c).
Definition strip_ll (c : scope) : scope := mkScope (vars c) (ls c) false.

(* entering `with self.subscope()`: a copy of the current dict without LEAVES_SCOPE *)
Definition enter (st : state) : state := mkState (strip_ls (cur st)) (loops st) (u2d st).
(* leaving it: the old dict is current again; everything else persists *)
Definition restore (st0 st1 : state) : state := mkState (cur st0) (loops st1) (u2d st1).

Definition set_var (v : var) (d : node) (st : state) : state :=
  mkState (mkScope (upd (vars (cur st)) v [d]) (ls (cur st)) (ll (cur st))) (loops st) (u2d st).
Definition set_ls (st : state) : state :=
  mkState (mkScope (vars (cur st)) true (ll (cur st))) (loops st) (u2d st).
Definition set_ll (st : state) : state :=
  mkState (mkScope (vars (cur st)) (ls (cur st)) true) (loops st) (u2d st).

(* get_local in the collecting phase (repaired) *)
Definition get_var (v : var) (u : N) (st : state) : state :=
  mkState (cur st) (loops st) (u2d st ++ map (fun d => (u, d)) (lookupU (vars (cur st)) v)).

(* get_combined_scope *)
Definition keeps (sc : scope) : bool := negb (ll sc) && negb (ls sc).
Definition kept (S : list scope) : list scope := filter keeps S.
Definition diverted (S : list scope) : list scope := filter ll S.
Definition keys_union (K : list scope) : list var :=
  nodup N.eq_dec (flat_map (fun sc => keys (vars sc)) K).
Definition merged (K : list scope) : vmap :=
  map (fun v => (v, nodup N.eq_dec (flat_map (fun sc => lookupU (vars sc) v) K))) (keys_union K).
Definition combined (S : list scope) : scope :=
  match kept S with
  | [] => mkScope [] true false
  | K => mkScope (merged K) false false
  end.

Definition update_vars (m r : vmap) : vmap := fold_left (fun acc kv => upd acc (fst kv) (snd kv)) r m.

(* combine_subscopes: dict.update with the combined scope; scopes holding
   LEAVES_LOOP go to current_loop_scopes *)
Definition combine (S : list scope) (st : state) : state :=
  let r := combined S in
  mkState (mkScope (update_vars (vars (cur st)) (vars r)) (ls (cur st) || ls r) (ll (cur st)))
          (loops st ++ diverted S) (u2d st).

(* the assignments recorded by suppressing_subscope, grouped by variable *)
Definition grouped (a : list (var * node)) : vmap :=
  map (fun v => (v, nodup N.eq_dec (map snd (filter (fun p => N.eqb (fst p) v) a))))
      (nodup N.eq_dec (map fst a)).

(* new_scope of suppressing_subscope: dummy[k] ++ rest[k] over all keys *)
Definition merge_rest (dv rest : vmap) : vmap :=
  map (fun v => (v, lookupE dv v ++ lookupE rest v)) (nodup N.eq_dec (keys dv ++ keys rest)).

(* the part of suppressing_subscope after the block: st0 = state at entry,
   s1 = state when the inner subscope ends.  Result: (inner scope, new state) *)
Definition suppress_leave (rest : vmap) (st0 s1 : state) : scope * state :=
  let inner := cur s1 in
  let st1 := restore st0 s1 in
  let dummy := strip_ls (cur st1) in
  let newsc := mkScope (merge_rest (vars dummy) rest) false (ll dummy) in
  (inner, combine [dummy; newsc; inner] st1).

Fixpoint visit_s (s : stmt) (st : state) {struct s} : state :=
  match s with
  | SAssign v d => set_var v d st
  | SUse v u => get_var v u st
  | SCall | SPass => st
  | SReturn | SRaise => set_ls st
  | SBreak | SContinue => set_ll st
  | SIf b e =>
      let s1 := visit_b b (enter st) in
      let st1 := restore st s1 in
      let s2 := visit_b e (enter st1) in
      let st2 := restore st1 s2 in
      combine [cur s1; cur s2] st2
  | SLoop forever b e =>
      (* with subscope() as body_scope: with loop_scope(): body *)
      let o := enter st in
      let m1 := visit_b b (mkState (strip_ls (cur o)) [] (u2d o)) in
      let L := cur m1 :: loops m1 in
      let o2 := combine (map strip_ll L) (mkState (cur o) (loops st) (u2d m1)) in
      let body_scope := cur o2 in
      let st1 := restore st o2 in
      (* _handle_loop_else *)
      let st2 := if forever then combine [body_scope] st1 else st1 in
      let bs := if forever then strip_ls (cur st2) else body_scope in
      let e0 := enter st2 in
      let e1 := if negb (is_nil e) && negb forever then combine [cur e0; body_scope] e0 else e0 in
      let e2 := visit_b e e1 in
      let st3 := restore st2 e2 in
      let st4 := combine [bs; cur e2] st3 in
      (* second collecting visit of the body *)
      let r1 := visit_b b (enter st4) in
      let st5 := restore st4 r1 in
      if forever && forallb (fun sc => negb (ll sc)) L then set_ls st5 else st5
  | SWith sup b =>
      if sup then snd (suppress_leave (grouped (assigned_b b)) st (visit_b b (enter st)))
      else visit_b b st
  | STry b hs e f =>
      let try_except := fun (st : state) =>
        let o := enter st in
        let dummy := strip_ls (cur o) in
        let f0 := enter o in
        let sf := suppress_leave (grouped (assigned_b b)) f0 (visit_b b (enter f0)) in
        let success := fst sf in
        let failure := cur (snd sf) in
        let o1 := restore o (snd sf) in
        let e2 := visit_b e (combine [success] (enter o1)) in
        let o2 := restore o1 e2 in
        let hr := visit_hs hs dummy failure o2 in
        combine (cur e2 :: fst hr) (restore st (snd hr)) in
      if is_nil f then try_except st
      else
        let f0 := enter st in
        let sf := suppress_leave (grouped (assigned_b b ++ assigned_hs hs ++ assigned_b e)) f0 (try_except (enter f0)) in
        let success := fst sf in
        let failure := cur (snd sf) in
        let st1 := restore st (snd sf) in
        let g2 := visit_b f (combine [failure] (enter st1)) in
        let st2 := restore st1 g2 in
        visit_b f (combine [success] st2)
  end
with visit_b (b : block) (st : state) {struct b} : state :=
  match b with
  | BNil => st
  | BCons s r => visit_b r (visit_s s st)
  end
with visit_hs (hs : handlers) (dummy failure : scope) (o : state) {struct hs} : list scope * state :=
  match hs with
  | HNil => ([], o)
  | HCons h r =>
      let h2 := visit_b h (combine [dummy; failure] (enter o)) in
      let rr := visit_hs r dummy failure (restore o h2) in
      (cur h2 :: fst rr, snd rr)
  end.

Definition init : state := mkState (mkScope [] false false) [] [].

Definition analyse (p : block) : list (N * node) := u2d (visit_b p init).

Definition reported (p : block) (u : N) : list node :=
  nodup N.eq_dec (map snd (filter (fun x => N.eqb (fst x) u) (analyse p))).

(* resolve_name: every recorded node is the marker -> undefined_name (inside a
   function whose enclosing scopes do not define the name); the marker together
   with a real definition -> possibly_undefined_name *)
Definition only_un (l : list node) : bool := forallb (N.eqb UN) l.
Definition undefined_name (p : block) (u : N) : bool := only_un (reported p u).
Definition possibly_undefined (p : block) (u : N) : bool :=
  existsb (N.eqb UN) (reported p u) && negb (only_un (reported p u)).
