(* Scopes/Guards.v — decidable guards of the C09 theorems (no proofs here).
   lower_ok carves out the two lower-bound defect classes left unrepaired
   (known findings C09-dead-code-after-break, C09-jump-through-finally);
   upper_ok the precision classes (known finding C09-imprecise-reaching). *)
From Coq Require Import NArith List Bool.
Import ListNotations.
Require Import PV.Scopes.Syntax.

(* can the visit of s leave LEAVES_LOOP in the *current* dict?  (break/continue
   themselves, and a non-suppressing `with` whose body does: its body is visited
   in the same dict) *)
Fixpoint sets_ll (s : stmt) : bool :=
  match s with
  | SBreak | SContinue => true
  | SWith false b => sets_ll_b b
  | STry _ _ _ f => sets_ll_b f     (* the finally block is visited, the second time, in the current dict *)
  | _ => false
  end
with sets_ll_b (b : block) : bool :=
  match b with
  | BNil => false
  | BCons s r => sets_ll s || sets_ll_b r
  end.

(* a break/continue not enclosed by a loop inside this fragment *)
Fixpoint free_jump (s : stmt) : bool :=
  match s with
  | SBreak | SContinue => true
  | SIf b e => free_jump_b b || free_jump_b e
  | SLoop _ b e => free_jump_b e
  | SWith _ b => free_jump_b b
  | STry b hs e f => free_jump_b b || free_jump_hs hs || free_jump_b e || free_jump_b f
  | _ => false
  end
with free_jump_b (b : block) : bool :=
  match b with
  | BNil => false
  | BCons s r => free_jump s || free_jump_b r
  end
with free_jump_hs (hs : handlers) : bool :=
  match hs with
  | HNil => false
  | HCons h r => free_jump_b h || free_jump_hs r
  end.

(* lower_ok: nothing follows, in the same block, a statement that can set LEAVES_LOOP in the
   current dict (break, continue, a non-suppressing with or a finally block ending in one).
   The former second clause (no break/continue leaving a try statement that has a finally
   clause) is gone since visit_Try hands the scope after the finally block to the loop. *)
Fixpoint lower_ok_s (s : stmt) : bool :=
  match s with
  | SIf b e => lower_ok_b b && lower_ok_b e
  | SLoop _ b e => lower_ok_b b && lower_ok_b e
  | SWith _ b => lower_ok_b b
  | STry b hs e f =>
      lower_ok_b b && lower_ok_hs hs && lower_ok_b e && lower_ok_b f
  | _ => true
  end
with lower_ok_b (b : block) : bool :=
  match b with
  | BNil => true
  | BCons s r => lower_ok_s s && lower_ok_b r && (negb (sets_ll s) || is_nil r)
  end
with lower_ok_hs (hs : handlers) : bool :=
  match hs with
  | HNil => true
  | HCons h r => lower_ok_b h && lower_ok_hs r
  end.

Definition lower_ok (p : block) : bool := lower_ok_b p.

(* statements after which the rest of the block is dead *)
Definition leaves (s : stmt) : bool :=
  match s with SReturn | SRaise | SBreak | SContinue => true | _ => false end.

Fixpoint has_jump (s : stmt) : bool :=
  match s with
  | SBreak | SContinue => true
  | SIf b e => has_jump_b b || has_jump_b e
  | SLoop _ b e => has_jump_b b || has_jump_b e
  | SWith _ b => has_jump_b b
  | STry b hs e f => has_jump_b b || has_jump_hs hs || has_jump_b e || has_jump_b f
  | _ => false
  end
with has_jump_b (b : block) : bool :=
  match b with BNil => false | BCons s r => has_jump s || has_jump_b r end
with has_jump_hs (hs : handlers) : bool :=
  match hs with HNil => false | HCons h r => has_jump_b h || has_jump_hs r end.

(* may the statement complete normally?  (liberal reading: a non-empty protected body may
   raise, so handlers and the code after a suppressing `with` are reachable) *)
Fixpoint can_complete (s : stmt) : bool :=
  match s with
  | SReturn | SRaise | SBreak | SContinue => false
  | SIf b e => can_complete_b b || can_complete_b e
  | SLoop k b e => negb (is_forever k)
  | SWith sup b => can_complete_b b || sup
  | STry b hs e f => ((can_complete_b b && can_complete_b e) || can_complete_hs hs) && can_complete_b f
  | _ => true
  end
with can_complete_b (b : block) : bool :=
  match b with BNil => true | BCons s r => can_complete s && can_complete_b r end
with can_complete_hs (hs : handlers) : bool :=
  match hs with HNil => false | HCons h r => can_complete_b h || can_complete_hs r end.

(* upper_ok: no break/continue, no loop else clause, no `while True`, no try-finally, a try body is never
   empty (it is not in Python), and no dead code: nothing follows a statement that cannot complete normally, and a try body that
   cannot complete normally has no else clause *)
Fixpoint upper_ok_s (s : stmt) : bool :=
  match s with
  | SBreak | SContinue => false
  | SIf b e => upper_ok_b b && upper_ok_b e
  | SLoop k b e => is_cond k && is_nil e && upper_ok_b b
  | SWith _ b => upper_ok_b b
  | STry b hs e f => upper_ok_b b && upper_ok_hs hs && upper_ok_b e && is_nil f
                     && (can_complete_b b || is_nil e) && negb (is_nil b)
  | _ => true
  end
with upper_ok_b (b : block) : bool :=
  match b with
  | BNil => true
  | BCons s r => upper_ok_s s && upper_ok_b r && (can_complete s || is_nil r)
  end
with upper_ok_hs (hs : handlers) : bool :=
  match hs with
  | HNil => true
  | HCons h r => upper_ok_b h && upper_ok_hs r
  end.

Definition upper_ok (p : block) : bool := upper_ok_b p.

(* the fragment for which the upper bound is proved so far (stage 1): upper_ok programs built
   from assignments, uses, calls, pass, return, raise and if/else *)
Fixpoint flat_s (s : stmt) : bool :=
  match s with
  | SIf b e => flat_b b && flat_b e
  | SLoop _ _ _ | SWith _ _ | STry _ _ _ _ => false
  | _ => true
  end
with flat_b (b : block) : bool :=
  match b with BNil => true | BCons s r => flat_s s && flat_b r end.

Definition upper1_ok (p : block) : bool := upper_ok p && flat_b p.
