(* Scopes/Paths.v — the specification side of C09: strict path semantics of
   the statement skeletons, as event traces (independent of the analysis).
   Conditions are opaque (either branch, any number of iterations), exceptions
   arise only at calls (SCall) and at `raise`; `while True` (SLoop LForever) is
   left only through break / return / raise.
   A path is described by its outcome and by the list of assignments it
   performs, in order.  No proofs in this file. *)
From Coq Require Import NArith List Bool.
Import ListNotations.
Require Import PV.Scopes.Syntax.

Definition trace := list (var * node).

Inductive outcome := ONorm | OBrk | OCont | ORet | OExc.

(* the node binding v after the assignments of t, starting from d0 *)
Fixpoint applyv (t : trace) (v : var) (d0 : node) : node :=
  match t with
  | [] => d0
  | (w, d) :: r => applyv r v (if N.eqb w v then d else d0)
  end.

(* at least one completed round *)
Definition iters1_of (it : (trace -> Prop) -> trace -> Prop) (R : trace -> Prop) (t : trace) : Prop :=
  exists t1 t2, it R t1 /\ R t2 /\ t = t1 ++ t2.

(* zero or more completed rounds, each described by R *)
Inductive iters (R : trace -> Prop) : trace -> Prop :=
| iters_nil : iters R []
| iters_snoc : forall t1 t2, iters R t1 -> R t2 -> iters R (t1 ++ t2).

(* may the else clause run after the rounds th?  a loop that may run zero times: always; a loop
   that runs at least once: after at least one round; `while True`: never *)
Definition else_ok (k : lkind) (R : trace -> Prop) (th : trace) : Prop :=
  match k with
  | LCond => True
  | LAlways => iters1_of iters R th
  | LForever => False
  end.

(* path s o t : some execution of s terminates with outcome o after performing
   exactly the assignments t *)
Fixpoint path_s (s : stmt) (o : outcome) (t : trace) {struct s} : Prop :=
  match s with
  | SAssign v d => o = ONorm /\ t = [(v, d)]
  | SUse _ _ | SPass => o = ONorm /\ t = []
  | SCall => (o = ONorm \/ o = OExc) /\ t = []
  | SReturn => o = ORet /\ t = []
  | SRaise => o = OExc /\ t = []
  | SBreak => o = OBrk /\ t = []
  | SContinue => o = OCont /\ t = []
  | SIf b e => path_b b o t \/ path_b e o t
  | SWith sup b => path_b b o t \/ (sup = true /\ o = ONorm /\ path_b b OExc t)
  | SLoop k b e =>
      exists th t2, iters (fun x => path_b b ONorm x \/ path_b b OCont x) th /\ t = th ++ t2 /\
        ((else_ok k (fun x => path_b b ONorm x \/ path_b b OCont x) th /\ path_b e o t2) \/
         (o = ONorm /\ path_b b OBrk t2) \/
         ((o = ORet \/ o = OExc) /\ path_b b o t2))
  | STry b hs e f =>
      exists o1 t1 o2 t2,
        ((exists ta tb, path_b b ONorm ta /\ path_b e o1 tb /\ t1 = ta ++ tb) \/
         ((o1 = OBrk \/ o1 = OCont \/ o1 = ORet) /\ path_b b o1 t1) \/
         (exists tx, path_b b OExc tx /\
            ((exists th, path_hs hs o1 th /\ t1 = tx ++ th) \/ (o1 = OExc /\ t1 = tx)))) /\
        path_b f o2 t2 /\ t = t1 ++ t2 /\
        o = match o2 with ONorm => o1 | _ => o2 end
  end
with path_b (b : block) (o : outcome) (t : trace) {struct b} : Prop :=
  match b with
  | BNil => o = ONorm /\ t = []
  | BCons s r =>
      (exists t1 t2, path_s s ONorm t1 /\ path_b r o t2 /\ t = t1 ++ t2) \/
      (o <> ONorm /\ path_s s o t)
  end
with path_hs (hs : handlers) (o : outcome) (t : trace) {struct hs} : Prop :=
  match hs with
  | HNil => False
  | HCons h r => path_b h o t \/ path_hs r o t
  end.

(* the try/except/else part of a try statement, as seen by its finally clause *)
Definition path_te (b : block) (hs : handlers) (e : block) (o1 : outcome) (t1 : trace) : Prop :=
  (exists ta tb, path_b b ONorm ta /\ path_b e o1 tb /\ t1 = ta ++ tb) \/
  ((o1 = OBrk \/ o1 = OCont \/ o1 = ORet) /\ path_b b o1 t1) \/
  (exists tx, path_b b OExc tx /\
     ((exists th, path_hs hs o1 th /\ t1 = tx ++ th) \/ (o1 = OExc /\ t1 = tx))).

(* upath s t v u : some execution of s reaches the use u, which reads variable
   v, after performing exactly the assignments t *)
Fixpoint upath_s (s : stmt) (t : trace) (v : var) (u : N) {struct s} : Prop :=
  match s with
  | SUse v' u' => u' = u /\ v' = v /\ t = []
  | SIf b e => upath_b b t v u \/ upath_b e t v u
  | SWith _ b => upath_b b t v u
  | SLoop k b e =>
      exists th t2, iters (fun x => path_b b ONorm x \/ path_b b OCont x) th /\ t = th ++ t2 /\
        (upath_b b t2 v u \/ (else_ok k (fun x => path_b b ONorm x \/ path_b b OCont x) th /\ upath_b e t2 v u))
  | STry b hs e f =>
      upath_b b t v u \/
      (exists ta tb, path_b b ONorm ta /\ upath_b e tb v u /\ t = ta ++ tb) \/
      (exists tx th, path_b b OExc tx /\ upath_hs hs th v u /\ t = tx ++ th) \/
      (exists o1 t1 t2, path_te b hs e o1 t1 /\ upath_b f t2 v u /\ t = t1 ++ t2)
  | _ => False
  end
with upath_b (b : block) (t : trace) (v : var) (u : N) {struct b} : Prop :=
  match b with
  | BNil => False
  | BCons s r =>
      upath_s s t v u \/
      (exists t1 t2, path_s s ONorm t1 /\ upath_b r t2 v u /\ t = t1 ++ t2)
  end
with upath_hs (hs : handlers) (t : trace) (v : var) (u : N) {struct hs} : Prop :=
  match hs with
  | HNil => False
  | HCons h r => upath_b h t v u \/ upath_hs r t v u
  end.

(* strict reaching definitions of a function body: d (UN = unbound) is the
   binding of the use's variable on some path from the function entry *)
Definition strict_reach (p : block) (u : N) (d : node) : Prop :=
  exists t v, upath_b p t v u /\ d = applyv t v UN.

(* ------------------------------------------------------------------------------------------
   Liberal path semantics (the upper bound of C09).  `prot` says that the statement list is
   protected: it is the body of a try or with statement (or a handler / else clause of a try
   that has a finally clause); every statement of a protected list may raise, before it starts
   and right after it completes.  A with statement itself may raise on entry (and a suppressing
   one may then complete normally).  Every loop, `while True` included, may additionally be left
   at its head after any number of rounds without running its else clause. *)

Fixpoint lpath_s (prot : bool) (s : stmt) (o : outcome) (t : trace) {struct s} : Prop :=
  match s with
  | SAssign v d => o = ONorm /\ t = [(v, d)]
  | SUse _ _ | SPass => o = ONorm /\ t = []
  | SCall => (o = ONorm \/ o = OExc) /\ t = []
  | SReturn => o = ORet /\ t = []
  | SRaise => o = OExc /\ t = []
  | SBreak => o = OBrk /\ t = []
  | SContinue => o = OCont /\ t = []
  | SIf b e => lpath_b prot b o t \/ lpath_b prot e o t
  | SWith sup b =>
      (o = OExc /\ t = []) \/ (sup = true /\ o = ONorm /\ t = []) \/
      lpath_b true b o t \/ (sup = true /\ o = ONorm /\ lpath_b true b OExc t)
  | SLoop k b e =>
      exists th t2, iters (fun x => lpath_b prot b ONorm x \/ lpath_b prot b OCont x) th /\ t = th ++ t2 /\
        (lpath_b prot e o t2 \/
         (o = ONorm /\ t2 = []) \/
         (o = ONorm /\ lpath_b prot b OBrk t2) \/
         ((o = ORet \/ o = OExc) /\ lpath_b prot b o t2))
  | STry b hs e f =>
      exists o1 t1 o2 t2,
        ((exists ta tb, lpath_b true b ONorm ta /\ lpath_b (prot || negb (is_nil f)) e o1 tb /\ t1 = ta ++ tb) \/
         ((o1 = OBrk \/ o1 = OCont \/ o1 = ORet) /\ lpath_b true b o1 t1) \/
         (exists tx, lpath_b true b OExc tx /\
            ((exists th, lpath_hs (prot || negb (is_nil f)) hs o1 th /\ t1 = tx ++ th) \/ (o1 = OExc /\ t1 = tx)))) /\
        lpath_b prot f o2 t2 /\ t = t1 ++ t2 /\
        o = match o2 with ONorm => o1 | _ => o2 end
  end
with lpath_b (prot : bool) (b : block) (o : outcome) (t : trace) {struct b} : Prop :=
  match b with
  | BNil => o = ONorm /\ t = []
  | BCons s r =>
      (prot = true /\ o = OExc /\ t = []) \/
      (exists t1 t2, lpath_s prot s ONorm t1 /\ lpath_b prot r o t2 /\ t = t1 ++ t2) \/
      (prot = true /\ o = OExc /\ lpath_s prot s ONorm t) \/
      (o <> ONorm /\ lpath_s prot s o t)
  end
with lpath_hs (prot : bool) (hs : handlers) (o : outcome) (t : trace) {struct hs} : Prop :=
  match hs with
  | HNil => False
  | HCons h r => lpath_b prot h o t \/ lpath_hs prot r o t
  end.

Definition lpath_te (prot : bool) (b : block) (hs : handlers) (e : block) (pe : bool) (o1 : outcome) (t1 : trace) : Prop :=
  (exists ta tb, lpath_b true b ONorm ta /\ lpath_b pe e o1 tb /\ t1 = ta ++ tb) \/
  ((o1 = OBrk \/ o1 = OCont \/ o1 = ORet) /\ lpath_b true b o1 t1) \/
  (exists tx, lpath_b true b OExc tx /\
     ((exists th, lpath_hs pe hs o1 th /\ t1 = tx ++ th) \/ (o1 = OExc /\ t1 = tx))).

Fixpoint lupath_s (prot : bool) (s : stmt) (t : trace) (v : var) (u : N) {struct s} : Prop :=
  match s with
  | SUse v' u' => u' = u /\ v' = v /\ t = []
  | SIf b e => lupath_b prot b t v u \/ lupath_b prot e t v u
  | SWith _ b => lupath_b true b t v u
  | SLoop k b e =>
      exists th t2, iters (fun x => lpath_b prot b ONorm x \/ lpath_b prot b OCont x) th /\ t = th ++ t2 /\
        (lupath_b prot b t2 v u \/ lupath_b prot e t2 v u)
  | STry b hs e f =>
      lupath_b true b t v u \/
      (exists ta tb, lpath_b true b ONorm ta /\ lupath_b (prot || negb (is_nil f)) e tb v u /\ t = ta ++ tb) \/
      (exists tx th, lpath_b true b OExc tx /\ lupath_hs (prot || negb (is_nil f)) hs th v u /\ t = tx ++ th) \/
      (exists o1 t1 t2, lpath_te prot b hs e (prot || negb (is_nil f)) o1 t1 /\ lupath_b prot f t2 v u /\ t = t1 ++ t2)
  | _ => False
  end
with lupath_b (prot : bool) (b : block) (t : trace) (v : var) (u : N) {struct b} : Prop :=
  match b with
  | BNil => False
  | BCons s r =>
      lupath_s prot s t v u \/
      (exists t1 t2, lpath_s prot s ONorm t1 /\ lupath_b prot r t2 v u /\ t = t1 ++ t2)
  end
with lupath_hs (prot : bool) (hs : handlers) (t : trace) (v : var) (u : N) {struct hs} : Prop :=
  match hs with
  | HNil => False
  | HCons h r => lupath_b prot h t v u \/ lupath_hs prot r t v u
  end.

(* liberal reaching definitions of a function body *)
Definition liberal_reach (p : block) (u : N) (d : node) : Prop :=
  exists t v, lupath_b false p t v u /\ d = applyv t v UN.
