(* Scopes/Shapes.v -- the scope programs (see harness/translate/scopes.py) of the anchored
   pyanalyze functions that Scopes/Analysis.v was written for.  Written by
   `python harness/translate/scopes.py --expected`; reviewed by hand against Analysis.v. *)
From Coq Require Import String List.
Import ListNotations.
Require Import PV.Scopes.Sop.
Open Scope string_scope.

Definition exp_scope__add_single_constraint : list sop :=
  [
  PIf "constraint.varname is None" [
    PTok "return"] [];
  PFor "(parent_varname, constraint_origin) in constraint.varname.get_all_varnames()" [
    PIf "current_set - constraint_set" [
      PTok "return"] []];
  PTok "def_nodes = tuple(dict.fromkeys(self.name_to_current_definition_nodes[varname]))";
  PTok "self.name_to_current_definition_nodes[varname] = [node]"].

Definition exp_scope_combine_subscopes : list sop :=
  [
  PTok "self.name_to_current_definition_nodes.update(self.get_combined_scope(scopes, ignore_leaves_scope=ignore_leaves_scope))"].

Definition exp_scope_get_combined_scope : list sop :=
  [
  PLet "s1" [];
  PFor "scope in scopes" [
    PIf "LEAVES_LOOP in scope" [
      PTok "self.current_loop_scopes.append(scope)"] [
      PIf "LEAVES_SCOPE not in scope or ignore_leaves_scope" [
        PAppend "s1" "scope"] []]];
  PIf "not s1" [
    PTok "return {LEAVES_SCOPE: []}"] [];
  PTok "s2 := ordered keys of chain.from_iterable(s1)";
  PTok "raw: def nodes_in(scope: SubScope, varname: Varname) -> Sequence[Node]: nodes = scope.get(varname) if nodes is None or (not nodes and isinstance(varname, CompositeVariable)): return [_UNINITIALIZED] return nodes";
  PTok "return {varname: uniq_chain((nodes_in(scope, varname) for scope in s1)) for varname in s2}"].

Definition exp_scope_get_local : list sop :=
  [
  PIf "node is None" [
    PIf "varname in self.name_to_all_definition_nodes" [] [
      PTok "return"]] [
    PIf "state is VisitorState.check_names" [
      PIf "key not in self.usage_to_definition_nodes" [
        PTok "return"] [];
      PTok "definers = self.usage_to_definition_nodes[key]";
      PIf "definers and all((definer is _UNINITIALIZED for definer in definers))" [
        PTok "return"] []] [
      PIf "varname in self.name_to_current_definition_nodes" [
        PTok "definers = self.name_to_current_definition_nodes[varname]";
        PTok "self.usage_to_definition_nodes[key] += definers"] [
        PIf "not from_parent_scope" [
          PTok "self.usage_to_definition_nodes[key].append(_UNINITIALIZED)"] [];
        PTok "return"]]];
  PTok "return"].

Definition exp_scope_loop_scope : list sop :=
  [
  PLet "s1" [];
  PSub "s2" [
    PAppend "s1" "s2";
    PTok "during the block current_loop_scopes := s1";
    PYield "s1"];
  PCombine ["*[copy of scope without LEAVES_LOOP for scope in s1]"]].

Definition exp_scope_set : list sop :=
  [
  PIf "isinstance(value, ReferencingValue)" [
    PTok "return"] [];
  PTok "self.name_to_current_definition_nodes[varname] = [node]";
  PFor "composite in self.name_to_composites[varname]" [
    PTok "self.name_to_current_definition_nodes[composite] = []"];
  PFor "recorder in self.assignment_recorders" [
    PTok "recorder.setdefault(varname, []).append(node)"];
  PTok "return"].

Definition exp_scope_subscope : list sop :=
  [
  PTok "s1 := copy of self.name_to_current_definition_nodes without LEAVES_SCOPE";
  PTok "during the block name_to_current_definition_nodes := s1";
  PYield "s1"].

Definition exp_scope_suppressing_subscope : list sop :=
  [
  PLet "s1" [];
  PTok "self.assignment_recorders.append(s1)";
  PSub "s2" [
    PYield "s2"];
  PTok "finally:";
  PTok "self.assignment_recorders.pop()";
  PTok "s3 := copy of s1 without LEAVES_LOOP+LEAVES_SCOPE (nodes deduplicated, order kept)";
  PSub "s4" [];
  PTok "s5 := ordered keys of chain(s3, s4)";
  PTok "s6 := per key of s5: s4.get(key, []) ++ s3.get(key, [])";
  PCombine ["s4"; "s6"; "s2"]].

Definition exp_visit_Break : list sop :=
  [
  PMark "LEAVES_LOOP"].

Definition exp_visit_Continue : list sop :=
  [
  PMark "LEAVES_LOOP"].

Definition exp_visit_For : list sop :=
  [
  PSub "s1" [
    PLoopScope "_" [
      PVisit "target";
      PVisit "body"]];
  PCall "_handle_loop_else(node.orelse, s1, always_entered)";
  PIf "self.state == VisitorState.collect_names" [
    PSub "_" [
      PVisit "target";
      PVisit "body"]] []].

Definition exp_visit_If : list sop :=
  [
  PSub "s1" [
    PVisit "body"];
  PSub "s2" [
    PVisit "orelse"];
  PCombine ["s1"; "s2"]].

Definition exp_visit_Raise : list sop :=
  [
  PMark "LEAVES_SCOPE"].

Definition exp_visit_Return : list sop :=
  [
  PMark "LEAVES_SCOPE"].

Definition exp_visit_Try : list sop :=
  [
  PIf "node.finalbody" [
    PSub "s1" [
      PSupp "s2" [
        PCall "visit_try_except(node)"]];
    PSub "s3" [
      PCombine ["s1"];
      PVisit "finalbody"];
    PIf "_leaves_enclosing_loop(node) or LEAVES_LOOP in s3" [
      PTok "scope = self.scopes.current_scope()";
      PIf "isinstance(scope, FunctionScope) and LEAVES_SCOPE not in s3" [
        PTok "scope.current_loop_scopes.append(s3)"] []] [];
    PCombine ["s2"];
    PVisit "finalbody"] [
    PCall "visit_try_except(node)"]].

Definition exp_visit_While : list sop :=
  [
  PSub "s1" [
    PLoopScope "s2" [
      PVisit "body"]];
  PCall "_handle_loop_else(node.orelse, s1, always_entered)";
  PIf "self.state == VisitorState.collect_names" [
    PSub "_" [
      PVisit "body"]] [];
  (* `s2 is not None`: fix 192ecfc — outside a function loop_scope() yields None; inside a
     FunctionScope (the modelled case) the conjunct is always true *)
  PIf "always_entered and s2 is not None and all((LEAVES_LOOP not in scope for scope in s2))" [
    PMark "LEAVES_SCOPE"] []].

Definition exp_visit_With : list sop :=
  [
  PIf "len(node.items) == 1" [
    PSub "_" [];
    PIf "isinstance(context, AnnotatedValue) and context.has_metadata_of_type(AssertErrorExtension)" [
      PTok "return"] []] [];
  PCall "visit_single_cm(node.items, node.body)"].

Definition exp_visit_handle_loop_else : list sop :=
  [
  PIf "always_entered" [
    PCombine ["body_scope"];
    PSub "s1" []] [];
  PSub "s2" [
    PIf "orelse and (not always_entered)" [
      PSub "s3" [];
      PCombine ["s3"; "s1"]] [];
    PVisit "orelse"];
  PCombine ["s1"; "s2"]].

Definition exp_visit_single_cm : list sop :=
  [
  PIf "len(items) == 0" [
    PVisit "body";
    PTok "return"] [];
  PIf "can_suppress" [
    PSupp "_" [
      PCall "visit_single_cm(items[1:], body)"]] [
    PCall "visit_single_cm(items[1:], body)"]].

Definition exp_visit_try_except : list sop :=
  [
  PSub "_" [
    PSub "s1" [];
    PSub "s2" [
      PSupp "s3" [
        PVisit "body"]];
    PSub "s4" [
      PCombine ["s3"];
      PVisit "orelse"];
    PLet "s5" [];
    PFor "handler in node.handlers" [
      PSub "s6" [
        PAppend "s5" "s6";
        PIf "is_try_star" [
          PLet "s7" ["s1"; "s2"; "*s5"]] [
          PLet "s7" ["s1"; "s2"]];
        PCombine ["*s7"];
        PVisit "handler"]]];
  PCombine ["s4"; "*s5"]].

