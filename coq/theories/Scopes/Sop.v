(* Scopes/Sop.v -- the vocabulary of scope programs extracted from the pyanalyze source by
   harness/translate/scopes.py (no proofs). *)
From Coq Require Import String List.
Import ListNotations.

Inductive sop : Type :=
| PSub (name : string) (body : list sop)        (* with subscope() as name *)
| PLoopScope (name : string) (body : list sop)  (* with loop_scope() as name *)
| PSupp (name : string) (body : list sop)       (* with suppressing_subscope() as name *)
| PCombine (args : list string)                 (* combine_subscopes([...]); "*xs" = starred list *)
| PVisit (what : string)                        (* visit a statement list / target / handler *)
| PMark (which : string)                        (* _set_name_in_scope(LEAVES_SCOPE | LEAVES_LOOP) *)
| PIf (cond : string) (a b : list sop)
| PFor (what : string) (body : list sop)
| PCall (fn : string)
| PLet (name : string) (vals : list string)
| PAppend (name : string) (val : string)
| PYield (name : string)
| PTok (tok : string).                          (* a recognised primitive dict manipulation, or raw text *)
