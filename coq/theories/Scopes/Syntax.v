(* Scopes/Syntax.v — statement skeletons of property C09.
   Every assignment carries a distinct definition node (the int literal it
   assigns, > 0); every use carries a distinct use id.  Conditions are opaque.
   `SLoop LCond` is `while cond():` / `for _ in seq():` (may run zero times),
   `SLoop LAlways` is a `for` loop over a non-empty literal (runs at least once),
   `SLoop LForever` is `while True:` (left only through break/return/raise; its
   else clause is unreachable and must be empty in the generated programs). *)
From Coq Require Import NArith List Bool.
Import ListNotations.

Definition var := N.
Definition node := N.
Definition UN : node := 0%N.   (* the "uninitialized" marker *)

(* how often a loop runs *)
Inductive lkind := LCond | LAlways | LForever.
Definition is_forever (k : lkind) : bool := match k with LForever => true | _ => false end.
Definition is_always (k : lkind) : bool := match k with LCond => false | _ => true end.
Definition is_cond (k : lkind) : bool := match k with LCond => true | _ => false end.

Inductive stmt : Type :=
| SAssign (v : var) (d : node)
| SUse (v : var) (u : N)
| SCall | SPass | SReturn | SRaise | SBreak | SContinue
| SIf (b e : block)
| SLoop (k : lkind) (b e : block)
| SWith (sup : bool) (b : block)
| STry (b : block) (hs : handlers) (e f : block)
with block : Type :=
| BNil
| BCons (s : stmt) (r : block)
with handlers : Type :=
| HNil
| HCons (h : block) (r : handlers).

Scheme stmt_mind := Induction for stmt Sort Prop
  with block_mind := Induction for block Sort Prop
  with handlers_mind := Induction for handlers Sort Prop.
Combined Scheme syntax_mutind from stmt_mind, block_mind, handlers_mind.

(* all assignments syntactically inside, in source order *)
Fixpoint assigned_s (s : stmt) : list (var * node) :=
  match s with
  | SAssign v d => [(v, d)]
  | SIf b e => assigned_b b ++ assigned_b e
  | SLoop _ b e => assigned_b b ++ assigned_b e
  | SWith _ b => assigned_b b
  | STry b hs e f => assigned_b b ++ assigned_hs hs ++ assigned_b e ++ assigned_b f
  | _ => []
  end
with assigned_b (b : block) : list (var * node) :=
  match b with
  | BNil => []
  | BCons s r => assigned_s s ++ assigned_b r
  end
with assigned_hs (hs : handlers) : list (var * node) :=
  match hs with
  | HNil => []
  | HCons h r => assigned_b h ++ assigned_hs r
  end.

Definition is_nil (b : block) : bool := match b with BNil => true | _ => false end.
