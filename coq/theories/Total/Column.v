(* Total/Column.v — the column of a diagnostic (C12).  `ast` reports col_offset as the
   UTF-8 BYTE offset of the node in its line; show_error copies it into the Failure and
   pads the caret line with that many spaces.  The property asks for a column inside the
   line (counted in characters).  A line is the list of the byte widths (1..4) of its
   characters.  No proofs here. *)
From Coq Require Import List Bool Arith.
Import ListNotations.

Definition line := list nat.

(* byte offset of the k-th character *)
Fixpoint byte_offset (ws : line) (k : nat) : nat :=
  match k, ws with
  | O, _ => O
  | S k', w :: t => w + byte_offset t k'
  | S _, [] => O
  end.

Definition all_ascii (ws : line) : bool := forallb (Nat.eqb 1) ws.
Definition wellformed_widths (ws : line) : bool := forallb (fun w => (1 <=? w) && (w <=? 4)) ws.

(* the column reported for a node that starts at character k of the line *)
Definition reported_col (ws : line) (k : nat) : nat := byte_offset ws k.
Definition col_in_line (ws : line) (k : nat) : bool := reported_col ws k <=? length ws.

(* ------------------------------------------------------------------ *)
(* The repaired show_error converts the byte offset to a character offset:
     col = len(line_bytes[:col].decode("utf-8", "ignore"))
   `chars_before ws b` = the number of COMPLETE characters within the first b bytes (a
   character cut in the middle is dropped by errors="ignore"). *)
Fixpoint chars_before (ws : line) (b : nat) : nat :=
  match ws with
  | [] => 0
  | w :: t => if w <=? b then S (chars_before t (b - w)) else 0
  end.

(* `converted` is regenerated from node_visitor.py (Gen.Total.column_converted): does
   show_error apply that conversion? *)
Definition reported_col_gen (converted : bool) (ws : line) (k : nat) : nat :=
  if converted then chars_before ws (byte_offset ws k) else byte_offset ws k.
