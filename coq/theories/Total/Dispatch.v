(* Total/Dispatch.v — isinstance-chain dispatch with a crashing fall-through
   (`else: assert False`, `generic_visit: raise NotImplementedError`) (C12).
   The class hierarchy and the handled classes are DATA regenerated from the
   source (Gen/Total.v).  No proofs in this file. *)
From Coq Require Import String List Bool.
Import ListNotations.
Open Scope string_scope.

(* class name, proper ancestors (transitively) *)
Definition hierarchy := list (string * list string).

Fixpoint ancestors (h : hierarchy) (c : string) : list string :=
  match h with
  | [] => []
  | (c', a) :: r => if String.eqb c c' then a else ancestors r c
  end%list.

Definition subclass (h : hierarchy) (c d : string) : bool :=
  String.eqb c d || existsb (String.eqb d) (ancestors h c).

(* `if isinstance(v, H1): .. elif isinstance(v, H2): .. else: assert False`:
   Some H = the first branch taken, None = the crashing fall-through *)
Definition dispatch (h : hierarchy) (handled : list string) (c : string) : option string :=
  find (fun d => subclass h c d) handled.

Definition crashes (h : hierarchy) (handled : list string) (c : string) : bool :=
  match dispatch h handled c with
  | Some _ => false
  | None => true
  end.

Definition mem_str (x : string) (l : list string) : bool := existsb (String.eqb x) l.

(* ast.NodeVisitor dispatch: visit_<Kind> exists, else generic_visit raises *)
Definition visitor_crashes (methods : list string) (kind : string) : bool := negb (mem_str kind methods).
