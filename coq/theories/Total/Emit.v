(* Total/Emit.v — model of the location / context part of
   BaseNodeVisitor.show_error (node_visitor.py), with an explicit Crash outcome
   at every list subscript (C12).  No proofs in this file.

   lines      : the file, one entry per line (only the number of lines matters here)
   lineno/col : what the AST node carries (None when the node has no position)

   The suppression tests of show_error are modelled only as the two subscripts
   they evaluate (`lines[lineno - 1]`, and `lines[lineno - 2]` when lineno >= 2
   -- the code after fix 36cb910): the generated inputs of the correspondence
   contain no ignore comments. *)
From Coq Require Import String List Bool ZArith Lia.
Import ListNotations.
Open Scope Z_scope.

(* Python `l[i]` for an int i: a negative index counts from the end; out of
   range raises IndexError (None). *)
Definition py_index {A : Type} (l : list A) (i : Z) : option A :=
  let n := Z.of_nat (length l) in
  if 0 <=? i then (if i <? n then nth_error l (Z.to_nat i) else None)
  else if - n <=? i then nth_error l (Z.to_nat (n + i)) else None.

(* The constants of show_error, TRANSLATED from node_visitor.py into
   Gen.Total.show_error_params (the shape around them is checked by the translator):
     lines[lineno - 1]                                          this line
     lines[lineno - prev_off] if lineno >= prev_min else ""     previous line
     range(max(lineno - context, 1), min(lineno + context + after_extra, len(lines) + 1))
     lines[i - 1]                                               context lines *)
Record emit_params := { ep_context : Z; ep_after_extra : Z; ep_prev_off : Z; ep_prev_min : Z }.

(* what the theorems need of them: the reported line lies in the context window, and the
   previous-line subscript is only evaluated where it is non-negative *)
Definition params_ok (P : emit_params) : bool :=
  (0 <=? ep_context P) && (1 <=? ep_context P + ep_after_extra P) && (0 <=? ep_after_extra P)
  && (1 <=? ep_prev_off P) && (ep_prev_off P <=? ep_prev_min P).

Definition default_params : emit_params := {| ep_context := 3; ep_after_extra := 1; ep_prev_off := 2; ep_prev_min := 2 |}.

(* one printed context line: its number and whether the caret line follows it *)
Definition ctx_entry := (Z * bool)%type.

Inductive outcome :=
| Crash                                               (* IndexError escapes show_error *)
| Emitted (lineno col : option Z) (ctx : list ctx_entry).

(* for i in range(lo, hi): context += lines[i - 1]  (+ caret when i == lineno and col is known) *)
Fixpoint ctx_loop {A : Type} (lines : list A) (lineno : Z) (has_col : bool) (lo : Z) (count : nat) : option (list ctx_entry) :=
  match count with
  | O => Some []
  | S k =>
      match py_index lines (lo - 1) with
      | None => None
      | Some _ =>
          match ctx_loop lines lineno has_col (lo + 1) k with
          | None => None
          | Some rest => Some ((lo, andb (lo =? lineno) has_col) :: rest)
          end
      end
  end.

Definition emit_p {A : Type} (P : emit_params) (lines : list A) (lineno col : option Z) : outcome :=
  match lineno with
  | None => Emitted None col []
  | Some ln =>
      match py_index lines (ln - 1) with          (* this_line = lines[lineno - 1] *)
      | None => Crash
      | Some _ =>
          (* prev_line = lines[lineno - prev_off].strip() if lineno >= prev_min else ""
             (for lineno < 2 nothing is evaluated: the this_line subscript, which
             already succeeded, stands in) *)
          match (if ep_prev_min P <=? ln then py_index lines (ln - ep_prev_off P) else py_index lines (ln - 1)) with
          | None => Crash
          | Some _ =>
              let n := Z.of_nat (length lines) in
              let min_line := Z.max (ln - ep_context P) 1 in
              let max_line := Z.min (ln + ep_context P + ep_after_extra P) (n + 1) in
              match ctx_loop lines ln (match col with Some _ => true | None => false end)
                             min_line (Z.to_nat (max_line - min_line)) with
              | None => Crash
              | Some ctx => Emitted (Some ln) col ctx
              end
          end
      end
  end.

Definition emit {A : Type} := @emit_p A default_params.

(* what the property demands of an emitted diagnostic with a position *)
Definition wellformed_position {A : Type} (lines : list A) (o : outcome) : Prop :=
  match o with
  | Crash => False
  | Emitted None _ _ => True
  | Emitted (Some ln) _ ctx =>
      1 <= ln <= Z.of_nat (length lines) /\
      Forall (fun e => 1 <= fst e <= Z.of_nat (length lines)) ctx /\
      In ln (map fst ctx)
  end.
