(* Total/Ops.v — small operations of pyanalyze that raise on a degenerate
   input, with the degenerate case explicit (C12).  No proofs in this file. *)
From Coq Require Import List Bool Arith.
Import ListNotations.

(* ---- abstract constraints: only the number of children matters -------- *)
Inductive shape :=
| SNull                (* NULL_CONSTRAINT *)
| SAtom                (* a Constraint *)
| SAnd (n : nat)       (* AndConstraint with n children *)
| SOr (n : nat).       (* OrConstraint with n children *)

(* OrConstraint.apply starts with `left, *rest = grouped`: ValueError when
   there is no child.  AndConstraint.apply iterates and cannot raise. *)
Definition apply_crashes (s : shape) : bool :=
  match s with
  | SOr O => true
  | _ => false
  end.

(* OrConstraint.make / AndConstraint.make: children of the same kind are
   flattened, duplicates and absorbed members are dropped (`keep` = how many
   survive, anything between 0 and the flattened count), then
   0 -> NULL_CONSTRAINT, 1 -> that member, >= 2 -> cls(tuple(final)). *)
Definition make_or (survivors : list shape) : shape :=
  match survivors with
  | [] => SNull
  | [c] => c
  | _ => SOr (length survivors)
  end.
Definition make_and (survivors : list shape) : shape :=
  match survivors with
  | [] => SNull
  | [c] => c
  | _ => SAnd (length survivors)
  end.
(* invert: ~(A and B) = OrConstraint(tuple(inverted children)) built DIRECTLY
   (not through make), and conversely *)
Definition invert (s : shape) : shape :=
  match s with
  | SAnd n => SOr n
  | SOr n => SAnd n
  | other => other
  end.

Definition wf_shape (s : shape) : bool :=
  match s with
  | SAnd n => 2 <=? n
  | SOr n => 2 <=? n
  | _ => true
  end.

(* the ways the visitor builds constraints *)
Inductive built : shape -> Prop :=
| b_null : built SNull
| b_atom : built SAtom
| b_or : forall l, (forall c, In c l -> built c) -> built (make_or l)
| b_and : forall l, (forall c, In c l -> built c) -> built (make_and l)
| b_inv : forall s, built s -> built (invert s).

(* ---- BaseNodeVisitor._apply_changes_to_lines: max(linenos_to_delete) ---- *)
Definition max_list (l : list nat) : option nat :=      (* Python max(): ValueError on an empty list *)
  match l with
  | [] => None
  | x :: t => Some (fold_left Nat.max t x)
  end.

(* ---- `if len(s) == 1: next(iter(s))` never raises StopIteration ---- *)
Definition guarded_next (s : list nat) : option (option nat) :=   (* None = StopIteration escapes *)
  match s with
  | [x] => Some (Some x)
  | _ => Some None
  end.
Definition unguarded_next (s : list nat) : option (option nat) :=
  match s with
  | [] => None
  | x :: _ => Some (Some x)
  end.
