(* TypeVar/Base.v — vocabulary shared by the generated solver model
   (Gen/Solve.v, translated from pyanalyze/typevar.py on every run), the
   hand-written reference model (TypeVar/Model.v) and the proofs for C15.

   Values are abstract: the solver only ever asks four questions of a value
   (is it an AnyValue; does one value accept another; unite two values; are two
   bounds equal, for the de-duplication in resolve_bounds_map), so the model is
   parametrised by a record of these operations.  Theorems are proved inside
   Sections under stated hypotheses about the operations, and instantiated in
   TypeVar/Simple.v.

   Python -> model:
     LowerBound(T, v) / UpperBound(T, v) / OrBound(..) / IsOneOf(T, cs)  ->  bound V
     a.is_assignable(b, ctx), isinstance(a.can_assign(b, ctx), dict)    ->  acc O a b
     isinstance(v, AnyValue)                                            ->  is_any O v
     unite_values(a, b)                                                 ->  unite O a b
     AnyValue(AnySource.generic_argument) / (AnySource.inference)       ->  any_generic O / any_inference O
     BOTTOM / TOP / options = None                                      ->  None : option _
     a CanAssignError result of solve                                   ->  Err *)
From Coq Require Import List Bool Arith.
Import ListNotations.

Inductive bound (V : Type) : Type :=
| LowerBound (value : V)
| UpperBound (value : V)
| OrBound
| IsOneOf (constraints : list V).
Arguments LowerBound {V}.
Arguments UpperBound {V}.
Arguments OrBound {V}.
Arguments IsOneOf {V}.

Inductive result (V : Type) : Type :=
| Sol (v : V)
| Err.
Arguments Sol {V}.
Arguments Err {V}.

Definition is_err {V} (r : result V) : bool :=
  match r with Err => true | Sol _ => false end.

Record ops (V : Type) : Type := mk_ops {
  is_any : V -> bool;
  acc : V -> V -> bool;          (* acc a b  =  a.is_assignable(b): b may be assigned to a *)
  unite : V -> V -> V;
  any_generic : V;
  any_inference : V;
  veq : V -> V -> bool           (* == on values (dict.fromkeys de-duplication) *)
}.
Arguments is_any {V}.
Arguments acc {V}.
Arguments unite {V}.
Arguments any_generic {V}.
Arguments any_inference {V}.
Arguments veq {V}.

(* temp_solutions[i] = None *)
Fixpoint set_nth {A} (i : nat) (x : A) (l : list A) : list A :=
  match l, i with
  | [], _ => []
  | _ :: l', O => x :: l'
  | y :: l', S i' => y :: set_nth i' x l'
  end.

(* enumerate(l) *)
Fixpoint enumerate_from {A} (k : nat) (l : list A) : list (nat * A) :=
  match l with
  | [] => []
  | x :: l' => (k, x) :: enumerate_from (S k) l'
  end.
Definition enumerate {A} (l : list A) : list (nat * A) := enumerate_from 0 l.

(* [x for x in l if x is not None] *)
Fixpoint cat_somes {A} (l : list (option A)) : list A :=
  match l with
  | [] => []
  | Some x :: l' => x :: cat_somes l'
  | None :: l' => cat_somes l'
  end.

(* bound equality, from the value equality (frozen dataclass __eq__; the
   typevar field is the same for every bound of one solve call) *)
Fixpoint list_eqb {A} (eqb : A -> A -> bool) (a b : list A) : bool :=
  match a, b with
  | [], [] => true
  | x :: a', y :: b' => eqb x y && list_eqb eqb a' b'
  | _, _ => false
  end.

Definition bound_eqb {V} (O : ops V) (a b : bound V) : bool :=
  match a, b with
  | LowerBound x, LowerBound y => veq O x y
  | UpperBound x, UpperBound y => veq O x y
  | OrBound, OrBound => true
  | IsOneOf xs, IsOneOf ys => list_eqb (veq O) xs ys
  | _, _ => false
  end.

(* tuple(dict.fromkeys(l)): keep the first occurrence of every element *)
Fixpoint dedup_acc {A} (eqb : A -> A -> bool) (seen : list A) (l : list A) : list A :=
  match l with
  | [] => []
  | x :: l' => if existsb (eqb x) seen then dedup_acc eqb seen l'
               else x :: dedup_acc eqb (x :: seen) l'
  end.
Definition dedup {A} (eqb : A -> A -> bool) (l : list A) : list A := dedup_acc eqb [] l.

Definition lowers {V} (bs : list (bound V)) : list V :=
  flat_map (fun b => match b with LowerBound v => [v] | _ => [] end) bs.
Definition uppers {V} (bs : list (bound V)) : list V :=
  flat_map (fun b => match b with UpperBound v => [v] | _ => [] end) bs.
Definition oneofs {V} (bs : list (bound V)) : list (list V) :=
  flat_map (fun b => match b with IsOneOf cs => [cs] | _ => [] end) bs.
