(* TypeVar/Model.v — hand-written reference model of pyanalyze.typevar.solve,
   written the way one would explain the algorithm.  Proofs/SolveGen.v proves
   that the model regenerated from the source (Gen/Solve.v) computes exactly
   this function, so every theorem proved about `msolve` is a theorem about
   the code as it stands today.

   Also here: the model of how one call produces the bounds of one type
   variable (TypeVarValue.can_assign + get_inherent_bounds +
   unify_bounds_maps + check_call_with_bound_args), for the common case of a
   parameter annotated with the bare type variable. *)
From Coq Require Import List Bool Arith.
Import ListNotations.
Require Import PV.TypeVar.Base.

Section Model.
  Context {V : Type} (O : ops V).

  (* lower bounds: keep the widest; unite incomparable ones; an Any lower bound
     is ignored once a bottom exists *)
  Definition add_lower (bottom : option V) (v : V) : option V :=
    match bottom with
    | None => Some v
    | Some b =>
        if is_any O v then Some b
        else if acc O v b then Some v
        else if acc O b v then Some b
        else Some (unite O b v)
    end.

  (* upper bounds: keep the narrowest; incomparable ones are *united* (the
     source carries a TODO here; see C15_upper_full_statement_refuted) *)
  Definition add_upper (top : option V) (v : V) : option V :=
    match top with
    | None => Some v
    | Some t =>
        if acc O t v then Some v
        else if acc O v t then Some t
        else Some (unite O t v)
    end.

  Definition mstate : Type := (option V * option V * option (list V))%type.

  Definition mstep (st : mstate) (b : bound V) : mstate :=
    let '(bottom, top, options) := st in
    match b with
    | LowerBound v => (add_lower bottom v, top, options)
    | UpperBound v => (bottom, add_upper top v, options)
    | OrBound => st
    | IsOneOf cs => (bottom, top, Some cs)
    end.

  Definition base_solution (bottom top : option V) : result V :=
    match bottom, top with
    | None, None => Sol (any_generic O)
    | None, Some t => Sol t
    | Some b, None => Sol b
    | Some b, Some t => if acc O t b then Sol b else Err
    end.

  (* the redundancy filter, as generated, restated here so that the model does
     not depend on a generated file: an option is dropped when it accepts
     another remaining option that does not accept it back *)
  Definition m_redundant_wrt (sol other : V) : bool :=
    acc O sol other && negb (acc O other sol).

  Definition m_rrs_hit (i : nat) (sol : V) (temp : list (option V)) : bool :=
    existsb (fun '(j, other) => match other with
                              | None => false
                              | Some other => negb (Nat.eqb i j) && m_redundant_wrt sol other
                              end) (enumerate temp).

  Definition m_rrs_step (temp : list (option V)) (i : nat) : list (option V) :=
    match nth_error temp i with
    | Some (Some sol) => if m_rrs_hit i sol temp then set_nth i None temp else temp
    | _ => temp
    end.

  Definition m_rrs (limit : nat) (solutions : list V) : list V :=
    if Nat.ltb limit (length solutions) then solutions
    else cat_somes (fold_left m_rrs_step (seq 0 (length solutions)) (map Some solutions)).

  (* constraint selection *)
  Definition pick (limit : nat) (options : list V) (solution : V) : result V :=
    match filter (fun o => acc O o solution) options with
    | [] => Err
    | [o] => Sol o
    | available =>
        if is_any O solution then Sol solution
        else match m_rrs limit available with
             | [o] => Sol o
             | _ => Sol (any_inference O)
             end
    end.

  Definition mfinish (limit : nat) (st : mstate) : result V :=
    let '(bottom, top, options) := st in
    match base_solution bottom top with
    | Err => Err
    | Sol s => match options with
               | None => Sol s
               | Some os => pick limit os s
               end
    end.

  Definition mfold (bs : list (bound V)) : mstate := fold_left mstep bs (None, None, None).

  Definition msolve (limit : nat) (bs : list (bound V)) : result V := mfinish limit (mfold bs).

  Definition mresolve (limit : nat) (bs : list (bound V)) : result V :=
    msolve limit (dedup (bound_eqb O) bs).

  (* ---- bound generation for a parameter annotated with the bare type variable ----
     declaration of the type variable *)
  Inductive decl : Type :=
  | Unbounded
  | Bounded (b : V)
  | Constrained (cs : list V).     (* non-empty in Python *)

  (* TypeVarValue.get_inherent_bounds *)
  Definition inherent (d : decl) : list (bound V) :=
    match d with
    | Unbounded => []
    | Bounded b => [UpperBound b]
    | Constrained cs => match cs with [] => [] | _ => [IsOneOf cs] end
    end.

  (* TypeVarValue.can_assign(other) for a non-typevar argument value: the
     bounds contributed by one argument; an error when they alone cannot be
     solved (make_bounds_map) *)
  Definition arg_bounds (d : decl) (a : V) : list (bound V) := LowerBound a :: inherent d.

  Definition arg_ok (limit : nat) (d : decl) (a : V) : bool :=
    negb (is_err (mresolve limit (arg_bounds d a))).

  (* check_call_with_bound_args, restricted to one type variable T and
     parameters annotated `T`: every argument is checked on its own (an
     incompatible_argument otherwise), the bounds maps are concatenated
     (unify_bounds_maps) and resolved ("Cannot resolve type variables") *)
  Definition call_solution (limit : nat) (d : decl) (args : list V) : result V :=
    if forallb (arg_ok limit d) args
    then mresolve limit (flat_map (arg_bounds d) args)
    else Err.
End Model.

(* ---- bound generation beyond the bare type variable ----
   TypeVarValue.can_be_assigned(left) for a non-typevar `left` (a callback's parameter
   type checked against T): UpperBound(left) plus the inherent bounds *)
Definition callback_bounds {V : Type} (d : @decl V) (left : V) : list (bound V) :=
  UpperBound left :: inherent d.

(* value.intersect_bounds_maps, for one type variable: the bounds each accepting
   alternative of a union annotation produced for it.  One distinct list is kept as it
   is; several distinct lists collapse into a single OrBound — which `solve` ignores *)
Definition intersect_bounds {V : Type} (O : ops V) (alts : list (list (bound V))) : list (bound V) :=
  match dedup (list_eqb (bound_eqb O)) alts with
  | [] => []
  | [one] => one
  | _ => [OrBound]
  end.
