(* TypeVar/Simple.v — the simple fragment of pyanalyze values on which the
   hypotheses of the C15 theorems (Proofs/SolveLaws.v, acc_laws) are proved:
   Any, and unions `SU [a1; ..; an]` of atoms (classes, literals, ...) ordered
   by an acceptance relation `ale x y` ("atom x accepts atom y").  `SU [a]` is
   the atom itself, `SU []` is Never.  No union contains Any (the solver never
   builds one: it only unites values neither of which is Any).

   s_acc mirrors Value.can_assign / MultiValuedValue.can_assign on this
   fragment: a union on the right needs every member accepted, a union on the
   left accepts what one of its members accepts.  s_unite mirrors
   unite_values: members of the left operand, then the members of the right
   one that are not already present. *)
From Coq Require Import List Bool.
Import ListNotations.
Require Import PV.TypeVar.Base.

Section Simple.
  Context {A : Type} (ale : A -> A -> bool) (aeqb : A -> A -> bool).

  Inductive sval : Type :=
  | SAny
  | SU (members : list A).

  Definition s_is_any (v : sval) : bool := match v with SAny => true | SU _ => false end.

  Definition s_acc (a b : sval) : bool :=
    match a, b with
    | SAny, _ => true
    | _, SAny => true
    | SU xs, SU ys => forallb (fun y => existsb (fun x => ale x y) xs) ys
    end.

  Definition s_unite (a b : sval) : sval :=
    match a, b with
    | SU xs, SU ys => SU (xs ++ filter (fun y => negb (existsb (aeqb y) xs)) ys)
    | _, _ => SAny
    end.

  Definition s_veq (a b : sval) : bool :=
    match a, b with
    | SAny, SAny => true
    | SU xs, SU ys => list_eqb aeqb xs ys
    | _, _ => false
    end.

  Definition simple_ops : ops sval :=
    mk_ops sval s_is_any s_acc s_unite SAny SAny s_veq.
End Simple.
Arguments SAny {A}.
Arguments SU {A}.
