(* TypeVar/Spec.v — what C15 demands, the hypotheses about the abstract value
   operations, and the guards of the partial theorems.  Definitions only (no
   proofs), so that Properties/C15.v states every theorem in visible terms. *)
From Coq Require Import List Bool Arith.
Import ListNotations.
Require Import PV.TypeVar.Base.

(* What the theorems assume about acceptance, union and Any.  `acc a b` reads
   "a accepts b" (b is assignable to a).  Any accepts and is accepted by
   everything, so transitivity is only assumed through a middle value that is
   not Any.  Proofs/SimpleLaws.v proves all of this for Any/classes/literals/
   unions over any preorder of atoms (and Proofs/SolveAtoms.v for the atoms
   whose acceptance table is dumped from the running implementation); for
   pyanalyze's full can_assign these laws are validated by the correspondence
   stream only. *)
Record acc_laws {V : Type} (O : ops V) : Prop := {
  acc_refl : forall a, acc O a a = true;
  acc_any_l : forall a b, is_any O a = true -> acc O a b = true;
  acc_any_r : forall a b, is_any O b = true -> acc O a b = true;
  acc_trans : forall a b c, is_any O b = false ->
      acc O a b = true -> acc O b c = true -> acc O a c = true;
  unite_ub_l : forall a b, acc O (unite O a b) a = true;
  unite_ub_r : forall a b, acc O (unite O a b) b = true;
  unite_least : forall x a b, acc O x a = true -> acc O x b = true -> acc O x (unite O a b) = true;
  unite_not_any : forall a b, is_any O a = false -> is_any O b = false ->
      is_any O (unite O a b) = false;
  any_generic_is_any : is_any O (any_generic O) = true;
  any_inference_is_any : is_any O (any_inference O) = true;
  veq_spec : forall a b, veq O a b = true <-> a = b
}.

Section Spec.
  Context {V : Type} (O : ops V).

  (* `options` after the loop: the constraints of the last IsOneOf bound *)
  Definition last_oneof (bs : list (bound V)) : option (list V) :=
    fold_left (fun _ cs => Some cs) (oneofs bs) None.

  Definition comparable (a b : V) : bool := acc O a b || acc O b a.

  (* guard clause `comparable_uppers`: no Any among the upper bounds and every
     two of them comparable.  Its negation is the class of known finding
     C15-incomparable-or-any-uppers. *)
  Definition uppers_ok (us : list V) : bool :=
    forallb (fun a => negb (is_any O a)) us &&
    forallb (fun a => forallb (comparable a) us) us.

  (* what the property demands of the value chosen for a type variable *)
  Definition satisfies (v : V) (bs : list (bound V)) : Prop :=
    (forall l, In l (lowers bs) -> acc O v l = true) /\
    (forall u, In u (uppers bs) -> acc O u v = true) /\
    (forall cs, In cs (oneofs bs) -> In v cs \/ is_any O v = true).

  Definition is_nil {A} (l : list A) : bool := match l with [] => true | _ => false end.

  (* guard of the combined soundness theorem: `comparable_uppers`, and explicit
     upper bounds are not mixed with constraints (clause
     `constraints_without_uppers`: the chosen constraint is never tested
     against upper bounds), and at most one constraint list *)
  Definition sound_guard (bs : list (bound V)) : bool :=
    uppers_ok (uppers bs) &&
    (is_nil (oneofs bs) || (is_nil (uppers bs) && (length (oneofs bs) <=? 1))).

  (* guard of the order-independence theorem *)
  Definition perm_guard (bs : list (bound V)) : bool :=
    uppers_ok (uppers bs) && (length (oneofs bs) <=? 1).
End Spec.

Definition is_orbound {V : Type} (b : bound V) : bool :=
  match b with OrBound => true | _ => false end.
