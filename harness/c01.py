"""C01 — inferred values are sound with respect to execution.

proof      : Properties/C01.v over Infer/Mini.v (mini-language: semantics with traces, abstract
             interpreter with checked loop invariants; soundness for all programs/inputs/run lengths)
tie        : correspondence of Mini.infer/aexec with pyanalyze's per-node inferred values on generated
             mini-language programs (harness/c01_mini.py), and the model's own run_check on the same inputs
oracle     : the property itself on the real code: generated programs from the property's grammar are
             analysed by pyanalyze and really executed under CPython with AST instrumentation;
             member(runtime object, node.inferred_value) for every evaluated node (harness/c01_oracle.py)
"""
from __future__ import annotations

import json
import random
from pathlib import Path

import c01_gen as G
import lib

PROP = "C01"
HERE = Path(__file__).resolve().parent
CORPUS = HERE / "corpus" / "C01.json"
BUDGET = 2500


def gen_files():
    # Gen/Ops.v: the index arithmetic of _sequence_common_getitem_impl, translated from the current
    # source by the C19 translator; C01_subscript_* are stated over it (composition with C19)
    from translate import ops as tr_ops

    # Gen/NarrowTable.v: the class table of the C02 model (dumped from the running implementation by the
    # C02 translator); the C02 proofs that C01_narrowing_keeps_value_from_C02 rests on are checked over it
    from translate import narrowtable

    return {"Ops.v": tr_ops.translate(str(lib.REPO)), "NarrowTable.v": narrowtable.translate(str(lib.REPO))}


def run_impl(payload, timeout=1500):
    return lib.run_impl_script("c01_impl.py", payload, timeout=timeout)


def shard(mods, n):
    out = [[] for _ in range(n)]
    for i, m in enumerate(mods):
        out[i % n].append(m)
    return [s for s in out if s]


def run_sharded(mods, jobs=6, timeout=90):
    """run modules in parallel subprocess shards.  pyanalyze does not terminate (in any useful time)
    on a few generated programs and cannot be interrupted from inside the process, so a shard that
    exceeds its time limit is re-run module by module with a short limit; modules that still do not
    finish are reported as {"timeout": True} (counted in the coverage, a matter for C12, not C01)."""
    import concurrent.futures as cf

    def one(shard_mods, limit):
        try:
            return lib.run_impl_script("c01_impl.py", {"modules": shard_mods, "budget": BUDGET}, timeout=limit)
        except RuntimeError:
            return None

    def run_shard(shard_mods):
        o = one(shard_mods, timeout)
        if o is not None:
            return [o]
        outs = []
        for m in shard_mods:
            o = one([m], 25)
            outs.append(o if o is not None else {"results": [{"id": m["id"], "timeout": True, "fails": [], "counts": {}}]})
        return outs

    shards = shard(mods, jobs)
    with cf.ThreadPoolExecutor(max_workers=jobs) as ex:
        outs = [o for group in ex.map(run_shard, shards) for o in group]
    results = []
    unknown = {}
    custom = 0
    for o in outs:
        results += o["results"]
        custom += o.get("custom_checked", 0)
        for k, v in o.get("unknown_kinds", {}).items():
            unknown[k] = unknown.get(k, 0) + v
    return results, unknown, custom


def function_source(src, fn):
    import ast

    tree = ast.parse(src)
    for n in tree.body:
        if isinstance(n, ast.FunctionDef) and n.name == fn:
            return "\n".join(src.splitlines()[n.lineno - 1 : n.end_lineno]) + "\n"
    return None


def load_corpus():
    if CORPUS.exists():
        return json.loads(CORPUS.read_text())
    return {"cases": []}


def run(tier: str, replay: str | None = None):
    rep = lib.Report(PROP, tier, "proof")
    rng = random.Random(lib.seed() * 104729 + 1)
    known = {f["id"]: f for f in lib.load_known_findings(PROP)["findings"]}

    # 1. re-prove
    broken_translation = None
    try:
        gen = gen_files()
    except Exception as ex:  # fail-closed translator: the source no longer has the expected shape
        broken_translation = f"{type(ex).__name__}: {ex}"
        gen = None
    proof = lib.prove(PROP, gen, thorough=(tier == "thorough"))

    # 2. cases: corpus first, then generated modules
    mods = []
    corpus = load_corpus()
    replay_input = None
    if replay:
        r = json.loads(Path(replay).read_text())
        if "input" in r:
            replay_input = r["input"]
    if replay_input is not None:
        if replay_input.get("kind") == "mini":
            import c01_mini

            return c01_mini.replay(rep, proof, replay_input)
        mods.append({"id": "replay", "src": replay_input["src"], "calls": {replay_input["fn"]: replay_input["args"]}, "values_str_only": True})
    else:
        for i, c in enumerate(corpus["cases"]):
            mods.append({"id": f"corpus{i}", "src": c["src"], "calls": {c["fn"]: c["args"]}, "corpus": c})
        n_mod, per = (36, 10) if tier == "quick" else (300, 10)
        hist = {}
        for i in range(n_mod):
            src, calls, ptypes = G.gen_module(rng, per, hist)
            mods.append({"id": f"g{i}", "src": src, "calls": calls, "via_annotate_code": False})
        # composite variables (attribute / subscript chains, narrowed, then reassigned through the same path)
        crng = random.Random(lib.seed() * 7919 + 4101)
        for i in range(4 if tier == "quick" else 40):
            src, calls = G.gen_composite_module(crng, 12, hist)
            mods.append({"id": f"comp{i}", "src": src, "calls": calls})
        # match statements with capture patterns over statically shaped subjects, captured names read afterwards
        mrng = random.Random(lib.seed() * 7919 + 5303)
        for i in range(3 if tier == "quick" else 30):
            src, calls = G.gen_match_module(mrng, 12, hist)
            mods.append({"id": f"match{i}", "src": src, "calls": calls})
        # every binding form as a value source (except / except* / with-as / for targets / walrus / comprehension
        # variables / import-as / global / nonlocal), bound names and derived values read afterwards
        brng = random.Random(lib.seed() * 7919 + 6421)
        for i in range(3 if tier == "quick" else 30):
            src, calls = G.gen_binding_module(brng, 12, hist)
            mods.append({"id": f"bind{i}", "src": src, "calls": calls})
        # containers built in several steps (written twice, read once) and read back through every reading form
        wrng = random.Random(lib.seed() * 7919 + 7559)
        for i in range(4 if tier == "quick" else 30):
            src, calls = G.gen_container_module(wrng, 12, hist)
            mods.append({"id": f"cont{i}", "src": src, "calls": calls})
    by_id = {m["id"]: m for m in mods}

    # 3. run implementation + CPython + oracle (subprocess shards)
    results, unknown_kinds, custom_checked = run_sharded([{k: v for k, v in m.items() if k != "corpus"} for m in mods])

    # cross-check a sample through the public annotate_code entry point: same per-node values
    api_mismatch = []
    if replay_input is None:
        sample = [m for m in mods if str(m["id"]).startswith("g")][:4]
        a = run_impl({"modules": [{"id": m["id"], "src": m["src"], "values_str_only": True, "via_annotate_code": True} for m in sample], "budget": BUDGET})
        b = run_impl({"modules": [{"id": m["id"], "src": m["src"], "values_str_only": True} for m in sample], "budget": BUDGET})
        n_api = 0
        for ra, rb in zip(a["results"], b["results"]):
            va, vb = ra.get("values_fp", {}), rb.get("values_fp", {})
            for k in va:
                n_api += 1
                if k in vb and va[k] != vb[k]:
                    api_mismatch.append((ra["id"], k, ra["values_str"][k], rb["values_str"][k]))
    else:
        n_api = 0

    # 4. verdicts
    totals = {}
    per_kind = {}
    exec_errors = {}
    n_fn = n_diag_fn = 0
    new_fails = []
    known_hits = {}
    diagnosed_fails = 0
    crashes = []
    timeouts = []
    corpus_status = []
    for r in results:
        m = by_id[r["id"]]
        if r.get("timeout"):
            timeouts.append(r["id"])
            continue
        if r.get("crash"):
            crashes.append((r["id"], r["crash"]))
            continue
        for k, v in (r.get("counts") or {}).items():
            totals[k] = totals.get(k, 0) + v
        for k, v in (r.get("per_kind") or {}).items():
            pk = per_kind.setdefault(k, [0, 0, 0])
            for j in range(3):
                pk[j] += v[j]
        for k, v in (r.get("exec_errors") or {}).items():
            exec_errors[k] = exec_errors.get(k, 0) + v
        n_fn += len(m["calls"])
        n_diag_fn += len(r.get("diagnosed") or {})
        cinfo = m.get("corpus")
        seen_findings = set()
        for f in r["fails"]:
            if f["diagnosed"]:
                diagnosed_fails += 1
                continue
            fid = f.get("finding")
            if fid and fid in known:
                known_hits[fid] = known_hits.get(fid, 0) + 1
                seen_findings.add(fid)
                rep.known(fid, known[fid]["what"])
            else:
                new_fails.append((m, f))
        if cinfo is not None:
            exp = cinfo.get("expect_finding")
            if exp:
                corpus_status.append({"case": cinfo.get("name"), "expected_finding": exp, "reproduced": exp in seen_findings})
    for m, f in new_fails[:8]:
        fsrc = function_source(m["src"], f["fn"]) or m["src"]
        payload = {"kind": "failing-input",
                   "input": {"src": G.HEADER + fsrc, "fn": f["fn"], "args": [f["args"]]},
                   "observed": {"node": f["node"], "expr": f.get("expr"), "inferred": f["inferred"], "classified_as": f.get("finding")},
                   "expected": {"runtime_object": f["runtime"], "runtime_type": f["runtime_type"], "claim": "member(runtime object, inferred value)"},
                   "how_to_run": "./check C01 --replay <this file>", "oracle": "instrumented execution under CPython + membership oracle (harness/c01_oracle.py)"}
        rep.violation(payload)
    for cid, tb in crashes[:3]:
        rep.violation({"kind": "broken-correspondence", "correspondence": "harness/c01_impl.py run_module", "input": {"module": cid}, "detail": tb}, no_failing_input=True)
    found_input = bool(new_fails)

    # 5. mini-language correspondence (model vs implementation) + the model's own differential
    mini_cov = {}
    if replay_input is None:
        try:
            import c01_mini

            mini_cov = c01_mini.correspondence(rep, proof, tier, rng, found_input)
        except Exception as ex:  # the tie itself broke
            import traceback

            rep.violation({"kind": "broken-correspondence", "correspondence": "Mini.aexec vs annotate_code (harness/c01_mini.py)", "detail": traceback.format_exc()[-2000:]}, no_failing_input=True)

    if api_mismatch and not found_input:
        rep.violation({"kind": "broken-correspondence", "correspondence": "NameCheckVisitor(annotate=True) vs ast_annotator.annotate_code", "input": {"module": api_mismatch[0][0], "node": api_mismatch[0][1]},
                       "observed": api_mismatch[0][2], "model": api_mismatch[0][3]}, no_failing_input=True)
    if broken_translation and not found_input:
        rep.violation({"kind": "broken-obligation", "theorem": "Gen/Ops.v (translator harness/translate/ops.py, shared with C19)", "detail": broken_translation}, no_failing_input=True)
    if proof is not None and not proof.ok and not found_input:
        rep.violation({"kind": "broken-obligation", "theorem": "; ".join(proof.broken), "log": proof.log[-1500:]}, no_failing_input=True)

    checked = totals.get("checked", 0)
    sample = []
    for m in mods[len(corpus["cases"]) : len(corpus["cases"]) + 1]:
        fn = sorted(m["calls"])[0]
        sample.append({"function": function_source(m["src"], fn), "args": m["calls"][fn][:3]})
    rep.coverage.update(
        evaluations=checked + mini_cov.get("evaluations", 0),
        distinct_nontrivial=totals.get("nodes_evaluated", 0) + mini_cov.get("distinct_nontrivial", 0),
        rule="differential: one evaluation = one (evaluated node, runtime object) membership test against pyanalyze's inferred value; "
             "distinct_nontrivial = distinct AST nodes of generated functions that were actually evaluated at run time under at least one argument tuple "
             "(plus, for the correspondence, distinct mini-language nodes whose model value was compared with pyanalyze's)",
        samples=sample,
        traces_validated_against_impl=totals.get("calls", 0),
        input_distribution={
            "modules": len(mods), "functions": n_fn, "functions_with_blocking_diagnostics": n_diag_fn,
            "calls": totals.get("calls", 0), "nodes_total": totals.get("nodes_total", 0), "nodes_evaluated": totals.get("nodes_evaluated", 0),
            "membership": {"ok": totals.get("ok", 0), "fail": totals.get("fail", 0), "unknown_value_kind": totals.get("unknown", 0), "no_inferred_value": totals.get("no_inferred", 0)},
            "per_node_kind_ok_fail_unknown": per_kind,
            "first_failures": totals.get("first_fails", 0), "consequent_failures_not_classified": totals.get("consequent", 0),
            "failures_in_functions_with_blocking_diagnostics_skipped": diagnosed_fails,
            "known_finding_hits": known_hits, "new_failures": len(new_fails),
            "runtime_exceptions": exec_errors, "unknown_value_kinds": unknown_kinds, "custom_checks_evaluated": custom_checked,
            "generator_histogram": hist if replay_input is None else {},
            "corpus": corpus_status, "modules_whose_analysis_timed_out_25s": timeouts,
        },
        annotate_code_crosscheck={"nodes": n_api, "mismatches": len(api_mismatch)},
        mini_correspondence=mini_cov,
        exhaustive=False,
    )
    rep.assumptions = ["CPython 3.12 as the execution oracle", "membership oracle harness/c01_oracle.py (three-valued; unknown value kinds skipped and counted)",
                       "functions in which pyanalyze reports a non-benign diagnostic are executed but their failures are not counted (list BENIGN_CODES in c01_impl.py)",
                       "only the first failing node of a call is classified"]
    return rep.finish(
        proof,
        "coq_makefile + make theories/Properties/C01.vo; coqc theories/Properties/C01.v (Print Assumptions)" + ("; coqchk -o" if tier == "thorough" else ""),
        ["Coq 8.16.1 kernel (coqc; vm_compute in Examples and model evaluation)", "mini-language translator + canonicaliser harness/c01_mini.py",
         "generator harness/c01_gen.py, instrumentation + membership oracle harness/c01_oracle.py, known-finding guards harness/c01_classify.py", "CPython 3.12 as oracle"],
    )
