"""C01 — canonical JSON form of a pyanalyze Value restricted to the mini-language's value universe
(Any, KnownValue of None/bool/int/str/tuples of those, TypedValue of object/int/bool/str/tuple/NoneType,
SequenceValue(tuple) without unpacked members, unions, Annotated stripped).  Anything else is
["?", text]: out of fragment, skipped and counted by the correspondence."""
from __future__ import annotations

import json

STR_CODES = {"": 0, "a": 1, "b": 2, "ab": 3}
CLS = {object: "object", int: "int", bool: "bool", str: "str", tuple: "tuple", type(None): "NoneType"}


def canon_obj(o):
    if o is None:
        return "None"
    if type(o) is bool:
        return ["b", int(o)]
    if type(o) is int:
        return ["i", o]
    if type(o) is str and o in STR_CODES:
        return ["s", STR_CODES[o]]
    if type(o) is tuple:
        xs = [canon_obj(x) for x in o]
        if any(x is None for x in xs):
            return None
        return ["t", xs]
    return None


def normalize(c):
    """flatten/dedupe/sort unions; all-known sequences become known tuples"""
    if isinstance(c, list) and c and c[0] == "seq":
        ms = [normalize(m) for m in c[1]]
        if all(isinstance(m, list) and m[0] == "k" for m in ms):
            return ["k", ["t", [m[1] for m in ms]]]
        return ["seq", ms]
    if isinstance(c, list) and c and c[0] == "u":
        flat = []

        def add(x):
            x = normalize(x)
            if isinstance(x, list) and x and x[0] == "u":
                for y in x[1]:
                    add(y)
            elif x == ["never"]:
                pass
            else:
                if x not in flat:
                    flat.append(x)

        for m in c[1]:
            add(m)
        if not flat:
            return ["never"]
        if len(flat) == 1:
            return flat[0]
        return ["u", sorted(flat, key=lambda z: json.dumps(z, sort_keys=True))]
    return c


def canon(v):
    import pyanalyze.value as V

    while isinstance(v, V.AnnotatedValue):
        v = v.value
    if isinstance(v, V.AnyValue):
        return "any"
    if isinstance(v, V.MultiValuedValue):
        return normalize(["u", [canon(x) for x in v.vals]])
    if isinstance(v, V.KnownValue):
        o = canon_obj(v.val)
        return ["k", o] if o is not None else ["?", str(v)[:60]]
    if isinstance(v, V.SequenceValue):
        if v.typ is tuple and not any(m for m, _ in v.members):
            return normalize(["seq", [canon(x) for _, x in v.members]])
        return ["?", str(v)[:60]]
    if type(v) is V.TypedValue and v.typ in CLS:
        return ["ty", CLS[v.typ]]
    return ["?", str(v)[:60]]


def has_unknown(c):
    if isinstance(c, list):
        if c and c[0] == "?":
            return True
        return any(has_unknown(x) for x in c)
    return False
