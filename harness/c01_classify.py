"""C01 — attribution of a failing (node, runtime object) to a known finding by a decidable guard.

Only the *first* failing node of a call is classified (later failures of the same call are its
consequences in nearly all cases and are counted as `consequent`).  Every guard is evaluated on the
function's AST, pyanalyze's per-node inferred values and the live runtime object:

  influence(N) = the names occurring in N, closed under "x is assigned from an expression mentioning y"
                 (Assign/AugAssign/AnnAssign/For/With/NamedExpr/match captures/comprehensions), with the
                 assigned expressions themselves.

A failure that satisfies no guard is a new violation.
"""
from __future__ import annotations

import ast


def _names(node):
    return {n.id for n in ast.walk(node) if isinstance(n, ast.Name)}


def _target_names(t):
    return {n.id for n in ast.walk(t) if isinstance(n, ast.Name)}


def _pattern_captures(p):
    out = set()
    for n in ast.walk(p):
        if isinstance(n, ast.MatchAs) and n.name:
            out.add(n.name)
        elif isinstance(n, ast.MatchStar) and n.name:
            out.add(n.name)
        elif isinstance(n, ast.MatchMapping) and n.rest:
            out.add(n.rest)
    return out


def assignments(fn):
    """[(set of target names, value expression, statement)]"""
    out = []
    for st in ast.walk(fn):
        if isinstance(st, ast.Assign):
            names = set()
            for t in st.targets:
                names |= _target_names(t)
            out.append((names, st.value, st))
        elif isinstance(st, ast.AugAssign):
            out.append((_target_names(st.target), ast.BinOp(st.target, st.op, st.value), st))
        elif isinstance(st, ast.AnnAssign) and st.value is not None:
            out.append((_target_names(st.target), st.value, st))
        elif isinstance(st, (ast.For, ast.comprehension)):
            out.append((_target_names(st.target), st.iter, st))
        elif isinstance(st, ast.With):
            for it in st.items:
                if it.optional_vars is not None:
                    out.append((_target_names(it.optional_vars), it.context_expr, st))
        elif isinstance(st, ast.NamedExpr):
            out.append((_target_names(st.target), st.value, st))
        elif isinstance(st, ast.Match):
            for case in st.cases:
                caps = _pattern_captures(case.pattern)
                if caps:
                    out.append((caps, st.subject, st))
    return out


def influence(fn, node):
    assigns = assignments(fn)
    vars_ = set(_names(node))
    exprs = [node]
    seen = set()
    changed = True
    while changed:
        changed = False
        for i, (names, value, st) in enumerate(assigns):
            if i in seen or not (names & vars_):
                continue
            seen.add(i)
            exprs.append(value)
            new = _names(value) - vars_
            vars_ |= _names(value)
            changed = True
    return vars_, exprs


def _neg_const(sl):
    if isinstance(sl, ast.UnaryOp) and isinstance(sl.op, ast.USub) and isinstance(sl.operand, ast.Constant) and isinstance(sl.operand.value, int):
        return True
    return isinstance(sl, ast.Constant) and isinstance(sl.value, int) and not isinstance(sl.value, bool) and sl.value < 0


def _consts(node):
    out = []
    for n in ast.walk(node):
        if isinstance(n, ast.Constant):
            out.append(n.value)
        elif isinstance(n, ast.UnaryOp) and isinstance(n.op, ast.USub) and isinstance(n.operand, ast.Constant) and isinstance(n.operand.value, (int, float)):
            out.append(-n.operand.value)
    return out


MUT = {"append", "extend", "insert", "add", "update", "setdefault", "pop", "remove", "clear", "discard", "popitem", "sort", "reverse"}


def access_path(e):
    """('d', ('[0]', '.a', ...)) for a chain of attributes / constant subscripts on a name, else None"""
    steps = []
    while True:
        if isinstance(e, ast.Attribute):
            steps.append("." + e.attr)
            e = e.value
        elif isinstance(e, ast.Subscript):
            try:
                steps.append("[" + repr(ast.literal_eval(e.slice)) + "]")
            except Exception:
                return None
            e = e.value
        elif isinstance(e, ast.Name):
            return e.id, tuple(reversed(steps))
        else:
            return None


class Classifier:
    def __init__(self, tree, inferred_of_node):
        """inferred_of_node: ast node -> pyanalyze Value or None"""
        import pyanalyze.value as V

        self.V = V
        self.tree = tree
        self.iv = inferred_of_node
        self.fns = {n.name: n for n in tree.body if isinstance(n, ast.FunctionDef)}
        self.parents = {}
        for p in ast.walk(tree):
            for c in ast.iter_child_nodes(p):
                self.parents[c] = p

    def unannot(self, v):
        V = self.V
        while isinstance(v, V.AnnotatedValue):
            v = v.value
        return v

    def is_tupleish(self, v):
        V = self.V
        v = self.unannot(v)
        if v is None:
            return False
        if isinstance(v, V.MultiValuedValue):
            return bool(v.vals) and all(self.is_tupleish(x) for x in v.vals)
        if isinstance(v, V.KnownValue):
            return isinstance(v.val, tuple)
        return isinstance(v, V.TypedValue) and v.typ is tuple

    def has_many_member(self, v):
        V = self.V
        v = self.unannot(v)
        if isinstance(v, V.MultiValuedValue):
            return any(self.has_many_member(x) for x in v.vals)
        return isinstance(v, V.SequenceValue) and any(m for m, _ in v.members)

    def only_literals(self, v):
        V = self.V
        v = self.unannot(v)
        if isinstance(v, V.MultiValuedValue):
            return all(self.only_literals(x) for x in v.vals)
        return isinstance(v, V.KnownValue)

    def only_exact(self, v):
        """literals and exact-length containers only"""
        V = self.V
        v = self.unannot(v)
        if isinstance(v, V.MultiValuedValue):
            return all(self.only_exact(x) for x in v.vals)
        if isinstance(v, V.SequenceValue):
            return not any(m for m, _ in v.members)
        return isinstance(v, (V.KnownValue, V.DictIncompleteValue))

    def classify(self, fname, node, obj):
        fn = self.fns.get(fname)
        if fn is None:
            return None
        V_, X = influence(fn, node)
        sub = [n for x in X for n in ast.walk(x)]
        inferred = self.iv(node)
        # --- `<pattern with refutable sub-patterns> as name`: the sub-patterns' constraints (about elements / attributes /
        #     values of the subject) are applied to the subject itself when the `as` name is bound
        for m in ast.walk(fn):
            if isinstance(m, ast.MatchAs) and m.name in V_ and isinstance(m.pattern, (ast.MatchSequence, ast.MatchMapping, ast.MatchClass)):
                subs = list(getattr(m.pattern, "patterns", [])) + list(getattr(m.pattern, "kwd_patterns", []))
                def refutable(p):
                    if isinstance(p, ast.MatchStar):
                        return False
                    if isinstance(p, ast.MatchAs):
                        return p.pattern is not None and refutable(p.pattern)
                    return True
                if any(refutable(p) for p in subs):
                    return "C01-subpattern-constraint-on-subject"
        # --- in-place mutation of a container through an operation the checker does not model (measured on the
        #     unchanged tree: list index store / del / swap / insert / pop / remove / clear / reverse / sort, dict
        #     clear / popitem, set discard / remove / update, and every store, del or mutating call whose receiver is
        #     itself a subscript or attribute of the variable) leaves the inferred value of the container stale
        UNTRACKED = {"list": {"insert", "pop", "remove", "clear", "reverse", "sort"}, "dict": {"clear", "popitem"},
                     "set": {"discard", "remove", "update", "clear", "pop", "difference_update", "intersection_update", "symmetric_difference_update"}}
        ALLMUT = MUT | {"difference_update", "intersection_update", "symmetric_difference_update"}

        def root_name(e):
            while isinstance(e, (ast.Subscript, ast.Attribute)):
                e = e.value
            return e.id if isinstance(e, ast.Name) else None

        def container_kind(e):
            v = self.unannot(self.iv(e)) if self.iv(e) is not None else None
            vals = list(v.vals) if isinstance(v, self.V.MultiValuedValue) else [v]
            kinds = set()
            for m in vals:
                m = self.unannot(m) if m is not None else None
                if isinstance(m, self.V.KnownValue):
                    kinds.add(type(m.val).__name__)
                elif isinstance(m, self.V.TypedValue) and isinstance(m.typ, type):
                    kinds.add(m.typ.__name__)
            return kinds

        for n in ast.walk(fn):
            if getattr(n, "lineno", 10 ** 9) > node.lineno:
                continue
            if isinstance(n, ast.Subscript) and isinstance(n.ctx, (ast.Store, ast.Del)) and root_name(n) in V_:
                if not isinstance(n.value, ast.Name):
                    return "C01-untracked-container-mutation"      # nested store / del
                if "list" in container_kind(n.value):
                    return "C01-untracked-container-mutation"      # list index store / del / swap
            if isinstance(n, ast.Call) and isinstance(n.func, ast.Attribute) and n.func.attr in ALLMUT and root_name(n.func.value) in V_:
                recv = n.func.value
                if not isinstance(recv, ast.Name):
                    return "C01-untracked-container-mutation"      # mutation through a subscripted / attribute receiver
                for kind, meths in UNTRACKED.items():
                    if kind in container_kind(recv) and n.func.attr in meths:
                        return "C01-untracked-container-mutation"
        # --- f(**d): for a key written several times the FIRST write is bound
        for x in sub:
            if isinstance(x, ast.Call) and any(kw.arg is None and isinstance(kw.value, ast.Name) and "dict" in container_kind(kw.value) for kw in x.keywords):
                return "C01-kwargs-splat-first-write-wins"
        # --- **rest of a mapping pattern keeps the older writes of the matched keys
        for m in ast.walk(fn):
            if isinstance(m, ast.MatchMapping) and m.rest and m.rest in V_:
                return "C01-mapping-rest-keeps-overwritten-keys"
        # --- iterating the keys of a dict built in several steps repeats overwritten keys (list(d), for k in d, [k for k in d])
        def dict_name(e):
            return isinstance(e, ast.Name) and "dict" in container_kind(e)
        for x in sub + [n for n in ast.walk(fn) if isinstance(n, (ast.For, ast.comprehension))]:
            if isinstance(x, ast.Call) and isinstance(x.func, ast.Name) and x.func.id in ("list", "tuple", "sorted", "set", "frozenset", "iter", "enumerate") and x.args and dict_name(x.args[0]) and (x is node or any(x is y for y in sub)):
                return "C01-dict-key-iteration-repeats-keys"
            if isinstance(x, (ast.For, ast.comprehension)) and dict_name(x.iter) and (_target_names(x.target) & V_):
                return "C01-dict-key-iteration-repeats-keys"
        # --- the composite d[k] set by a store is not invalidated by a later d.update(...) / setdefault / pop
        ap3 = access_path(node)
        if ap3 is not None and ap3[1] and ap3[1][-1].startswith("["):
            stores = [n for n in ast.walk(fn) if isinstance(n, ast.Subscript) and isinstance(n.ctx, ast.Store) and access_path(n) == ap3 and n.lineno < node.lineno]
            if stores:
                first = min(n.lineno for n in stores)
                for n in ast.walk(fn):
                    if isinstance(n, ast.Call) and isinstance(n.func, ast.Attribute) and n.func.attr in ("update", "setdefault", "pop", "popitem", "clear") \
                            and isinstance(n.func.value, ast.Name) and n.func.value.id == ap3[0] and first < n.lineno <= node.lineno:
                        return "C01-subscript-composite-stale-after-update"
        # --- d[k] = v in only one branch (if without else, loop body, try body): d[k] afterwards is only v
        ap2 = access_path(node)
        if ap2 is not None and ap2[1] and ap2[1][-1].startswith("["):
            for comp in ast.walk(fn):
                if isinstance(comp, (ast.If, ast.For, ast.While, ast.Try, ast.With, ast.Match)) and node.lineno > comp.end_lineno:
                    for st in ast.walk(comp):
                        targets = st.targets if isinstance(st, ast.Assign) else [st.target] if isinstance(st, (ast.AugAssign, ast.AnnAssign)) else []
                        for t in targets:
                            for tt in (t.elts if isinstance(t, (ast.Tuple, ast.List)) else [t]):
                                if access_path(tt) == ap2:
                                    return "C01-subscript-store-in-one-branch"
        # --- tuple + tuple drops the receiver's element type
        for s in sub:
            if isinstance(s, ast.BinOp) and isinstance(s.op, ast.Add):
                l, r, res = self.iv(s.left), self.iv(s.right), self.unannot(self.iv(s))
                members = list(res.vals) if isinstance(res, self.V.MultiValuedValue) else [res]
                members = [self.unannot(m) for m in members]
                # the mechanism: overload 1 of tuple.__add__ answers tuple[T_arg, ...] (a GenericValue, not a
                # SequenceValue) for at least one member of the (possibly union-valued) receiver
                if self.is_tupleish(l) and self.is_tupleish(r) and any(isinstance(m, self.V.GenericValue) and not isinstance(m, self.V.SequenceValue) and m.typ is tuple for m in members):
                    return "C01-tuple-add-drops-receiver"
        # --- #7: type_always_true for a class whose subclass defines __bool__/__len__
        from pyanalyze.boolability import Boolability, get_boolability

        def always_true(e):
            v = self.iv(e)
            if v is None:
                return False
            from pyanalyze.value import flatten_values

            try:
                return any(get_boolability(x) is Boolability.type_always_true for x in flatten_values(v, unwrap_annotated=True))
            except Exception:
                return False

        tests = []
        for c in ast.walk(fn):
            if isinstance(c, (ast.If, ast.While, ast.IfExp)):
                tests.append(c.test)
            elif isinstance(c, ast.Assert):
                tests.append(c.test)
            elif isinstance(c, ast.UnaryOp) and isinstance(c.op, ast.Not):
                tests.append(c.operand)
            elif isinstance(c, ast.BoolOp):
                tests += c.values
            elif isinstance(c, ast.Call) and isinstance(c.func, ast.Name) and c.func.id == "bool":
                tests += c.args
        flat = []
        for t in tests:
            while isinstance(t, ast.UnaryOp) and isinstance(t.op, ast.Not):
                t = t.operand
            if isinstance(t, ast.BoolOp):
                flat += t.values
            flat.append(t)
        for t in flat:
            if (_names(t) & V_ or any(t is x for x in sub)) and always_true(t):
                return "C01-type-always-true-subclass-bool"
        # --- == / != / in / not in narrowing ignores cross-type numeric equality
        if type(obj) in (bool, int, float):
            for c in ast.walk(fn):
                consts = None
                if isinstance(c, ast.Compare) and any(isinstance(op, (ast.Eq, ast.NotEq, ast.In, ast.NotIn)) for op in c.ops) and (_names(c) & V_):
                    consts = _consts(c)
                elif isinstance(c, ast.Match) and (_names(c.subject) & V_):
                    consts = []
                    for case in c.cases:
                        for p in ast.walk(case.pattern):
                            if isinstance(p, ast.MatchValue):
                                consts += _consts(p.value)
                if consts:
                    for k in consts:
                        if type(k) in (bool, int, float) and type(k) is not type(obj) and k == obj:
                            return "C01-eq-narrowing-cross-type"
        # --- #6: negative isinstance(x, float) drops int
        if type(obj) in (bool, int):
            for c in ast.walk(fn):
                if isinstance(c, ast.Call) and isinstance(c.func, ast.Name) and c.func.id == "isinstance" and len(c.args) == 2 and (_names(c.args[0]) & V_):
                    if {"float", "complex"} & _names(c.args[1]):
                        return "C01-isinstance-float-negative"
            for c in ast.walk(fn):
                if isinstance(c, ast.Match) and (_names(c.subject) & V_):
                    for case in c.cases:
                        for p in ast.walk(case.pattern):
                            if isinstance(p, ast.MatchClass) and isinstance(p.cls, ast.Name) and p.cls.id in ("float", "complex"):
                                return "C01-isinstance-float-negative"
        # --- loop-carried exact values: a definition / mutation inside a loop that depends on the previous iteration
        if type(obj) in (bool, int, float, str, tuple, list, dict, set) and inferred is not None and self.only_exact(inferred):
            for loop in ast.walk(fn):
                if isinstance(loop, (ast.For, ast.While)):
                    for names, value, st in assignments(loop):
                        if st is loop:
                            continue
                        tv = names & V_
                        if tv:
                            dep, _ = influence(fn, value)
                            if tv & dep:
                                return "C01-loop-carried-exact-value"
                    for n in ast.walk(loop):
                        if isinstance(n, ast.Call) and isinstance(n.func, ast.Attribute) and n.func.attr in MUT and isinstance(n.func.value, ast.Name) and n.func.value.id in V_:
                            return "C01-loop-carried-exact-value"
                        if isinstance(n, ast.Subscript) and isinstance(n.ctx, (ast.Store, ast.Del)) and isinstance(n.value, ast.Name) and n.value.id in V_:
                            return "C01-loop-carried-exact-value"
        # --- TypeVar solved to literal values for a function that computes a new value (sum)
        for s_ in sub:
            if isinstance(s_, ast.Call) and isinstance(s_.func, ast.Name) and s_.func.id == "sum" and self.only_literals(self.iv(s_)):
                return "C01-sum-literal-typevar"
        return None
