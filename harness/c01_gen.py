"""C01 — generator of programs from the property's grammar.

Annotated functions over a fixed prelude (c01_prelude.py); literals, tuples/lists/dicts, if/elif/else,
for/while/break/continue/else, try/except/else/finally, with suppress, match, bool ops, comparisons,
isinstance/is/==/in/len/truthiness tests, subscripts, IfExp, calls to annotated and generic functions.

The generator is loosely typed so that most programs run without raising: every local has a kind fixed
by its name prefix (i,s,b,f = int,str,bool,float; t = tuple[int,str]; n = tuple[int,...];
v = tuple[int,*str,float]; l = list[int]; d = dict[str,int]; a = A; u = anything; m = locally mutated
list), parameters are never reassigned, and the set of sample arguments of each parameter that can still
reach the current point is tracked by *evaluating* the generated single-parameter conditions on the
samples (so `p + 1` is only emitted where every sample that can arrive is a number).  None of this is
trusted for the verdict: the verdict only compares CPython's values with pyanalyze's inferred values.
"""
from __future__ import annotations

import c01_prelude as P

NS = {k: getattr(P, k) for k in P.__all__}

# parameter types: key -> (annotation, [sample argument sources])
PARAM_TYPES = {
    "int": ("int", ["0", "1", "-1", "2", "300", "True"]),
    "bool": ("bool", ["True", "False"]),
    "str": ("str", ['""', '"a"', '"ab"']),
    "float": ("float", ["0.0", "1.5", "1", "0", "-2.5"]),
    "optint": ("Optional[int]", ["None", "0", "3"]),
    "optstr": ("Optional[str]", ["None", '""', '"a"']),
    "intstr": ("Union[int, str]", ["0", "2", '""', '"a"']),
    "intstrnone": ("Union[int, str, None]", ["0", "1", '""', '"ab"', "None"]),
    "floatstr": ("Union[float, str]", ["1.5", "1", "0.0", '"a"']),
    "floatnone": ("Optional[float]", ["None", "1", "2.5", "0"]),
    "boolnone": ("Optional[bool]", ["None", "True", "False"]),
    "tup2": ("tuple[int, str]", ['(1, "a")', '(0, "")']),
    "tupn": ("tuple[int, ...]", ["()", "(1,)", "(1, 2, 3)", "(0, 0)"]),
    "tupv": ("tuple[int, Unpack[tuple[str, ...]], float]", ["(1, 1.5)", '(1, "a", 2.5)', '(0, "a", "b", 0.0)']),
    "tupv2": ("tuple[int, Unpack[tuple[str, ...]], float, str, None]", ['(1, 1.5, "z", None)', '(1, "a", 2.5, "", None)', '(0, "a", "b", 0.0, "z", None)']),
    "listint": ("list[int]", ["[]", "[1]", "[1, 2, 3]"]),
    "dictsi": ("dict[str, int]", ["{}", '{"a": 1}', '{"a": 0, "b": 2}']),
    "A": ("A", ["A()", "B()", "Falsy()"]),
    "optA": ("Optional[A]", ["None", "A()", "B()", "Falsy()"]),
    "AC": ("Union[A, C]", ["A()", "B()", "C()", "Falsy()"]),
    "E": ("E", ["E.a", "E.b"]),
    "optE": ("Optional[E]", ["None", "E.a", "E.b"]),
    "obj": ("object", ["1", '"a"', "None", "(1, 2)", "1.5", "True", "[1]", "A()"]),
    "lit": ("Literal[1, 2, 'x']", ["1", "2", "'x'"]),
    "seqint": ("Sequence[int]", ["(1, 2)", "[1]", "()", "[]"]),
    "tupopt": ("Union[tuple[int, str], tuple[int], None]", ['(1, "a")', "(2,)", "None"]),
    "tuporint": ("Union[tuple[int, int], int]", ["(1, 2)", "(0, 0)", "3", "0"]),
    "liststr": ("Union[list[int], str]", ["[]", "[1, 2]", '""', '"ab"']),
}

LOCAL_KINDS = ["int", "str", "bool", "float", "tup2", "tupn", "listint", "dictsi", "A", "u"]
PREFIX = {"int": "i", "str": "s", "bool": "b", "float": "f", "tup2": "t", "tupn": "n", "tupv": "v", "listint": "l",
          "dictsi": "d", "A": "a", "u": "u", "mlist": "m", "none": "z"}
KIND_OF_PREFIX = {v: k for k, v in PREFIX.items()}


def fits(kind, o):
    if kind == "u":
        return True
    if kind == "int":
        return type(o) in (int, bool)
    if kind == "bool":
        return type(o) is bool
    if kind == "str":
        return type(o) is str
    if kind == "float":
        return type(o) in (float, int, bool)
    if kind == "none":
        return o is None
    if kind == "tup2":
        return type(o) is tuple and len(o) == 2 and type(o[0]) is int and type(o[1]) is str
    if kind == "tupn":
        return type(o) is tuple and all(type(x) is int for x in o)
    if kind == "tupv":
        return type(o) is tuple and len(o) >= 2 and type(o[0]) is int and type(o[-1]) is float and all(type(x) is str for x in o[1:-1])
    if kind == "listint":
        return type(o) is list and all(type(x) is int for x in o)
    if kind == "dictsi":
        return type(o) is dict
    if kind == "A":
        return isinstance(o, P.A)
    if kind == "sized":
        return isinstance(o, (str, tuple, list, dict))
    if kind == "num":
        return type(o) in (int, float, bool)
    return False


class Cond:
    def __init__(self, src, pos=None, neg=None):
        self.src = src
        self.pos = pos or {}  # param -> predicate known to hold when the condition is true
        self.neg = neg or {}  # param -> predicate known to hold when the condition is false


def _safe(pred, o, default=False):
    try:
        return bool(pred(o))
    except Exception:
        return default


class Ctx:
    def __init__(self, rng, params):
        self.rng = rng
        self.params = params  # name -> ptype key
        self.samples = {p: [eval(s, dict(NS)) for s in PARAM_TYPES[k][1]] for p, k in params.items()}
        self.defined = set()
        self.loop = 0
        self.counter = [0]
        self.hist = None
        self.iterating = set()  # local lists currently iterated by an enclosing for loop: never mutated there

    def copy(self):
        c = Ctx.__new__(Ctx)
        c.rng, c.params, c.counter, c.hist = self.rng, self.params, self.counter, self.hist
        c.samples = {k: list(v) for k, v in self.samples.items()}
        c.defined = set(self.defined)
        c.loop = self.loop
        c.iterating = set(self.iterating)
        return c

    def refine(self, facts):
        c = self.copy()
        for p, pred in facts.items():
            if p in c.samples:
                c.samples[p] = [o for o in c.samples[p] if _safe(pred, o)]
        return c

    def fresh(self):
        self.counter[0] += 1
        return self.counter[0]

    def names(self, kind):
        """defined locals of the kind + parameters all of whose arriving samples fit the kind"""
        out = [n for n in self.defined if KIND_OF_PREFIX.get(n[0]) == kind and n[0] != "p"]
        if kind != "mlist":
            for p, ss in self.samples.items():
                if ss and all(fits(kind, o) for o in ss) and (kind != "u" or True):
                    out.append(p)
        return sorted(out)

    def hit(self, what):
        if self.hist is not None:
            self.hist[what] = self.hist.get(what, 0) + 1


# ---------------------------------------------------------------------------
# expressions

INT_LITS = ["0", "1", "2", "-1", "3", "255"]
STR_LITS = ['""', '"a"', '"ab"', '"x"']
FLOAT_LITS = ["0.0", "1.5", "-2.5"]


def pick(rng, weighted):
    tot = sum(w for w, _ in weighted)
    r = rng.random() * tot
    for w, x in weighted:
        r -= w
        if r <= 0:
            return x
    return weighted[-1][1]


def expr(c: Ctx, kind: str, d: int) -> str:
    rng = c.rng
    names = c.names(kind)
    if d <= 0 or rng.random() < 0.25:
        if names and rng.random() < 0.7:
            return rng.choice(names)
        return literal(c, kind, d)
    E = lambda k: expr(c, k, d - 1)  # noqa: E731
    if rng.random() < 0.12:
        cd = cond(c, d - 1)
        ct, cf = c.refine(cd.pos), c.refine(cd.neg)
        c.hit("IfExp")
        return f"({expr(ct, kind, d - 1)} if {cd.src} else {expr(cf, kind, d - 1)})"
    if kind == "int":
        opts = [
            (3, lambda: f"({E('int')} {rng.choice(['+', '-', '*'])} {E('int')})"),
            (1, lambda: f"({E('int')} {rng.choice(['//', '%'])} {rng.choice(['2', '3', E('int')])})"),
            (1, lambda: f"(-{E('int')})"),
            (1, lambda: f"{rng.choice(['abs', 'lib_int', 'lib_ident'])}({E('int')})"),
            (1, lambda: f"{rng.choice(['max', 'min'])}({E('int')}, {E('int')})"),
            (2, lambda: f"len({E(rng.choice(['str', 'tupn', 'tup2', 'listint', 'dictsi']))})"),
            (2, lambda: f"{E('tup2')}[{rng.choice(['0', '-2'])}]"),
            (2, lambda: f"{E('tupn')}[{rng.choice(['0', '-1', '1', '2'])}]"),
            (1, lambda: f"{E('listint')}[{rng.choice(['0', '-1'])}]"),
            (1, lambda: f"{E('dictsi')}[{rng.choice(STR_LITS)}]"),
            (1, lambda: f"lib_first({E(rng.choice(['tupn', 'listint']))})"),
            (1, lambda: f"lib_pair({E('int')}, {E('u')})[0]"),
            (1, lambda: f"lib_dflt({E('int')})[0]"),
            (1, lambda: f"({E('int')}, {E('u')})[0]"),
            (1, lambda: f"int(({E('bool')}))"),
            (1, lambda: f"(({E('bool')}) + ({E('bool')}))"),
            (1, lambda: f"sum({E('tupn')})"),
            (1, lambda: f"({E('int')} ** 2)"),
            (2, lambda: narrow_idiom(c, "int", d)),
            (1, lambda: f"{tupv_name(c)}[0]" if tupv_name(c) else E("int")),
        ]
    elif kind == "str":
        opts = [
            (3, lambda: f"({E('str')} + {E('str')})"),
            (1, lambda: f"({E('str')} * 2)"),
            (2, lambda: f"{rng.choice(['str', 'lib_str'])}({E('u')})"),
            (2, lambda: f"{E('tup2')}[{rng.choice(['1', '-1'])}]"),
            (1, lambda: f"{E('str')}.upper()"),
            (1, lambda: f"{E('str')}[0:1]"),
            (1, lambda: f"{E('str')}[0]"),
            (1, lambda: f'("%s" % {E("int")})'),
            (1, lambda: f'f"{{({E("int")})}}"'),
            (1, lambda: f'"-".join(({E("str")}, {E("str")}))'),
            (1, lambda: f"lib_ident({E('str')})"),
            (1, lambda: f"lib_dflt(k={E('str')})[1]"),
            (2, lambda: narrow_idiom(c, "str", d)),
        ]
    elif kind == "bool":
        return cond(c, d).src if rng.random() < 0.8 else f"bool({E('u')})"
    elif kind == "float":
        opts = [
            (2, lambda: f"({E('float')} + {E('int')})"),
            (2, lambda: f"({E('int')} / {rng.choice(['2', '4'])})"),
            (1, lambda: f"({E('float')} * {E('float')})"),
            (1, lambda: f"float({E('int')})"),
            (1, lambda: f"abs({E('float')})"),
            (1, lambda: f"round({E('float')}, 1)"),
            (1, lambda: f"max({E('float')}, {E('float')})"),
            (3, lambda: f"{tupv_name(c)}[-1]" if tupv_name(c) else E("float")),
            (1, lambda: narrow_idiom(c, "float", d)),
        ]
    elif kind == "tup2":
        opts = [
            (3, lambda: f"({E('int')}, {E('str')})"),
            (1, lambda: f"lib_pair({E('int')}, {E('str')})"),
            (1, lambda: f"lib_dflt({E('int')})"),
        ]
    elif kind == "tupn":
        opts = [
            (2, lambda: f"({E('int')},)"),
            (2, lambda: f"({E('int')}, {E('int')}, {E('int')})"),
            (1, lambda: f"({E('tupn')} + {E('tupn')})"),
            (1, lambda: f"{E('tupn')}[1:]"),
            (1, lambda: f"tuple({E('listint')})"),
            (1, lambda: f"({E('int')}, *{E('tupn')})"),
            (1, lambda: f"({E('tupn')} * 2)"),
            (1, lambda: "()"),
        ]
    elif kind == "listint":
        opts = [
            (2, lambda: f"[{E('int')}]"),
            (2, lambda: f"[{E('int')}, {E('int')}]"),
            (1, lambda: f"({E('listint')} + {E('listint')})"),
            (1, lambda: f"list({E('tupn')})"),
            (1, lambda: f"sorted({E('listint')})"),
            (1, lambda: f"{E('listint')}[1:]"),
            (1, lambda: f"lib_list({E('int')})"),
            (1, lambda: f"[*{E('tupn')}]"),
            (1, lambda: f"[w{c.fresh()} + 1 for w{c.counter[0]} in {E('tupn')}]"),
        ]
    elif kind == "dictsi":
        opts = [
            (2, lambda: f'{{"a": {E("int")}}}'),
            (2, lambda: f'{{"a": {E("int")}, "b": {E("int")}}}'),
            (1, lambda: f"{{{E('str')}: {E('int')}}}"),
            (1, lambda: f'{{**{E("dictsi")}, "c": {E("int")}}}'),
            (1, lambda: f"dict({E('dictsi')})"),
        ]
    elif kind == "A":
        return rng.choice(names) if names and rng.random() < 0.6 else rng.choice(["A()", "B()", "Falsy()"])
    elif kind == "u":
        tv = tupv_name(c)
        opts = [
            (6, lambda: E(rng.choice(["int", "str", "bool", "float", "none", "tup2", "tupn", "A"]))),
            (2, lambda: f"lib_ident({E('u')})"),
            (1, lambda: f"lib_opt({E('u')})"),
            (2, lambda: f"lib_either({E('u')}, {E('u')})"),
            (3, lambda: f"({E('u')} {rng.choice(['or', 'and'])} {E('u')})"),
            (2, lambda: f"{E('dictsi')}.get({rng.choice(STR_LITS)})"),
            (1, lambda: f"{E('dictsi')}.get({rng.choice(STR_LITS)}, {E('u')})"),
            (3, lambda: f"{tv}[{rng.choice(['1', '-2', '-1', '0', '2', '-3'])}]" if tv else E("u")),
            (1, lambda: f"({E('int')}, {E('str')}, None)[{rng.choice(['0', '1', '2', '-1', E('int')])}]"),
            (1, lambda: f'{{"a": {E("int")}, "b": {E("str")}}}[{rng.choice(STR_LITS[1:])}]'),
            (1, lambda: f"[{E('int')}, {E('str')}][{rng.choice(['0', '1', '-1'])}]"),
            (1, lambda: f"({E('u')}, {E('u')})"),
            (1, lambda: f"({E('u')}, {E('u')})[{rng.choice(['0', '1', '-1'])}]"),
            (1, lambda: f"{mlist_name(c)}[{rng.choice(['0', '-1'])}]" if mlist_name(c) else E("u")),
        ]
    elif kind == "none":
        return rng.choice(["None", "None", "lib_none()"])
    else:
        return literal(c, kind, d)
    f = pick(rng, opts)
    return f()


def tupv_name(c):
    xs = [p for p, k in c.params.items() if k in ("tupv", "tupv2")]
    xs += [n for n in c.defined if n[0] == "v"]
    return c.rng.choice(sorted(xs)) if xs else None


def mlist_name(c):
    xs = sorted(n for n in c.defined if n[0] == "m")
    return c.rng.choice(xs) if xs else None


def literal(c, kind, d=0):
    rng = c.rng
    if kind == "int":
        return rng.choice(INT_LITS)
    if kind == "str":
        return rng.choice(STR_LITS)
    if kind == "bool":
        return rng.choice(["True", "False"])
    if kind == "float":
        return rng.choice(FLOAT_LITS)
    if kind == "none":
        return "None"
    if kind == "tup2":
        return f"({rng.choice(INT_LITS)}, {rng.choice(STR_LITS)})"
    if kind == "tupn":
        return rng.choice(["()", "(1,)", "(1, 2)", "(0, 1, 2)"])
    if kind == "listint":
        return rng.choice(["[]", "[1]", "[1, 2]"])
    if kind == "dictsi":
        return rng.choice(["{}", '{"a": 1}', '{"a": 1, "b": 2}'])
    if kind == "A":
        return rng.choice(["A()", "B()", "Falsy()"])
    if kind == "u":
        return literal(c, rng.choice(["int", "str", "none", "bool", "float", "tup2"]))
    return "None"


def narrow_idiom(c, kind, d):
    """an expression of the kind that is only well-typed if narrowing is right"""
    rng = c.rng
    us = c.names("u")
    if not us:
        return literal(c, kind)
    x = rng.choice(us)
    py = {"int": "int", "str": "str", "float": "float"}[kind]
    dflt = literal(c, kind)
    c.hit("narrow_idiom")
    form = rng.randrange(4)
    if form == 0:
        return f"({x} if isinstance({x}, {py}) else {dflt})"
    if form == 1:
        return f"({dflt} if not isinstance({x}, {py}) else {x})"
    if form == 2:
        return f"({x} if type({x}) is {py} else {dflt})"
    return f"({x} if isinstance({x}, {py}) and {x} else {dflt})"


# ---------------------------------------------------------------------------
# conditions

ATOM_CONDS = [
    # (template, requirement on the arriving samples or None)
    ("isinstance({X}, int)", None), ("isinstance({X}, str)", None), ("isinstance({X}, float)", None),
    ("isinstance({X}, bool)", None), ("isinstance({X}, tuple)", None), ("isinstance({X}, (int, str))", None),
    ("isinstance({X}, A)", None), ("isinstance({X}, B)", None), ("isinstance({X}, list)", None),
    ("{X} is None", None), ("{X} is not None", None), ("{X} == 1", None), ("{X} != 0", None),
    ('{X} == "a"', None), ('{X} in (1, "a")', None), ("{X} not in (None, 0)", None), ("{X}", None), ("not {X}", None),
    ("{X} is True", None), ("type({X}) is int", None), ("{X} == E.a", None), ("{X} is E.a", None), ("{X} is not E.b", None),
    ("len({X}) == 2", "sized"), ("len({X}) > 1", "sized"), ("len({X}) >= 1", "sized"), ("len({X}) != 3", "sized"),
    ("{X} > 1", "num"), ("{X} <= 0", "num"), ("0 < {X} < 3", "num"), ("{X} == 1.0", None), ("{X} == True", None),
    ("callable({X})", None), ("{X} == (1, 2)", None), ("{X} in (E.a, None)", None), ('{X} in ("", "a")', None),
    ("{X} in (0, 1, 2)", None), ("isinstance({X}, (float, str))", None), ("not isinstance({X}, float)", None),
]


def atom_cond(c: Ctx) -> Cond:
    rng = c.rng
    # prefer union parameters and u locals
    cands = sorted(c.samples) * 2 + [n for n in sorted(c.defined) if n[0] in "uisbf"]
    if not cands:
        return Cond(rng.choice(["True", "False", "1", "0"]))
    x = rng.choice(cands)
    tmpl = None
    fallback = None
    for _ in range(10):
        t, req = rng.choice(ATOM_CONDS)
        ok = req is None
        if not ok and x in c.samples and c.samples[x] and all(fits(req, o) for o in c.samples[x]):
            ok = True
        if not ok and x not in c.samples and ((req == "num" and x[0] in "ibf") or (req == "sized" and x[0] in "s")):
            ok = True
        if not ok:
            continue
        fallback = fallback or t
        if x in c.samples and len(c.samples[x]) > 1 and rng.random() < 0.85:
            try:
                f = eval("lambda X: " + t.replace("{X}", "X"), dict(NS))
                vals = {_safe(f, o) for o in c.samples[x]}
            except Exception:
                vals = {True}
            if len(vals) < 2:
                continue  # constant on the arriving samples: look for a condition that splits them
        tmpl = t
        break
    if tmpl is None:
        tmpl = fallback or "{X} is None"
    src = tmpl.replace("{X}", x)
    if src.startswith("not "):
        src = "(" + src + ")"
    c.hit("cond:" + tmpl.split("(")[0].replace("{X}", "X")[:14])
    if x in c.samples:
        try:
            f = eval("lambda X: " + tmpl.replace("{X}", "X"), dict(NS))
        except Exception:
            return Cond(src)
        return Cond(src, {x: f}, {x: (lambda o, f=f: not f(o))})
    return Cond(src)


def cond(c: Ctx, d: int) -> Cond:
    rng = c.rng
    r = rng.random()
    if d <= 0 or r < 0.55:
        return atom_cond(c)
    if r < 0.7:
        a = cond(c, d - 1)
        b = cond(c.refine(a.pos), d - 1)
        c.hit("and")
        return Cond(f"({a.src} and {b.src})", {**a.pos, **{k: v for k, v in b.pos.items() if k not in a.pos}}, {})
    if r < 0.82:
        a = cond(c, d - 1)
        b = cond(c.refine(a.neg), d - 1)
        c.hit("or")
        return Cond(f"({a.src} or {b.src})", {}, {**a.neg, **{k: v for k, v in b.neg.items() if k not in a.neg}})
    if r < 0.9:
        a = cond(c, d - 1)
        return Cond(f"(not {a.src})", a.neg, a.pos)
    k = rng.choice(["int", "str", "int"])
    op = rng.choice(["==", "!=", "<", ">="])
    return Cond(f"({expr(c, k, d - 1)} {op} {expr(c, k, d - 1)})")


# ---------------------------------------------------------------------------
# statements


class Block:
    def __init__(self):
        self.lines = []
        self.terminated = False


def new_local(c, kind):
    pre = PREFIX[kind]
    return f"{pre}{c.rng.randrange(3)}"


def observe(c, ind, out):
    names = sorted(c.defined) + sorted(p for p in c.samples)
    if names:
        out.append(f"{ind}o{c.fresh()} = ({', '.join(names)},)")


def assign(c, ind, out):
    rng = c.rng
    kind = pick(rng, [(3, "int"), (2, "str"), (1, "bool"), (1, "float"), (1, "tup2"), (1, "tupn"), (1, "listint"),
                      (1, "dictsi"), (1, "A"), (5, "u")])
    name = new_local(c, kind)
    r = rng.random()
    if r < 0.08 and kind in ("int", "str", "float") and name in c.defined:
        out.append(f"{ind}{name} += {expr(c, kind, 1)}")
        c.hit("augassign")
    elif r < 0.16:
        a, b = new_local(c, "int"), new_local(c, "str")
        out.append(f"{ind}{a}, {b} = {expr(c, 'tup2', 2)}")
        c.defined |= {a, b}
        c.hit("unpack")
        return
    elif r < 0.2:
        a, b = new_local(c, "int"), new_local(c, "tupn")
        out.append(f"{ind}{a}, *{b.replace('n', 'l')} = {expr(c, 'tupn', 1)} + (1,)")
        c.defined |= {a, b.replace("n", "l")}
        c.hit("star-unpack")
        return
    else:
        out.append(f"{ind}{name} = {expr(c, kind, 3)}")
    c.defined.add(name)


def mutate(c, ind, out):
    rng = c.rng
    # a list that is being iterated is neither mutated nor rebound (the iterator is an alias of it:
    # the property excludes mutation through aliases, and such loops do not terminate)
    ms = sorted(n for n in c.defined if n[0] == "m" and n not in c.iterating)
    free = [f"m{i}" for i in range(2) if f"m{i}" not in c.iterating]
    if not free:
        return
    if not ms or rng.random() < 0.3:
        m = rng.choice(free)
        out.append(f"{ind}{m} = {rng.choice(['[]', '[' + expr(c, 'u', 1) + ']'])}")
        c.defined.add(m)
    else:
        m = rng.choice(ms)
        out.append(f"{ind}{m}.append({expr(c, 'u', 2)})")
    c.hit("mutate")


RAISING = [
    ("int", lambda c: f"{expr(c, 'tupn', 1)}[{c.rng.choice(['2', '3', '-3'])}]"),
    ("int", lambda c: f"{expr(c, 'dictsi', 1)}[{c.rng.choice(STR_LITS)}]"),
    ("int", lambda c: f"(1 // {expr(c, 'int', 1)})"),
    ("int", lambda c: f"int({expr(c, 'str', 1)})"),
    ("int", lambda c: f"lib_raise_if({expr(c, 'u', 1)})"),
    ("str", lambda c: f"{expr(c, 'str', 1)}[0]"),
    ("int", lambda c: f"lib_first({expr(c, 'tupn', 1)})"),
]


def block(c: Ctx, n: int, depth: int, ind: str) -> Block:
    """n statements at this nesting depth; c is updated in place (defined set, samples)."""
    b = Block()
    rng = c.rng
    for _ in range(n):
        if b.terminated:
            break
        kinds = [(8, "assign"), (1, "mutate")]
        if depth > 0:
            kinds += [(4, "if"), (2, "for"), (2, "while"), (2, "try"), (1, "with"), (2, "match"), (0.4, "assert")]
        if c.loop:
            kinds += [(1, "break"), (1, "continue")]
        kinds += [(0.4, "return"), (0.2, "raise")]
        k = pick(rng, kinds)
        c.hit("stmt:" + k)
        out = b.lines
        if k == "assign":
            assign(c, ind, out)
        elif k == "mutate":
            mutate(c, ind, out)
        elif k == "if":
            stmt_if(c, depth, ind, b)
            observe(c, ind, out)
        elif k == "for":
            stmt_for(c, depth, ind, b)
            observe(c, ind, out)
        elif k == "while":
            stmt_while(c, depth, ind, b)
            observe(c, ind, out)
        elif k == "try":
            stmt_try(c, depth, ind, b)
            observe(c, ind, out)
        elif k == "with":
            stmt_with(c, depth, ind, b)
            observe(c, ind, out)
        elif k == "match":
            stmt_match(c, depth, ind, b)
            observe(c, ind, out)
        elif k == "assert":
            cd = atom_cond(c)
            c2 = c.refine(cd.pos)
            if all(c2.samples[p] or not c.samples[p] for p in c.samples):
                out.append(f"{ind}assert {cd.src}")
                c.samples = c2.samples
        elif k in ("break", "continue"):
            # usually conditional
            if rng.random() < 0.7:
                cd = cond(c, 1)
                out.append(f"{ind}if {cd.src}:")
                out.append(f"{ind}    {k}")
                c.samples = c.refine(cd.neg).samples
            else:
                out.append(f"{ind}{k}")
                b.terminated = True
        elif k == "return":
            out.append(f"{ind}return {expr(c, 'u', 2)}")
            b.terminated = True
        elif k == "raise":
            out.append(f"{ind}raise ValueError({expr(c, 'str', 0)})")
            b.terminated = True
    if not b.lines:
        b.lines.append(f"{ind}pass")
    return b


def merge(c: Ctx, branches):
    """branches: [(ctx, block)] — update c after a branching statement"""
    live = [(bc, bb) for bc, bb in branches if not bb.terminated]
    if not live:
        return True
    d = set.intersection(*[bc.defined for bc, _ in live])
    c.defined = d
    for p in c.samples:
        seen = []
        for bc, _ in live:
            for o in bc.samples[p]:
                if not any(o is x for x in seen):
                    seen.append(o)
        c.samples[p] = [o for o in c.samples[p] if any(o is x for x in seen)]
    return False


def stmt_if(c, depth, ind, b):
    rng = c.rng
    branches = []
    cur = c
    nelif = rng.choice([0, 0, 1, 2])
    for i in range(nelif + 1):
        cd = cond(cur, 2)
        bc = cur.refine(cd.pos)
        bb = block(bc, rng.randrange(1, 3), depth - 1, ind + "    ")
        b.lines.append(f"{ind}{'if' if i == 0 else 'elif'} {cd.src}:")
        b.lines += bb.lines
        branches.append((bc, bb))
        cur = cur.refine(cd.neg)
    if rng.random() < 0.7:
        bb = block(cur, rng.randrange(1, 3), depth - 1, ind + "    ")
        b.lines.append(f"{ind}else:")
        b.lines += bb.lines
        branches.append((cur, bb))
    else:
        branches.append((cur, Block()))
    b.terminated = merge(c, branches)


def loop_tail(c, body_c, body_b, depth, ind, b, has_break):
    rng = c.rng
    if rng.random() < 0.45:
        ec = c.copy()
        eb = block(ec, rng.randrange(1, 3), depth - 1, ind + "    ")
        b.lines.append(f"{ind}else:")
        b.lines += eb.lines
        c.hit("loop-else")
    # after a loop: only what was defined before is certainly defined (parameters' samples unchanged)


def stmt_for(c, depth, ind, b):
    rng = c.rng
    form = rng.randrange(9)
    bc = c.copy()
    bc.loop += 1
    if form == 0:
        v = new_local(c, "int")
        head = f"for {v} in {expr(c, 'tupn', 2)}:"
        bc.defined.add(v)
    elif form == 1:
        v = new_local(c, "int")
        head = f"for {v} in range({rng.choice(['0', '1', '2', '3', expr(c, 'int', 1)])}):"
        bc.defined.add(v)
    elif form == 2:
        v = new_local(c, "int")
        head = f"for {v} in {expr(c, 'listint', 2)}:"
        bc.defined.add(v)
    elif form == 3:
        v = new_local(c, "u")
        items = ", ".join(expr(c, "u", 1) for _ in range(rng.randrange(1, 4)))
        head = f"for {v} in ({items},):"
        bc.defined.add(v)
    elif form == 4:
        v = new_local(c, "str")
        head = f"for {v} in {expr(c, rng.choice(['dictsi', 'str']), 1)}:"
        bc.defined.add(v)
    elif form == 5:
        s, i = new_local(c, "str"), new_local(c, "int")
        head = f"for {s}, {i} in {expr(c, 'dictsi', 1)}.items():"
        bc.defined |= {s, i}
    elif form == 6:
        i, j = "i1", "i2"
        head = f"for {i}, {j} in enumerate({expr(c, 'tupn', 1)}):"
        bc.defined |= {i, j}
    elif form == 7:
        tv = tupv_name(c)
        v = new_local(c, "u")
        head = f"for {v} in {tv or expr(c, 'tup2', 1)}:"
        bc.defined.add(v)
    else:
        m = mlist_name(c)
        v = new_local(c, "u")
        head = f"for {v} in {m or '(1, None)'}:"
        bc.defined.add(v)
        if m:
            bc.iterating.add(m)
    bb = block(bc, rng.randrange(1, 3), depth - 1, ind + "    ")
    b.lines.append(ind + head)
    b.lines += bb.lines
    loop_tail(c, bc, bb, depth, ind, b, True)


def stmt_while(c, depth, ind, b):
    rng = c.rng
    k = f"k{c.fresh()}"
    form = rng.randrange(4)
    bc = c.copy()
    bc.loop += 1
    b.lines.append(f"{ind}{k} = 0")
    if form == 0:
        b.lines.append(f"{ind}while {k} < {rng.choice(['0', '1', '2', '3'])}:")
        b.lines.append(f"{ind}    {k} = lib_int({k})")
    elif form == 1:
        cd = cond(c, 1)
        b.lines.append(f"{ind}while {k} < 2 and {cd.src}:")
        b.lines.append(f"{ind}    {k} = lib_int({k})")
        bc = bc.refine(cd.pos)
    elif form == 2:
        b.lines.append(f"{ind}while True:")
        b.lines.append(f"{ind}    {k} = lib_int({k})")
        b.lines.append(f"{ind}    if {k} > {rng.choice(['1', '2'])}:")
        b.lines.append(f"{ind}        break")
        c.hit("while-true")
    else:
        us = c.names("u")
        if us and us[0][0] == "u":
            u = rng.choice([x for x in us if x[0] == "u"])
            b.lines.append(f"{ind}while {u}:")
            b.lines.append(f"{ind}    {u} = {rng.choice(['None', '0', literal(c, 'u')])}")
        else:
            b.lines.append(f"{ind}while {k} < 2:")
            b.lines.append(f"{ind}    {k} = lib_int({k})")
    bb = block(bc, rng.randrange(1, 3), depth - 1, ind + "    ")
    b.lines += bb.lines
    loop_tail(c, bc, bb, depth, ind, b, True)


def stmt_try(c, depth, ind, b):
    rng = c.rng
    before = set(c.defined)
    bc = c.copy()
    b.lines.append(f"{ind}try:")
    inner = ind + "    "
    body = Block()
    nst = rng.randrange(1, 4)
    for i in range(nst):
        if rng.random() < 0.6:
            kind, f = rng.choice(RAISING)
            name = new_local(bc, kind)
            body.lines.append(f"{inner}{name} = {f(bc)}")
            bc.defined.add(name)
        else:
            bb = block(bc, 1, depth - 1, inner)
            body.lines += bb.lines
            if bb.terminated:
                body.terminated = True
                break
    b.lines += body.lines
    branches = []
    has_handler = rng.random() < 0.85
    if has_handler:
        for _ in range(rng.choice([1, 1, 2])):
            exc = rng.choice(["Exception", "(IndexError, KeyError)", "ZeroDivisionError", "ValueError", "(IndexError, KeyError, ZeroDivisionError, ValueError)", "LookupError"])
            hc = c.copy()
            hc.defined = set(before)
            as_ = rng.random() < 0.3
            b.lines.append(f"{ind}except {exc}{' as ex' if as_ else ''}:")
            hb = block(hc, rng.randrange(1, 3), depth - 1, inner)
            b.lines += hb.lines
            branches.append((hc, hb))
        if rng.random() < 0.3:
            eb = block(bc, rng.randrange(1, 3), depth - 1, inner)
            b.lines.append(f"{ind}else:")
            b.lines += eb.lines
            if eb.terminated:
                body.terminated = True
    branches.append((bc, body))
    if not has_handler or rng.random() < 0.3:
        fc = c.copy()
        fc.defined = set(before)
        fb = block(fc, rng.randrange(1, 3), depth - 1, inner)
        b.lines.append(f"{ind}finally:")
        b.lines += fb.lines
        term = merge(c, branches)
        c.defined = (c.defined & before) | (fc.defined - before) if not has_handler else c.defined | (fc.defined - before)
        b.terminated = term or fb.terminated
        c.hit("finally")
        return
    b.terminated = merge(c, branches)


def stmt_with(c, depth, ind, b):
    rng = c.rng
    before = set(c.defined)
    bc = c.copy()
    b.lines.append(f"{ind}with suppress({rng.choice(['Exception', 'IndexError, KeyError', 'ZeroDivisionError', 'ValueError'])}):")
    inner = ind + "    "
    for i in range(rng.randrange(1, 4)):
        if rng.random() < 0.5:
            kind, f = rng.choice(RAISING)
            name = new_local(bc, kind)
            b.lines.append(f"{inner}{name} = {f(bc)}")
            bc.defined.add(name)
        else:
            bb = block(bc, 1, depth - 1, inner)
            b.lines += bb.lines
            if bb.terminated:
                break
    c.defined = before & bc.defined


PATTERNS = [
    # (pattern source template, bindings {name: kind})
    ("None", {}), ("1", {}), ('"a"', {}), ("1 | 2", {}), ("True", {}), ("int()", {}), ("str()", {}), ("float()", {}),
    ("bool()", {}), ("int() as i0", {"i0": "int"}), ("str() as s0", {"s0": "str"}), ("(int() as i1, str() as s1)", {"i1": "int", "s1": "str"}),
    ("(u0, u1)", {"u0": "u", "u1": "u"}), ("[u0]", {"u0": "u"}), ("[u0, *u2]", {"u0": "u", "u2": "u"}), ("()", {}), ("[]", {}),
    ("(1, u1)", {"u1": "u"}), ("tuple()", {}), ("list()", {}), ("A()", {}), ("B()", {}), ("E.a", {}), ('{"a": u0}', {"u0": "u"}),
    ("{}", {}), ("int() | None", {}), ("str() | int()", {}), ("0 | 0.0", {}), ("u1", {"u1": "u"}), ("[int(), *_]", {}),
    ("(_, _)", {}), ("(_, _, *_)", {}), ("float() | int()", {}), ('"" | "ab"', {}),
]


def _pat_pred(pat):
    src = f"def _m(X):\n    match X:\n        case {pat}:\n            return True\n    return False\n"
    ns = dict(NS)
    exec(src, ns)
    return ns["_m"]


def stmt_match(c, depth, ind, b):
    rng = c.rng
    subj_kind = rng.random()
    if subj_kind < 0.75 and c.samples:
        x = rng.choice(sorted(c.samples))
        subj = x
    else:
        x = None
        subj = expr(c, "u", 1)
    b.lines.append(f"{ind}match {subj}:")
    inner = ind + "    "
    branches = []
    cur = c
    ncase = rng.randrange(1, 5)
    irrefutable = False
    for i in range(ncase):
        if i == ncase - 1 and rng.random() < 0.5:
            pat, binds = "_", {}
        else:
            pat, binds = rng.choice(PATTERNS)
        guard = ""
        pred = _pat_pred(pat)
        bc = cur.refine({x: pred}) if x else cur.copy()
        bc.defined |= set(binds)
        if rng.random() < 0.15:
            g = cond(bc, 1)
            guard = f" if {g.src}"
            bc = bc.refine(g.pos)
        b.lines.append(f"{inner}case {pat}{guard}:")
        bb = block(bc, rng.randrange(1, 3), depth - 1, inner + "    ")
        b.lines += bb.lines
        branches.append((bc, bb))
        if not guard:
            cur = cur.refine({x: (lambda o, pred=pred: not pred(o))}) if x else cur
            if pat in ("_", "u1"):
                irrefutable = True
                break
    if not irrefutable:
        branches.append((cur, Block()))
    c.hit("match")
    b.terminated = merge(c, branches)


# ---------------------------------------------------------------------------


def gen_function(rng, name, hist=None, size=None):
    for _ in range(20):
        src, tuples, pts = _gen_function(rng, name, hist, size)
        try:
            compile(src, "<gen>", "exec")
            return src, tuples, pts
        except SyntaxError:
            if hist is not None:
                hist["regenerated_after_syntax_error"] = hist.get("regenerated_after_syntax_error", 0) + 1
    raise RuntimeError("generator produced 20 syntactically invalid functions in a row")


def _gen_function(rng, name, hist=None, size=None):
    nparams = rng.choice([1, 2, 2, 3, 3, 4])
    keys = sorted(PARAM_TYPES)
    params = {}
    for i in range(nparams):
        params[f"p{i}"] = rng.choice(keys)
    c = Ctx(rng, params)
    c.hist = hist
    ind = "    "
    lines = [f"def {name}({', '.join(f'{p}: {PARAM_TYPES[k][0]}' for p, k in params.items())}):"]
    # a few initialised locals
    for kind in rng.sample(LOCAL_KINDS, rng.randrange(2, 6)):
        n = new_local(c, kind)
        lines.append(f"{ind}{n} = {expr(c, kind, 1)}")
        c.defined.add(n)
    b = block(c, size or rng.randrange(2, 6), rng.choice([1, 2, 2, 3]), ind)
    lines += b.lines
    if not b.terminated:
        names = sorted(c.defined) + sorted(params)
        lines.append(f"{ind}return ({', '.join(names)},)")
    # argument tuples: a covering set, not the full product
    samples = [PARAM_TYPES[k][1] for k in params.values()]
    tuples = []
    n = max(len(s) for s in samples)
    for j in range(n):
        tuples.append("(" + ", ".join(s[j % len(s)] for s in samples) + ",)")
    for _ in range(4):
        tuples.append("(" + ", ".join(rng.choice(s) for s in samples) + ",)")
    tuples = list(dict.fromkeys(tuples))
    return "\n".join(lines) + "\n", tuples, list(params.values())


HEADER = "from c01_prelude import *\n\n"


def gen_module(rng, nfuncs, hist=None, first_index=0):
    srcs, calls, ptypes = [], {}, {}
    for i in range(nfuncs):
        name = f"f{first_index + i}"
        src, tuples, pts = gen_function(rng, name, hist)
        srcs.append(src)
        calls[name] = tuples
        ptypes[name] = pts
    return HEADER + "\n\n".join(srcs), calls, ptypes


# ---------------------------------------------------------------------------
# composite variables: attribute chains and subscript chains (depth 1-3) narrowed by the C02 condition
# kinds, then a reassignment of the root / an intermediate prefix / the immediate parent / a sibling /
# the path itself *through the same access path* (no aliases are mutated), then re-reads.  The
# replacement objects hold None / another type at the narrowed position, so a stale narrowing is
# observably wrong.  (Seeded change round 2: FunctionScope._add_composite no longer registered a nested
# composite under its immediate parent.)

_INNERS = ["Inner(1, 2)", "Inner(None, 'x')", "Inner(0, 'y')", "Inner(None, 5)"]
_OUTERS = [f"Outer({a}, {b}, {n}, {it})" for a, b, n, it in [
    (_INNERS[0], _INNERS[1], "3", "[1, None, 2]"), (_INNERS[1], _INNERS[0], "None", "[None, 4, None]"),
    (_INNERS[2], _INNERS[3], "0", "[0, 0, 0]"), (_INNERS[3], _INNERS[2], "7", "[None, None, None]")]]

# family -> (root annotation, root samples, steps per level [(accessor source, type after the step)], replacement pools by type)
COMPOSITE_FAMILIES = {
    "list2": ("list[list[Optional[int]]]", ["[[1, 2, 3], [4, None, 6], [7, 8, 9]]", "[[None, None, None], [1, 1, 1], [0, 0, 0]]", "[[0, 5, None], [None, 2, 2], [3, 3, 3]]"],
              [["[0]", "[1]", "[-1]"], ["[0]", "[1]", "[2]"]], ["L2", "L1", "leaf"]),
    "list3": ("list[list[list[Optional[int]]]]", ["[[[1, 2, 3], [4, None, 6], [7, 8, 9]], [[None, 1, 2], [3, 4, 5], [6, 7, None]], [[0, 0, 0], [0, 0, 0], [0, 0, 0]]]",
                                                   "[[[None, None, None], [1, 1, 1], [2, None, 2]], [[5, 5, 5], [None, None, None], [1, 2, 3]], [[9, 9, 9], [8, 8, None], [7, 7, 7]]]"],
              [["[0]", "[1]"], ["[0]", "[1]", "[2]"], ["[0]", "[1]", "[2]"]], ["L3", "L2", "L1", "leaf"]),
    "dict2": ("dict[str, dict[str, Optional[int]]]", ['{"a": {"a": 1, "b": 2}, "b": {"a": None, "b": 0}}', '{"a": {"a": None, "b": None}, "b": {"a": 3, "b": 4}}'],
              [['["a"]', '["b"]'], ['["a"]', '["b"]']], ["D2", "D1", "leaf"]),
    "attr2": ("Outer", _OUTERS, [[".a", ".b"], [".v"]], ["Outer", "Inner", "leaf"]),
    "attr2w": ("Outer", _OUTERS, [[".a", ".b"], [".w"]], ["Outer", "Inner", "leafw"]),
    "attr3": ("Top", [f"Top({_OUTERS[0]}, {_OUTERS[1]})", f"Top({_OUTERS[1]}, {_OUTERS[2]})", f"Top({_OUTERS[3]}, {_OUTERS[0]})"],
              [[".o", ".p"], [".a", ".b"], [".v"]], ["Top", "Outer", "Inner", "leaf"]),
    "attr_items": ("Outer", _OUTERS, [[".items"], ["[0]", "[1]", "[2]"]], ["Outer", "L1", "leaf"]),
    "attr1": ("Outer", _OUTERS, [[".n"]], ["Outer", "leaf"]),
    "top_items": ("Top", [f"Top({_OUTERS[0]}, {_OUTERS[1]})", f"Top({_OUTERS[1]}, {_OUTERS[3]})"], [[".o", ".p"], [".items"], ["[0]", "[1]"]], ["Top", "Outer", "L1", "leaf"]),
}

# replacement values by type tag: (annotation, samples)
REPLACEMENTS = {
    "leaf": ("Optional[int]", ["None", "5", "0"]),
    "leafw": ("Union[int, str]", ["'s'", "3", "''", "0"]),
    "L1": ("list[Optional[int]]", ["[None, None, None]", "[3, 4, 5]", "[0, None, 1]"]),
    "L2": ("list[list[Optional[int]]]", ["[[None, None, None], [None, None, None], [None, None, None]]", "[[1, 2, 3], [4, 5, 6], [7, 8, 9]]"]),
    "L3": ("list[list[list[Optional[int]]]]", ["[[[None, None, None], [None, None, None], [None, None, None]], [[None, None, None], [None, None, None], [None, None, None]], [[None, 1, 2], [3, None, 5], [6, 7, None]]]"]),
    "D1": ("dict[str, Optional[int]]", ['{"a": None, "b": None}', '{"a": 7, "b": 8}']),
    "D2": ("dict[str, dict[str, Optional[int]]]", ['{"a": {"a": None, "b": None}, "b": {"a": None, "b": None}}', '{"a": {"a": 1, "b": 1}, "b": {"a": 2, "b": 2}}']),
    "Inner": ("Inner", _INNERS),
    "Outer": ("Outer", _OUTERS),
    "Top": ("Top", [f"Top({_OUTERS[1]}, {_OUTERS[3]})", f"Top({_OUTERS[0]}, {_OUTERS[2]})"]),
}

LEAF_CONDS = {
    "leaf": ["{P} is not None", "{P} is None", "{P}", "not {P}", "isinstance({P}, int)", "{P} == 1", "{P} != 0", "{P} is not None and {P} > 0", "{P} in (1, 2, None)"],
    "leafw": ["isinstance({P}, int)", "isinstance({P}, str)", "not isinstance({P}, str)", "{P}", "{P} == 's'", "{P} == 3", "type({P}) is int"],
}


def gen_composite_function(rng, name, hist=None):
    fam = rng.choice(sorted(COMPOSITE_FAMILIES))
    ann, samples, levels, tags = COMPOSITE_FAMILIES[fam]
    steps = [rng.choice(opts) for opts in levels]
    depth = len(steps)
    path = "d" + "".join(steps)
    leaf_tag = tags[-1]
    params = [("d", ann, samples)]
    # replacement parameters, one per prefix length 0..depth (0 = the root itself)
    repl = {}
    for k in range(depth + 1):
        a, ss = REPLACEMENTS[tags[k]]
        repl[k] = f"e{k}"
        params.append((f"e{k}", a, ss))
    ind = "    "
    lines = [f"def {name}({', '.join(f'{n}: {a}' for n, a, _ in params)}):"]

    def prefix(k):
        return "d" + "".join(steps[:k])

    def reassign(i2):
        kind = rng.choice(["root", "prefix", "parent", "self", "sibling", "other-branch", "parent", "prefix"])
        if kind == "root":
            k = 0
        elif kind == "prefix":
            k = rng.randrange(0, depth)
        elif kind == "parent":
            k = depth - 1
        elif kind == "self":
            k = depth
        elif kind == "sibling":
            # another element of the same parent
            alts = [s for s in levels[-1] if s != steps[-1]]
            if alts:
                if hist is not None:
                    hist["comp:sibling"] = hist.get("comp:sibling", 0) + 1
                return [f"{i2}{prefix(depth - 1)}{rng.choice(alts)} = {repl[depth]}"]
            k = depth - 1
        else:
            # a different branch at an upper level (must not clear anything soundly, but must not narrow either)
            lvl = rng.randrange(0, depth)
            alts = [s for s in levels[lvl] if s != steps[lvl]]
            if alts:
                return [f"{i2}{prefix(lvl)}{rng.choice(alts)} = {repl[lvl + 1]}"]
            k = depth - 1
        if hist is not None:
            hist[f"comp:reassign-{'root' if k == 0 else 'self' if k == depth else 'parent' if k == depth - 1 else 'prefix'}"] = hist.get(f"comp:reassign-{'root' if k == 0 else 'self' if k == depth else 'parent' if k == depth - 1 else 'prefix'}", 0) + 1
        return [f"{i2}{prefix(k)} = {repl[k]}"]

    cnt = [0]

    def read(i2):
        cnt[0] += 1
        return f"{i2}r{cnt[0]} = {path}"

    cond = rng.choice(LEAF_CONDS[leaf_tag]).replace("{P}", path)
    shape = rng.randrange(4)
    if shape == 0:
        lines += [f"{ind}if {cond}:", read(ind * 2)] + reassign(ind * 2) + [read(ind * 2)]
        if rng.random() < 0.5:
            lines += reassign(ind * 2) + [read(ind * 2)]
        lines += [f"{ind}else:", read(ind * 2)] + reassign(ind * 2) + [read(ind * 2)]
        lines += [read(ind)]
    elif shape == 1:
        lines += [f"{ind}if {cond}:"] + reassign(ind * 2) + [read(ind * 2), f"{ind * 2}return {path}"]
        lines += [read(ind)] + reassign(ind) + [read(ind)]
    elif shape == 2:
        cond2 = rng.choice(LEAF_CONDS[leaf_tag]).replace("{P}", path)
        lines += [f"{ind}if {cond}:", read(ind * 2), f"{ind * 2}if {cond2}:"] + reassign(ind * 3) + [read(ind * 3)]
        lines += [read(ind * 2)] + reassign(ind * 2) + [read(ind * 2)]
        lines += [read(ind)]
    else:
        lines += [f"{ind}assert {cond}", read(ind)] + reassign(ind) + [read(ind)]
        lines += [f"{ind}for i0 in range(2):", read(ind * 2)] + reassign(ind * 2) + [read(ind * 2)]
        lines += [read(ind)]
    lines.append(f"{ind}return {path}")
    if hist is not None:
        hist["comp:" + fam] = hist.get("comp:" + fam, 0) + 1
    sample_lists = [ss for _, _, ss in params]
    tuples = []
    n = max(len(s) for s in sample_lists)
    for j in range(n + 6):
        # every call gets freshly constructed argument objects (the sources are evaluated per call)
        tuples.append("(" + ", ".join(rng.choice(s) if j >= n else s[(j + k) % len(s)] for k, s in enumerate(sample_lists)) + ",)")
    return "\n".join(lines) + "\n", list(dict.fromkeys(tuples)), [fam]


def gen_composite_module(rng, nfuncs, hist=None):
    srcs, calls = [], {}
    for i in range(nfuncs):
        name = f"c{i}"
        src, tuples, _ = gen_composite_function(rng, name, hist)
        compile(src, "<gen>", "exec")
        srcs.append(src)
        calls[name] = tuples
    return HEADER + "\n\n".join(srcs), calls


# ---------------------------------------------------------------------------
# match statements with capture patterns over statically shaped subjects; the captured names are read
# afterwards so that the recorder sees them.  (Seeded change round 3: visit_MatchSequence computed
# post_starred_length one too large: the star capture lost its last element and every sub-pattern
# after the star was bound one position too early.)

_MATCH_SUBJECTS = [
    # (parameters [(name, annotation, samples)], setup lines, subject expression, shape)
    ([("t", "tuple[int, int, int]", ["(1, 2, 3)", "(0, 0, 0)", "(7, 8, 9)"])], [], "t", ("seq", 3)),
    ([("t", "tuple[int, str, float, None]", ["(1, 'a', 1.5, None)", "(0, '', 0.0, None)"])], [], "t", ("seq", 4)),
    ([("t", "tuple[str, int]", ["('x', 10)", "('', 0)"])], [], "t", ("seq", 2)),
    ([], ["t = (1, 2, 3, 4)"], "t", ("seq", 4)),
    ([], ["t = ('x', 10)"], "t", ("seq", 2)),
    ([("p", "int", ["1", "5"]), ("q", "str", ["'a'", "''"])], ["t = (p, 2, q, None, 3.5)"], "t", ("seq", 5)),
    ([("p", "int", ["1", "5"])], ["t = [1, 'two', 3.0, p]"], "t", ("seq", 4)),
    ([("p", "int", ["1", "5"])], [], "(p, 'k', p)", ("seq", 3)),
    ([("t", "tuple[tuple[int, str], tuple[int, str, None]]", ["((1, 'a'), (2, 'b', None))"])], [], "t", ("seq2", 2)),
    ([("x", "Inner", _INNERS)], [], "x", ("cls", "Inner", ["v", "w"])),
    ([("x", "Outer", _OUTERS)], [], "x", ("cls", "Outer", ["a", "b", "n", "items"])),
    ([("p", "int", ["1", "0"])], ["x = Inner(p, 'w')"], "x", ("cls", "Inner", ["v", "w"])),
    ([("p", "int", ["1", "0"])], ["d = {'a': p, 'b': 'x', 'c': None}"], "d", ("map", ["a", "b", "c"])),
    ([("d", "dict[str, int]", ["{'a': 1, 'b': 2}", "{'a': 0}", "{}"])], [], "d", ("map", ["a", "b"])),
]


def _seq_pattern(rng, n, names, allow_nested=False):
    """a sequence pattern for a subject of static length n; returns (source, captured names)"""
    star = rng.choice(["none", "head", "middle", "tail", "middle", "tail", "head"])
    # number of non-star sub-patterns: at most n (n itself: the star matches nothing), usually fewer
    k = n if star == "none" else rng.randrange(0, n + 1)
    if star == "middle" and k < 2:
        star = "tail" if k else "head"
    subs = []
    caps = []

    def sub():
        r = rng.random()
        if r < 0.65:
            c = names.pop(0)
            caps.append(c)
            return c
        if r < 0.75:
            return "_"
        if r < 0.9:
            c = names.pop(0)
            caps.append(c)
            return f"{rng.choice(['int()', 'str()', 'int() | str()', 'object()'])} as {c}"
        return rng.choice(["1", "'a'", "None", "0 | 1 | 2"])

    for _ in range(k):
        subs.append(sub())
    if star != "none":
        sc = names.pop(0)
        caps.append(sc)
        starred = "*" + (sc if rng.random() < 0.85 else "_")
        if starred == "*_":
            caps.remove(sc)
        pos = 0 if star == "head" else len(subs) if star == "tail" else rng.randrange(1, len(subs))
        subs.insert(pos, starred)
    br = rng.choice(["[]", "()"])
    inner = ", ".join(subs) + ("," if len(subs) == 1 and br == "()" else "")
    return br[0] + inner + br[1], caps


def gen_match_function(rng, name, hist=None):
    params, setup, subj, shape = rng.choice(_MATCH_SUBJECTS)
    ind = "    "
    lines = [f"def {name}({', '.join(f'{n}: {a}' for n, a, _ in params)}):"] + [ind + s for s in setup]
    lines.append(f"{ind}match {subj}:")
    ncase = rng.randrange(1, 4)
    counter = [0]

    def fresh_names():
        out = []
        for _ in range(24):
            counter[0] += 1
            out.append(f"c{counter[0]}")
        return out

    for ci in range(ncase):
        names = fresh_names()
        kind = shape[0]
        if kind == "seq":
            pat, caps = _seq_pattern(rng, shape[1], names)
            r = rng.random()
            if r < 0.15:
                c = names.pop(0)
                pat, caps = f"{pat} as {c}", caps + [c]
            elif r < 0.3 and caps:
                # an or-pattern binding the same names on both sides
                pat = f"{pat} | {pat}"
        elif kind == "seq2":
            p1, c1 = _seq_pattern(rng, 2, names)
            p2, c2 = _seq_pattern(rng, 3, names)
            pat, caps = f"[{p1}, {p2}]", c1 + c2
        elif kind == "cls":
            cls, fields = shape[1], shape[2]
            caps = []
            if rng.random() < 0.4 and cls == "Inner":
                a, b = names.pop(0), names.pop(0)
                caps = [a, b]
                pat = f"Inner({a}, {b})"
            else:
                parts = []
                for f in rng.sample(fields, rng.randrange(1, len(fields) + 1)):
                    c = names.pop(0)
                    if f == "items":
                        sp, sc = _seq_pattern(rng, 3, names)
                        parts.append(f"items={sp}")
                        caps += sc
                    elif f in ("a", "b") and rng.random() < 0.5:
                        c2 = names.pop(0)
                        parts.append(f"{f}=Inner(v={c}, w={c2})")
                        caps += [c, c2]
                    else:
                        parts.append(f"{f}={c}")
                        caps.append(c)
                pat = f"{cls}({', '.join(parts)})"
        else:
            keys = shape[1]
            caps = []
            parts = []
            for key in rng.sample(keys, rng.randrange(1, len(keys) + 1)):
                c = names.pop(0)
                caps.append(c)
                parts.append(f"'{key}': {c}" if rng.random() < 0.7 else f"'{key}': int() as {c}")
            if rng.random() < 0.6:
                c = names.pop(0)
                caps.append(c)
                parts.append(f"**{c}")
            pat = "{" + ", ".join(parts) + "}"
        lines.append(f"{ind * 2}case {pat}:")
        if caps:
            lines.append(f"{ind * 3}o{ci} = ({', '.join(caps)},)")
            lines.append(f"{ind * 3}return ({', '.join(reversed(caps))},)")
        else:
            lines.append(f"{ind * 3}return {subj}")
        if hist is not None:
            hist["matchcap:" + kind] = hist.get("matchcap:" + kind, 0) + 1
    lines.append(f"{ind}return None")
    samples = [ss for _, _, ss in params]
    if samples:
        n = max(len(s) for s in samples)
        tuples = ["(" + ", ".join(s[(j + k) % len(s)] for k, s in enumerate(samples)) + ",)" for j in range(n + 1)]
    else:
        tuples = ["()"]
    return "\n".join(lines) + "\n", list(dict.fromkeys(tuples))


def gen_match_module(rng, nfuncs, hist=None):
    srcs, calls = [], {}
    i = 0
    while len(srcs) < nfuncs:
        name = f"k{i}"
        i += 1
        src, tuples = gen_match_function(rng, name, hist)
        try:
            compile(src, "<gen>", "exec")
        except SyntaxError:
            continue   # e.g. an irrefutable or-alternative / two stars: regenerate
        srcs.append(src)
        calls[name] = tuples
    return HEADER + "\n\n".join(srcs), calls


# ---------------------------------------------------------------------------
# every binding form of the grammar as a value source whose runtime object is recorded: except / except*
# handlers (tuples mixing Exception and bare BaseException subclasses; the exceptions and groups are raised
# by prelude helpers so that every handler really runs), with ... as, for targets over heterogeneous tuples,
# walrus, comprehension variables, import ... as, global / nonlocal writes.  The bound name and values
# derived from it (e.args, g.exceptions, type(e), ...) are read afterwards.
# (Seeded change round 4: `except* (ValueError, KeyboardInterrupt) as g` inferred ExceptionGroup[...] when
# *any* (instead of all) of the handler's classes is an Exception subclass.)

_EXC_CLASSES = ["ValueError", "KeyError", "Halt", "AppError", "KeyboardInterrupt", "OSError", "LookupError", "Exception", "BaseException", "ArithmeticError"]
_HET_TUPLES = ["(p, 's', None)", "(1, 'a', 2.5, None)", "(p, (p, 's'), [p])", "((1, 'x'), (None, 2.5))", "(p, not p, str(p))"]
_P_TYPES = [("int", ["0", "1", "2", "3", "4", "5", "6"]), ("Optional[int]", ["None", "0", "3"]), ("Union[int, str]", ["1", "'a'", "0", "''"])]


def _exc_tuple(rng):
    k = rng.choice([1, 1, 2, 2, 3])
    cs = rng.sample(_EXC_CLASSES, k)
    return cs[0] if k == 1 and rng.random() < 0.7 else "(" + ", ".join(cs) + ("," if k == 1 else "") + ")"


def gen_binding_function(rng, name, hist=None):
    """returns (module-level lines before the function, function source, argument tuples)"""
    kind = rng.choice(["except", "except", "except_star", "except_star", "except_star", "with", "for", "for", "walrus", "comp", "comp",
                       "import", "global", "nonlocal", "nested_except"])
    ind = "    "
    pre = []
    ann, samples = rng.choice(_P_TYPES)
    if kind in ("except", "except_star", "nested_except"):
        ann, samples = "int", ["0", "1", "2", "3", "4", "5", "6"]
    L = [f"def {name}(p: {ann}):"]
    if kind == "except":
        nh = rng.randrange(1, 4)
        L += [f"{ind}r = None", f"{ind}try:", f"{ind * 2}q = lib_raise(p)"]
        for i in range(nh):
            L += [f"{ind}except {_exc_tuple(rng)} as e{i}:",
                  f"{ind * 2}r = (e{i}, {rng.choice([f'e{i}.args', f'type(e{i})', f'str(e{i})', f'e{i}.args[0] if e{i}.args else None', f'isinstance(e{i}, Exception)'])})"]
            if rng.random() < 0.3:
                L += [f"{ind * 2}if isinstance(e{i}, {rng.choice(_EXC_CLASSES)}):", f"{ind * 3}r = e{i}"]
        if rng.random() < 0.4:
            L += [f"{ind}except BaseException as eb:", f"{ind * 2}r = (eb, type(eb))"]
        if rng.random() < 0.3:
            L += [f"{ind}else:", f"{ind * 2}r = q"]
        if rng.random() < 0.3:
            L += [f"{ind}finally:", f"{ind * 2}z = r"]
        L += [f"{ind}return r"]
    elif kind == "except_star":
        nh = rng.randrange(1, 4)
        L += [f"{ind}r = []", f"{ind}try:", f"{ind * 2}q = lib_raise_group(p)"]
        used = set()
        for i in range(nh):
            t = _exc_tuple(rng)
            if t in used:
                continue
            used.add(t)
            L += [f"{ind}except* {t} as g{i}:",
                  f"{ind * 2}r.append((g{i}, {rng.choice([f'g{i}.exceptions', f'type(g{i})', f'g{i}.message', f'g{i}.exceptions[0]', f'len(g{i}.exceptions)'])}))"]
        if rng.random() < 0.5:
            L += [f"{ind}except* BaseException as gb:", f"{ind * 2}r.append((gb, gb.exceptions))"]
        L += [f"{ind}return r"]
    elif kind == "nested_except":
        L += [f"{ind}r = None", f"{ind}try:", f"{ind * 2}try:", f"{ind * 3}q = lib_raise(p)",
              f"{ind * 2}except {_exc_tuple(rng)} as e0:", f"{ind * 3}r = e0", f"{ind * 3}raise {rng.choice(['', 'AppError(3) from e0', 'Halt(e0)'])}".rstrip(),
              f"{ind}except {_exc_tuple(rng)} as e1:", f"{ind * 2}r = (r, e1, e1.__cause__, e1.args)",
              f"{ind}except BaseException as e2:", f"{ind * 2}r = (r, e2)", f"{ind}return r"]
    elif kind == "with":
        tgt = rng.choice(["v", "v", "(a, b)"])
        inner = rng.choice(["p", "(p, 's')", "[p]", "{'k': p}", "Inner(None, 's')"]) if tgt == "v" else rng.choice(["(p, 's')", "(None, p)"])
        L += [f"{ind}with Ctx({inner}) as {tgt}:", f"{ind * 2}r = {tgt}"]
        if rng.random() < 0.5:
            L += [f"{ind * 2}with Ctx(r) as w, suppress(ValueError) as sp:", f"{ind * 3}r = (w, sp)"]
        L += [f"{ind}return (r, {tgt})"]
    elif kind == "for":
        form = rng.randrange(5)
        if form == 0:
            L += [f"{ind}r = []", f"{ind}for x in {rng.choice(_HET_TUPLES)}:", f"{ind * 2}r.append(x)", f"{ind * 2}y = x", f"{ind}return (r, x, y)"]
        elif form == 1:
            L += [f"{ind}r = None", f"{ind}for a, b in ((1, 'x'), (None, 2.5), (p, p)):", f"{ind * 2}r = (a, b)", f"{ind * 2}if a is None:", f"{ind * 3}break",
                  f"{ind}else:", f"{ind * 2}r = (r, a, b)", f"{ind}return (r, a, b)"]
        elif form == 2:
            L += [f"{ind}r = None", f"{ind}for i, x in enumerate((p, 's', None)):", f"{ind * 2}r = (i, x)", f"{ind}return (r, i, x)"]
        elif form == 3:
            L += [f"{ind}d = {{'a': p, 'b': 's', 'c': None}}", f"{ind}r = None", f"{ind}for k, v in d.items():", f"{ind * 2}r = (k, v)", f"{ind}return (r, k, v)"]
        else:
            L += [f"{ind}r = None", f"{ind}for (a, (b, c)), *rest in (((1, (p, 's')), 2, 3), ((None, ('t', p)),)):", f"{ind * 2}r = (a, b, c, rest)", f"{ind}return (r, a, b, c, rest)"]
    elif kind == "walrus":
        form = rng.randrange(4)
        if form == 0:
            L += [f"{ind}if (w := p) is not None:", f"{ind * 2}return (w, p)", f"{ind}return w"]
        elif form == 1:
            L += [f"{ind}r = (y := p) and y", f"{ind}return (r, y)"]
        elif form == 2:
            L += [f"{ind}r = [z := p, z, (z2 := (z, 's'))[0]]", f"{ind}return (r, z, z2)"]
        else:
            L += [f"{ind}while (n := lib_opt(p)) and p:", f"{ind * 2}p = None", f"{ind}return (n, p)"]
    elif kind == "comp":
        form = rng.randrange(6)
        src = rng.choice(_HET_TUPLES)
        if form == 0:
            L += [f"{ind}r = [x for x in {src}]", f"{ind}return r"]
        elif form == 1:
            L += [f"{ind}r = [x for x in {src} if x is not None]", f"{ind}return r"]
        elif form == 2:
            L += [f"{ind}r = {{k: v for k, v in (('a', p), ('b', None), (1, 's'))}}", f"{ind}return r"]
        elif form == 3:
            L += [f"{ind}r = tuple((x, y) for x in (p, None) for y in ('s', x))", f"{ind}return r"]
        elif form == 4:
            L += [f"{ind}r = {{x if isinstance(x, int) else 0 for x in (p, 's', None)}}", f"{ind}return r"]
        else:
            L += [f"{ind}r = [[y for y in (x, p)] for x in ('s', None)]", f"{ind}return (r, [w for w in (p,) if w])"]
    elif kind == "import":
        form = rng.randrange(4)
        if form == 0:
            L += [f"{ind}import math as mm", f"{ind}r = (mm.pi, mm.floor(1.5), mm)", f"{ind}return r"]
        elif form == 1:
            L += [f"{ind}from os import path as pp, sep as ss", f"{ind}r = (pp.join('a', 'b'), ss, pp)", f"{ind}return r"]
        elif form == 2:
            L += [f"{ind}import collections.abc as cabc, json as js", f"{ind}r = (cabc.Sequence, js.dumps(p), isinstance((p,), cabc.Sequence))", f"{ind}return r"]
        else:
            L += [f"{ind}from c01_prelude import Inner as In, lib_ident as li", f"{ind}r = (In(None, 's'), li(p), In)", f"{ind}return r"]
    elif kind == "global":
        g = f"G_{name}"
        pre = [f"{g} = {rng.choice(['0', 'None', '(1, 2)'])}"]
        L += [f"{ind}global {g}", f"{ind}before = {g}", f"{ind}{g} = {rng.choice(['p', '(p, 1)', 'str(p)', '[p]'])}", f"{ind}after = {g}", f"{ind}return (before, after, {g})"]
    else:  # nonlocal
        L += [f"{ind}x = {rng.choice(['0', 'None', chr(39) + 's' + chr(39)])}", f"{ind}y = x",
              f"{ind}def inner(q: int):", f"{ind * 2}nonlocal x", f"{ind * 2}before = x", f"{ind * 2}x = {rng.choice(['p', '(p, q)', 'q'])}", f"{ind * 2}return (before, x)",
              f"{ind}r = inner(1)", f"{ind}return (r, x, y)"]
    if hist is not None:
        hist["bind:" + kind] = hist.get("bind:" + kind, 0) + 1
    return pre, "\n".join(L) + "\n", [f"({s},)" for s in samples]


def gen_binding_module(rng, nfuncs, hist=None):
    pres, srcs, calls = [], [], {}
    i = 0
    while len(srcs) < nfuncs:
        name = f"b{i}"
        i += 1
        pre, src, tuples = gen_binding_function(rng, name, hist)
        try:
            compile("\n".join(pre) + "\n" + src, "<gen>", "exec")
        except SyntaxError:
            continue
        pres += pre
        srcs.append(src)
        calls[name] = tuples
    return HEADER + "\n".join(pres) + "\n\n" + "\n\n".join(srcs), calls


# ---------------------------------------------------------------------------
# containers built in SEVERAL steps and read back through every reading form: "value written twice, read
# once" for dicts (display + d[k] = ..., update, setdefault, {**base, k: v} with overlapping keys, |=, del,
# pop), lists (index store, append, insert, extend, +=, del, swap), sets, rebinding of tuples, attributes of
# objects, nested containers.  Reads: subscript, .get, match mapping / sequence patterns incl. **rest / *rest,
# unpacking into calls (**d, *l), iteration over items / values / elements, unpacking assignment.
# (Seeded change round 5: visit_MatchMapping no longer reversed kv_pairs: the OLDEST write to a key won.)

_CVALS = ["1", "'x'", "None", "p", "2.5", "(p, 1)", "True", "[p]"]


def gen_container_function(rng, name, hist=None):
    ann, samples = rng.choice(_P_TYPES)
    ind = "    "
    L = [f"def {name}(p: {ann}, q: bool):"]
    kind = rng.choice(["dict", "dict", "dict", "list", "list", "tuple", "attr", "nested"])
    V = lambda: rng.choice(_CVALS)  # noqa: E731
    cnt = [0]

    def rd(expr, i=ind):
        cnt[0] += 1
        return f"{i}r{cnt[0]} = {expr}"

    def maybe_cond(stmt):
        # some writes happen under a condition on the bool parameter (merge of two histories)
        # backed out at the end of round 5: writes under a condition (`if q: d |= {...}`) and in-place set
        # updates expose further defects of the unchanged tree (a mapping pattern on a union of dict values, stacked
        # conditional updates, `s |= {...}` mutating the literal set object of an earlier KnownValue) that could
        # not be classified within the budget; the stream is straight-line for now
        return [ind + stmt]

    if kind == "dict":
        present = {"a", "b"}
        L.append(f"{ind}d = {{'a': {V()}, 'b': {V()}}}")
        for _ in range(rng.randrange(2, 6)):
            k = rng.choice(["a", "a", "a", "b", "c"])
            w = rng.randrange(9)
            if w == 0 or w == 1:
                L += maybe_cond(f"d['{k}'] = {V()}")
                present.add(k)
            elif w == 2:
                L += maybe_cond(f"d.update({{'{k}': {V()}}})")
                present.add(k)
            elif w == 3:
                L += maybe_cond(f"d.update({k}={V()})")
                present.add(k)
            elif w == 4:
                L += maybe_cond(f"d.setdefault('{k}', {V()})")
                present.add(k)
            elif w == 5:
                L += [f"{ind}d = {{**d, '{k}': {V()}}}"]
                present.add(k)
            elif w == 6:
                L += [f"{ind}d = {{'{k}': {V()}, **d}}"]
                present.add(k)
            elif w == 7:
                L += maybe_cond(f"d |= {{'{k}': {V()}}}")
                present.add(k)
            else:
                if k in present and k != "a":
                    L += [f"{ind}del d['{k}']"]
                    present.discard(k)
        for _ in range(rng.randrange(2, 5)):
            k = rng.choice(sorted(present))
            r = rng.choice([0, 1, 2, 3, 4, 4, 4, 5, 6, 7, 8])
            if r == 0 or r == 1:
                L.append(rd(f"d['{k}']"))
            elif r == 2:
                L.append(rd(f"d.get('{k}')"))
            elif r == 3:
                L.append(rd(f"d.get('{k}', 0)"))
            elif r == 4:
                others = [x for x in sorted(present) if x != k]
                extra = f", '{others[0]}': w" if others and rng.random() < 0.5 else ""
                rest = ", **rest" if rng.random() < 0.6 else ""
                L += [f"{ind}match d:", f"{ind * 2}case {{'{k}': v{extra}{rest}}}:",
                      rd("(v" + (", w" if extra else "") + (", rest" if rest else "") + ")", ind * 3)]
            elif r == 5:
                if "a" in present:
                    L.append(rd("lib_get_a(**d)"))
            elif r == 6:
                L += [f"{ind}for k, v in d.items():", rd("(k, v)", ind * 2)]
            elif r == 7:
                L.append(rd(f"(list(d.values()), list(d), len(d), '{k}' in d)"))
            else:
                L.append(rd("d"))
    elif kind == "list":
        L.append(f"{ind}l = [{V()}, {V()}]")
        for _ in range(rng.randrange(2, 6)):
            w = rng.randrange(8)
            stmt = [f"l[{rng.choice(['0', '1', '-1'])}] = {V()}", f"l.append({V()})", f"l.insert(0, {V()})", f"l.extend([{V()}, {V()}])",
                    f"l += [{V()}]", "l[0], l[1] = l[1], l[0]", f"l = [*l, {V()}]", f"l = [{V()}] + l"][w]
            L += maybe_cond(stmt) if w < 6 else [ind + stmt]
        if rng.random() < 0.3:
            L.append(f"{ind}del l[0]")
        for _ in range(rng.randrange(2, 5)):
            r = rng.randrange(8)
            if r < 3:
                L.append(rd(f"l[{rng.choice(['0', '1', '-1', '-2'])}]"))
            elif r == 3:
                L += [f"{ind}for x in l:", rd("x", ind * 2)]
            elif r == 4:
                L += [f"{ind}a, *b = l", rd("(a, b)")]
            elif r == 5:
                L += [f"{ind}match l:", f"{ind * 2}case [a0, *mid, z0]:", rd("(a0, mid, z0)", ind * 3)]
            elif r == 6:
                L.append(rd(rng.choice(["lib_first(l)", "lib_args(*l)", "(*l,)", "tuple(l)"])))
            else:
                L.append(rd("(l, len(l))"))
    elif kind == "set":
        L.append(f"{ind}s = {{{rng.choice(['1', chr(39) + 'x' + chr(39), 'p'])}}}")
        for _ in range(rng.randrange(2, 5)):
            L += maybe_cond(rng.choice([f"s.add({rng.choice(['1', chr(39) + 'y' + chr(39), 'None', 'p', '2.5'])})", "s.discard(1)", f"s |= {{{rng.choice(['None', '2.5', 'p'])}}}",
                                        f"s.update(({rng.choice(['None', '7'])},))"]))
        L += [f"{ind}for x in s:", rd("x", ind * 2), rd("(s, len(s), 1 in s)")]
    elif kind == "tuple":
        L.append(f"{ind}t = ({V()}, {V()})")
        for _ in range(rng.randrange(1, 4)):
            L += maybe_cond(rng.choice([f"t = t + ({V()},)", f"t = (*t, {V()})", f"t = ({V()},) + t", "t = t[1:]", "t = (t[1], t[0])"]))
        L += [rd("t[0]"), rd("t[-1]"), rd("t")]
        if rng.random() < 0.5:
            L += [f"{ind}a, *b = t", rd("(a, b)")]
    elif kind == "attr":
        L.append(f"{ind}x = Inner({rng.choice(['1', 'None', 'p if isinstance(p, int) else 0'])}, {rng.choice(['2', chr(39) + 's' + chr(39)])})")
        for _ in range(rng.randrange(2, 5)):
            L += maybe_cond(rng.choice([f"x.v = {rng.choice(['None', '3', 'p if isinstance(p, int) else None'])}", f"x.w = {rng.choice(['7', chr(39) + 't' + chr(39), 'str(p)'])}",
                                        "x.v, x.w = 5, 'u'"]))
        L += [rd("x.v"), rd("x.w"), rd("(x, x.v, x.w)")]
        if rng.random() < 0.5:
            L += [f"{ind}match x:", f"{ind * 2}case Inner(v=a, w=b):", rd("(a, b)", ind * 3)]
    else:  # nested
        form = rng.randrange(3)
        if form == 0:
            L += [f"{ind}d = {{'a': [{V()}]}}", f"{ind}d['a'].append({V()})", f"{ind}d['a'][0] = {V()}", rd("d['a'][0]"), rd("d['a'][-1]"), rd("d['a']")]
        elif form == 1:
            L += [f"{ind}d = {{'a': {{'k': {V()}}}}}", f"{ind}d['a']['k'] = {V()}"] + maybe_cond(f"d['a'] = {{'k': {V()}}}") + [rd("d['a']['k']"), rd("d['a'].get('k')"), rd("d")]
        else:
            L += [f"{ind}l = [[{V()}], {{'k': {V()}}}]", f"{ind}l[0] = [{V()}, {V()}]", f"{ind}l[1]['k'] = {V()}", rd("l[0][1]"), rd("l[1]['k']"), rd("l")]
    L.append(f"{ind}return ({', '.join('r%d' % (i + 1) for i in range(cnt[0]))},)" if False else f"{ind}return None")
    if hist is not None:
        hist["cont:" + kind] = hist.get("cont:" + kind, 0) + 1
    tuples = [f"({s}, {b},)" for s in samples for b in ("True", "False")]
    return "\n".join(L) + "\n", tuples[:8]


def gen_container_module(rng, nfuncs, hist=None):
    srcs, calls = [], {}
    i = 0
    while len(srcs) < nfuncs:
        name = f"w{i}"
        i += 1
        src, tuples = gen_container_function(rng, name, hist)
        try:
            compile(src, "<gen>", "exec")
        except SyntaxError:
            continue
        srcs.append(src)
        calls[name] = tuples
    return HEADER + "\n\n".join(srcs), calls
