"""C01 — implementation side, run as a subprocess under PYTHONPATH=<repo>.

stdin : JSON {"modules": [{"id":…, "src":…, "calls": {fname: [argtuple_src,…]}, "want_values": bool,
                            "via_annotate_code": bool}], "budget": int}
stdout: "@@JSON " + JSON {"results": [per module …]}

Per module: pyanalyze analyses the source (NameCheckVisitor with annotate=True, default
settings so that diagnostics are collected; a sample goes through the public
ast_annotator.annotate_code and must give the same per-node values), then the same source is
instrumented and really executed under CPython for every argument tuple; at every evaluated
recorded node the oracle tests member(runtime object, node.inferred_value).
"""
from __future__ import annotations

import ast
import json
import sys
import traceback
from pathlib import Path

sys.path.insert(0, str(Path(__file__).resolve().parent))

import c01_oracle as O  # noqa: E402


class _Budget(BaseException):
    pass


BENIGN_CODES = {
    "unused_variable", "unused_assignment", "value_always_true", "type_always_true", "condition_always_true",
    "possibly_undefined_name", "unsafe_comparison", "missing_return_annotation", "missing_parameter_annotation",
    "implicit_reexport", "unused_ignore", "bare_ignore", "inference_failure", "suggested_return_type",
    "suggested_parameter_type", "missing_return", "implicit_any", "reveal_type", "already_declared",
    "use_floor_div", "use_fstrings", "impossible_pattern", "bad_match",
}


def analyse(src: str, via_annotate_code: bool):
    """Returns (tree with inferred_value attributes, diagnostics [(code, lineno)])."""
    from pyanalyze.analysis_lib import make_module
    from pyanalyze.name_check_visitor import ClassAttributeChecker, NameCheckVisitor

    if via_annotate_code:
        from pyanalyze.ast_annotator import annotate_code

        return annotate_code(src), None
    tree = ast.parse(src)
    mod = make_module(src)
    from pyanalyze.name_check_visitor import VisitorState

    class RecordingVisitor(NameCheckVisitor):
        """Same analysis; additionally keeps *every* value a node gets in the checking phase (a node
        can be visited several times there: comprehension over a known iterable, finally bodies);
        node.inferred_value only keeps the last one."""

        def visit(self, node):
            ret = super().visit(node)
            if self.state is VisitorState.check_names:
                node.__dict__.setdefault("c01_values", []).append(ret)
            return ret

        def composite_from_node(self, node):
            c = super().composite_from_node(node)
            if self.state is VisitorState.check_names:
                node.__dict__.setdefault("c01_values", []).append(c.value)
            return c

    kwargs = RecordingVisitor.prepare_constructor_kwargs({})
    options = kwargs["checker"].options
    with ClassAttributeChecker(enabled=True, options=options) as attribute_checker:
        visitor = RecordingVisitor("", src, tree, module=mod, attribute_checker=attribute_checker, annotate=True, **kwargs)
        import contextlib
        import io

        with contextlib.redirect_stdout(io.StringIO()), contextlib.redirect_stderr(io.StringIO()):
            failures = visitor.check(ignore_missing_module=True)
    diags = []
    for f in failures or []:
        code = f.get("code")
        diags.append((getattr(code, "name", str(code)), f.get("lineno")))
    return tree, diags


def function_ranges(tree):
    out = {}
    for n in tree.body:
        if isinstance(n, ast.FunctionDef):
            out[n.name] = (n.lineno, n.end_lineno)
    return out


def short(v, n=300):
    import re

    s = re.sub(r"ctx=<.*?object at 0x[0-9a-f]+>", "@", str(v))
    s = re.sub(r"0x[0-9a-f]+|<test input [0-9a-f]+>", "@", s)
    return s if len(s) <= n else s[: n - 3] + "..."


def run_module(m, budget, oracle):
    src = m["src"]
    res = {"id": m.get("id"), "fails": [], "counts": {}, "diag": [], "values": {}, "crash": None, "exec_errors": {}}
    import signal

    def _alarm(signum, frame):
        raise TimeoutError("analysis did not finish within the time limit")

    signal.signal(signal.SIGALRM, _alarm)
    signal.alarm(int(m.get("analysis_timeout", 25)))
    try:
        tree, diags = analyse(src, m.get("via_annotate_code", False))
    except TimeoutError:
        res["timeout"] = True
        return res
    except Exception:
        res["crash"] = "analysis: " + traceback.format_exc()[-1500:]
        return res
    finally:
        signal.alarm(0)
    inferred = {}
    kinds = {}
    node_of = {}
    for n in ast.walk(tree):
        if isinstance(n, O.PROPERTY_NODES + O.EXTRA_NODES) and hasattr(n, "inferred_value") and hasattr(n, "lineno"):
            vals = [n.inferred_value]
            for v in getattr(n, "c01_values", []):
                # identity only: == on values is a deep comparison of the constraint DAGs they carry
                # (exponential on loop-carried and/or chains)
                if not any(v is w for w in vals):
                    vals.append(v)
            inferred[O.node_key(n)] = vals
            kinds[O.node_key(n)] = type(n).__name__
            node_of[O.node_key(n)] = n
    import c01_classify

    classifier = c01_classify.Classifier(tree, lambda n: getattr(n, "inferred_value", None))
    franges = function_ranges(tree)
    res["diag"] = diags or []
    diagnosed = {}
    for code, ln in diags or []:
        if code in BENIGN_CODES or ln is None:
            continue
        for fn, (a, b) in franges.items():
            if a <= ln <= b:
                diagnosed.setdefault(fn, []).append(code)
    res["diagnosed"] = diagnosed
    if m.get("want_values"):
        import c01_canon

        res["values"] = {k: c01_canon.canon(v[0]) for k, v in inferred.items()}
        # no str() of every value here: the text of a value spells out the constraint DAG it carries as a
        # tree, which is exponential for loop-carried and/or chains (the canonical form strips annotations)
        res["values_str"] = {}
    if m.get("values_str_only"):
        import hashlib
        import re

        res["values_str"] = {k: short(v[0], 200) for k, v in inferred.items()}
        # order-insensitive fingerprint of the full text (union/dict member order is not stable between analyses)
        res["values_fp"] = {k: hashlib.sha1(" ".join(sorted(re.findall(r"[A-Za-z_0-9.'\"+-]+", short(v[0], 100000)))).encode()).hexdigest()[:12] for k, v in inferred.items()}
    calls = m.get("calls") or {}
    if not calls:
        return res
    # ---- instrumented execution
    try:
        itree, keys = O.instrument(src)
        code = compile(itree, "<c01>", "exec")
    except Exception:
        res["crash"] = "instrument: " + traceback.format_exc()[-1500:]
        return res
    state = {"ticks": 0, "fn": None, "args": None, "failed": False}
    counts = {"checked": 0, "ok": 0, "fail": 0, "unknown": 0, "no_inferred": 0, "consequent": 0, "first_fails": 0}
    per_kind = {}
    fails = res["fails"]
    seen_fail = set()
    evaluated_nodes = set()

    def rec(key, val):
        state["ticks"] += 1
        if state["ticks"] > budget:
            raise _Budget()
        if state["fn"] is None:
            return val
        ivs = inferred.get(key)
        if ivs is None:
            counts["no_inferred"] += 1
            return val
        counts["checked"] += 1
        evaluated_nodes.add(key)
        try:
            r = O._or3(oracle.member(val, iv) for iv in ivs)
        except _Budget:
            raise
        except Exception:
            r = None
            oracle.unknown("oracle-exception")
        iv = ivs[0] if len(ivs) == 1 else " || ".join(str(x) for x in ivs)
        k = kinds[key]
        pk = per_kind.setdefault(k, [0, 0, 0])
        if r is True:
            counts["ok"] += 1
            pk[0] += 1
        elif r is None:
            counts["unknown"] += 1
            pk[2] += 1
        else:
            counts["fail"] += 1
            pk[1] += 1
            if state["failed"]:
                counts["consequent"] += 1
                return val
            state["failed"] = True
            counts["first_fails"] += 1
            sig = (state["fn"], key)
            if sig not in seen_fail:
                seen_fail.add(sig)
                try:
                    rv = repr(val)[:200]
                except Exception:
                    rv = "<unreprable>"
                is_never = str(iv) in ("Never", "NoReturn")
                try:
                    finding = classifier.classify(state["fn"], node_of[key], val)
                except Exception:
                    finding = None
                    oracle.unknown("classifier-exception")
                fails.append({"fn": state["fn"], "args": state["args"], "node": key, "kind": k, "runtime": rv,
                              "runtime_type": type(val).__name__, "inferred": short(iv), "never": is_never,
                              "diagnosed": diagnosed.get(state["fn"], []), "finding": finding,
                              "expr": ast.unparse(node_of[key])[:80]})
        return val

    def tick():
        state["ticks"] += 1
        if state["ticks"] > budget:
            raise _Budget()

    ns = {"__name__": "c01_exec", "__c01_rec": rec, "__c01_tick": tick}
    try:
        exec(code, ns)
    except BaseException:
        res["crash"] = "module exec: " + traceback.format_exc()[-1500:]
        return res
    ncalls = 0
    for fn, arglist in calls.items():
        f = ns.get(fn)
        for argsrc in arglist:
            try:
                args = eval(argsrc, ns)
            except Exception:
                res["exec_errors"]["arg-eval"] = res["exec_errors"].get("arg-eval", 0) + 1
                continue
            state["fn"], state["args"], state["ticks"], state["failed"] = fn, argsrc, 0, False
            ncalls += 1
            try:
                f(*args)
            except _Budget:
                res["exec_errors"]["budget"] = res["exec_errors"].get("budget", 0) + 1
            except RecursionError:
                res["exec_errors"]["recursion"] = res["exec_errors"].get("recursion", 0) + 1
            except BaseException as ex:  # generated programs raise BaseException subclasses on purpose (Halt, KeyboardInterrupt, groups)
                nm = type(ex).__name__
                res["exec_errors"][nm] = res["exec_errors"].get(nm, 0) + 1
            finally:
                state["fn"] = None
    counts["calls"] = ncalls
    counts["nodes_evaluated"] = len(evaluated_nodes)
    counts["nodes_total"] = len(keys)
    res["counts"] = counts
    res["per_kind"] = per_kind
    return res


def shrink_case(m, budget, oracle):
    """m: {"src": header + one function, "fn":…, "args": [one argument tuple source]}"""
    import c01_shrink

    def undiagnosed(src):
        r = run_module({"src": src, "calls": {m["fn"]: m["args"]}}, budget, oracle)
        if r.get("crash"):
            return []
        fs = [f for f in r["fails"] if not f["diagnosed"]]
        if m.get("new_only"):
            fs = [f for f in fs if not f.get("finding")]
        return fs

    def still(src):
        try:
            return bool(undiagnosed(src))
        except Exception:
            return False

    if not still(m["src"]):
        return {"src": m["src"], "trials": 0, "fails": [], "note": "does not fail in isolation"}
    small, trials = c01_shrink.shrink(m["src"], still, m.get("max_trials", 400))
    return {"src": small, "trials": trials, "fails": undiagnosed(small)}


def main():
    payload = json.loads(sys.stdin.read())
    oracle = O.Oracle()
    if "shrink" in payload:
        out = [shrink_case(m, payload.get("budget", 3000), oracle) for m in payload["shrink"]]
        print("@@JSON " + json.dumps({"shrunk": out}, default=str))
        return
    out = []
    for m in payload["modules"]:
        try:
            out.append(run_module(m, payload.get("budget", 3000), oracle))
        except Exception:
            out.append({"id": m.get("id"), "crash": "harness: " + traceback.format_exc()[-1500:], "fails": [], "counts": {}})
    print("@@JSON " + json.dumps({"results": out, "unknown_kinds": oracle.unknown_kinds, "custom_checked": oracle.custom_checked}, default=str))


if __name__ == "__main__":
    main()
