"""C01 — the tie between the Coq model (Infer/Mini.v) and pyanalyze.

Generated mini-language programs (the fragment of Mini.v: atom literals, names, tuples, subscripts with
literal index, IfExp, `is None` / isinstance / `== literal` / not / and / or, assignment, if/else, while,
return) are rendered to Python source *and* to a Gallina term.  For each program:

  impl  : pyanalyze's per-node inferred value (canonicalised, c01_canon.py) for every labelled node;
  model : Mini.aexec under vm_compute gives the model's per-node value (same canonical form);
          loop invariants are not assumed: the candidate for each loop is pyanalyze's own value of every
          variable at the loop head (the loop test is `(c, x, y, ...)[0]`, which evaluates every variable
          there), and aexec *checks* it;
  spec  : Mini.run_check executes the program in the model's concrete semantics on argument tuples drawn
          from the declared parameter types and tests member(object, annotation) for every trace entry;
          the same Python source is executed by the differential oracle in c01.py's main stream as well.

Verdicts: model value != pyanalyze value on a node          -> broken correspondence (or a failing input if
          the instrumented execution finds one);
          run_check = Some false                            -> the model itself is unsound there (cannot
          happen inside the guard by C01_run_check_never_false; outside the guard it marks the == defect).
"""
from __future__ import annotations

import ast
import json

import c01_canon
import lib

STRS = ["", "a", "b", "ab"]
CLSES = [("object", "CObject"), ("int", "CInt"), ("bool", "CBool"), ("str", "CStr"), ("tuple", "CTuple")]

# parameter types: annotation, model value, sample objects (python source)
PTYPES = [
    ("int", "VTyped CInt", ["0", "1", "-1", "True"]),
    ("bool", "VTyped CBool", ["True", "False"]),
    ("str", "VTyped CStr", ['""', '"a"']),
    ("object", "VTyped CObject", ["None", "1", '"a"', "(1, 2)", "False"]),
    ("Optional[int]", "VUnion [VTyped CInt; VKnown ONone]", ["None", "0", "2"]),
    ("Optional[str]", "VUnion [VTyped CStr; VKnown ONone]", ["None", '""', '"ab"']),
    ("Union[int, str]", "VUnion [VTyped CInt; VTyped CStr]", ["0", "3", '""', '"b"']),
    ("Union[int, str, None]", "VUnion [VTyped CInt; VTyped CStr; VKnown ONone]", ["0", '"a"', "None", "True"]),
    ("tuple[int, str]", "VSeq [VTyped CInt; VTyped CStr]", ['(1, "a")', '(0, "")']),
    ("Union[tuple[int, str], None]", "VUnion [VSeq [VTyped CInt; VTyped CStr]; VKnown ONone]", ['(1, "a")', "None"]),
    ("Union[tuple[int, str], tuple[str, int, None]]", "VUnion [VSeq [VTyped CInt; VTyped CStr]; VSeq [VTyped CStr; VTyped CInt; VKnown ONone]]", ['(1, "a")', '("b", 0, None)']),
    ("Optional[bool]", "VUnion [VTyped CBool; VKnown ONone]", ["None", "True", "False"]),
]


# ---------------------------------------------------------------------------
# mini AST (python tuples): ("lit", o) ("name", x) ("tuple", [e]) ("sub", e, i) ("ifexp", c, a, b)
# ("isnone", e) ("isinst", e, cls_index) ("eq", e, o) ("not", e) ("and", a, b) ("or", a, b)
# statements: ("assign", x, e) ("if", c, [s], [s]) ("while", c, [vars], [s]) ("return", e)


def gen_lit(rng, numeric_ok=True):
    r = rng.random()
    if r < 0.2:
        return None
    if r < 0.5 and numeric_ok:
        return rng.choice([0, 1, 2, -1])
    if r < 0.6 and numeric_ok:
        return rng.choice([True, False])
    return rng.choice(STRS)


def gen_expr(rng, vars_, d, numeric_eq, no_tuple=False):
    """value expressions.  Condition forms (is None / isinstance / == / not) are generated in test
    positions only (gen_cond): pyanalyze attaches constraints to their *values*, which then travel
    through variables (`x = p is None; if x: ...` narrows p) — a mechanism Mini.v does not model."""
    r = rng.random()
    if d <= 0 or r < 0.3:
        if vars_ and rng.random() < 0.7:
            return ("name", rng.choice(vars_))
        return ("lit", gen_lit(rng))
    E = lambda: gen_expr(rng, vars_, d - 1, numeric_eq, no_tuple)  # noqa: E731
    k = rng.choice(["tuple", "tuple", "sub", "sub", "ifexp", "ifexp", "and", "or", "add", "callid", "callint"])
    if k in ("add", "callint"):
        # int-like operands only: int/bool literals and parameters declared int / bool
        def intlike():
            ip = [v for v in vars_ if v in _INT_PARAMS]
            if ip and rng.random() < 0.6:
                return ("name", rng.choice(ip))
            return ("lit", rng.choice([0, 1, 2, -1, True, False]))
        if k == "add":
            return ("add", intlike(), intlike() if rng.random() < 0.8 else ("add", intlike(), intlike()))
        return ("callint", intlike())
    if k == "callid":
        return ("callid", E())
    if no_tuple and k in ("tuple", "sub"):
        # inside loops: no tuple construction (a loop-carried tuple grows on every pass of the analysis
        # and pyanalyze did not terminate on such programs; reported under C12, avoided here)
        k = "ifexp"
    if k == "tuple":
        return ("tuple", [E() for _ in range(rng.randrange(1, 4))])
    if k == "sub":
        # mostly well-typed subscripts: a tuple display with an index in range, or a parameter declared
        # tuple[int, str]; a small share of arbitrary ones (out of range / non-sequence: the model
        # leaves the fragment there, pyanalyze reports an error)
        tp = [v for v in vars_ if v in _TUPLE_PARAMS]
        r2 = rng.random()
        if r2 < 0.08 and vars_:
            return ("sub", ("name", rng.choice(vars_)), rng.choice([0, 1, -1, -2, 2]))
        if tp and r2 < 0.5:
            return ("sub", ("name", rng.choice(tp)), rng.choice([0, 1, -1, -2]))
        n = rng.randrange(1, 4)
        return ("sub", ("tuple", [E() for _ in range(n)]), rng.randrange(-n, n))
    if k == "ifexp":
        return ("ifexp", gen_cond(rng, vars_, d - 1, numeric_eq), E(), E())
    return (k, E(), E())


def gen_cond(rng, vars_, d, numeric_eq):
    """a condition that narrows: atoms on variables combined with not/and/or"""
    r = rng.random()
    if not vars_:
        return ("lit", gen_lit(rng))
    x = ("name", rng.choice(vars_))
    if d <= 0 or r < 0.6:
        k = rng.randrange(5)
        if k == 0:
            return x
        if k == 1:
            return ("isnone", x)
        if k == 2:
            return ("isinst", x, rng.randrange(len(CLSES)))
        if k == 3:
            return ("eq", x, gen_lit(rng, numeric_eq))
        return ("not", x)
    if r < 0.7:
        return ("not", gen_cond(rng, vars_, d - 1, numeric_eq))
    return (rng.choice(["and", "or"]), gen_cond(rng, vars_, d - 1, numeric_eq), gen_cond(rng, vars_, d - 1, numeric_eq))


def gen_block(rng, vars_, n, depth, numeric_eq, in_loop=False):
    nt = in_loop
    """vars_: list of defined variable ids (mutated: new locals are appended)"""
    out = []
    for _ in range(n):
        r = rng.random()
        if depth > 0 and r < 0.25:
            c = gen_cond(rng, vars_, 2, numeric_eq)
            va, vb = list(vars_), list(vars_)
            a = gen_block(rng, va, rng.randrange(1, 3), depth - 1, numeric_eq, in_loop)
            b = gen_block(rng, vb, rng.randrange(0, 3), depth - 1, numeric_eq, in_loop) if rng.random() < 0.7 else []
            out.append(("if", c, a, b))
            # only variables defined on both paths stay defined (a returning branch defines everything)
            ra = a and a[-1][0] == "return"
            rb = b and b[-1][0] == "return"
            if ra and rb:
                return out
            keep = [v for v in (va if not ra else vb) if (ra or v in va) and (rb or v in vb)]
            vars_[:] = [v for v in keep]
        elif depth > 0 and r < 0.35 and not in_loop and vars_:
            c = gen_expr(rng, vars_, 1, numeric_eq, True)
            hv = list(vars_)
            bv = list(vars_)
            body = gen_block(rng, bv, rng.randrange(1, 3), depth - 1, numeric_eq, True)
            body = [s for s in body if s[0] != "return"] or [("assign", hv[0], ("name", hv[0]))]
            # assignments to variables not defined before the loop are dropped (keeps the head variables total)
            body = [s for s in strip_new(body, set(hv))]
            out.append(("while", c, hv, body or [("assign", hv[0], ("name", hv[0]))]))
        elif r < 0.42 and depth < 2:
            out.append(("return", gen_expr(rng, vars_, 3, numeric_eq, nt)))
            return out
        else:
            x = rng.choice([3, 4, 5] + (vars_[:1] if False else []))
            out.append(("assign", x, gen_expr(rng, vars_, 2 if nt else 3, numeric_eq, nt)))
            if x not in vars_:
                vars_.append(x)
    return out


def strip_new(body, allowed):
    out = []
    for s in body:
        if s[0] == "assign":
            if s[1] in allowed:
                out.append(s)
        elif s[0] == "if":
            a, b = strip_new(s[2], allowed), strip_new(s[3], allowed)
            if not a:
                a = [("assign", sorted(allowed)[0], ("name", sorted(allowed)[0]))]
            out.append(("if", s[1], a, b))
        else:
            out.append(s)
    return out


def uses_only(e, allowed):
    if e[0] == "name":
        return e[1] in allowed
    return all(uses_only(x, allowed) for x in e[1:] if isinstance(x, tuple)) and all(
        uses_only(y, allowed) for x in e[1:] if isinstance(x, list) for y in x
    )


_TUPLE_PARAMS = set()
_INT_PARAMS = set()


def gen_program(rng, numeric_eq):
    np_ = rng.randrange(1, 4)
    ptypes = [rng.randrange(len(PTYPES)) for _ in range(np_)]
    _TUPLE_PARAMS.clear()
    _TUPLE_PARAMS.update(i for i, t in enumerate(ptypes) if PTYPES[t][0] == "tuple[int, str]")
    _INT_PARAMS.clear()
    _INT_PARAMS.update(i for i, t in enumerate(ptypes) if PTYPES[t][0] in ("int", "bool"))
    vars_ = list(range(np_))
    body = gen_block(rng, vars_, rng.randrange(2, 6), 2, numeric_eq)
    if not body or body[-1][0] != "return":
        body.append(("return", ("tuple", [("name", v) for v in vars_])))
    return {"ptypes": ptypes, "body": body}


# ---------------------------------------------------------------------------
# rendering: python AST + Coq term with shared labels


def vname(x, nparams):
    return f"p{x}" if x < nparams else f"x{x}"


class Render:
    def __init__(self, prog, fname):
        self.prog = prog
        self.np = len(prog["ptypes"])
        self.fname = fname
        self.nodes = []  # label -> python ast node (filled by build), in label order
        self.loops = []  # (loop label, head vars, python tuple elts nodes)

    def label(self, node):
        self.nodes.append(node)
        return len(self.nodes) - 1

    def lit_py(self, o):
        return ast.Constant(o)

    def lit_coq(self, o):
        if o is None:
            return "ONone"
        if isinstance(o, bool):
            return f"(OBool {lib.cbool(o)})"
        if isinstance(o, int):
            return f"(OInt {lib.cz(o)})"
        return f"(OStr {STRS.index(o)}%nat)"

    def expr(self, e):
        """returns (python ast, coq term)"""
        k = e[0]
        if k == "lit":
            py = self.lit_py(e[1])
            if isinstance(e[1], int) and not isinstance(e[1], bool) and e[1] < 0:
                py = ast.UnaryOp(ast.USub(), ast.Constant(-e[1]))
            n = self.label(py)
            return py, f"(ELit {n} {self.lit_coq(e[1])})"
        if k == "name":
            py = ast.Name(vname(e[1], self.np), ast.Load())
            n = self.label(py)
            return py, f"(EName {n} {e[1]})"
        if k == "tuple":
            py = ast.Tuple([], ast.Load())
            n = self.label(py)
            parts = [self.expr(x) for x in e[1]]
            py.elts = [p for p, _ in parts]
            return py, f"(ETuple {n} [{'; '.join(c for _, c in parts)}])"
        if k == "sub":
            py = ast.Subscript(None, None, ast.Load())
            n = self.label(py)
            b, cb = self.expr(e[1])
            py.value = b
            i = e[2]
            py.slice = ast.Constant(i) if i >= 0 else ast.UnaryOp(ast.USub(), ast.Constant(-i))
            return py, f"(ESub {n} {cb} {lib.cz(i)})"
        if k == "ifexp":
            py = ast.IfExp(None, None, None)
            n = self.label(py)
            (c, cc), (a, ca), (b, cb) = self.expr(e[1]), self.expr(e[2]), self.expr(e[3])
            py.test, py.body, py.orelse = c, a, b
            return py, f"(EIfExp {n} {cc} {ca} {cb})"
        if k == "isnone":
            py = ast.Compare(None, [ast.Is()], [ast.Constant(None)])
            n = self.label(py)
            a, ca = self.expr(e[1])
            py.left = a
            return py, f"(EIsNone {n} {ca})"
        if k == "isinst":
            py = ast.Call(ast.Name("isinstance", ast.Load()), [], [])
            n = self.label(py)
            a, ca = self.expr(e[1])
            py.args = [a, ast.Name(CLSES[e[2]][0], ast.Load())]
            return py, f"(EIsInst {n} {ca} {CLSES[e[2]][1]})"
        if k == "eq":
            py = ast.Compare(None, [ast.Eq()], [self.lit_py(e[2]) if not (isinstance(e[2], int) and not isinstance(e[2], bool) and e[2] < 0) else ast.UnaryOp(ast.USub(), ast.Constant(-e[2]))])
            n = self.label(py)
            a, ca = self.expr(e[1])
            py.left = a
            return py, f"(EEq {n} {ca} {self.lit_coq(e[2])})"
        if k == "not":
            py = ast.UnaryOp(ast.Not(), None)
            n = self.label(py)
            a, ca = self.expr(e[1])
            py.operand = a
            return py, f"(ENot {n} {ca})"
        if k == "add":
            py = ast.BinOp(None, ast.Add(), None)
            n = self.label(py)
            (a, ca), (b, cb) = self.expr(e[1]), self.expr(e[2])
            py.left, py.right = a, b
            return py, f"(EAdd {n} {ca} {cb})"
        if k in ("callid", "callint"):
            py = ast.Call(ast.Name("lib_ident" if k == "callid" else "lib_int", ast.Load()), [], [])
            n = self.label(py)
            a, ca = self.expr(e[1])
            py.args = [a]
            return py, f"({'ECallId' if k == 'callid' else 'ECallInt'} {n} {ca})"
        if k in ("and", "or"):
            py = ast.BoolOp(ast.And() if k == "and" else ast.Or(), [])
            n = self.label(py)
            (a, ca), (b, cb) = self.expr(e[1]), self.expr(e[2])
            py.values = [a, b]
            return py, f"({'EAnd' if k == 'and' else 'EOr'} {n} {ca} {cb})"
        raise ValueError(k)

    def block(self, ss):
        pys, cqs = [], []
        for s in ss:
            if s[0] == "assign":
                e, c = self.expr(s[2])
                pys.append(ast.Assign([ast.Name(vname(s[1], self.np), ast.Store())], e))
                cqs.append(f"SAssign {s[1]} {c}")
            elif s[0] == "return":
                e, c = self.expr(s[1])
                pys.append(ast.Return(e))
                cqs.append(f"SReturn {c}")
            elif s[0] == "if":
                e, c = self.expr(s[1])
                a, ca = self.block(s[2])
                b, cb = self.block(s[3])
                pys.append(ast.If(e, a or [ast.Pass()], b))
                cqs.append(f"SIf {c} {ca} {cb}")
            elif s[0] == "while":
                # test: (c, v1, v2, ...)[0]
                sub = ast.Subscript(None, ast.Constant(0), ast.Load())
                nsub = self.label(sub)
                tup = ast.Tuple([], ast.Load())
                ntup = self.label(tup)
                e, c = self.expr(s[1])
                names = []
                for v in s[2]:
                    nm = ast.Name(vname(v, self.np), ast.Load())
                    names.append((v, self.label(nm), nm))
                tup.elts = [e] + [nm for _, _, nm in names]
                sub.value = tup
                ctest = f"(ESub {nsub} (ETuple {ntup} [{'; '.join([c] + [f'(EName {l} {v})' for v, l, _ in names])}]) (0)%Z)"
                body, cbody = self.block(s[3])
                loop_label = len(self.loops)
                self.loops.append((loop_label, [(v, l) for v, l, _ in names]))
                pys.append(ast.While(sub, body or [ast.Pass()], []))
                cqs.append(f"SWhile {loop_label} {ctest} {cbody}")
        return pys, "[" + "; ".join(cqs) + "]"


def param_env_coq(prog):
    return "[" + "; ".join(f"({i}, {PTYPES[t][1]})" for i, t in enumerate(prog["ptypes"])) + "]"


def obj_coq(o):
    if o is None:
        return "ONone"
    if isinstance(o, bool):
        return f"(OBool {lib.cbool(o)})"
    if isinstance(o, int):
        return f"(OInt {lib.cz(o)})"
    if isinstance(o, str):
        return f"(OStr {STRS.index(o)}%nat)"
    return "(OTuple [" + "; ".join(obj_coq(x) for x in o) + "])"


def val_coq(c):
    """canonical JSON value -> Gallina val"""
    if c == "any":
        return "VAny"
    if c == ["never"]:
        return "(VUnion [])"
    t = c[0]
    if t == "k":
        return f"(VKnown {cobj_coq(c[1])})"
    if t == "ty":
        return "(VTyped " + {"object": "CObject", "int": "CInt", "bool": "CBool", "str": "CStr", "tuple": "CTuple", "NoneType": "CNoneT"}[c[1]] + ")"
    if t == "seq":
        return "(VSeq [" + "; ".join(val_coq(x) for x in c[1]) + "])"
    if t == "u":
        return "(VUnion [" + "; ".join(val_coq(x) for x in c[1]) + "])"
    raise ValueError(c)


def cobj_coq(o):
    if o == "None":
        return "ONone"
    if o[0] == "b":
        return f"(OBool {lib.cbool(o[1])})"
    if o[0] == "i":
        return f"(OInt {lib.cz(o[1])})"
    if o[0] == "s":
        return f"(OStr {o[1]}%nat)"
    return "(OTuple [" + "; ".join(cobj_coq(x) for x in o[1]) + "])"


def desym(t):
    if isinstance(t, lib.Sym):
        return t.name
    if isinstance(t, tuple):
        return tuple(desym(x) for x in t)
    if isinstance(t, list):
        return [desym(x) for x in t]
    return t


def model_val_canon(t):
    """parsed vm_compute output of a Mini.val -> canonical JSON"""
    t = desym(t)
    if t == "VAny":
        return "any"
    if isinstance(t, tuple):
        h = t[0]
        if h == "VKnown":
            return ["k", model_obj_canon(t[1])]
        if h == "VTyped":
            return ["ty", {"CObject": "object", "CInt": "int", "CBool": "bool", "CStr": "str", "CTuple": "tuple", "CNoneT": "NoneType"}[t[1]]]
        if h == "VSeq":
            return ["seq", [model_val_canon(x) for x in t[1]]]
        if h == "VUnion":
            return ["u", [model_val_canon(x) for x in t[1]]]
    raise ValueError(f"unexpected model value {t!r}")


def model_obj_canon(t):
    t = desym(t)
    if t == "ONone":
        return "None"
    h = t[0]
    if h == "OBool":
        return ["b", 1 if t[1] in (True, "true") else 0]
    if h == "OInt":
        return ["i", t[1]]
    if h == "OStr":
        return ["s", t[1]]
    if h == "OTuple":
        return ["t", [model_obj_canon(x) for x in t[1]]]
    raise ValueError(t)


EXACT_KINDS = ("Call:isinstance", "Call:lib_int", "Compare", "UnaryOp")  # lib_ident(e) is as exact as e is
AGREEMENT_MIN = 0.90
NARROWER_MAX = 0.06

HEADER = "From Coq Require Import ZArith List Bool. Import ListNotations.\nRequire Import PV.Infer.Mini.\nOpen Scope nat_scope."


def bool_widen(model, impl):
    """the model gives `bool` to comparisons / not; pyanalyze may know the literal"""
    return model == ["ty", "bool"] and impl in (["k", ["b", 0]], ["k", ["b", 1]])


def build_cases(rng, n, numeric_eq):
    return [{"prog": gen_program(rng, numeric_eq)} for _ in range(n)]


def render_case(c, fname):
    r = Render(c["prog"], fname)
    body, cbody = r.block(c["prog"]["body"])
    args = ast.arguments(posonlyargs=[], args=[ast.arg(f"p{i}", ast.parse(PTYPES[t][0], mode="eval").body) for i, t in enumerate(c["prog"]["ptypes"])],
                         kwonlyargs=[], kw_defaults=[], defaults=[])
    fn = ast.FunctionDef(fname, args, body, [], None, type_params=[])
    ast.fix_missing_locations(fn)
    r.built = fn
    c.update(fname=fname, render=r, cbody=cbody, src=ast.unparse(fn) + "\n")


def analyse_cases(cases, per_module=25):
    """run pyanalyze on the rendered programs; fills case['impl'] = {label: canon} and case['keys']"""
    import c01_gen

    mods = []
    for k in range(0, len(cases), per_module):
        chunk = cases[k : k + per_module]
        src = c01_gen.HEADER + "\n\n".join(c["src"] for c in chunk)
        calls = {}
        for c in chunk:
            samples = [PTYPES[t][2] for t in c["prog"]["ptypes"]]
            n = max(len(s) for s in samples)
            calls[c["fname"]] = list(dict.fromkeys("(" + ", ".join(s[j % len(s)] for s in samples) + ",)" for j in range(n)))
            c["args"] = calls[c["fname"]]
        mods.append({"id": k, "src": src, "calls": calls, "want_values": True})
    import c01

    results, _, _ = c01.run_sharded(mods)
    by_id = {r["id"]: r for r in results}
    import c01_oracle as O

    for k in range(0, len(cases), per_module):
        chunk = cases[k : k + per_module]
        res = by_id[k]
        if res.get("crash"):
            raise RuntimeError("mini module crashed: " + res["crash"])
        if res.get("timeout"):
            for c in chunk:
                c["skip"] = True
                c["timeout"] = True
                c["impl"], c["keys"], c["fails"], c["impl_str"] = {}, {}, [], {}
            continue
        src = [m for m in mods if m["id"] == k][0]["src"]
        tree = ast.parse(src)
        fns = {n.name: n for n in tree.body if isinstance(n, ast.FunctionDef)}
        for c in chunk:
            parsed = fns[c["fname"]]
            # parallel walk of the built tree (labels) and the parsed tree in the module (positions)
            r = c["render"]
            label_of = {id(n): i for i, n in enumerate(r.nodes)}
            keys = {}

            def walk(a, b):
                if id(a) in label_of:
                    keys[label_of[id(a)]] = O.node_key(b)
                for (fa, va), (fb, vb) in zip(ast.iter_fields(a), ast.iter_fields(b)):
                    if isinstance(va, list):
                        for x, y in zip(va, vb):
                            if isinstance(x, ast.AST):
                                walk(x, y)
                    elif isinstance(va, ast.AST):
                        walk(va, vb)

            walk(c["render"].built, parsed)
            c["keys"] = keys
            c["impl"] = {lab: res["values"].get(key) for lab, key in keys.items()}
            c["impl_str"] = {lab: res.get("values_str", {}).get(key) for lab, key in keys.items()}
            c["fails"] = [f for f in res["fails"] if f["fn"] == c["fname"]]
            c["diagnosed"] = res.get("diagnosed", {}).get(c["fname"], [])
    return cases


def correspondence(rep, proof, tier, rng, found_input):
    n = 100 if tier == "quick" else 700
    model_ok = proof is not None and not any("build failed" in b for b in proof.broken)
    cov = {"programs": 0, "evaluations": 0, "distinct_nontrivial": 0}
    if not model_ok:
        cov["skipped"] = "model did not build"
        return cov
    # two streams: inside the guard (== only against None / strings) and outside (numeric == allowed)
    cases = build_cases(rng, n, numeric_eq=False) + build_cases(rng, n // 4, numeric_eq=True)
    for i, c in enumerate(cases):
        render_case(c, f"m{i}")
    analyse_cases(cases)
    # model: per program one term (annotations) + one run_check per argument tuple
    terms = []
    meta = []
    skipped_unknown = 0
    for ci, c in enumerate(cases):
        r = c["render"]
        if c.get("skip"):
            continue
        # loop invariants from pyanalyze's own loop-head values
        inv_entries = []
        bad = False
        for loop_label, hv in r.loops:
            ents = []
            for v, lab in hv:
                cv = c["impl"].get(lab)
                if cv is None or c01_canon.has_unknown(cv):
                    bad = True
                    break
                ents.append(f"({v}, {val_coq(cv)})")
            inv_entries.append(f"| {loop_label} => [{'; '.join(ents)}]")
        if bad:
            skipped_unknown += 1
            c["skip"] = True
            continue
        inv = "(fun n => match n with " + " ".join(inv_entries) + " | _ => [] end)"
        c["inv"] = inv
        penv = param_env_coq(c["prog"])
        terms.append(f"option_map fst (aexec {inv} {c['cbody']} {penv})")
        meta.append((ci, "annots", None))
        for a in c["args"]:
            objs = eval(a, {})
            env = "[" + "; ".join(f"({i}, {obj_coq(o)})" for i, o in enumerate(objs)) + "]"
            terms.append(f"run_check {inv} 200 {penv} {env} {c['cbody']}")
            meta.append((ci, "run", a))
    results = lib.coq_eval(HEADER, terms, name="c01", shard=120, jobs=6)
    mism = []
    run_false = []
    rejected = 0
    n_nodes = 0
    n_equal = 0
    n_widen = 0
    n_unknown_nodes = 0
    n_eq_skipped = 0
    per_kind = {}
    n_den_equal = n_impl_wider = n_impl_narrower = n_incomparable = 0
    kinds = {}
    loops = 0
    for (ci, what, arg), res in zip(meta, results):
        c = cases[ci]
        if what == "annots":
            loops += len(c["render"].loops)
            if res is None:
                c["rejected"] = True
                rejected += 1
                continue
            ann = {}
            for ent in res[1]:
                lab, v = ent
                ann.setdefault(lab, []).append(c01_canon.normalize(model_val_canon(v)))
            for lab, vs in ann.items():
                impl = c["impl"].get(lab)
                node = c["render"].nodes[lab]
                kn = type(node).__name__
                if isinstance(node, ast.Call) and isinstance(node.func, ast.Name):
                    kn = "Call:" + node.func.id
                if impl is None:
                    continue  # node pyanalyze did not visit (dead code after narrowing): nothing to compare
                if c01_canon.has_unknown(impl):
                    n_unknown_nodes += 1
                    continue
                if isinstance(node, (ast.Compare, ast.BoolOp, ast.UnaryOp)) and any(isinstance(x, ast.Eq) for x in ast.walk(node)):
                    n_eq_skipped += 1   # the result type of == (bool / Any by the operand's __eq__) is not modelled
                    continue
                n_nodes += 1
                kinds[kn] = kinds.get(kn, 0) + 1
                m = vs[-1]
                pk = per_kind.setdefault(kn, {"equal": 0, "bool_vs_literal_bool": 0, "same_denotation": 0, "impl_wider": 0, "impl_narrower": 0, "incomparable": 0})
                if m == impl:
                    pk["equal"] += 1
                elif bool_widen(m, impl):
                    pk["bool_vs_literal_bool"] += 1
                else:
                    _dm, _di = denote(m), denote(impl)
                    pk["same_denotation" if _dm == _di else "impl_wider" if _di > _dm else "impl_narrower" if _di < _dm else "incomparable"] += 1
                if m == impl:
                    n_equal += 1
                elif bool_widen(m, impl):
                    n_widen += 1
                else:
                    dm, di = denote(m), denote(impl)
                    if dm == di:
                        n_den_equal += 1
                    elif di > dm:
                        n_impl_wider += 1
                    elif di < dm:
                        n_impl_narrower += 1
                        mism.append((ci, lab, kn, m, impl))
                    else:
                        n_incomparable += 1
                        mism.append((ci, lab, kn, m, impl))
        else:
            if c.get("rejected") or c.get("skip"):
                continue
            res = desym(res)
            if res is not None and res[0] == "Some" and res[1] in (False, "false"):
                run_false.append((ci, arg))
    # verdicts
    impl_fail = [(ci, f) for ci, c in enumerate(cases) for f in c.get("fails", []) if not f["diagnosed"] and not f.get("finding")]
    known = {f["id"]: f for f in lib.load_known_findings("C01")["findings"]}
    for ci, c in enumerate(cases):
        for f in c.get("fails", []):
            if not f["diagnosed"] and f.get("finding") in known:
                rep.known(f["finding"], known[f["finding"]]["what"])
    for ci, f in impl_fail[:3]:
        c = cases[ci]
        import c01_gen

        rep.violation({"kind": "failing-input", "input": {"src": c01_gen.HEADER + c["src"], "fn": c["fname"], "args": [f["args"]]},
                       "observed": {"node": f["node"], "expr": f.get("expr"), "inferred": f["inferred"]},
                       "expected": {"runtime_object": f["runtime"], "claim": "member(runtime object, inferred value)"}, "oracle": "instrumented execution (mini-language stream)"})
    agree = n_equal + n_widen + n_den_equal
    rate = agree / max(1, n_nodes)
    cov["agreement_rate"] = round(rate, 4)
    # The model is not a clone of every narrowing detail (see design.d/C01.md): values that differ are
    # compared by denotation on a finite universe; the tie is considered broken when fewer than
    # AGREEMENT_MIN of the compared nodes denote the same set, or more than NARROWER_MAX are strictly
    # narrower in pyanalyze than in the (proved sound) model.
    guard_mism = [m for m in mism] if (rate < AGREEMENT_MIN or (n_impl_narrower + n_incomparable) / max(1, n_nodes) > NARROWER_MAX) else []
    # constructs on which the model is exact (isinstance calls, `is None` comparisons, `not`): every node must agree
    exact_bad = [m for m in mism if m[2] in EXACT_KINDS]
    for kn in EXACT_KINDS:
        pk = per_kind.get(kn, {})
        if pk.get("impl_wider", 0) + pk.get("same_denotation", 0):
            exact_bad.append((None, None, kn, "non-identical value on an exact construct", pk))
    cov["exact_constructs"] = {kn: per_kind.get(kn, {}) for kn in EXACT_KINDS}
    if exact_bad and not guard_mism and exact_bad[0][0] is not None:
        guard_mism = exact_bad
    if guard_mism and not (found_input or impl_fail):
        ci, lab, kn, m, impl = guard_mism[0]
        c = cases[ci]
        rep.violation({"kind": "broken-correspondence", "correspondence": "Mini.aexec (per-node value) vs NameCheckVisitor per-node inferred_value",
                       "input": {"kind": "mini", "prog": c["prog"], "src": c["src"]}, "node": c["keys"].get(lab), "node_kind": kn,
                       "observed": json.dumps(impl)[:300], "model": m, "impl_canonical": impl}, no_failing_input=True)
    # run_check = Some false outside the guard is the model reproducing the == defect; inside the guard it contradicts the theorem
    for ci, arg in run_false[:50]:
        c = cases[ci]
        if guarded(c["prog"]):
            rep.violation({"kind": "broken-obligation", "theorem": "C01_run_check_never_false (model evaluation contradicts the theorem)", "input": {"kind": "mini", "prog": c["prog"], "src": c["src"], "args": arg}}, no_failing_input=True)
    cov.update(
        programs=len(cases), programs_lost_to_analysis_timeout=sum(1 for c in cases if c.get("timeout")), programs_with_loops=sum(1 for c in cases if c["render"].loops), loops=loops,
        programs_model_returned_none=rejected,
        programs_with_loops_whose_pyanalyze_loop_values_the_model_rejected_or_out_of_fragment=sum(1 for c in cases if c.get("rejected") and c["render"].loops),
        programs_with_loops_accepted=sum(1 for c in cases if not c.get("rejected") and not c.get("skip") and c["render"].loops), programs_skipped_unknown_value=skipped_unknown,
        evaluations=n_nodes + sum(1 for m in meta if m[1] == "run"), distinct_nontrivial=n_nodes,
        nodes_compared=n_nodes, nodes_equal=n_equal, nodes_same_denotation_on_universe=n_den_equal, nodes_impl_wider_than_model=n_impl_wider,
        nodes_impl_narrower_than_model=n_impl_narrower, nodes_incomparable=n_incomparable, universe_size=len(UNIVERSE), nodes_model_bool_impl_literal_bool=n_widen, nodes_mismatch=len(mism),
        per_construct_agreement=per_kind, nodes_out_of_fragment=n_unknown_nodes, nodes_skipped_eq_result_type=n_eq_skipped, node_kinds=kinds,
        model_run_checks=sum(1 for m in meta if m[1] == "run"), model_run_check_false_outside_guard=sum(1 for ci, _ in run_false if not guarded(cases[ci]["prog"])),
        model_run_check_false_inside_guard=sum(1 for ci, _ in run_false if guarded(cases[ci]["prog"])),
        impl_membership_failures_unattributed=len(impl_fail),
        sample={"src": cases[0]["src"], "model_term": cases[0]["cbody"][:300]},
        mismatch_samples=[{"src": cases[ci]["src"], "node": cases[ci]["keys"].get(lab), "model": m, "impl": impl} for ci, lab, kn, m, impl in mism[:3]],
        mismatch_classes=_classes(mism),
    )
    return cov


ATOMS = [None, True, False, 0, 1, 2, -1, "", "a", "b", "ab"]
UNIVERSE = list(ATOMS) + [()] + [(a,) for a in ATOMS] + [(a, b) for a in ATOMS for b in ATOMS] + [(1, "a", None), ("b", 0, None), ((1, "a"), 1), (1, (1, "a"))]


def member_canon(o, c):
    """membership of a python object in a canonical value (same relation as Mini.member)"""
    if c == "any":
        return True
    if c == ["never"]:
        return False
    t = c[0]
    if t == "k":
        return c01_canon.canon_obj(o) == c[1]
    if t == "ty":
        return {"object": True, "int": type(o) in (int, bool), "bool": type(o) is bool, "str": type(o) is str,
                "tuple": type(o) is tuple, "NoneType": o is None}[c[1]]
    if t == "seq":
        return type(o) is tuple and len(o) == len(c[1]) and all(member_canon(x, m) for x, m in zip(o, c[1]))
    if t == "u":
        return any(member_canon(o, m) for m in c[1])
    return False


def denote(c):
    return frozenset(i for i, o in enumerate(UNIVERSE) if member_canon(o, c))


def _classes(mism):
    out = {}
    for ci, lab, kn, m, impl in mism:
        k = f"{kn}: model={json.dumps(m)[:60]} impl={json.dumps(impl)[:60]}"
        out[k] = out.get(k, 0) + 1
    return dict(sorted(out.items(), key=lambda kv: -kv[1])[:25])


def guarded(prog):
    def e_ok(e):
        if e[0] == "eq":
            return (e[2] is None or isinstance(e[2], str)) and e_ok(e[1])
        return all(e_ok(x) for x in e[1:] if isinstance(x, tuple)) and all(e_ok(y) for x in e[1:] if isinstance(x, list) for y in x if isinstance(y, tuple))

    def s_ok(s):
        if s[0] == "assign":
            return e_ok(s[2])
        if s[0] == "return":
            return e_ok(s[1])
        if s[0] == "if":
            return e_ok(s[1]) and all(s_ok(x) for x in s[2]) and all(s_ok(x) for x in s[3])
        if s[0] == "while":
            return e_ok(s[1]) and all(s_ok(x) for x in s[3])
        return True

    return all(s_ok(s) for s in prog["body"])


def replay(rep, proof, inp):
    """re-evaluate exactly one mini program"""
    import random

    prog = inp["prog"]

    def fix(x):
        if isinstance(x, list) and x and isinstance(x[0], str) and x[0] in ("lit", "name", "tuple", "sub", "ifexp", "isnone", "isinst", "eq", "not", "and", "or", "add", "callid", "callint", "assign", "if", "while", "return"):
            return tuple(fix(y) for y in x)
        if isinstance(x, list):
            return [fix(y) for y in x]
        return x

    prog = {"ptypes": prog["ptypes"], "body": [fix(s) for s in prog["body"]]}
    global build_cases
    orig = build_cases
    try:
        first = [True]

        def one(rng, n, numeric_eq):
            if first[0]:
                first[0] = False
                return [{"prog": prog}]
            return []

        build_cases = one
        cov = correspondence(rep, proof, "quick", random.Random(0), False)
    finally:
        build_cases = orig
    rep.coverage.update(mini_correspondence=cov, evaluations=cov.get("evaluations", 0))
    return rep.finish(proof, "replay of one mini-language program", ["see evidence of a full run"])
