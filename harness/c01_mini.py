"""placeholder, replaced below"""
def correspondence(rep, proof, tier, rng, found_input):
    return {}
def replay(rep, proof, inp):
    return rep.finish(proof, "", [])
