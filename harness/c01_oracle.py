"""C01 — the direct oracle: runtime membership of a CPython object in a pyanalyze Value,
and the AST instrumentation that records the runtime object of every evaluated
Name/Subscript/Call/BinOp/IfExp (and Attribute/BoolOp/Compare/UnaryOp, counted separately) node.

member(obj, value) is three-valued: True / False / None (= value kind not understood:
skipped and counted, never guessed).  Imported by c01_impl.py, which runs under
PYTHONPATH=<repo>.
"""
from __future__ import annotations

import ast
import collections.abc as cabc
import enum
import math
import types

# node classes named by the property's quantifier
PROPERTY_NODES = (ast.Name, ast.Subscript, ast.Call, ast.BinOp, ast.IfExp)
# additionally recorded (reported the same way; listed separately in the coverage)
EXTRA_NODES = (ast.Attribute, ast.BoolOp, ast.Compare, ast.UnaryOp)


def node_key(n: ast.AST) -> str:
    return f"{type(n).__name__}@{n.lineno}:{n.col_offset}-{n.end_lineno}:{n.end_col_offset}"


# ---------------------------------------------------------------------------
# instrumentation


class _Instrument(ast.NodeTransformer):
    """Wrap every evaluated expression node of the recorded classes in
    __c01_rec(<key>, <expr>).  Never touches: annotations, decorators, patterns,
    store/del contexts, the prelude (functions whose name starts with `lib_`),
    class bodies."""

    def __init__(self):
        self.keys = []

    def visit_FunctionDef(self, node: ast.FunctionDef):
        if node.name.startswith("lib_"):
            return node
        node.body = [self.visit(s) for s in node.body]
        return node

    def visit_ClassDef(self, node):
        return node

    def visit_AnnAssign(self, node: ast.AnnAssign):
        if node.value is not None:
            node.value = self.visit(node.value)
        return node

    def visit_match_case(self, node: ast.match_case):
        if node.guard is not None:
            node.guard = self.visit(node.guard)
        node.body = [self.visit(s) for s in node.body]
        return node

    def _loop(self, node):
        node = self.generic_visit(node)
        tick = ast.Expr(ast.Call(ast.Name("__c01_tick", ast.Load()), [], []))
        node.body = [tick] + node.body
        return node

    visit_While = _loop
    visit_For = _loop

    def _wrap(self, node):
        key = node_key(node)
        new = self.generic_visit(node)
        self.keys.append(key)
        return ast.Call(ast.Name("__c01_rec", ast.Load()), [ast.Constant(key), new], [])

    def visit_Name(self, node: ast.Name):
        if isinstance(node.ctx, ast.Load):
            self.keys.append(node_key(node))
            return ast.Call(ast.Name("__c01_rec", ast.Load()), [ast.Constant(node_key(node)), node], [])
        return node

    def visit_Subscript(self, node: ast.Subscript):
        if isinstance(node.ctx, ast.Load):
            return self._wrap(node)
        return self.generic_visit(node)

    def visit_Attribute(self, node: ast.Attribute):
        if isinstance(node.ctx, ast.Load):
            return self._wrap(node)
        return self.generic_visit(node)

    def visit_Call(self, node):
        return self._wrap(node)

    visit_BinOp = visit_IfExp = visit_BoolOp = visit_Compare = visit_UnaryOp = visit_Call

    def visit_NamedExpr(self, node: ast.NamedExpr):
        node.value = self.visit(node.value)
        return node


def instrument(src: str):
    tree = ast.parse(src)
    ins = _Instrument()
    tree = ins.visit(tree)
    ast.fix_missing_locations(tree)
    return tree, ins.keys


# ---------------------------------------------------------------------------
# membership


def _and3(items):
    unknown = False
    for x in items:
        if x is False:
            return False
        if x is None:
            unknown = True
    return None if unknown else True


def _or3(items):
    unknown = False
    for x in items:
        if x is True:
            return True
        if x is None:
            unknown = True
    return None if unknown else False


def same_literal(a, b) -> bool:
    """What KnownValue(b) denotes: an object of the same type that is equal (or identical)."""
    if a is b:
        return True
    if type(a) is not type(b):
        return False
    if isinstance(a, types.FunctionType):
        # the analysed module and the instrumented module are two executions of the same source
        return a.__name__ == b.__name__ and a.__code__.co_firstlineno == b.__code__.co_firstlineno
    if isinstance(a, (types.BuiltinMethodType, types.MethodType, types.MethodWrapperType)):
        # bound methods of distinct (but corresponding) receiver objects: same method of the same receiver type
        return getattr(a, "__name__", None) == getattr(b, "__name__", 0) and type(getattr(a, "__self__", None)) is type(getattr(b, "__self__", None))
    if isinstance(a, float):
        if math.isnan(a) and math.isnan(b):
            return True
        return a == b and math.copysign(1, a) == math.copysign(1, b)
    if isinstance(a, (tuple, list)):
        return len(a) == len(b) and all(same_literal(x, y) for x, y in zip(a, b))
    if isinstance(a, dict):
        return len(a) == len(b) and all(k in b and same_literal(v, b[k]) for k, v in a.items())
    try:
        return bool(a == b)
    except Exception:
        return False


def _isinstance_promoting(obj, typ) -> bool:
    if isinstance(obj, typ):
        return True
    # PEP 484 numeric promotion: int is acceptable for float, int/float for complex
    if typ is float and isinstance(obj, int):
        return True
    if typ is complex and isinstance(obj, (int, float)):
        return True
    return False


_ELEMENTWISE = (list, tuple, set, frozenset, range, str, bytes, dict, cabc.KeysView, cabc.ValuesView)


def _match_members(objs, members, member_fn):
    """Regular-expression style matching of a list of objects against
    SequenceValue.members [(is_many, value)] — three-valued."""
    from functools import lru_cache

    n, m = len(objs), len(members)

    @lru_cache(None)
    def go(i, j):
        if j == m:
            return i == n
        is_many, v = members[j]
        if is_many:
            # zero elements, or one more element of this member
            r0 = go(i, j + 1)
            if r0 is True:
                return True
            r1 = False
            if i < n:
                r1 = _and3([member_fn(objs[i], v), go(i + 1, j)])
            return _or3([r0, r1])
        if i >= n:
            return False
        return _and3([member_fn(objs[i], v), go(i + 1, j + 1)])

    return go(0, 0)


class Oracle:
    def __init__(self):
        import pyanalyze.value as V
        from pyanalyze import extensions

        self.V = V
        self.unknown_kinds = {}
        self.custom_checked = 0

    def unknown(self, what):
        self.unknown_kinds[what] = self.unknown_kinds.get(what, 0) + 1
        return None

    def member(self, obj, v):
        V = self.V
        t = type(v)
        if t is V.AnyValue or isinstance(v, V.AnyValue):
            return True
        if isinstance(v, V.AnnotatedValue):
            base = self.member(obj, v.value)
            if base is not True:
                return base
            return _and3([self._metadata(obj, md) for md in v.metadata])
        if isinstance(v, V.MultiValuedValue):
            return _or3(self.member(obj, x) for x in v.vals)
        if isinstance(v, V.KnownValue):
            return same_literal(obj, v.val)
        if isinstance(v, V.UninitializedValue):
            return False
        if isinstance(v, V.TypeAliasValue):
            return self.member(obj, v.get_value())
        if isinstance(v, V.NewTypeValue):
            return isinstance(obj, v.typ) if isinstance(v.typ, type) else self.unknown("NewTypeValue/str-typ")
        if isinstance(v, V.SequenceValue):
            if not isinstance(v.typ, type):
                return self.unknown("SequenceValue/str-typ")
            if not isinstance(obj, v.typ):
                return False
            objs = list(obj)
            if v.typ in (set, frozenset):
                # order of a set display is not the iteration order: every element must belong to some member
                return _and3(_or3(self.member(o, mv) for _, mv in v.members) for o in objs)
            return _match_members(objs, list(v.members), self.member)
        if isinstance(v, V.DictIncompleteValue):
            if not isinstance(v.typ, type):
                return self.unknown("DictIncompleteValue/str-typ")
            if not isinstance(obj, v.typ):
                return False
            res = []
            for k, val in obj.items():
                res.append(_or3(_and3([self.member(k, p.key), self.member(val, p.value)]) for p in v.kv_pairs))
            for p in v.kv_pairs:
                if p.is_required and not p.is_many and isinstance(p.key, V.KnownValue):
                    try:
                        res.append(p.key.val in obj)
                    except Exception:
                        res.append(None)
            return _and3(res)
        if isinstance(v, V.TypedDictValue):
            if not isinstance(obj, dict):
                return False
            res = []
            for k, entry in v.items.items():
                if k in obj:
                    res.append(self.member(obj[k], entry.typ))
                elif entry.required:
                    res.append(False)
            if v.extra_keys is None:
                pass  # open TypedDict: other keys allowed
            else:
                for k in obj:
                    if k not in v.items:
                        res.append(self.member(obj[k], v.extra_keys))
            return _and3(res)
        if isinstance(v, V.CallableValue):
            return True if callable(obj) else False
        if isinstance(v, V.GenericValue):
            typ = v.typ
            if not isinstance(typ, type):
                return self.unknown("GenericValue/str-typ")
            if not _isinstance_promoting(obj, typ):
                return False
            args = v.args
            if issubclass(typ, BaseExceptionGroup) and len(args) == 1:
                # ExceptionGroup[T] / BaseExceptionGroup[T]: every leaf exception of the group is a T
                def leaves(g):
                    for e in g.exceptions:
                        if isinstance(e, BaseExceptionGroup):
                            yield from leaves(e)
                        else:
                            yield e
                return _and3(self.member(e, args[0]) for e in leaves(obj))
            if isinstance(obj, dict) and len(args) == 2 and issubclass(typ, cabc.Mapping) or (typ is dict and len(args) == 2):
                return _and3([_and3(self.member(k, args[0]) for k in obj), _and3(self.member(x, args[1]) for x in obj.values())])
            if isinstance(obj, _ELEMENTWISE) and len(args) == 1 and (
                typ in (list, tuple, set, frozenset, cabc.Iterable, cabc.Collection, cabc.Sequence, cabc.MutableSequence,
                        cabc.Set, cabc.MutableSet, cabc.Container, cabc.Reversible, cabc.KeysView, cabc.ValuesView)
                or getattr(typ, "__module__", "") in ("typing", "collections.abc")
            ):
                if isinstance(obj, (str, bytes)) and len(obj) > 0 and isinstance(obj, str):
                    return _and3(self.member(ch, args[0]) for ch in obj[:3])
                return _and3(self.member(x, args[0]) for x in list(obj)[:50])
            if isinstance(obj, dict) and len(args) == 1:
                return _and3(self.member(k, args[0]) for k in obj)
            return self.unknown(f"GenericValue[{getattr(typ, '__name__', typ)}]")
        if isinstance(v, V.TypedValue):
            typ = v.typ
            if not isinstance(typ, type):
                return self.unknown("TypedValue/str-typ")
            return _isinstance_promoting(obj, typ)
        if isinstance(v, V.SubclassValue):
            if not isinstance(obj, type):
                return False
            if isinstance(v.typ, V.TypedValue) and isinstance(v.typ.typ, type):
                if v.exactly:
                    return obj is v.typ.typ
                return issubclass(obj, v.typ.typ)
            return self.unknown("SubclassValue/other")
        if isinstance(v, V.TypeVarValue):
            return self.unknown("TypeVarValue")
        if isinstance(v, V.UnboundMethodValue):
            return True if callable(obj) else self.unknown("UnboundMethodValue")
        return self.unknown(type(v).__name__)

    def _metadata(self, obj, md):
        V = self.V
        if isinstance(md, V.CustomCheckExtension):
            cc = md.custom_check
            name = type(cc).__name__
            try:
                if name == "Gt":
                    self.custom_checked += 1
                    return bool(obj > cc.value)
                if name == "Ge":
                    self.custom_checked += 1
                    return bool(obj >= cc.value)
                if name == "Lt":
                    self.custom_checked += 1
                    return bool(obj < cc.value)
                if name == "Le":
                    self.custom_checked += 1
                    return bool(obj <= cc.value)
                if name == "MinLen":
                    self.custom_checked += 1
                    return len(obj) >= cc.value
                if name == "MaxLen":
                    self.custom_checked += 1
                    return len(obj) <= cc.value
            except Exception:
                return None
            return True  # other custom checks: no runtime meaning known, ignored
        if isinstance(md, V.DefiniteValueExtension):
            # the visitor claims bool(obj) is md.value
            try:
                return bool(obj) is md.value
            except Exception:
                return None
        return True
