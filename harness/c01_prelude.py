"""Fixed prelude imported (`from c01_prelude import *`) by every generated C01 program, so that
pyanalyze's module and the instrumented execution see the *same* class and function objects.
Every annotated function really returns what it declares."""
import dataclasses
import enum
from contextlib import suppress
from typing import Literal, Optional, Sequence, TypeVar, Union

from typing_extensions import Unpack

T = TypeVar("T")
U = TypeVar("U")


class A:
    pass


class B(A):
    pass


class C:
    pass


class Falsy(A):
    def __bool__(self) -> bool:
        return False


@dataclasses.dataclass
class Inner:
    v: Optional[int]
    w: Union[int, str]


@dataclasses.dataclass
class Outer:
    a: Inner
    b: Inner
    n: Optional[int]
    items: list[Optional[int]]


@dataclasses.dataclass
class Top:
    o: Outer
    p: Outer


class E(enum.Enum):
    a = 1
    b = 2


class IE(enum.IntEnum):
    x = 1
    y = 2


def lib_ident(x: T) -> T:
    return x


def lib_pair(x: T, y: U) -> tuple[T, U]:
    return (x, y)


def lib_first(xs: Sequence[T]) -> T:
    return xs[0]


def lib_opt(x: T) -> Optional[T]:
    return x if x else None


def lib_int(x: int) -> int:
    return x + 1


def lib_str(x: object) -> str:
    return str(x)


def lib_none() -> None:
    return None


def lib_raise_if(x: object) -> int:
    if x:
        raise ValueError("x")
    return 0


def lib_list(x: T) -> list[T]:
    return [x]


def lib_dflt(x: int = 0, *, k: str = "k") -> tuple[int, str]:
    return (x, k)


def lib_either(x: T, y: U) -> Union[T, U]:
    return x if x else y


__all__ = [
    "A", "B", "C", "E", "Falsy", "IE", "Inner", "Outer", "Top", "Literal", "Optional", "Sequence", "T", "U", "Union", "Unpack",
    "lib_dflt", "lib_either", "lib_first", "lib_ident", "lib_int", "lib_list", "lib_none", "lib_opt", "lib_pair",
    "lib_raise_if", "lib_str", "suppress",
]
