"""Fixed prelude imported (`from c01_prelude import *`) by every generated C01 program, so that
pyanalyze's module and the instrumented execution see the *same* class and function objects.
Every annotated function really returns what it declares."""
import dataclasses
import enum
from contextlib import suppress
from typing import Generic, Literal, Optional, Sequence, TypeVar, Union

from typing_extensions import Unpack

T = TypeVar("T")
U = TypeVar("U")


class A:
    pass


class B(A):
    pass


class C:
    pass


class Falsy(A):
    def __bool__(self) -> bool:
        return False


@dataclasses.dataclass
class Inner:
    v: Optional[int]
    w: Union[int, str]


@dataclasses.dataclass
class Outer:
    a: Inner
    b: Inner
    n: Optional[int]
    items: list[Optional[int]]


@dataclasses.dataclass
class Top:
    o: Outer
    p: Outer


class E(enum.Enum):
    a = 1
    b = 2


class IE(enum.IntEnum):
    x = 1
    y = 2


class Halt(BaseException):
    """a BaseException that is not an Exception (like KeyboardInterrupt), safe to raise in tests"""


class AppError(Exception):
    def __init__(self, code: int) -> None:
        super().__init__(code)
        self.code = code


def lib_raise(kind: int) -> int:
    """raises a different exception per kind; returns kind when nothing is raised"""
    if kind == 1:
        raise ValueError("v")
    if kind == 2:
        raise KeyError("k")
    if kind == 3:
        raise Halt("h")
    if kind == 4:
        raise AppError(7)
    if kind == 5:
        raise KeyboardInterrupt()
    if kind == 6:
        raise OSError(2, "nf")
    return kind


def lib_raise_group(kind: int) -> int:
    """raises exception groups of every flavour"""
    if kind == 1:
        raise ExceptionGroup("eg", [ValueError("v"), KeyError("k")])
    if kind == 2:
        raise BaseExceptionGroup("stop", [Halt("h")])
    if kind == 3:
        raise BaseExceptionGroup("both", [ValueError("v"), Halt("h")])
    if kind == 4:
        raise ExceptionGroup("one", [ValueError("v")])
    if kind == 5:
        raise BaseExceptionGroup("kbd", [KeyboardInterrupt(), KeyError("k")])
    if kind == 6:
        raise ExceptionGroup("nested", [ExceptionGroup("in", [AppError(1)]), ValueError("w")])
    return kind


class Ctx(Generic[T]):
    """a context manager whose __enter__ returns the wrapped object"""

    def __init__(self, x: T) -> None:
        self.x = x

    def __enter__(self) -> T:
        return self.x

    def __exit__(self, *args: object) -> None:
        return None


def lib_get_a(a: T, **rest: object) -> T:
    """called as lib_get_a(**d): the value stored under 'a'"""
    return a


def lib_args(*args: T) -> tuple[T, ...]:
    """called as lib_args(*xs)"""
    return args


def lib_ident(x: T) -> T:
    return x


def lib_pair(x: T, y: U) -> tuple[T, U]:
    return (x, y)


def lib_first(xs: Sequence[T]) -> T:
    return xs[0]


def lib_opt(x: T) -> Optional[T]:
    return x if x else None


def lib_int(x: int) -> int:
    return x + 1


def lib_str(x: object) -> str:
    return str(x)


def lib_none() -> None:
    return None


def lib_raise_if(x: object) -> int:
    if x:
        raise ValueError("x")
    return 0


def lib_list(x: T) -> list[T]:
    return [x]


def lib_dflt(x: int = 0, *, k: str = "k") -> tuple[int, str]:
    return (x, k)


def lib_either(x: T, y: U) -> Union[T, U]:
    return x if x else y


__all__ = [
    "A", "AppError", "B", "C", "Ctx", "E", "Falsy", "Halt", "IE", "Inner", "Outer", "Top", "lib_raise", "lib_raise_group", "lib_get_a", "lib_args", "Literal", "Optional", "Sequence", "T", "U", "Union", "Unpack",
    "lib_dflt", "lib_either", "lib_first", "lib_ident", "lib_int", "lib_list", "lib_none", "lib_opt", "lib_pair",
    "lib_raise_if", "lib_str", "suppress",
]
