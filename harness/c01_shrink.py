"""C01 — shrinking of a failing generated function (statement- and expression-level delta debugging).
Runs inside the c01_impl subprocess.  A candidate is accepted when the function still compiles and the
oracle still finds an *undiagnosed* failure with the same signature class (same inferred-value text
family is not required: any undiagnosed failure keeps the candidate, the final report re-describes it)."""
from __future__ import annotations

import ast
import copy

STMT_LISTS = ("body", "orelse", "finalbody")


def _stmt_slots(fn):
    """yield (node, field) for every statement list inside fn"""
    for n in ast.walk(fn):
        for f in STMT_LISTS:
            v = getattr(n, f, None)
            if isinstance(v, list) and v and isinstance(v[0], ast.stmt):
                yield n, f
        if isinstance(n, ast.Try):
            pass
        if isinstance(n, ast.Match):
            pass


def _exprs(fn):
    """expression nodes that may be simplified: never annotations, never targets"""
    skip = set()
    for n in ast.walk(fn.args):
        skip.add(id(n))
    for n in ast.walk(fn):
        if isinstance(n, ast.AnnAssign):
            for m in ast.walk(n.annotation):
                skip.add(id(m))
        if isinstance(n, ast.match_case):
            for m in ast.walk(n.pattern):
                skip.add(id(m))
    return [n for n in ast.walk(fn) if isinstance(n, ast.expr) and id(n) not in skip and not isinstance(getattr(n, "ctx", None), (ast.Store, ast.Del))]


def _candidates(tree):
    """yield functions tree->bool that mutate a deep copy in place (return False when not applicable)"""
    fn = tree.body[-1]
    slots = list(_stmt_slots(fn))
    # 1. delete / hoist statements, big ones first
    for si, (n, f) in enumerate(slots):
        lst = getattr(n, f)
        for i in range(len(lst)):
            yield ("del", si, i)
        for i, s in enumerate(lst):
            if isinstance(s, (ast.If, ast.For, ast.While, ast.Try, ast.With, ast.Match)):
                yield ("hoist", si, i, 0)
                yield ("hoist", si, i, 1)
    # 2. handlers / cases
    k = 0
    for n in ast.walk(fn):
        if isinstance(n, ast.Try):
            for i in range(len(n.handlers)):
                yield ("handler", k, i)
            k += 1
    k = 0
    for n in ast.walk(fn):
        if isinstance(n, ast.Match):
            for i in range(len(n.cases)):
                yield ("case", k, i)
            k += 1
    # 3. expressions
    exprs = _exprs(fn)
    for ei, e in enumerate(exprs):
        kids = [c for c in ast.iter_child_nodes(e) if isinstance(c, ast.expr)]
        for ci in range(len(kids)):
            yield ("expr-child", ei, ci)
        if not isinstance(e, (ast.Constant, ast.Name)):
            yield ("expr-const", ei, 0)
            yield ("expr-const", ei, 1)


def _apply(tree, cand):
    t = copy.deepcopy(tree)
    fn = t.body[-1]
    kind = cand[0]
    if kind in ("del", "hoist"):
        slots = list(_stmt_slots(fn))
        if cand[1] >= len(slots):
            return None
        n, f = slots[cand[1]]
        lst = getattr(n, f)
        i = cand[2]
        if i >= len(lst):
            return None
        if kind == "del":
            del lst[i]
        else:
            s = lst[i]
            if isinstance(s, ast.Match):
                cs = s.cases
                if cand[3] >= len(cs):
                    return None
                new = cs[cand[3]].body
            elif cand[3] == 0:
                new = s.body
            else:
                new = getattr(s, "orelse", None) or getattr(s, "finalbody", None)
                if not new:
                    return None
            lst[i : i + 1] = new
        if not lst and f == "body":
            lst.append(ast.Pass())
    elif kind == "handler":
        tries = [n for n in ast.walk(fn) if isinstance(n, ast.Try)]
        n = tries[cand[1]]
        if len(n.handlers) <= 1 and not n.finalbody:
            return None
        del n.handlers[cand[2]]
        if not n.handlers:
            n.orelse = []
    elif kind == "case":
        ms = [n for n in ast.walk(fn) if isinstance(n, ast.Match)]
        n = ms[cand[1]]
        if len(n.cases) <= 1:
            return None
        del n.cases[cand[2]]
    else:
        exprs = _exprs(fn)
        if cand[1] >= len(exprs):
            return None
        e = exprs[cand[1]]
        if kind == "expr-child":
            kids = [c for c in ast.iter_child_nodes(e) if isinstance(c, ast.expr)]
            if cand[2] >= len(kids):
                return None
            new = kids[cand[2]]
        else:
            new = ast.Constant(0 if cand[2] == 0 else None)
        # replace e by new in its parent
        for p in ast.walk(fn):
            for f, v in ast.iter_fields(p):
                if v is e:
                    setattr(p, f, new)
                    break
                if isinstance(v, list):
                    for j, x in enumerate(v):
                        if x is e:
                            v[j] = new
                            break
    ast.fix_missing_locations(t)
    try:
        src = ast.unparse(t)
        compile(src, "<shrink>", "exec")
    except Exception:
        return None
    return src


def shrink(src, still_fails, max_trials=500):
    """src: module source whose last top-level statement is the failing function.
    still_fails(src) -> bool.  Returns the smallest source found."""
    tree = ast.parse(src)
    cur = ast.unparse(tree)
    trials = 0
    progress = True
    while progress and trials < max_trials:
        progress = False
        tree = ast.parse(cur)
        for cand in list(_candidates(tree)):
            if trials >= max_trials:
                break
            new = _apply(tree, cand)
            if new is None or new == cur or len(new) >= len(cur):
                continue
            trials += 1
            if still_fails(new):
                cur = new
                progress = True
                break
    return cur, trials
