"""C02 — narrowing never loses the actual value and never widens.

proof      : Properties/C02.v over Narrow/{Base,Model,Guards}.v; Gen/NarrowTable.v is regenerated
             from pyanalyze (boolability.py by ast, class table by asking the implementation)
tie        : correspondence of Model.narrow / boolab_of with
               (a) stacked_scopes.constrain_value on constraints built exactly as
                   name_check_visitor / implementation / signature / patma build them, and
               (b) end to end: inferred value of `x` in both branches of generated conditionals
                   (ast_annotator.annotate_code)
oracle     : CPython itself: every universe object that belongs to V is run through the real
             condition; it must belong to the value pyanalyze assigns in the branch taken
             (and nothing outside V / the tested type may appear; always-true/false verdicts
             are compared with bool(o) of every member)
"""
from __future__ import annotations

import ast
import contextlib
import io
import json
import operator
import random
from pathlib import Path

import lib
from translate import narrowtable

PROP = "C02"

import c02_universe as U  # noqa: E402

# ---------------------------------------------------------------------------
# literals (objects):  ["none"] ["bool",b] ["int",z] ["float",h] ["str",s] ["inst",cls,k]
#                      ["enum",cls,i] ["class",cls] ["tuple",[elt...]]   elt: none/bool/int/str forms


def T(x):
    """JSON lists -> hashable tuples (canonical form used everywhere)."""
    if isinstance(x, (list, tuple)):
        return tuple(T(e) for e in x)
    return x


def lit_py(l):
    k = l[0]
    if k == "none":
        return None
    if k == "bool":
        return bool(l[1])
    if k == "int":
        return int(l[1])
    if k == "float":
        return l[1] / 2.0
    if k == "str":
        return l[1]
    if k == "inst":
        return U.INSTANCES[(l[1], l[2])]
    if k == "enum":
        return U.ENUM_MEMBERS[l[1]][l[2]]
    if k == "class":
        return U.CLASSES[l[1]]
    if k == "tuple":
        return tuple(lit_py(e) for e in l[1])
    if k == "list":
        return [lit_py(e) for e in l[1]]
    if k == "dict":
        return {lit_py(a): lit_py(b) for a, b in l[1]}
    raise ValueError(l)


def lit_src(l):
    k = l[0]
    if k == "inst":
        return U.INSTANCE_NAMES[(l[1], l[2])]
    if k == "enum":
        return U.ENUM_MEMBER_NAMES[l[1]][l[2]]
    if k == "class":
        return l[1]
    if k == "tuple":
        inner = ", ".join(lit_src(e) for e in l[1])
        return "(" + inner + ("," if len(l[1]) == 1 else "") + ")"
    if k == "list":
        return "[" + ", ".join(lit_src(e) for e in l[1]) + "]"
    if k == "dict":
        return "{" + ", ".join(lit_src(a) + ": " + lit_src(b) for a, b in l[1]) + "}"
    return repr(lit_py(l))


def coq_str(s):
    return lib.clist([lib.cn(ord(ch)) for ch in s])


def elt_coq(e):
    k = e[0]
    if k == "none":
        return "LNone"
    if k == "bool":
        return f"(LBool {lib.cbool(e[1])})"
    if k == "int":
        return f"(LInt {lib.cz(e[1])})"
    if k == "str":
        return f"(LStr {coq_str(e[1])})"
    raise ValueError(e)


def lit_coq(l):
    k = l[0]
    if k == "none":
        return "ONone"
    if k == "bool":
        return f"(OBool {lib.cbool(l[1])})"
    if k == "int":
        return f"(OInt {lib.cz(l[1])})"
    if k == "float":
        return f"(OFloat {lib.cz(l[1])})"
    if k == "str":
        return f"(OStr {coq_str(l[1])})"
    if k == "inst":
        return f"(OInst {U.COQ_CLS[l[1]]} {lib.cn(l[2])})"
    if k == "enum":
        return f"(OEnum {U.COQ_CLS[l[1]]} {lib.cnat(l[2])})"
    if k == "class":
        return f"(OClass {U.COQ_CLS[l[1]]})"
    if k == "tuple":
        return f"(OTuple {lib.clist([elt_coq(e) for e in l[1]])})"
    if k == "list":
        return f"(OList {lib.clist([elt_coq(e) for e in l[1]])})"
    if k == "dict":
        return "(ODict " + lib.clist([f"({elt_coq(a)}, {elt_coq(b)})" for a, b in l[1]]) + ")"
    raise ValueError(l)


class OutOfFragment(Exception):
    pass


def py_lit(o):
    """Python object -> literal form (fail-closed)."""
    if o is None:
        return ("none",)
    if type(o) is bool:
        return ("bool", o)
    if type(o) is int:
        return ("int", o)
    if type(o) is float:
        if o * 2 != int(o * 2):
            raise OutOfFragment(repr(o))
        return ("float", int(o * 2))
    if type(o) is str:
        return ("str", o)
    if type(o) in (tuple, list):
        es = []
        for e in o:
            l = py_lit(e)
            if l[0] not in ("none", "bool", "int", "str"):
                raise OutOfFragment(repr(o))
            es.append(l)
        return ("tuple" if type(o) is tuple else "list", tuple(es))
    if type(o) is dict:
        kvs = []
        for a, b in o.items():
            la, lb = py_lit(a), py_lit(b)
            if la[0] not in ("none", "bool", "int", "str") or lb[0] not in ("none", "bool", "int", "str"):
                raise OutOfFragment(repr(o))
            kvs.append((la, lb))
        return ("dict", tuple(kvs))
    for (c, k), inst in U.INSTANCES.items():
        if o is inst:
            return ("inst", c, k)
    for c, ms in U.ENUM_MEMBERS.items():
        for i, m in enumerate(ms):
            if o is m:
                return ("enum", c, i)
    for c, cl in U.CLASSES.items():
        if o is cl:
            return ("class", c)
    raise OutOfFragment(repr(o))


# ---------------------------------------------------------------------------
# values:  sval = (base, exts)   base: ("any",) ("known",lit) ("typed",cls) ("sub",cls) ("tuple",((many,ety),...))
#          exts: (("min",n)|("max",n), ...)      V = tuple of sval

ETY_COQ = {"any": "TAnyE", "none": "TNoneE", "bool": "TBoolE", "int": "TIntE", "str": "TStrE"}
ETY_SRC = {"any": "Any", "none": "None", "bool": "bool", "int": "int", "str": "str"}


def base_coq(b):
    k = b[0]
    if k == "any":
        return "VAny"
    if k == "known":
        return f"(VKnown {lit_coq(b[1])})"
    if k == "typed":
        return f"(VTyped {U.COQ_CLS[b[1]]})"
    if k == "sub":
        return f"(VSub {U.COQ_CLS[b[1]]})"
    if k == "tuple":
        return "(VTuple " + lib.clist([f"({lib.cbool(m)}, {ETY_COQ[t]})" for m, t in b[1]]) + ")"
    if k == "gen":
        g = b[1]
        if g[0] == "list":
            return f"(VGen (GList {ETY_COQ[g[1]]}))"
        if g[0] == "dict":
            return f"(VGen (GDict {ETY_COQ[g[1]]} {ETY_COQ[g[2]]}))"
        return "(VGen GSeqPat)" if g[0] == "seqpat" else "(VGen GMapPat)"
    raise ValueError(b)


ATTR_NAMES = ["__class__", "no_such_attr_"]  # hasattr() names (Coq: HasAttrExt index)


def ext_coq(k, n):
    if k == "hasattr":
        return f"HasAttrExt {lib.cn(ATTR_NAMES.index(n))}"
    return ("MinLen " if k == "min" else "MaxLen ") + lib.cz(n)


def sval_coq(s):
    b, exts = s
    return f"(SV {base_coq(b)} " + lib.clist([ext_coq(k, n) for k, n in exts]) + ")"


def value_coq(v):
    return lib.clist([sval_coq(s) for s in v])


def ety_value(t):
    from pyanalyze.value import AnySource, AnyValue, KnownValue, TypedValue

    return {"any": AnyValue(AnySource.explicit), "none": KnownValue(None), "bool": TypedValue(bool), "int": TypedValue(int), "str": TypedValue(str)}[t]


def base_value(b):
    from pyanalyze.value import AnySource, AnyValue, GenericValue, KnownValue, SequenceValue, SubclassValue, TypedValue

    k = b[0]
    if k == "gen":
        g = b[1]
        if g[0] == "list":
            return GenericValue(list, [ety_value(g[1])])
        if g[0] == "dict":
            return GenericValue(dict, [ety_value(g[1]), ety_value(g[2])])
        if g[0] == "seqpat":
            from pyanalyze.patma import MatchableSequence

            return MatchableSequence
        from pyanalyze.signature import MappingValue

        return MappingValue
    if k == "any":
        return AnyValue(AnySource.explicit)
    if k == "known":
        return KnownValue(lit_py(b[1]))
    if k == "typed":
        return TypedValue(U.CLASSES[b[1]])
    if k == "sub":
        return SubclassValue(TypedValue(U.CLASSES[b[1]]))
    if k == "tuple":
        return SequenceValue(tuple, [(bool(m), ety_value(t)) for m, t in b[1]])
    raise ValueError(b)


def sval_value(s):
    from pyanalyze.annotated_types import MaxLen, MinLen
    from pyanalyze.value import AnnotatedValue, CustomCheckExtension

    b, exts = s
    v = base_value(b)
    if exts:
        from pyanalyze.value import AnySource, AnyValue, HasAttrExtension, KnownValue

        def ext_value(k, n):
            if k == "hasattr":
                return HasAttrExtension(KnownValue(n), AnyValue(AnySource.inference))
            return CustomCheckExtension(MinLen(n) if k == "min" else MaxLen(n))

        v = AnnotatedValue(v, [ext_value(k, n) for k, n in exts])
    return v


def value_value(v):
    from pyanalyze.value import unite_values

    return unite_values(*[sval_value(s) for s in v])


def decode_ety(v):
    from pyanalyze.value import AnyValue, KnownValue, TypedValue

    if isinstance(v, AnyValue):
        return "any"
    if isinstance(v, KnownValue) and v.val is None:
        return "none"
    if type(v) is TypedValue and v.typ in (bool, int, str):
        return v.typ.__name__
    raise OutOfFragment(f"tuple member {v!r}")


def decode_sval(v):
    from pyanalyze.annotated_types import MaxLen, MinLen
    from pyanalyze.value import AnnotatedValue, AnyValue, CustomCheckExtension, KnownValue, SequenceValue, SubclassValue, TypedValue

    exts = []
    from pyanalyze.patma import MatchableSequence
    from pyanalyze.signature import MappingValue
    from pyanalyze.value import GenericValue

    if v == MatchableSequence:
        return (("gen", ("seqpat",)), ())
    if v == MappingValue:
        return (("gen", ("mappat",)), ())
    if isinstance(v, AnnotatedValue):
        for m in v.metadata:
            if isinstance(m, CustomCheckExtension) and type(m.custom_check) in (MinLen, MaxLen) and isinstance(m.custom_check.value, int):
                exts.append(("min" if type(m.custom_check) is MinLen else "max", m.custom_check.value))
            elif type(m).__name__ == "HasAttrExtension" and getattr(m.attribute_name, "val", None) in ATTR_NAMES:
                exts.append(("hasattr", m.attribute_name.val))
            else:
                raise OutOfFragment(f"metadata {m!r}")
        v = v.value
    rev = {c: n for n, c in U.CLASSES.items()}
    if isinstance(v, AnyValue):
        b = ("any",)
    elif type(v) is KnownValue:
        b = ("known", py_lit(v.val))
    elif type(v) is SequenceValue and v.typ is tuple:
        b = ("tuple", tuple((bool(m), decode_ety(t)) for m, t in v.members))
    elif type(v) is GenericValue and v.typ is list and len(v.args) == 1:
        b = ("gen", ("list", decode_ety(v.args[0])))
    elif type(v) is GenericValue and v.typ is dict and len(v.args) == 2:
        b = ("gen", ("dict", decode_ety(v.args[0]), decode_ety(v.args[1])))
    elif type(v) is TypedValue and v.typ in rev and not v.literal_only:
        b = ("typed", rev[v.typ])
    elif type(v) is SubclassValue and type(v.typ) is TypedValue and v.typ.typ in rev and not v.exactly:
        b = ("sub", rev[v.typ.typ])
    else:
        raise OutOfFragment(repr(v))
    return (b, tuple(exts))


def decode_value(v):
    """pyanalyze Value -> frozenset of svals (union order and repeats are not observable)."""
    from pyanalyze.value import flatten_values

    return frozenset(decode_sval(x) for x in flatten_values(v))


def norm(t):
    """lib.parse_term leaves bare constructor arguments as Sym objects: turn them into names."""
    if isinstance(t, lib.Sym):
        return {"true": True, "false": False}.get(t.name, None if t.name == "None" else t.name)
    if isinstance(t, tuple):
        return tuple(norm(x) for x in t)
    if isinstance(t, list):
        return [norm(x) for x in t]
    return t


def unpack(n):
    """inverse of the Coq `pack`: (member V, holds (None/bool) as ("Some", b) or None, (in Np, in Nn), (clauses), guard)"""
    bits = [(n >> k) & 1 == 1 for k in range(13)]
    holds = ("Some", bits[1]) if bits[2] else None
    return (bits[0], holds, (bits[3], bits[4]), (bits[5], bits[6], bits[7], bits[8], bits[9], bits[10], bits[11]), bits[12])


def model_lit(t):
    if t == "ONone":
        return ("none",)
    k = t[0]
    if k == "OBool":
        return ("bool", t[1])
    if k == "OInt":
        return ("int", t[1])
    if k == "OFloat":
        return ("float", t[1])
    if k == "OStr":
        return ("str", "".join(chr(c) for c in t[1]))
    rev = {v: n for n, v in U.COQ_CLS.items()}
    if k == "OInst":
        return ("inst", rev[t[1]], t[2])
    if k == "OEnum":
        return ("enum", rev[t[1]], t[2])
    if k == "OClass":
        return ("class", rev[t[1]])
    if k == "ODict":
        def el(e):
            if e == "LNone":
                return ("none",)
            return ({"LBool": "bool", "LInt": "int", "LStr": "str"}[e[0]], "".join(chr(c) for c in e[1]) if e[0] == "LStr" else e[1])
        return ("dict", tuple((el(a), el(b)) for a, b in t[1]))
    if k in ("OTuple", "OList"):
        es = []
        for e in t[1]:
            if e == "LNone":
                es.append(("none",))
            else:
                es.append(({"LBool": "bool", "LInt": "int", "LStr": "str"}[e[0]], "".join(chr(c) for c in e[1]) if e[0] == "LStr" else e[1]))
        return ("tuple" if k == "OTuple" else "list", tuple(es))
    raise ValueError(t)


def model_sval(t):
    rev = {v: n for n, v in U.COQ_CLS.items()}
    rety = {v: n for n, v in ETY_COQ.items()}
    assert t[0] == "SV", t
    b = t[1]
    if b == "VAny":
        base = ("any",)
    elif b[0] == "VKnown":
        base = ("known", model_lit(b[1]))
    elif b[0] == "VTyped":
        base = ("typed", rev[b[1]])
    elif b[0] == "VSub":
        base = ("sub", rev[b[1]])
    elif b[0] == "VTuple":
        base = ("tuple", tuple((m, rety[e]) for m, e in b[1]))
    elif b[0] == "VGen":
        g = b[1]
        if g == "GSeqPat":
            base = ("gen", ("seqpat",))
        elif g == "GMapPat":
            base = ("gen", ("mappat",))
        elif g[0] == "GList":
            base = ("gen", ("list", rety[g[1]]))
        else:
            base = ("gen", ("dict", rety[g[1]], rety[g[2]]))
    else:
        raise ValueError(b)
    exts = tuple(("hasattr", ATTR_NAMES[e[1]]) if e[0] == "HasAttrExt" else ("min" if e[0] == "MinLen" else "max", e[1]) for e in t[2])
    return (base, exts)


def model_value(t):
    return frozenset(model_sval(s) for s in t)


# annotation source (None if the value cannot be written as an annotation)
def sval_src(s):
    b, exts = s
    if exts:
        return None
    k = b[0]
    if k == "any":
        return "Any"
    if k == "known":
        l = b[1]
        if l[0] == "none":
            return "None"
        if l[0] in ("bool", "int", "str", "enum"):
            return f"Literal[{lit_src(l)}]"
        return None
    if k == "typed":
        return None if b[1] == "NoneType" else b[1]
    if k == "gen":
        g = b[1]
        if g[0] == "list":
            return f"list[{ETY_SRC[g[1]]}]"
        if g[0] == "dict":
            return f"dict[{ETY_SRC[g[1]]}, {ETY_SRC[g[2]]}]"
        return None
    if k == "sub":
        return f"Type[{b[1]}]"
    if k == "tuple":
        ms = b[1]
        if not ms:
            return "tuple[()]"
        if len(ms) == 1 and ms[0][0]:
            return f"tuple[{ETY_SRC[ms[0][1]]}, ...]"
        if any(m for m, _ in ms):
            return None  # tuple[str, *tuple[int, ...]] in a parameter annotation is read as tuple[Any]
        return "tuple[" + ", ".join((f"*tuple[{ETY_SRC[t]}, ...]" if m else ETY_SRC[t]) for m, t in ms) + "]"
    raise ValueError(b)


def value_src(v):
    parts = [sval_src(s) for s in v]
    if not parts or any(p is None for p in parts):
        return None
    return parts[0] if len(parts) == 1 else "Union[" + ", ".join(parts) + "]"


# ---------------------------------------------------------------------------
# conditions: ("truthy",) ("isinstance",(cls..)) ("issubclass",(cls..)) ("is",lit) ("eq",lit) ("in",(lit..))
#             ("len",op,n) ("typeis",(base..)) ("typeguard",V) ("matchclass",cls) ("always",)
#             ("not",c) ("and",a,b) ("or",a,b)

OPS = {"==": ("OpEq", operator.eq, ast.Eq), "!=": ("OpNe", operator.ne, ast.NotEq), "<": ("OpLt", operator.lt, ast.Lt),
       "<=": ("OpLe", operator.le, ast.LtE), ">": ("OpGt", operator.gt, ast.Gt), ">=": ("OpGe", operator.ge, ast.GtE)}
MIRROR = {"==": "==", "!=": "!=", "<": ">", "<=": ">=", ">": "<", ">=": "<="}


# ---------------------------------------------------------------------------
# match patterns: ("p_wild",) ("p_lit",lit) ("p_class",cls) ("p_classsub",cls,pat)
#   ("p_seq",(epat..),star,(epat..)) ("p_map",((key elt, epat)..)) ("p_or",p,q) ("p_as",p)
#   epat: ("e_wild",) ("e_lit",elt) ("e_class",ety)
# a case is written ("pat", pattern); expand() gives the condition the visitor's constraint means

def expand(pat):
    k = pat[0]
    if k == "p_wild":
        return ("always",)
    if k == "p_lit":
        return ("is", pat[1]) if pat[1][0] in ("none", "bool") else ("eq", pat[1])
    if k == "p_class":
        return ("matchclass", pat[1])
    if k == "p_classsub":
        return ("pand", ("isinstance", (pat[1],)), expand(pat[2]))
    if k == "p_seq":
        pre, star, post = pat[1], pat[2], pat[3]
        n = len(pre) + len(post)
        po = (n + (1 if star else 0)) > 1 or not star
        if n == 0 and not star:
            return ("pand", ("seqis", po), ("seqlen", 0, False))  # `case []`: no subpattern constraints at all
        return ("pand", ("seqis", po), ("pand", ("seqlen", n, star), ("elems", pre, star, post)))
    if k == "p_map":
        if not pat[1]:
            return ("mapis", False)  # `case {}`
        return ("pand", ("mapis", True), ("mapkeys", pat[1]))
    if k == "p_or":
        return ("or", expand(pat[1]), expand(pat[2]))
    if k == "p_as":
        return expand(pat[1])
    raise ValueError(pat)


def epat_src(e):
    if e[0] == "e_wild":
        return "_"
    if e[0] == "e_lit":
        return lit_src(e[1])
    return {"any": "_", "none": "None", "bool": "bool()", "int": "int()", "str": "str()"}[e[1]]


def pat_src(pat):
    k = pat[0]
    if k == "p_wild":
        return "_"
    if k == "p_lit":
        return lit_src(pat[1])
    if k == "p_class":
        return f"{pat[1]}()"
    if k == "p_classsub":
        return f"{pat[1]}({pat_src(pat[2])})"
    if k == "p_seq":
        parts = [epat_src(e) for e in pat[1]] + (["*_"] if pat[2] else []) + [epat_src(e) for e in pat[3]]
        return "[" + ", ".join(parts) + "]"
    if k == "p_map":
        return "{" + ", ".join(lit_src(a) + ": " + epat_src(b) for a, b in pat[1]) + "}"
    if k == "p_or":
        return f"{pat_src(pat[1])} | {pat_src(pat[2])}"
    if k == "p_as":
        return f"({pat_src(pat[1])}) as y_"
    raise ValueError(pat)


_MATCHERS = {}


def py_match(pat, o):
    """Run a real match statement with this pattern on the object under CPython."""
    fn = _MATCHERS.get(pat)
    if fn is None:
        env = dict(vars(U))
        exec(f"def _m(x):\n    match x:\n        case {pat_src(pat)}:\n            return True\n    return False\n", env)
        fn = _MATCHERS[pat] = env["_m"]
    return fn(o)


def epat_coq(e):
    if e[0] == "e_wild":
        return "EWild"
    if e[0] == "e_lit":
        return f"(ELit {elt_coq(e[1])})"
    return f"(EClass {ETY_COQ[e[1]]})"


def cond_coq(c):
    k = c[0]
    if k == "after":
        return cond_coq(c[2])  # the guard is applied to the value (model_term), see there
    if k == "pat":
        return cond_coq(expand(c[1]))
    if k == "seqis":
        return f"(CSeqIs {lib.cbool(c[1])})"
    if k == "seqlen":
        return f"(CSeqLen {lib.cnat(c[1])} {lib.cbool(c[2])})"
    if k == "elems":
        return f"(CElems {lib.clist([epat_coq(e) for e in c[1]])} {lib.cbool(c[2])} {lib.clist([epat_coq(e) for e in c[3]])})"
    if k == "mapis":
        return f"(CMapIs {lib.cbool(c[1])})"
    if k == "mapkeys":
        return "(CMapKeys " + lib.clist([f"({elt_coq(a)}, {epat_coq(b)})" for a, b in c[1]]) + ")"
    if k == "pand":
        return f"(CPAnd {cond_coq(c[1])} {cond_coq(c[2])})"
    if k == "ifexp":
        return f"(CIfExp {lib.cbool(c[1])} {cond_coq(c[2])} {cond_coq(c[3])})"
    if k == "assertinst":
        return f"(CAssertInst {U.COQ_CLS[c[1]]})"
    if k == "assertis":
        return f"(CAssertIs {lit_coq(c[1])})"
    if k == "hasattr":
        return f"(CHasAttr {lib.cn(ATTR_NAMES.index(c[1]))} {lib.cbool(c[2])})"
    if k == "truthy":
        return "CTruthy"
    if k == "isinstance":
        return "(CIsInstance " + lib.clist([U.COQ_CLS[x] for x in c[1]]) + ")"
    if k == "issubclass":
        return "(CIsSubclass " + lib.clist([U.COQ_CLS[x] for x in c[1]]) + ")"
    if k == "is":
        return f"(CIs {lit_coq(c[1])})"
    if k == "eq":
        return f"(CEq {lit_coq(c[1])})"
    if k == "in":
        return "(CIn " + lib.clist([lit_coq(l) for l in c[1]]) + ")"
    if k in ("len", "rlen"):
        op = c[1] if k == "len" else MIRROR[c[1]]
        return f"(CLen {OPS[op][0]} {lib.cz(c[2])})"
    if k == "typeis":
        return "(CTypeIs " + lib.clist([base_coq(b) for b in c[1]]) + ")"
    if k == "typeguard":
        return f"(CTypeGuard {value_coq(c[1])})"
    if k == "matchclass":
        return f"(CMatchClass {U.COQ_CLS[c[1]]})"
    if k == "always":
        return "CAlways"
    if k == "opaque":
        return f"(COpaque {lib.cbool(c[1])})"
    if k == "not":
        return f"(CNot {cond_coq(c[1])})"
    if k == "and":
        return f"(CAnd {cond_coq(c[1])} {cond_coq(c[2])})"
    if k == "or":
        return f"(COr {cond_coq(c[1])} {cond_coq(c[2])})"
    raise ValueError(c)


class Raises(Exception):
    pass


def py_holds(c, o):
    """Run the condition on the object under CPython.  Returns bool, or raises Raises."""
    k = c[0]
    if k == "after":
        return py_holds(c[2], o)
    if k == "pat":
        try:
            return py_match(c[1], o)
        except Exception as ex:
            raise Raises(repr(ex))
    try:
        if k == "truthy":
            return bool(o)
        if k == "isinstance":
            return isinstance(o, tuple(U.CLASSES[x] for x in c[1]))
        if k == "issubclass":
            return issubclass(o, tuple(U.CLASSES[x] for x in c[1]))
        if k == "is":
            return o is lit_py(c[1])
        if k == "eq":
            return bool(o == lit_py(c[1]))
        if k == "in":
            return o in tuple(lit_py(l) for l in c[1])
        if k == "len":
            return OPS[c[1]][1](len(o), c[2])
        if k == "rlen":
            return OPS[c[1]][1](c[2], len(o))
        if k == "typeis":
            return any(py_member_s(o, (b, ())) for b in c[1])
        if k == "typeguard":
            return py_member(o, c[1])
        if k == "matchclass":
            cl = U.CLASSES[c[1]]
            match o:
                case cl():
                    return True
                case _:
                    return False
        if k == "always":
            return True
        if k == "assertinst":
            return isinstance(o, U.CLASSES[c[1]])
        if k == "assertis":
            return o is lit_py(c[1])
        if k == "hasattr":
            return hasattr(o, c[1])
        if k == "seqis":
            return py_match(("p_seq", (), True, ()), o)
        if k == "mapis":
            return py_match(("p_map", ()), o)
        if k == "seqlen":
            return len(o) >= c[1] if c[2] else len(o) == c[1]
        if k in ("elems", "mapkeys"):
            raise ValueError("only inside a pattern")
        if k == "opaque":
            return bool(c[1])
    except Raises:
        raise
    except Exception as ex:
        raise Raises(repr(ex))
    if k == "not":
        return not py_holds(c[1], o)
    if k == "ifexp":
        return py_holds(c[2], o) if c[1] else py_holds(c[3], o)
    if k == "pand":
        return py_holds(c[1], o) and py_holds(c[2], o)
    if k == "and":
        return py_holds(c[1], o) and py_holds(c[2], o)
    if k == "or":
        return py_holds(c[1], o) or py_holds(c[2], o)
    raise ValueError(c)


def py_cond_ok(c, o):
    """The quantifier's restriction: equality with a tested literal implies equal type."""
    k = c[0]
    if k == "after":
        return py_cond_ok(c[1], o) and py_cond_ok(c[2], o)
    if k == "pat":
        return py_cond_ok(expand(c[1]), o)
    if k == "pand":
        return py_cond_ok(c[1], o) and py_cond_ok(c[2], o)
    if k == "ifexp":
        return py_cond_ok(c[2], o) and py_cond_ok(c[3], o)
    if k == "eq":
        l = lit_py(c[1])
        return not (o == l) or type(o) is type(l)
    if k == "in":
        return all(not (o == lit_py(l)) or type(o) is type(lit_py(l)) for l in c[1])
    if k == "not":
        return py_cond_ok(c[1], o)
    if k in ("and", "or"):
        return py_cond_ok(c[1], o) and py_cond_ok(c[2], o)
    return True


def tested_of(c):
    k = c[0]
    if k == "after":
        return tested_of(c[1]) + tested_of(c[2])
    if k == "pat":
        return tested_of(expand(c[1]))
    if k == "pand":
        return tested_of(c[1]) + tested_of(c[2])
    if k == "ifexp":
        return tested_of(c[2]) + tested_of(c[3])
    if k == "assertinst":
        return ((("typed", c[1]), ()),)
    if k == "assertis":
        return ((("known", c[1]), ()),)
    if k == "seqis":
        return ((("gen", ("seqpat",)), ()),)
    if k == "seqlen":
        return ((("typed", "tuple"), ()),)
    if k == "mapis":
        return ((("gen", ("mappat",)), ()),)
    if k == "isinstance":
        return tuple((("typed", x), ()) for x in c[1])
    if k == "issubclass":
        return tuple((("sub", x), ()) for x in c[1])
    if k in ("is", "eq"):
        return ((("known", c[1]), ()),)
    if k == "in":
        return tuple((("known", l), ()) for l in c[1])
    if k == "typeis":
        return tuple((b, ()) for b in c[1])
    if k == "typeguard":
        return c[1]
    if k == "matchclass":
        return ((("typed", c[1]), ()),)
    if k == "not":
        return tested_of(c[1])
    if k in ("and", "or"):
        return tested_of(c[1]) + tested_of(c[2])
    return ()


# ---- run-time membership oracle (real isinstance / issubclass / len / ==) ----

def py_member_ety(e, t):
    if t == "any":
        return True
    if t == "none":
        return e is None
    return isinstance(e, {"bool": bool, "int": int, "str": str}[t])


def match_members(ms, es):
    if not ms:
        return not es
    (many, t), rest = ms[0], ms[1:]
    if not many:
        return bool(es) and py_member_ety(es[0], t) and match_members(rest, es[1:])
    if match_members(rest, es):
        return True
    return bool(es) and py_member_ety(es[0], t) and match_members(ms, es[1:])


def promoted_class(k, c):
    return (c is float and issubclass(k, int)) or (c is complex and issubclass(k, (int, float)))


def same_literal(o, l):
    """o is the object denoted by Literal[l]: identical, or same type and equal (plain data only)."""
    if o is l:
        return True
    if type(o) is not type(l):
        return False
    if type(o) in (bool, int, float, str):
        return o == l
    if type(o) in (tuple, list):
        return len(o) == len(l) and all(same_literal(a, b) for a, b in zip(o, l))
    if type(o) is dict:
        return list(o) == list(l) and all(same_literal(o[a], l[a]) for a in o)
    return False


def py_member_s(o, s):
    b, exts = s
    k = b[0]
    if k == "any":
        r = True
    elif k == "known":
        r = same_literal(o, lit_py(b[1]))
    elif k == "typed":
        c = U.CLASSES[b[1]]
        r = isinstance(o, c) or promoted_class(type(o), c)
    elif k == "sub":
        c = U.CLASSES[b[1]]
        r = isinstance(o, type) and (issubclass(o, c) or promoted_class(o, c))
    elif k == "tuple":
        r = type(o) is tuple and match_members(tuple(b[1]), tuple(o))
    elif k == "gen":
        g = b[1]
        if g[0] == "list":
            r = type(o) is list and all(py_member_ety(e, g[1]) for e in o)
        elif g[0] == "dict":
            r = type(o) is dict and all(py_member_ety(a, g[1]) and py_member_ety(e, g[2]) for a, e in o.items())
        elif g[0] == "seqpat":
            r = isinstance(o, U.Sequence) and not isinstance(o, (str, bytes, bytearray))
        else:
            r = isinstance(o, U.Mapping)
    else:
        raise ValueError(b)
    if not r:
        return False
    for kind, n in exts:
        if kind == "hasattr":
            continue
        try:
            ln = len(o)
        except Exception:
            return False
        if kind == "min" and not ln >= n:
            return False
        if kind == "max" and not ln <= n:
            return False
    return True


def py_member(o, v):
    return any(py_member_s(o, s) for s in v)


# ---------------------------------------------------------------------------
# universe of run-time objects

def universe_objects():
    objs = [("none",), ("bool", True), ("bool", False), ("int", 0), ("int", 1), ("int", 2),
            ("float", 0), ("float", 3), ("str", ""), ("str", "a"), ("str", "ab")]
    objs += [("inst", c, k) for (c, k) in U.INSTANCES if (c, k) != ("A", 1)]
    objs += [("enum", c, i) for c in U.ENUM_MEMBERS for i in range(2)]
    objs += [("class", c) for c in U.CLS_ORDER if c not in ("Sequence", "Mapping", "complex", "str", "tuple", "NoneType", "Falsy", "list", "dict")]
    objs += [("list", ()), ("list", (("int", 1),)), ("list", (("int", 1), ("str", "a"))), ("list", (("str", "a"), ("int", 1), ("int", 2))),
             ("dict", ()), ("dict", ((("str", "a"), ("int", 1)),)), ("dict", ((("str", "a"), ("int", 1)), (("str", "b"), ("none",)))),
             ("tuple", (("str", "a"), ("int", 1))), ("tuple", (("int", 1), ("str", "a"), ("none",)))]
    objs += [("tuple", ()), ("tuple", (("int", 1),)), ("tuple", (("int", 1), ("str", "a"))), ("tuple", (("str", "a"),)),
             ("tuple", (("int", 1), ("int", 2), ("int", 3))), ("tuple", (("none",), ("str", "")))]
    return objs


# ---------------------------------------------------------------------------
# implementation side

_CTX = None


def ctx():
    global _CTX
    if _CTX is None:
        from pyanalyze.checker import Checker

        _CTX = Checker()
    return _CTX


def build_constraint(c, varname):
    """The AbstractConstraint the visitor builds for condition c (mirrors
    name_check_visitor._constraint_from_compare_op / _constraint_from_predicate_provider,
    implementation._isinstance_impl / _issubclass_impl / _len_impl, signature (TypeIs,
    TypeGuard), patma.visit_MatchClass / visit_MatchAs, visit_BoolOp, visit_UnaryOp)."""
    from pyanalyze.implementation import len_of_value, len_transformer
    from pyanalyze.name_check_visitor import NameCheckVisitor
    from pyanalyze.patma import AlwaysMatching
    from pyanalyze.predicates import EqualsPredicate, InPredicate, IsAssignablePredicate
    from pyanalyze.stacked_scopes import AndConstraint, Constraint, ConstraintType, OrConstraint, PredicateProvider
    from pyanalyze.value import SubclassValue, TypedValue, unite_values

    k = c[0]
    P = ConstraintType.predicate
    if k == "pat":
        return build_constraint(expand(c[1]), varname)
    if k == "assertinst":
        return Constraint(varname, ConstraintType.is_instance, True, U.CLASSES[c[1]])
    if k == "assertis":
        return Constraint(varname, ConstraintType.is_value, True, lit_py(c[1]))
    if k == "hasattr":
        from pyanalyze.value import AnySource, AnyValue, HasAttrExtension, KnownValue

        return Constraint(varname, ConstraintType.add_annotation, True, HasAttrExtension(KnownValue(c[1]), AnyValue(AnySource.inference)))
    if k == "seqis":
        from pyanalyze.patma import MatchableSequence

        return Constraint(varname, P, True, IsAssignablePredicate(MatchableSequence, ctx(), positive_only=c[1]))
    if k == "seqlen":
        from pyanalyze.patma import LenPredicate

        return Constraint(varname, P, True, LenPredicate(c[1], c[2], ctx()))
    if k == "mapis":
        from pyanalyze.signature import MappingValue

        return Constraint(varname, P, True, IsAssignablePredicate(MappingValue, ctx(), positive_only=c[1]))
    if k in ("elems", "mapkeys"):
        # constraints on the elements / values: other variables, nothing about x
        from pyanalyze.stacked_scopes import NULL_CONSTRAINT

        return NULL_CONSTRAINT
    if k == "pand":
        return AndConstraint.make([build_constraint(c[1], varname), build_constraint(c[2], varname)])
    if k == "ifexp":
        # the value of `(a) if f() else (b)` is a union whose members carry the two constraints
        from pyanalyze.stacked_scopes import AlternativesConstraint

        return AlternativesConstraint.make([build_constraint(c[2], varname), build_constraint(c[3], varname)])
    if k == "truthy":
        return Constraint(varname, ConstraintType.is_truthy, True, None)
    if k == "isinstance":
        pat = unite_values(*[TypedValue(U.CLASSES[x]) for x in c[1]])
        return Constraint(varname, P, True, IsAssignablePredicate(pat, ctx(), positive_only=False))
    if k == "issubclass":
        pat = unite_values(*[SubclassValue(TypedValue(U.CLASSES[x])) for x in c[1]])
        return Constraint(varname, P, True, IsAssignablePredicate(pat, ctx(), positive_only=False))
    if k == "is":
        return Constraint(varname, P, True, EqualsPredicate(lit_py(c[1]), ctx(), use_is=True))
    if k == "eq":
        return Constraint(varname, P, True, EqualsPredicate(lit_py(c[1]), ctx()))
    if k == "in":
        vals = tuple(lit_py(l) for l in c[1])
        types = {type(v) for v in vals}
        pattern_type = next(iter(types)) if len(types) == 1 else object
        return Constraint(varname, P, True, InPredicate(vals, pattern_type, ctx()))
    if k in ("len", "rlen"):
        prov = PredicateProvider(varname, len_of_value, len_transformer)
        op = c[1] if k == "len" else MIRROR[c[1]]
        return NameCheckVisitor._constraint_from_predicate_provider(None, prov, c[2], OPS[op][2]())
    if k == "typeis":
        pat = unite_values(*[base_value(b) for b in c[1]])
        return Constraint(varname, P, True, IsAssignablePredicate(pat, ctx(), positive_only=False))
    if k == "typeguard":
        return Constraint(varname, ConstraintType.is_value_object, True, value_value(c[1]))
    if k == "matchclass":
        return Constraint(varname, P, True, IsAssignablePredicate(TypedValue(U.CLASSES[c[1]]), ctx(), positive_only=True))
    if k == "always":
        return Constraint(varname, P, True, AlwaysMatching())
    if k == "opaque":
        from pyanalyze.stacked_scopes import NULL_CONSTRAINT

        return NULL_CONSTRAINT
    if k == "not":
        return build_constraint(c[1], varname).invert()
    if k == "and":
        return AndConstraint.make(reversed([build_constraint(c[1], varname), build_constraint(c[2], varname)]))
    if k == "or":
        return OrConstraint.make([build_constraint(c[1], varname), build_constraint(c[2], varname)])
    raise ValueError(c)


def impl_api(v, c):
    """(narrowed value if cond holds, narrowed value otherwise) through constrain_value."""
    from pyanalyze.stacked_scopes import VarnameWithOrigin, constrain_value

    varname = VarnameWithOrigin("x")
    val = value_value(v)
    if c[0] == "after":
        # an enclosing `if <guard>:` has already narrowed x
        val = constrain_value(val, build_constraint(c[1], varname))
        c = c[2]
    con = build_constraint(c, varname)
    out = []
    for a in (con, con.invert()):
        try:
            out.append(decode_value(constrain_value(val, a)))
        except OutOfFragment as ex:
            out.append(("OOF", str(ex)))
    return out


def impl_boolability(v):
    from pyanalyze.boolability import get_boolability

    b = get_boolability(value_value(v))
    return b.name, b.is_safely_true(), b.is_safely_false()


def cond_src(c, defs, idx):
    """Source expression on variable x, or None.  TypeIs/TypeGuard functions are appended to defs."""
    k = c[0]
    if k == "truthy":
        return "x"
    if k in ("isinstance", "issubclass"):
        cs = c[1]
        arg = cs[0] if len(cs) == 1 else "(" + ", ".join(cs) + ")"
        return f"{k}(x, {arg})"
    if k == "is":
        return f"x is {lit_src(c[1])}"
    if k == "eq":
        return f"x == {lit_src(c[1])}"
    if k == "in":
        return "x in (" + "".join(lit_src(l) + ", " for l in c[1]) + ")"
    if k == "len":
        return f"len(x) {c[1]} {c[2]}"
    if k == "rlen":
        return f"{c[2]} {c[1]} len(x)"
    if k in ("typeis", "typeguard"):
        v = tuple((b, ()) for b in c[1]) if k == "typeis" else c[1]
        src = value_src(v)
        if src is None:
            return None
        name = f"tg_{idx}_{len(defs)}"
        kind = "TypeIs" if k == "typeis" else "TypeGuard"
        defs.append(f"def {name}(x: object) -> {kind}[{src}]:\n    raise NotImplementedError\n")
        return f"{name}(x)"
    if k == "opaque":
        return "opq()"
    if k == "hasattr":
        return f'hasattr(x, "{c[1]}")'
    if k == "ifexp":
        a = cond_src(c[2], defs, idx)
        b = cond_src(c[3], defs, idx)
        return None if a is None or b is None else f"(({a}) if opq() else ({b}))"
    if k == "not":
        e = cond_src(c[1], defs, idx)
        return None if e is None else f"not ({e})"
    if k in ("and", "or"):
        a = cond_src(c[1], defs, idx)
        b = cond_src(c[2], defs, idx)
        return None if a is None or b is None else f"({a}) {k} ({b})"
    return None


def has_boolop(c):
    if c[0] == "after":
        return has_boolop(c[2])
    if c[0] == "pat":
        return False  # MatchOr builds the OR constraint directly (no BoolOp scope merging)
    if c[0] in ("and", "or"):
        return True
    return c[0] == "not" and has_boolop(c[1])


def simple_boolop(c):
    """not* (a and/or b) with a, b free of and/or: the end-to-end value is Model.narrow_e2e exactly."""
    return has_boolop(c)  # since phase 3 the scope merge is modelled recursively (Model.boolop_merge)


def leaves_of(c):
    if c[0] == "ifexp":
        return leaves_of(c[2]) + leaves_of(c[3])
    if c[0] == "after":
        return leaves_of(c[1]) + leaves_of(c[2])
    if c[0] == "pat":
        return []
    if c[0] == "not":
        return leaves_of(c[1])
    if c[0] in ("and", "or"):
        return leaves_of(c[1]) + leaves_of(c[2])
    return [c]


def well_typed(v, c):
    """len(x) / issubclass(x, ...) on an argument of the wrong type is reported by pyanalyze as
    incompatible_argument and the call then carries no constraint; such programs are kept out of
    the end-to-end stream (they are still checked through the constrain_value route)."""
    # inside and/or the operands see x already narrowed by the other operands (a TypeGuard or an
    # isinstance on Any replaces the type), so the tested types must fit len()/issubclass() too
    if has_boolop(c) or c[0] == "after":
        v = tuple(v) + tuple(tested_of(c))
    for leaf in leaves_of(c):
        if leaf[0] in ("len", "rlen"):
            for b, _ in v:
                ok = b[0] == "any" or (b[0] == "typed" and b[1] in ("str", "tuple")) or b[0] == "tuple" or (b[0] == "known" and b[1][0] in ("str", "tuple"))
                if not ok:
                    return False
        if leaf[0] == "issubclass":
            for b, _ in v:
                ok = b[0] == "sub" or (b[0] == "typed" and b[1] == "type") or (b[0] == "known" and b[1][0] == "class")
                if not ok:
                    return False
    return True


def case_src(i, v, c):
    """One function holding the conditional; None if not expressible in source."""
    ann = value_src(v)
    if ann is None or not well_typed(v, c):
        return None
    # an unannotated parameter (Any[unannotated]) instead of `x: Any` for every second Any-only case
    param = "x" if (v == ((("any",), ()),) and i % 2 == 0) else f"x: {ann}"
    defs = []
    if c[0] == "after":
        g = cond_src(c[1], defs, i)
        e = cond_src(c[2], defs, i)
        if g is None or e is None:
            return None
        return "".join(defs) + f"def f_{i}({param}):\n    if {g}:\n        if {e}:\n            M1 = x\n        else:\n            M2 = x\n"
    if c[0] == "assertinst":
        body = f"    assert_is_instance(x, {c[1]})\n    M1 = x\n"
    elif c[0] == "assertis":
        body = f"    assert_is(x, {lit_src(c[1])})\n    M1 = x\n"
    elif c[0] == "not" and c[1][0] == "assertis":
        body = f"    assert_is_not(x, {lit_src(c[1][1])})\n    M1 = x\n"
    elif c[0] == "pat":
        body = f"    match x:\n        case {pat_src(c[1])}:\n            M1 = x\n        case _:\n            M2 = x\n"
    elif c[0] == "matchclass":
        body = f"    match x:\n        case {c[1]}():\n            M1 = x\n        case _:\n            M2 = x\n"
    elif c[0] == "always":
        return None
    else:
        e = cond_src(c, defs, i)
        if e is None:
            return None
        body = f"    if {e}:\n        M1 = x\n    else:\n        M2 = x\n"
    return "".join(defs) + f"def f_{i}({param}):\n" + body


PRELUDE = ("from typing import Any, Literal, Type, Union\nfrom collections.abc import Mapping, Sequence\nfrom qcore.asserts import assert_is, assert_is_instance, assert_is_not\nfrom typing_extensions import TypeGuard, TypeIs\nfrom c02_universe import *\n"
           "def opq() -> bool:\n    raise NotImplementedError\n")


# ---------------------------------------------------------------------------
# oracle-only stream (no model): conditions whose *value* is a union of constrained members
# (`A if f() else B`, `y = A and B; if y:`): the constraint is stacked_scopes.AlternativesConstraint,
# whose negation is again a disjunction.  An object may take the positive branch if A or B holds for it,
# the negative branch if A or B fails for it; either way it has to be in the value of that branch.

SAFE_VALUES = [(("typed", "int"), ()), (("typed", "str"), ()), (("typed", "bool"), ()), (("known", ("none",)), ()), (("tuple", ((False, "int"),)), ()),
               (("tuple", ((False, "int"), (False, "str"))), ()), (("tuple", ((True, "int"),)), ()), (("gen", ("list", "int")), ()), (("known", ("int", 1)), ()),
               (("known", ("str", "a")), ()), (("typed", "object"), ())]
SAFE_LEAVES = [("isinstance", ("int",)), ("isinstance", ("str",)), ("isinstance", ("tuple",)), ("isinstance", ("int", "str")), ("is", ("none",)),
               ("eq", ("int", 1)), ("eq", ("str", "a")), ("in", (("int", 1), ("str", "a"))), ("not", ("is", ("none",))), ("not", ("isinstance", ("str",))),
               ("not", ("eq", ("int", 1))), ("isinstance", ("list",)), ("isinstance", ("NoneType",)), ("isinstance", ("bool",))]


def alt_cases(rng, n):
    out = []
    for _ in range(n):
        v = tuple(dict.fromkeys(rng.choice(SAFE_VALUES) for _ in range(rng.choice([2, 3, 3]))))
        a, b = rng.choice(SAFE_LEAVES), rng.choice(SAFE_LEAVES)
        out.append((v, rng.choice(["ifexp", "andvalue", "orvalue"]), a, b))
    return out


def alt_src(i, v, shape, a, b):
    ann = value_src(v)
    ea, eb = cond_src(a, [], i), cond_src(b, [], i)
    if shape == "ifexp":
        return f"def f_{i}(x: {ann}):\n    if ({ea}) if opq() else ({eb}):\n        M1 = x\n    else:\n        M2 = x\n"
    op = "and" if shape == "andvalue" else "or"
    return f"def f_{i}(x: {ann}):\n    y_ = ({ea}) {op} ({eb})\n    if y_:\n        M1 = x\n    else:\n        M2 = x\n"


def alt_may_take(shape, a, b, o, pol):
    """can an object take this branch for some value of the opaque flag?"""
    try:
        ha, hb = py_holds(a, o), py_holds(b, o)
    except Raises:
        return False
    if shape == "ifexp":
        return ha == pol or hb == pol
    res = (ha and hb) if shape == "andvalue" else (ha or hb)
    return res == pol


# ---------------------------------------------------------------------------
# stored-condition programs (executed under CPython): the result of a condition on x is kept in a local,
# x is rebound on none / some / all paths (if, if-else, while, for, try), then the program branches on the
# stored flag.  FunctionScope._add_single_constraint must apply the constraint only if every definition of x
# that reaches the branch was current when the condition was evaluated.  Every object actually bound to x at
# the recording points (all argument combinations are run) must belong to the value inferred there.

REBIND_LITS = [("str", "hello"), ("none",), ("int", 0), ("tuple", (("int", 1),))]


def stored_cases(rng, n):
    out = []
    for _ in range(n):
        v = tuple(dict.fromkeys(rng.choice(SAFE_VALUES) for _ in range(rng.choice([2, 3, 3]))))
        c = rng.choice(SAFE_LEAVES + [("truthy",)])
        shape = rng.choice(["none", "if", "if", "ifelse", "while", "for", "try", "elifchain"])
        out.append((v, c, shape, rng.choice(REBIND_LITS), rng.choice(REBIND_LITS), rng.choice(["if", "ifnot", "while"])))
    return out


def stored_src(i, v, c, shape, l1, l2, branch, executable):
    ann = value_src(v)
    e = "bool(x)" if c == ("truthy",) else cond_src(c, [], i)
    a, b = lit_src(l1), lit_src(l2)
    rebind = {
        "none": "",
        "if": f"    if flag:\n        x = {a}\n",
        "ifelse": f"    if flag:\n        x = {a}\n    else:\n        x = {b}\n",
        "while": f"    while n > 0:\n        n -= 1\n        x = {a}\n",
        "for": f"    for _k in range(n):\n        x = {a}\n",
        "try": f"    try:\n        if flag:\n            raise ValueError\n        x = {a}\n    except ValueError:\n        pass\n",
        "elifchain": f"    if flag:\n        x = {a}\n    elif n > 0:\n        x = {b}\n",
    }[shape]
    r1 = f"_REC.append(({i}, 0, x))" if executable else "M1 = x"
    r2 = f"_REC.append(({i}, 1, x))" if executable else "M2 = x"
    if branch == "if":
        tail = f"    if c_:\n        {r1}\n    else:\n        {r2}\n"
    elif branch == "ifnot":
        tail = f"    if not c_:\n        {r1}\n    else:\n        {r2}\n"
    else:
        tail = f"    while c_:\n        {r1}\n        break\n"
    return f"def f_{i}(x: {ann}, flag: bool, n: int):\n    c_ = {e}\n" + rebind + tail


def run_stored(cases, objs, pyobjs):
    """[(case index, slot, object literal form, flag, n)] for every recorded (executed) binding"""
    env = dict(vars(U))
    exec("from typing import Any, Literal, Type, Union\n_REC = []\n" + "\n".join(stored_src(i, *cs, True) for i, cs in enumerate(cases)), env)
    out = []
    for i, cs in enumerate(cases):
        fn = env[f"f_{i}"]
        for lo, o in zip(objs, pyobjs):
            if not py_member(o, cs[0]) or (cs[1] != ("truthy",) and not py_cond_ok(cs[1], o)):
                continue  # outside V, or outside the property's quantifier (`True == 1`: equal but of another type)
            for flag in (True, False):
                for n in (0, 2):
                    del env["_REC"][:]
                    try:
                        fn(o, flag, n)
                    except Exception:
                        continue
                    for (ci, slot, bound) in env["_REC"]:
                        out.append((ci, slot, bound, lo, flag, n))
    return out


def impl_e2e(srcs):
    """srcs: {case index: source}.  Returns {index: [pos, neg]} of decoded inferred values."""
    from pyanalyze.ast_annotator import annotate_code

    out = {}
    items = sorted(srcs.items())
    for start in range(0, len(items), 80):
        chunk = items[start : start + 80]
        code = PRELUDE + "\n".join(s for _, s in chunk)
        buf = io.StringIO()
        with contextlib.redirect_stdout(buf), contextlib.redirect_stderr(buf):
            tree = annotate_code(code)
        for node in tree.body:
            if isinstance(node, ast.FunctionDef) and node.name.startswith("f_"):
                i = int(node.name[2:])
                res = [None, None]
                for n in ast.walk(node):
                    if isinstance(n, ast.Assign) and isinstance(n.targets[0], ast.Name) and n.targets[0].id in ("M1", "M2"):
                        iv = getattr(n.value, "inferred_value", None)
                        slot = 0 if n.targets[0].id == "M1" else 1
                        if iv is None:
                            res[slot] = ("OOF", "no inferred value")
                        else:
                            try:
                                res[slot] = decode_value(iv)
                            except OutOfFragment as ex:
                                res[slot] = ("OOF", str(ex))
                out[i] = res
    return out


# ---------------------------------------------------------------------------
# generators

ATOM_LITS = [("none",), ("bool", True), ("bool", False), ("int", 0), ("int", 1), ("int", 2), ("str", ""), ("str", "a"), ("str", "ab"),
             ("enum", "E", 0), ("enum", "E", 1), ("enum", "IE", 0), ("enum", "IE", 1), ("float", 0), ("float", 3)]
SINGLETON_LITS = [("none",), ("bool", True), ("bool", False), ("enum", "E", 0), ("enum", "E", 1), ("enum", "IE", 1),
                  ("class", "B"), ("class", "int"), ("class", "A"), ("inst", "A", 0), ("inst", "Falsy", 0), ("inst", "AC", 0)]
CLS_FOR_TYPED = ["object", "int", "bool", "float", "complex", "str", "tuple", "NoneType", "type", "A", "B", "C", "Falsy", "AC", "E", "IE", "EnumMeta"]
TUPLES = [(), ((False, "int"),), ((False, "int"), (False, "str")), ((True, "int"),), ((False, "str"), (True, "int")), ((False, "any"), (False, "none"), (False, "bool")),
          ((False, "int"), (False, "str"), (False, "none")), ((False, "str"),), ((True, "str"),), ((False, "int"), (False, "int"))]
GENS = [("list", "int"), ("list", "str"), ("list", "any"), ("dict", "str", "int"), ("dict", "str", "any"), ("dict", "int", "none")]
EP = [("e_wild",), ("e_lit", ("int", 1)), ("e_lit", ("str", "a")), ("e_class", "int"), ("e_class", "str"), ("e_lit", ("none",))]


def all_patterns():
    W = ("e_wild",)
    seqs = []
    for n_pre in range(0, 4):
        seqs.append(("p_seq", (W,) * n_pre, False, ()))
        seqs.append(("p_seq", (W,) * n_pre, True, ()))
    seqs += [("p_seq", (), True, (W,)), ("p_seq", (W,), True, (W,)), ("p_seq", (), True, (W, W)), ("p_seq", (W, W), True, (W,)),
             ("p_seq", (("e_lit", ("int", 1)),), True, ()), ("p_seq", (("e_class", "int"), ("e_class", "str")), False, ()),
             ("p_seq", (("e_class", "str"),), True, (("e_class", "int"),)), ("p_seq", (("e_lit", ("int", 1)), W), False, ()),
             ("p_seq", (("e_lit", ("none",)),), False, ()), ("p_seq", (W, ("e_lit", ("str", "a"))), True, ())]
    maps = [("p_map", ()), ("p_map", ((("str", "a"), W),)), ("p_map", ((("str", "a"), ("e_class", "int")),)), ("p_map", ((("str", "a"), W), (("str", "b"), W))),
            ("p_map", ((("int", 1), ("e_lit", ("none",))),)), ("p_map", ((("str", "b"), ("e_lit", ("none",))),))]
    basics = [("p_lit", ("none",)), ("p_lit", ("bool", True)), ("p_lit", ("int", 1)), ("p_lit", ("str", "a")), ("p_lit", ("enum", "E", 0)),
              ("p_class", "int"), ("p_class", "str"), ("p_class", "tuple"), ("p_class", "list"), ("p_class", "dict"), ("p_class", "A"), ("p_class", "C")]
    subs = [("p_classsub", "int", ("p_lit", ("int", 1))), ("p_classsub", "str", ("p_lit", ("str", "a"))), ("p_classsub", "bool", ("p_lit", ("bool", True))),
            ("p_classsub", "tuple", ("p_seq", (W, W), False, ())), ("p_classsub", "tuple", ("p_seq", (W,), True, ())), ("p_classsub", "list", ("p_seq", (W,), True, ())),
            ("p_classsub", "int", ("p_or", ("p_lit", ("int", 1)), ("p_lit", ("int", 2)))), ("p_classsub", "dict", ("p_map", ((("str", "a"), W),))),
            ("p_classsub", "float", ("p_wild",)), ("p_classsub", "str", ("p_as", ("p_lit", ("str", "ab"))))]
    out = seqs + maps + basics + subs
    ors = [("p_or", seqs[1], ("p_lit", ("none",))), ("p_or", ("p_class", "int"), seqs[4]), ("p_or", seqs[2], seqs[6]), ("p_or", maps[1], seqs[3]),
           ("p_or", ("p_lit", ("int", 1)), ("p_lit", ("str", "a"))), ("p_or", ("p_class", "A"), ("p_class", "C")), ("p_or", ("p_or", seqs[0], seqs[2]), seqs[5])]
    ases = [("p_as", seqs[3]), ("p_as", ("p_class", "int")), ("p_as", maps[1]), ("p_as", ors[0])]
    return out + ors + ases


def all_svals():
    out = [(("any",), ())]
    out += [(("known", l), ()) for l in ATOM_LITS + [("inst", "A", 0), ("inst", "Falsy", 0), ("class", "B"), ("class", "int"), ("class", "E"), ("class", "IE"), ("tuple", ()), ("tuple", (("int", 1), ("str", "a")))]]
    out += [(("typed", c), ()) for c in CLS_FOR_TYPED]
    out += [(("sub", c), ()) for c in ["object", "int", "float", "A", "B", "C", "AC", "E", "type"]]
    out += [(("tuple", t), ()) for t in TUPLES]
    out += [(("gen", g), ()) for g in GENS]
    out += [(("typed", c), ()) for c in ("list", "dict", "Sequence", "Mapping")]
    out += [(("known", ("list", (("int", 1),))), ()), (("known", ("dict", ((("str", "a"), ("int", 1)),))), ())]
    out += [(("typed", "str"), (("min", 1),)), (("tuple", ((True, "int"),)), (("max", 2),)), (("typed", "tuple"), (("min", 1), ("max", 3)))]
    # Annotated[Any, ...], Annotated[type, ...], the members of Annotated[int | str, ...]
    out += [(("any",), (("hasattr", "__class__"),)), (("any",), (("min", 3),)), (("any",), (("min", 1), ("max", 1))),
            (("typed", "type"), (("hasattr", "__class__"),)), (("typed", "int"), (("hasattr", "__class__"),)), (("typed", "str"), (("hasattr", "__class__"),)),
            (("typed", "object"), (("hasattr", "__class__"),)), (("sub", "A"), (("hasattr", "__class__"),))]
    return out


def all_leaves():
    out = [("truthy",)]
    for cs in [("int",), ("float",), ("complex",), ("bool",), ("str",), ("tuple",), ("A",), ("B",), ("C",), ("Falsy",), ("AC",), ("E",), ("IE",), ("object",), ("type",), ("NoneType",), ("EnumMeta",),
               ("int", "str"), ("A", "C"), ("float", "NoneType"), ("B", "Falsy"), ("tuple", "str")]:
        out.append(("isinstance", cs))
    for cs in [("A",), ("C",), ("int",), ("float",), ("object",), ("A", "C"), ("B", "int"), ("E",), ("type",)]:
        out.append(("issubclass", cs))
    out += [("is", l) for l in SINGLETON_LITS]
    out += [("eq", l) for l in ATOM_LITS]
    out += [("in", ls) for ls in [(("int", 1), ("str", "a")), (("enum", "E", 0),), (("enum", "E", 0), ("enum", "E", 1)), (("none",), ("bool", True)), (("int", 0), ("int", 1), ("int", 2)), (("enum", "IE", 0),), ()]]
    for op in OPS:
        for n in (0, 1, 2):
            out.append(("len", op, n))
    out += [("rlen", "<", 1), ("rlen", ">=", 2), ("rlen", "==", 2), ("rlen", ">", 0)]
    for t in [(("typed", "int"),), (("typed", "int"), ("typed", "str")), (("known", ("int", 1)),), (("sub", "A"),), (("typed", "float"),), (("known", ("none",)), ("typed", "A")), (("typed", "tuple"),), (("typed", "C"),),
              (("gen", ("list", "str")),), (("gen", ("list", "int")),), (("gen", ("dict", "str", "int")),), (("gen", ("list", "int")), ("typed", "str"))]:
        out.append(("typeis", t))
    for t in [((("typed", "int"), ()),), ((("typed", "A"), ()), (("known", ("none",)), ())), ((("tuple", ((False, "int"),)), ()),)]:
        out.append(("typeguard", t))
    out += [("matchclass", c) for c in ["int", "str", "A", "C", "float", "tuple", "bool"]]
    out.append(("always",))
    out += [("opaque", True), ("opaque", False)]
    out += [("pat", p) for p in all_patterns()]
    # union-valued conditions (AlternativesConstraint), both values of the opaque selector
    alt_ops = [("isinstance", ("int",)), ("isinstance", ("str",)), ("is", ("none",)), ("eq", ("int", 1)), ("not", ("isinstance", ("str",))),
               ("not", ("is", ("none",))), ("isinstance", ("A",)), ("in", (("int", 1), ("str", "a")))]
    out += [("ifexp", fl, a, b) for fl in (True, False) for a in alt_ops for b in alt_ops if a != b]
    # assert-style constraint types (is_instance, is_value, add_annotation)
    out += [("assertinst", c) for c in ("int", "float", "bool", "str", "A", "B", "C", "tuple", "object", "type", "EnumMeta", "list")]
    out += [("not", ("assertinst", c)) for c in ("int", "float", "complex", "A", "object")]
    out += [("assertis", l) for l in SINGLETON_LITS] + [("not", ("assertis", l)) for l in SINGLETON_LITS[:4]]
    out += [("hasattr", "__class__", True), ("hasattr", "no_such_attr_", False)]
    # the parts of a sequence / mapping pattern on their own (constrain_value route only)
    out += [("seqis", True), ("seqis", False), ("mapis", True), ("mapis", False)]
    out += [("seqlen", n, star) for n in (0, 1, 2, 3) for star in (False, True)]
    return out


def is_simple_pattern(c):
    """Leaves whose positive application can return a union as a single item (a union-valued
    pattern): the implementation then feeds a MultiValuedValue to the next constraint, which
    Constraint.apply_to_value's docstring excludes; kept out of composite conditions."""
    k = c[0]
    if k in ("pat", "ifexp"):
        return False
    if k in ("isinstance", "issubclass", "typeis"):
        return len(c[1]) == 1
    if k == "typeguard":
        return len(c[1]) == 1
    if k == "in":
        return len(c[1]) <= 1
    return True


def gen_cond(rng, leaves, depth):
    if depth == 0 or rng.random() < 0.35:
        return rng.choice(leaves)
    r = rng.random()
    if r < 0.3:
        return ("not", gen_cond(rng, leaves, depth - 1))
    simple = [l for l in leaves if is_simple_pattern(l) and l[0] not in ("matchclass", "always")]
    a = gen_cond(rng, simple, depth - 1)
    b = gen_cond(rng, simple, depth - 1)
    return ("and" if r < 0.65 else "or", a, b)


GUARDS = [("len", ">", 2), ("len", "==", 1), ("rlen", "<=", 2), ("hasattr", "__class__", True), ("typeguard", ((("typed", "int"), ()),)),
          ("typeguard", ((("typed", "type"), ()),)), ("truthy",), ("isinstance", ("object",)), ("not", ("is", ("none",)))]
GUARDED_VALUES = [((("any",), ()),), ((("typed", "type"), ()),), ((("typed", "object"), ()),), ((("typed", "int"), ()), (("typed", "str"), ())),
                  ((("typed", "str"), ()),), ((("tuple", ((True, "int"),)), ()), (("typed", "str"), ())), ((("any",), ()), (("known", ("none",)), ()))]


def guarded_cases(rng, leaves, n):
    """multi-step sequences: an enclosing `if <guard>:` (len / hasattr / TypeGuard ... attach extensions to or replace
    the value) followed by the condition under test"""
    inner = [l for l in leaves if l[0] in ("isinstance", "issubclass", "typeis", "matchclass", "truthy", "is", "eq", "in", "len", "rlen", "typeguard", "hasattr")]
    inner += [("not", l) for l in inner if l[0] in ("isinstance", "issubclass", "typeis", "is", "eq")]
    out = []
    for v in GUARDED_VALUES:
        for g in GUARDS:
            for c in (rng.sample(inner, n) if n < len(inner) else inner):
                out.append((v, ("after", g, c)))
    return out


def gen_value(rng, svals):
    n = rng.choice([1, 1, 2, 2, 3])
    out = []
    for _ in range(n):
        s = rng.choice(svals)
        if s not in out:
            out.append(s)
    return tuple(out)


def load_corpus():
    p = lib.VERIF / "harness" / "corpus" / "C02.json"
    if not p.exists():
        return []
    return [(T(e["value"]), T(e["cond"])) for e in json.loads(p.read_text())]


def gen_files():
    from translate import narrowpreds, narrowsrc

    return {"NarrowTable.v": narrowtable.translate(str(lib.REPO)), "NarrowPreds.v": narrowpreds.translate(str(lib.REPO)),
            "NarrowSrc.v": narrowsrc.translate(str(lib.REPO))}


# ---------------------------------------------------------------------------

FINDINGS = {
    "promotion_negative": "C02-promotion-negative",
    "subclass_bool": "C02-subclass-bool",
    "multiple_inheritance": "C02-multiple-inheritance",
    "enum_class_object": "C02-enum-class-literal",
    "sequence_pattern_str": "C02-sequence-pattern-str",
    "assert_promotion": "C02-assert-promotion",
    "generic_pattern_negative": "C02-generic-typeis-negative",
    # attributed by the executed-program stream (c02_programs.attribute)
    "subpattern_on_subject": "C02-subpattern-constraint-on-subject",
}
COQ_HEADER = ("From Coq Require Import ZArith List Bool NArith. Import ListNotations.\n"
              "Require Import PV.Narrow.Base PV.Narrow.Model PV.Narrow.Guards.\n"
              "Definition pack (bs : list bool) : N := fold_right (fun (b : bool) (acc : N) => (2 * acc + (if b then 1 else 0))%N) 0%N bs.\n")


def run(tier: str, replay: str | None = None):
    rep = lib.Report(PROP, tier, "proof")
    rng = random.Random(lib.seed() * 104729 + 2)

    # 1. regenerate + prove
    broken_translation = None
    proof = None
    try:
        gen = gen_files()
    except Exception as ex:  # translator is fail-closed: any failure is a broken obligation
        broken_translation = f"{type(ex).__name__}: {ex}"
        gen = None
    if gen is not None:
        proof = lib.prove(PROP, gen, thorough=(tier == "thorough"))

    # 2. cases
    svals = all_svals()
    leaves = all_leaves()
    cases = []
    stream_replay = None
    if replay:
        r = json.loads(Path(replay).read_text())
        if str(r.get("route", "")).startswith(("e2e-executed-program", "e2e-stored-condition")):
            # a failing input of one of the executed-program streams: that program is re-run below
            stream_replay = r
            cases.append((((("typed", "int"), ()),), ("truthy",)))
        else:
            cases.append((T(r["input"]["value"]), T(r["input"]["cond"])))
    else:
        cases += load_corpus()
        # every (single value, leaf condition) pair in both tiers
        def pattern_leaf(l):
            return l[0] in ("pat", "seqis", "seqlen", "mapis") or (l[0] == "not" and pattern_leaf(l[1]))

        def pattern_relevant(sv):
            b = sv[0]
            return b[0] in ("any", "tuple", "gen") or (b[0] == "typed" and b[1] in ("object", "tuple", "list", "dict", "str", "Sequence", "Mapping", "int", "A")) or (
                b[0] == "known" and b[1][0] in ("tuple", "list", "dict", "str", "int", "none"))

        # every (single value, leaf condition) pair in both tiers; in the quick tier the match-pattern
        # leaves are paired only with the values they can say something about
        def collection_sval(sv):
            b = sv[0]
            return b[0] == "gen" or (b[0] == "typed" and b[1] in ("list", "dict", "Sequence", "Mapping")) or (b[0] == "known" and b[1][0] in ("list", "dict"))

        def collection_leaf(l):
            if l[0] == "not":
                return collection_leaf(l[1])
            if l[0] in ("isinstance", "typeis"):
                return any(x in ("list", "dict", "tuple", "object", "str") or (isinstance(x, tuple) and x[-1] in ("tuple", "object")) for x in l[1])
            return l[0] in ("truthy", "len", "rlen", "pat", "seqis", "seqlen", "mapis", "assertinst", "matchclass", "always")

        def in_quick(sv, l):
            if l[0] == "ifexp":
                b = sv[0]
                return not sv[1] and (b in (("any",), ("typed", "int"), ("typed", "str"), ("typed", "object"), ("typed", "A"), ("known", ("none",)),
                                            ("known", ("int", 1)), ("typed", "bool")) or b == ("tuple", ((True, "int"),)))
            if pattern_leaf(l) and not pattern_relevant(sv):
                return False
            return not collection_sval(sv) or collection_leaf(l)

        cases += [((sv,), l) for sv in svals for l in leaves if tier == "thorough" or in_quick(sv, l)]
        cases += guarded_cases(rng, leaves, 12 if tier == "quick" else 10 ** 6)
        n_rand = 500 if tier == "quick" else 25000
        for _ in range(n_rand):
            cases.append((gen_value(rng, svals), gen_cond(rng, leaves, 2)))
    objs = universe_objects()
    pyobjs = [lit_py(o) for o in objs]

    import time as _time

    _t = {"start": _time.time()}
    # 4a. model: started now in a thread (coqc subprocesses) so that it overlaps the implementation runs
    model_ok = proof is not None and not any("build failed" in b for b in proof.broken)
    if not model_ok:
        # a broken obligation (generated file or proof) does not stop the model itself from running:
        # the evaluation needs only Narrow/{Base,Model,Guards}.vo
        try:
            model_ok, _log = lib.coq_make(["theories/Narrow/Guards.vo"], jobs=6)
        except Exception:
            model_ok = False
    model_box = {}
    model_thread = None
    if model_ok:
        # the clauses that depend on the object only are evaluated once (UNIV_INFO is a value)
        ulist = ("Definition UNIV : list obj := " + lib.clist([lit_coq(o) for o in objs]) + ".\n"
                 "Definition UNIV_INFO := Eval vm_compute in map (fun o => (o, (subclass_bool o, multiple_inheritance o, wf_obj o))) UNIV.\n")
        FULL_TAIL = ("map (fun (oi : obj * (bool * bool * bool)) => let '(o, (sb, mi, wf)) := oi in "
                     "let h := holds c o in let pn := promotion_negative c o in let ec := enum_class_object o in "
                     "let ss := sequence_pattern_str c o in let ap := assert_promotion c o in let gp := generic_pattern_negative c o in pack "
                     "[member o V; match h with Some b => b | None => false end; "
                     "match h with Some _ => true | None => false end; "
                     "member o Np; member o Nn; pn; sb; mi; ec; ss; ap; gp; "
                     "wf && cond_ok c o && negb mi && negb sb && negb pn && negb ec && negb ss && negb ap && negb gp]) UNIV_INFO")

        def model_term(v, c, full):
            vterm = f"(narrow {value_coq(v)} {cond_coq(c[1])} true)" if c[0] == "after" else value_coq(v)
            return (f"(let V := {vterm} in let c := {cond_coq(c)} in "
                    "let Np := narrow V c true in let Nn := narrow V c false in "
                    "(Np, Nn, boolab_of V, " + (FULL_TAIL if full else "@nil N") + ", "
                    + ("(narrow_e2e V c true, narrow_e2e V c false)" if simple_boolop(c) else "(@nil sval, @nil sval)") + "))")

        # every case: both narrowed values and the boolability; the per-object facts (spec vs CPython,
        # guard clauses) for every case in the thorough tier / a replay, for 1 case in 5 in the quick
        # tier, and afterwards (second batch) for every case on which the oracle found a failure
        full_idx = set(i for i in range(len(cases)) if tier != "quick" or replay or i % 8 == 0)
        terms = [model_term(v, c, i in full_idx) for i, (v, c) in enumerate(cases)]

        def _eval_model():
            try:
                model_box["model"] = norm(lib.coq_eval(COQ_HEADER + ulist, terms, name="c02", shard=150, jobs=5))
            except Exception as ex:  # reported after the join
                model_box["error"] = str(ex)

        import threading

        model_thread = threading.Thread(target=_eval_model)
        model_thread.start()

    # 3. implementation (API + end to end) and oracle facts
    api = []
    boolab = []
    for v, c in cases:
        try:
            api.append(impl_api(v, c))
        except Exception as ex:
            api.append([("CRASH", repr(ex)), ("CRASH", repr(ex))])
        try:
            boolab.append(impl_boolability(v))
        except Exception as ex:
            boolab.append(("CRASH:" + repr(ex), False, False))
    _t["api"] = _time.time()
    srcs = {}
    import zlib

    def e2e_wanted(i, v, c):
        # quick tier: every match / assert / len / composite case goes end to end, the other
        # (single value, leaf) pairs only with probability 1/2 (deterministic in the case)
        if tier != "quick" or replay or len(v) > 1 or c[0] in ("pat", "assertinst", "assertis", "hasattr", "len", "rlen", "not", "and", "or", "matchclass"):
            return True
        return zlib.crc32(repr((lib.seed(), v, c)).encode()) % 3 == 0

    for i, (v, c) in enumerate(cases):
        if not e2e_wanted(i, v, c):
            continue
        s = case_src(i, v, c)
        if s is not None:
            srcs[i] = s
    try:
        # three worker processes (fork), each annotating its share of the generated modules
        import multiprocessing as _mp

        items = sorted(srcs.items())
        parts = [dict(items[k::3]) for k in range(3)] if len(items) > 300 else [dict(items)]
        if len(parts) == 1:
            e2e = impl_e2e(parts[0])
        else:
            with _mp.get_context("fork").Pool(3) as pool:
                e2e = {}
                for part in pool.map(impl_e2e, parts):
                    e2e.update(part)
    except Exception as ex:
        e2e = {}
        rep.violation({"kind": "broken-correspondence", "correspondence": "Model.narrow vs annotate_code (end to end)", "detail": repr(ex)[-1500:]}, no_failing_input=True)

    # 3b. oracle-only stream for union-valued conditions (AlternativesConstraint)
    alts = alt_cases(random.Random(lib.seed() * 7331 + 5), 0 if replay else (120 if tier == "quick" else 1500))
    alt_failures = []
    try:
        alt_res = impl_e2e({k: alt_src(k, *ac) for k, ac in enumerate(alts)}) if alts else {}
        for k, (v, shape, a, b) in enumerate(alts):
            outs = alt_res.get(k)
            if not outs:
                continue
            for pol, out in zip((True, False), outs):
                if not isinstance(out, frozenset):
                    continue
                for lo, o in zip(objs, pyobjs):
                    if py_member(o, v) and py_cond_ok(a, o) and py_cond_ok(b, o) and alt_may_take(shape, a, b, o, pol) and not py_member(o, tuple(out)):
                        alt_failures.append((k, pol, lo, sorted(map(str, out))))
    except Exception as ex:
        rep.violation({"kind": "broken-correspondence", "correspondence": "oracle-only stream (union-valued conditions)", "detail": repr(ex)[-1500:]}, no_failing_input=True)
    for (k, pol, lo, out) in alt_failures[:3]:
        v, shape, a, b = alts[k]
        rep.violation({"kind": "failing-input", "route": "e2e-union-valued-condition", "input": {"value": v, "shape": shape, "a": a, "b": b}, "branch": pol, "object": lit_src(lo),
                       "source": alt_src(k, v, shape, a, b), "observed": out, "expected": "an object that can take the branch stays in the value of that branch"})

    # 3c. stored-condition programs, executed under CPython
    stored = stored_cases(random.Random(lib.seed() * 9173 + 11), 0 if replay else (150 if tier == "quick" else 2000))
    if stream_replay is not None and stream_replay["route"] == "e2e-stored-condition":
        stored = [T(stream_replay["input"]["stored"])]
    stored_failures = []
    try:
        st_res = impl_e2e({k: stored_src(k, *sc, False) for k, sc in enumerate(stored)}) if stored else {}
        for (k, slot, bound, lo, flag, n) in (run_stored(stored, objs, pyobjs) if stored else []):
            outs = st_res.get(k)
            if not outs or not isinstance(outs[slot], frozenset):
                continue
            if not py_member(bound, tuple(outs[slot])):
                stored_failures.append((k, slot, repr(bound), lit_src(lo), flag, n, sorted(map(str, outs[slot]))))
    except Exception as ex:
        rep.violation({"kind": "broken-correspondence", "correspondence": "stored-condition programs (executed)", "detail": repr(ex)[-1500:]}, no_failing_input=True)
    seen_sc = set()
    for (k, slot, bound, arg, flag, n, out) in stored_failures:
        if k in seen_sc or len(seen_sc) >= 3:
            continue
        seen_sc.add(k)
        rep.violation({"kind": "failing-input", "route": "e2e-stored-condition", "input": {"stored": stored[k]}, "call": f"f_{k}({arg}, {flag}, {n})",
                       "object_bound_at_the_recording_point": bound, "branch_slot": slot, "source": stored_src(k, *stored[k], False), "observed": out,
                       "expected": "the object bound to x where the branch on the stored flag is taken belongs to the value inferred there"})

    # 3d. `x in "<s>"`: Model.instr_narrow vs InPredicate on the str container (constrain_value) and vs annotate_code
    instr_mismatch = []
    instr_cases = []
    if not replay:
        strs = ["", "a", "ab", "abc", "c", "zz"]
        singles = [(("typed", "str"), ()), (("typed", "object"), ()), (("any",), ()), (("typed", "int"), ()), (("known", ("int", 1)), ()), (("known", ("none",)), ()),
                   (("typed", "str"), (("min", 1),))] + [(("known", ("str", t)), ()) for t in strs]
        unions = [((("known", ("str", "ab")), ()), (("known", ("str", "zz")), ()), (("known", ("str", "c")), ())), ((("known", ("str", "ab")), ()), (("typed", "int"), ())),
                  ((("typed", "str"), ()), (("known", ("none",)), ())), ((("known", ("str", "")), ()), (("known", ("str", "a")), ()), (("known", ("str", "abc")), ()))]
        instr_cases = [(v, s) for s in ("abc", "", "a", "ab") for v in [(sv,) for sv in singles] + unions]
    try:
        if instr_cases:
            from pyanalyze.predicates import InPredicate as _InP
            from pyanalyze.stacked_scopes import Constraint as _Con, ConstraintType as _CT, VarnameWithOrigin as _VO, constrain_value as _cv

            mres = norm(lib.coq_eval(COQ_HEADER, [f"[instr_narrow {value_coq(v)} {coq_str(s)} true; instr_narrow {value_coq(v)} {coq_str(s)} false]" for v, s in instr_cases], name="c02s", shard=200, jobs=2))
            srcs_s = {}
            for k, (v, s) in enumerate(instr_cases):
                if all(b[0] == "any" or (b[0] == "typed" and b[1] in ("str", "object")) or (b[0] == "known" and b[1][0] == "str") for b, _ in v) and value_src(v) is not None:
                    srcs_s[k] = f"def f_{k}(x: {value_src(v)}):\n    if x in {s!r}:\n        M1 = x\n    else:\n        M2 = x\n"
            e2e_s = impl_e2e(srcs_s)
            for k, (v, s) in enumerate(instr_cases):
                con = _Con(_VO("x"), _CT.predicate, True, _InP(s, str if s else object, ctx()))
                want = [model_value(mres[k][0]), model_value(mres[k][1])]
                routes = {"api": [decode_value(_cv(value_value(v), a)) for a in (con, con.invert())]}
                if k in e2e_s:
                    routes["e2e"] = e2e_s[k]
                for rname, outs in routes.items():
                    for pol, out, m in zip((True, False), outs, want):
                        if isinstance(out, frozenset) and out != m:
                            instr_mismatch.append((k, rname, pol, sorted(map(str, out)), sorted(map(str, m))))
    except Exception as ex:
        rep.violation({"kind": "broken-correspondence", "correspondence": "Model.instr_narrow vs InPredicate on a str container", "detail": repr(ex)[-1500:]}, no_failing_input=True)

    # 3d'. `len(x) in C` / `len(x) not in C`: Model.lenin_narrow vs _constraint_from_predicate_provider (In / NotIn) and annotate_code
    lenin_mismatch = []
    lenin_cases = []
    if not replay:
        lv = [(("tuple", t), ()) for t in TUPLES] + [(("known", ("str", t)), ()) for t in ("", "a", "ab")] + [(("typed", "str"), ()), (("any",), ()), (("known", ("tuple", (("int", 1), ("str", "a")))), ()),
                                                                                                            (("typed", "tuple"), (("min", 1), ("max", 3)))]
        lunions = [((("tuple", ((False, "int"),)), ()), (("tuple", ((False, "int"), (False, "int"))), ()), (("tuple", ((False, "int"), (False, "str"), (False, "none"))), ())),
                   ((("known", ("str", "")), ()), (("known", ("str", "a")), ()), (("known", ("str", "ab")), ())), ((("tuple", ((True, "int"),)), ()), (("tuple", ()), ()))]
        lenin_cases = [(v, ns, notin) for ns in ((1, 2), (0,), (), (2, 3)) for notin in (False, True) for v in [(sv,) for sv in lv] + lunions]
    try:
        if lenin_cases:
            from pyanalyze.implementation import len_of_value as _lov, len_transformer as _ltr
            from pyanalyze.name_check_visitor import NameCheckVisitor
            from pyanalyze.stacked_scopes import PredicateProvider as _PP, VarnameWithOrigin as _VO2, constrain_value as _cv2

            def _lt(v, ns, notin, pol):
                return f"lenin_narrow {value_coq(v)} {lib.clist([lib.cz(n) for n in ns])} {lib.cbool(pol != notin)}"

            mres2 = norm(lib.coq_eval(COQ_HEADER, [f"[{_lt(v, ns, notin, True)}; {_lt(v, ns, notin, False)}]" for v, ns, notin in lenin_cases], name="c02l", shard=200, jobs=2))
            srcs_l = {}
            for k, (v, ns, notin) in enumerate(lenin_cases):
                if value_src(v) is not None and well_typed(v, ("len", "==", 1)):
                    test = f"len(x) {'not in' if notin else 'in'} ({''.join(str(n) + ', ' for n in ns)})"
                    srcs_l[k] = f"def f_{k}(x: {value_src(v)}):\n    if {test}:\n        M1 = x\n    else:\n        M2 = x\n"
            e2e_l = impl_e2e(srcs_l)
            for k, (v, ns, notin) in enumerate(lenin_cases):
                con = NameCheckVisitor._constraint_from_predicate_provider(None, _PP(_VO2("x"), _lov, _ltr), tuple(ns), (ast.NotIn if notin else ast.In)())
                want = [model_value(mres2[k][0]), model_value(mres2[k][1])]
                routes = {"api": [decode_value(_cv2(value_value(v), a)) for a in (con, con.invert())]}
                if k in e2e_l:
                    routes["e2e"] = e2e_l[k]
                for rname, outs in routes.items():
                    for pol, out, m in zip((True, False), outs, want):
                        if isinstance(out, frozenset) and out != m:
                            lenin_mismatch.append((k, rname, pol, sorted(map(str, out)), sorted(map(str, m))))
    except Exception as ex:
        rep.violation({"kind": "broken-correspondence", "correspondence": "Model.lenin_narrow vs _constraint_from_predicate_provider (in / not in)", "detail": repr(ex)[-1500:]}, no_failing_input=True)

    # 3e. executed programs (harness/c02_programs.py): containers with a non-elementwise __contains__, helper leaks,
    #     `case ... as p`, protocol truthiness; membership decided on the raw Value
    import c02_programs as _P

    prog_failures, prog_known, progs = [], {}, []
    try:
        sel = None
        if stream_replay is not None and stream_replay["route"].startswith("e2e-executed-program"):
            kind = stream_replay["route"].split(":", 1)[1]
            sel = [p for p in _P.generate("thorough", 0, False) if p["kind"] == kind and p["input"] == stream_replay["input"]]
        progs, prog_failures, prog_known, prog_oof = _P.run_stream(tier, lib.seed(), bool(replay), progs=sel)
    except Exception as ex:
        rep.violation({"kind": "broken-correspondence", "correspondence": "executed programs (c02_programs)", "detail": repr(ex)[-1500:]}, no_failing_input=True)
    seen_p = set()
    for (k, slot, bound, args, inferred) in prog_failures:
        if k in seen_p or len(seen_p) >= 4:
            continue
        seen_p.add(k)
        rep.violation({"kind": "failing-input", "route": "e2e-executed-program:" + progs[k]["kind"], "input": progs[k]["input"], "call": f"f_{k}{args}", "branch_slot": slot,
                       "object_bound_at_the_recording_point": bound, "observed": inferred, "source": _P.render(progs[k], k, False),
                       "expected": "the object bound where the branch is taken belongs to the value inferred there"})
    if lenin_mismatch and not prog_failures:
        k, rname, pol, out, m = lenin_mismatch[0]
        rep.violation({"kind": "broken-correspondence", "correspondence": f"Model.lenin_narrow vs {rname} [{pol}]", "input": {"value": lenin_cases[k][0], "container": lenin_cases[k][1], "not_in": lenin_cases[k][2]},
                       "observed": out, "model": m, "mismatches": len(lenin_mismatch)}, no_failing_input=True)
    if instr_mismatch and not prog_failures:
        k, rname, pol, out, m = instr_mismatch[0]
        rep.violation({"kind": "broken-correspondence", "correspondence": f"Model.instr_narrow vs {rname} [{pol}]", "input": {"value": instr_cases[k][0], "container": instr_cases[k][1]},
                       "observed": out, "model": m, "mismatches": len(instr_mismatch)}, no_failing_input=True)

    _t["e2e"] = _time.time()
    # 4. model: join the evaluation thread started above
    if model_thread is not None:
        model_thread.join()
    model = model_box.get("model")
    if "error" in model_box:
        rep.violation({"kind": "broken-correspondence", "correspondence": "Model.narrow (evaluation failed)", "detail": model_box["error"][-1500:]}, no_failing_input=True)

    _t["model"] = _time.time()
    # 5. verdicts
    failing = []  # (case idx, route, pol, obj idx, kind)
    corr = []  # (case idx, what, impl, model)
    spec_mismatch = []
    known_hits = {}
    hist = {"value_size": {}, "cond_kind": {}, "verdict": {"both_nonempty": 0, "pos_never": 0, "neg_never": 0, "both_never": 0},
            "e2e_cases": len(srcs), "oof": 0, "objects_taking_pos": 0, "objects_taking_neg": 0, "objects_raising": 0}
    distinct = set()
    n_eval = 0
    for i, (v, c) in enumerate(cases):
        hist["value_size"][len(v)] = hist["value_size"].get(len(v), 0) + 1
        hist["cond_kind"][c[0]] = hist["cond_kind"].get(c[0], 0) + 1
        routes = {"api": api[i]}
        if i in e2e:
            routes["e2e"] = e2e[i]
        m = None
        if model is not None:
            mt = model[i]
            m = [model_value(mt[0]), model_value(mt[1])]
            mboolab = mt[2]
            mobj = [unpack(x) for x in mt[3]] if mt[3] else None
        a0, a1 = api[i]
        if isinstance(a0, frozenset) and isinstance(a1, frozenset):
            key = "both_never" if not a0 and not a1 else "pos_never" if not a0 else "neg_never" if not a1 else "both_nonempty"
            hist["verdict"][key] += 1
            if frozenset(v) != a0 or frozenset(v) != a1:
                distinct.add((v, c))
        # correspondence
        for rname, outs in routes.items():
            for pol, out in zip((True, False), outs):
                n_eval += 1
                if isinstance(out, tuple):
                    if out[0] == "CRASH":
                        corr.append((i, f"{rname}:{pol}", out, None))
                    else:
                        hist["oof"] += 1
                    continue
                if out is None:
                    continue
                if rname == "e2e" and simple_boolop(c):
                    # visit_BoolOp's scope merge is modelled (Model.narrow_e2e): exact comparison
                    if m is not None:
                        me = model_value(mt[4][0 if pol else 1])
                        if out != me:
                            # e.g. `a or b` where x is Never while b is visited: b's comparison is Never and
                            # its constraint is lost (sound); such cases fall back to the extensional test
                            hist["e2e_boolop_fallbacks"] = hist.get("e2e_boolop_fallbacks", 0) + 1
                            ext_i = [py_member(o, tuple(out)) for o in pyobjs]
                            ext_m = [py_member(o, tuple(m[0 if pol else 1])) for o in pyobjs]
                            tst = tested_of(c)
                            if not all(a == b or (a and not b and py_member(o, tst)) for a, b, o in zip(ext_i, ext_m, pyobjs)):
                                corr.append((i, f"{rname}:{pol}:narrow_e2e", sorted(map(str, out)), sorted(map(str, me))))
                        else:
                            hist["e2e_boolop_exact"] = hist.get("e2e_boolop_exact", 0) + 1
                    continue
                if rname == "e2e" and has_boolop(c):
                    # visit_BoolOp merges the scopes of its operands back into x (the value the
                    # constraint is applied to becomes V plus narrowed copies of its members), so
                    # the end-to-end result of and/or conditions is compared extensionally:
                    # same members among the universe objects
                    if m is not None:
                        ext_i = [py_member(o, tuple(out)) for o in pyobjs]
                        ext_m = [py_member(o, tuple(m[0 if pol else 1])) for o in pyobjs]
                        tst = tested_of(c)
                        extra_ok = all(a == b or (a and not b and py_member(o, tst)) for a, b, o in zip(ext_i, ext_m, pyobjs))
                        if not extra_ok:
                            corr.append((i, f"{rname}:{pol}:extensional", sorted(map(str, out)), sorted(map(str, m[0 if pol else 1]))))
                    continue
                if m is not None and out != m[0 if pol else 1]:
                    corr.append((i, f"{rname}:{pol}", sorted(map(str, out)), sorted(map(str, m[0 if pol else 1]))))
        if m is not None and c[0] != "after" and boolab[i][0] != mboolab:
            corr.append((i, "boolability", boolab[i][0], mboolab))
        # oracle
        tested = tested_of(c)
        is_after = c[0] == "after"
        for j, (lo, o) in enumerate(zip(objs, pyobjs)):
            inV0 = py_member(o, v)
            inV = inV0
            if is_after and inV0:
                # the object reaches the inner `if` only when the guard holds for it
                try:
                    inV = py_holds(c[1], o) is True
                except Raises:
                    inV = False
            try:
                h = py_holds(c, o)
            except Raises:
                h = None
            if m is not None and mobj is not None:
                mo = mobj[j]
                mh = None if mo[1] is None else mo[1][1]
                if (not is_after and mo[0] != inV) or mh != h:
                    spec_mismatch.append((i, j, (inV, h), (mo[0], mh)))
            if inV:
                if h is None:
                    hist["objects_raising"] += 1
                elif h:
                    hist["objects_taking_pos"] += 1
                else:
                    hist["objects_taking_neg"] += 1
            for rname, outs in routes.items():
                for pol, out in zip((True, False), outs):
                    if not isinstance(out, frozenset):
                        continue
                    inOut = py_member(o, tuple(out))
                    if inV and h is not None and h == pol and py_cond_ok(c, o) and not inOut:
                        failing.append((i, rname, pol, j, "lost"))
                    # "never widens" is checked, like C02_narrow_no_widening, modulo the len / hasattr annotations of V
                    # (the negative is_instance branch and the literal complements return the un-annotated value)
                    if inOut and not inV0 and not py_member(o, tuple((b, ()) for b, _e in v)) and not py_member(o, tested):
                        failing.append((i, rname, pol, j, "widened"))
            if inV0 and boolab[i][1] and not bool(o):
                failing.append((i, "boolability", True, j, "always_true_wrong"))
            if inV0 and boolab[i][2] and bool(o):
                failing.append((i, "boolability", False, j, "always_false_wrong"))

    def payload(i, extra):
        v, c = cases[i]
        p = {"input": {"value": v, "cond": c}, "annotation": value_src(v), "source": srcs.get(i), "how_to_run": "./check C02 --replay <this file>"}
        p.update(extra)
        return p

    if model is not None:
        need = sorted(set(i for (i, _r, _p, _j, kind) in failing if kind in ("lost", "always_true_wrong") and not model[i][3]))
        if need:
            try:
                extra = norm(lib.coq_eval(COQ_HEADER + ulist, [model_term(cases[i][0], cases[i][1], True) for i in need], name="c02b", shard=150, jobs=6))
                for i, r in zip(need, extra):
                    model[i] = r
            except RuntimeError as ex:
                rep.violation({"kind": "broken-correspondence", "correspondence": "Model.narrow (second evaluation failed)", "detail": str(ex)[-1500:]}, no_failing_input=True)

    new_failures = []
    for (i, rname, pol, j, kind) in failing:
        attributed = None
        if model is not None and kind in ("lost", "always_true_wrong") and model[i][3]:
            mo = unpack(model[i][3][j])
            clauses = dict(zip(("promotion_negative", "subclass_bool", "multiple_inheritance", "enum_class_object", "sequence_pattern_str", "assert_promotion", "generic_pattern_negative"), mo[3]))
            if kind == "lost":
                # "the implementation behaves on it as the model predicts": the correspondence check of this
                # very output (route, branch) passed — exact, narrow_e2e, or extensional, whichever applies —
                # and the model's value for that route loses the object too
                same = not any(ci == i and what.startswith(f"{rname}:{pol}") for (ci, what, _iv, _mv) in corr)
                mval = model_value(model[i][4][0 if pol else 1]) if (rname == "e2e" and simple_boolop(cases[i][1])) else model_value(model[i][0 if pol else 1])
                model_predicts = not py_member(pyobjs[j], tuple(mval))
            else:
                model_predicts = True
                same = boolab[i][0] == model[i][2]
                clauses = {"subclass_bool": clauses["subclass_bool"]}
            if same and model_predicts:
                for name, on in clauses.items():
                    if on:
                        attributed = name
                        break
        if attributed:
            known_hits.setdefault(attributed, (i, rname, pol, j))
        else:
            new_failures.append((i, rname, pol, j, kind))

    kf = {e["id"]: e for e in lib.load_known_findings(PROP)["findings"]}
    for name, (i, rname, pol, j) in sorted(known_hits.items()):
        fid = FINDINGS[name]
        if fid in kf:
            rep.known(fid, kf[fid]["what"])
        else:
            new_failures.append((i, rname, pol, j, "unlisted-finding:" + name))
    for name, (k, slot, bound) in sorted(prog_known.items()):
        fid = FINDINGS[name]
        if name in known_hits:
            continue
        if fid in kf:
            rep.known(fid, kf[fid]["what"])
        else:
            rep.violation({"kind": "failing-input", "route": "e2e-executed-program:" + progs[k]["kind"], "input": progs[k]["input"], "failure": "unlisted-finding:" + name,
                           "object_bound_at_the_recording_point": bound, "source": _P.render(progs[k], k, False)})

    seen = set()
    for (i, rname, pol, j, kind) in new_failures:
        key = (cases[i], kind, pol)
        if key in seen:
            continue
        seen.add(key)
        outs = api[i] if rname in ("api", "boolability") else e2e[i]
        rep.violation(payload(i, {"kind": "failing-input", "route": rname, "branch": pol, "object": lit_src(objs[j]), "failure": kind,
                                  "observed": [sorted(map(str, o)) if isinstance(o, frozenset) else o for o in outs],
                                  "expected": "object stays in the narrowed value of the branch it takes / nothing outside V and the tested type / verdict right for every member"}))
        if len(seen) >= 10:
            break
    found_input = bool(new_failures) or bool(prog_failures) or bool(stored_failures) or bool(alt_failures)
    if corr and not found_input:
        i, what, iv, mv = corr[0]
        rep.violation(payload(i, {"kind": "broken-correspondence", "correspondence": f"Narrow.Model.narrow/boolab_of vs constrain_value/annotate_code/get_boolability [{what}]",
                                  "observed": iv, "model": mv, "mismatches": len(corr)}), no_failing_input=True)
    if broken_translation and not found_input:
        rep.violation({"kind": "broken-obligation", "theorem": "Gen/NarrowTable.v / Gen/NarrowPreds.v / Gen/NarrowSrc.v (translators)", "detail": broken_translation}, no_failing_input=True)
    if proof is not None and not proof.ok and not found_input:
        rep.violation({"kind": "broken-obligation", "theorem": "; ".join(proof.broken), "log": proof.log[-1500:]}, no_failing_input=True)
    if spec_mismatch:
        i, j, pyv, mv = spec_mismatch[0]
        rep.harness_error(f"spec (Coq member/holds) disagrees with CPython on {len(spec_mismatch)} (case, object) pairs, first: value={cases[i][0]} cond={cases[i][1]} object={objs[j]} python={pyv} coq={mv}")

    rep.coverage.update(
        evaluations=n_eval,
        distinct_nontrivial=len(distinct),
        rule="case = (value V: union of <=3 members over Any/Literal/class/type[...]/tuple/Annotated-with-len, condition: one of 13 leaf kinds or a depth<=2 not/and/or of them); "
        "both polarities evaluated through constrain_value (api) and, when V and the condition can be written in source, through annotate_code (e2e); "
        "non-trivial = some branch's narrowed value differs from V; every case is also run on %d universe objects under CPython" % len(objs),
        samples=[{"value": cases[i][0], "cond": cases[i][1], "api": [sorted(map(str, o)) if isinstance(o, frozenset) else o for o in api[i]]} for i in range(0, len(cases), max(1, len(cases) // 4))][:5],
        traces_validated_against_impl=n_eval - len(corr),
        input_distribution=hist,
        correspondence_mismatches=len(corr),
        oracle_failures_unattributed=len(new_failures),
        oracle_failures_attributed={k: True for k in known_hits},
        spec_vs_cpython_pairs=len(full_idx) * len(objs) if model is not None else 0,
        exhaustive=(tier == "thorough" and not replay),
        executed_programs=len(progs),
        executed_program_failures=len(prog_failures),
        len_in_correspondence_cases=len(lenin_cases),
        len_in_correspondence_mismatches=len(lenin_mismatch),
        str_container_correspondence_cases=len(instr_cases),
        str_container_correspondence_mismatches=len(instr_mismatch),
        stored_condition_programs=len(stored),
        stored_condition_failures=len(stored_failures),
        union_valued_condition_cases=len(alts),
        union_valued_condition_failures=len(alt_failures),
        stage_seconds={"impl_api": round(_t["api"] - _t["start"], 1), "impl_e2e": round(_t["e2e"] - _t["api"], 1),
                       "model_vm_compute": round(_t["model"] - _t["e2e"], 1), "oracle_and_verdicts": round(_time.time() - _t["model"], 1)},
    )
    rep.assumptions = ["closed class universe harness/c02_universe.py", "TypeIs/TypeGuard functions return True exactly on members of the guarded type",
                       "translator harness/translate/narrowtable.py", "python-side membership oracle py_member_s (real isinstance/issubclass/len/==)"]
    return rep.finish(
        proof,
        "coq_makefile + make theories/Properties/C02.vo; coqc theories/Properties/C02.v (Print Assumptions)" + ("; coqchk -o" if tier == "thorough" else ""),
        ["Coq 8.16.1 kernel (coqc; vm_compute in finite class-table lemmas and model evaluation)", "translator harness/translate/narrowtable.py",
         "correspondence + oracle harness/c02.py", "CPython 3.12 as the oracle of conditions (isinstance, is, ==, in, len, bool, match)"],
    )
