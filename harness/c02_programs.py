"""Executed-program streams of the C02 check (oracle only, no Coq model of the program shapes).

Every program is a small function that narrows a variable and records, at a recording point inside each branch,
the object bound to the recorded variable.  The program is (1) analysed by pyanalyze (ast_annotator.annotate_code; the
inferred value of the recorded variable at every recording point is read off the tree) and (2) *executed* under
CPython with every argument combination; every object that really reaches a recording point must belong to the value
pyanalyze inferred there.  Membership is decided on the raw pyanalyze Value (value_has), so objects outside the Coq
universe (bytes, bytearray, user containers, protocol-typed values) can be used.

Streams (kind):
  container   `x in C` / `x not in C` for every container kind, incl. those whose __contains__ is not element-wise
              equality (str, bytes, bytearray, Enum classes, user classes), against variables with multi-character /
              bytes / int Literal members and plain types                         (round-4 seed; defect (b), repaired)
  leak        a helper whose returned condition is about *its* parameter, called from a function that has a variable
              of the same name (global, closure, parameter, local)                (defect (d), fixed in 180079d)
  asname      `case <pattern with sub-patterns> as p`: the value bound to p        (finding (a), C01's)
  compare     every operator of the comparison table on len(x) and on the variable, from either side  (round-5 seed)
  protocol    truthiness of protocol / ABC typed values (Hashable, Iterable, ...)  (finding (c))

A failing (program, recording point, object) is attributed to a known finding only by the explicit python clause
given with the program kind (the mirror of the Coq clause named in known_findings.d/C02.json); everything else is a
failing input.
"""
from __future__ import annotations

import ast
import contextlib
import io
import random

import c02_universe as U

PRELUDE = ("from typing import Any, Literal, Type, Union, Hashable, Iterable, Container, Sized, Callable\n"
           "from collections.abc import Mapping, Sequence\nfrom c02_universe import *\n")


class OutOfFragment(Exception):
    pass


def value_has(v, o) -> bool:
    """run-time membership of a real object in a raw pyanalyze Value (custom checks of Annotated ignored: superset)"""
    from pyanalyze import value as V

    if isinstance(v, V.AnnotatedValue):
        # custom checks with a run-time predicate (MinLen / MaxLen / Lt / Gt ...) are honoured, others ignored (superset)
        for ext in v.metadata:
            check = getattr(ext, "custom_check", None)
            pred = getattr(check, "predicate", None)
            if isinstance(ext, V.CustomCheckExtension) and callable(pred):
                try:
                    if not pred(o):
                        return False
                except Exception:
                    pass
        return value_has(v.value, o)
    if isinstance(v, V.MultiValuedValue):
        return any(value_has(m, o) for m in v.vals)
    if isinstance(v, (V.AnyValue, V.TypeVarValue)):
        return True
    if isinstance(v, V.KnownValue):
        return v.val is o or (type(v.val) is type(o) and v.val == o)
    if isinstance(v, V.SubclassValue):
        if not isinstance(o, type):
            return False
        return issubclass(o, v.typ.typ) if isinstance(v.typ, V.TypedValue) and isinstance(v.typ.typ, type) else True
    if isinstance(v, V.SequenceValue) and isinstance(v.typ, type):
        if not isinstance(o, v.typ):
            return False
        fixed = [m for many, m in v.members if not many]
        if len(fixed) != len(v.members):
            return len(o) >= len(fixed)
        return len(o) == len(fixed) and all(value_has(m, e) for m, e in zip(fixed, o))
    if isinstance(v, V.TypedValue):
        typ = v.typ
        if not isinstance(typ, type):
            return True  # synthetic type: unknown, no claim
        if isinstance(o, typ):
            return True
        return (typ is float and isinstance(o, int)) or (typ is complex and isinstance(o, (int, float)))
    raise OutOfFragment(f"value_has: {type(v).__name__} {v}")


# ---------------------------------------------------------------------------
# pools

POOL = ["ab", "zz", "c", "a", "", "abc", b"ab", b"q", b"a", b"", 1, 5, 97, 0, 2, 4, None, U.E.a, U.E.b, U.IE.x, U.IE.y, True, (1,), (1, "a")]
POOL_SRC = {id(U.E.a): "E.a", id(U.E.b): "E.b", id(U.IE.x): "IE.x", id(U.IE.y): "IE.y"}


def obj_src(o):
    return POOL_SRC.get(id(o), repr(o))


# annotation = (source, literal members, classes)
VARS = [
    ('Literal["ab", "zz", "c"]', ["ab", "zz", "c"], ()),
    ('Literal["ab", "c", 1]', ["ab", "c", 1], ()),
    ('Literal["", "a", "abc"]', ["", "a", "abc"], ()),
    ('Literal[b"ab", b"q", b"a"]', [b"ab", b"q", b"a"], ()),
    ("Literal[1, 5, 97, 4]", [1, 5, 97, 4], ()),
    ('Literal[1, "a", None]', [1, "a", None], ()),
    ("str", [], (str,)),
    ("bytes", [], (bytes,)),
    ("int", [], (int,)),
    ("object", [], (object,)),
    ("Union[str, int]", [], (str, int)),
    ('Union[Literal["ab"], int]', ["ab"], (int,)),
    ('Union[bytes, Literal["c"]]', ["c"], (bytes,)),
    ("E", [], (U.E,)),
    ("IE", [], (U.IE,)),
    ("Union[str, None]", [None], (str,)),
]


def strict_eq(a, b):
    return a is b or (type(a) is type(b) and a == b)


def ann_has(var, o):
    _, lits, classes = var
    return any(strict_eq(l, o) for l in lits) or any(isinstance(o, c) for c in classes)


# container = (source expression, python object)
CONTAINERS = [
    ('"abc"', "abc"), ('""', ""), ('"a"', "a"), ('b"abc"', b"abc"), ('b""', b""), ("BA", U.BA), ("RNG3", U.RNG3), ("DCT", U.DCT), ('{"ab": 1, "c": 2}', {"ab": 1, "c": 2}),
    ("FS", U.FS), ('{1, "ab"}', {1, "ab"}), ('(1, "ab", None)', (1, "ab", None)), ('["ab", "c"]', ["ab", "c"]), ("()", ()), ("E", U.E), ("IE", U.IE),
    ("EVENS", U.EVENS), ("ONLYC", U.ONLYC), ("PREF", U.PREF), ('(b"ab", b"q")', (b"ab", b"q")), ('("abc", "a")', ("abc", "a")),
]
# the core of the class: non-elementwise containers x variables with literal members / plain types of the matching kind
CORE = [(ci, vi) for ci in (0, 1, 3, 5, 14, 15, 16, 18) for vi in (0, 2, 3, 4, 6, 7, 8)]


def elements(cont):
    try:
        return list(cont)
    except Exception:
        return None


def in_quantifier(o, cont):
    """the property's quantifier: equality with an element implies equal type (`True in (1,)` is outside)"""
    els = elements(cont)
    if els is None:
        return True
    for e in els:
        try:
            if (o == e) and not strict_eq(o, e):
                return False
        except Exception:
            return False
    return True


def container_progs(rng, n_random, everything):
    pairs = list(CORE)
    rest = [(ci, vi) for ci in range(len(CONTAINERS)) for vi in range(len(VARS)) if (ci, vi) not in set(CORE)]
    if everything:
        pairs += rest
    else:
        rng.shuffle(rest)
        pairs += rest[:n_random]
    out = []
    for n, (ci, vi) in enumerate(pairs):
        csrc, cobj = CONTAINERS[ci]
        var = VARS[vi]
        form = ("if", "ifnot", "stored", "notin")[(n + ci + vi) % 4] if not everything else None
        for f in ([form] if form else ["if", "ifnot", "stored", "notin"]):
            test = {"if": f"x in {csrc}", "ifnot": f"not (x in {csrc})", "stored": "c_", "notin": f"x not in {csrc}"}[f]
            pre = f"    c_ = x in {csrc}\n" if f == "stored" else ""
            body = f"def f_K(x: {var[0]}):\n{pre}    if {test}:\n        R0(x)\n    else:\n        R1(x)\n"
            calls = [(o,) for o in POOL if ann_has(var, o) and in_quantifier(o, cobj)]
            out.append({"kind": "container", "body": body, "calls": calls, "input": {"container": csrc, "variable": var[0], "form": f}, "cont": cobj, "var": var})
    return out


LEAK_TESTS = [("isinstance(V, int)", lambda o: isinstance(o, int)), ("V is None", lambda o: o is None), ("not isinstance(V, str)", lambda o: not isinstance(o, str)),
              ('V == "zz"', lambda o: o == "zz"), ("bool(V)", bool), ('V in ("ab", 1)', lambda o: o in ("ab", 1))]


def leak_progs():
    out = []
    for ti, (test, _) in enumerate(LEAK_TESTS):
        for shape in ("global", "closure", "param", "local", "same"):
            v = f"v{ti}{shape}"
            helper = f"def h_K({v}):\n    return {test.replace('V', v)}\n"
            if shape == "global":
                body = helper + f'{v}: str = "ab"\ndef f_K(y: object):\n    if h_K(y):\n        R0({v})\n    else:\n        R1({v})\n'
                calls = [(o,) for o in (1, "zz", None, "ab")]
            elif shape == "closure":
                body = helper + f"def f_K(y: object, {v}: Union[str, int]):\n    def inner():\n        if h_K(y):\n            R0({v})\n        else:\n            R1({v})\n    inner()\n"
                calls = [(o, w) for o in (1, "zz", None) for w in ("ab", 5)]
            elif shape == "param":
                body = helper + f"def f_K(y: object, {v}: Union[str, int, None]):\n    if h_K(y):\n        R0({v})\n    else:\n        R1({v})\n"
                calls = [(o, w) for o in (1, "zz", None, "ab") for w in ("ab", 5, None, "zz")]
            elif shape == "local":
                body = helper + f'def f_K(y: object, flag: bool):\n    {v} = "ab" if flag else 5\n    if h_K(y):\n        R0({v})\n    else:\n        R1({v})\n'
                calls = [(o, w) for o in (1, "zz", None) for w in (True, False)]
            else:  # the caller passes its own variable of that name: whatever is inferred must be right
                body = helper + f"def f_K({v}: Union[str, int, None]):\n    if h_K({v}):\n        R0({v})\n    else:\n        R1({v})\n"
                calls = [(w,) for w in ("ab", 5, None, "zz", 1, 0, "")]
            out.append({"kind": "leak", "body": body, "calls": calls, "input": {"helper_test": test, "caller_variable": shape}, "shape": shape})
    return out


def asname_progs():
    progs = []
    cases = [
        ("Point", "Point(x=0) as p", "[Point(0, 1), Point(2, 3)]", True),
        ("Point", "Point(x=0, y=1) as p", "[Point(0, 1), Point(0, 3)]", True),
        ("Point", "Point() as p", "[Point(0, 1)]", False),
        ("tuple", "[int(), *rest] as p", "[(1, 2), (1,), ('a',)]", True),
        ("Union[tuple, int]", "[1, _] as p", "[(1, 2), (2, 2), 3]", True),
        ("Union[tuple, int]", "[_, _] as p", "[(1, 2), 3]", False),
        ("dict", "{'a': 1} as p", "[{'a': 1}, {'a': 2}]", True),
        ("Outer", "Outer(n=int() as c) as p", "[Outer(1), Outer('s')]", True),
        ("Union[int, str]", "int() as p", "[1, 's']", False),
        ("Union[int, str, None]", "(int() | None) as p", "[1, 's', None]", False),
        ("object", "(1 | 'ab') as p", "[1, 'ab', 2]", False),
        ("object", "str() as p", "['ab', 2]", False),
    ]
    for ann, pat, objs, has_sub in cases:
        body = f"def f_K(s: {ann}):\n    match s:\n        case {pat}:\n            R0(p)\n        case _:\n            R1(s)\n"
        progs.append({"kind": "asname", "body": body, "calls_src": objs, "input": {"subject": ann, "pattern": pat}, "has_sub": has_sub})
    return progs


PROTOCOLS = ["Hashable", "Iterable", "Container", "Sized", "Callable", "Union[Hashable, None]", "object"]


def protocol_progs():
    out = []
    for ann in PROTOCOLS:
        for form in ("if x", "if not x"):
            body = f"def f_K(x: {ann}):\n    {form}:\n        R0(x)\n    else:\n        R1(x)\n"
            calls_src = {"Hashable": "[0, 1, '', 'a', (), (1,), None, f0, a0]", "Iterable": "['', 'a', (), (1,), [], [1]]", "Container": "['', 'a', (), [1]]",
                         "Sized": "['', 'a', (), [1]]", "Callable": "[len, A, f0.__bool__]", "Union[Hashable, None]": "[0, 1, None, '']", "object": "[0, 1, '', f0, a0, None]"}[ann]
            out.append({"kind": "protocol", "body": body, "calls_src": calls_src, "input": {"annotation": ann, "form": form}})
    return out


# ---------------------------------------------------------------------------
# comparisons (round 5): every operator of COMPARATOR_TO_OPERATOR (== != < <= > >= in `not in` is `is not`) applied to
# len(x) (the only predicate provider) from either side, to the variable itself from either side (the literal on the
# left: `c in x`, `3 < x`), in if / negated / stored form, on unions whose members differ in exactly the tested respect

LENVARS = [
    ("Union[tuple[int], tuple[int, int], tuple[int, int, int]]", [(7,), (7, 8), (7, 8, 9)]),
    ("Union[tuple[()], tuple[int], tuple[int, str]]", [(), (7,), (7, "s")]),
    ('Literal["", "a", "ab", "abc"]', ["", "a", "ab", "abc"]),
    ("tuple[int, ...]", [(), (7,), (7, 8), (7, 8, 9)]),
    ("Union[tuple[int, int], str]", [(7, 8), "", "ab", "abc"]),
    ("str", ["", "a", "ab", "abc"]),
    ("Union[tuple[int, ...], tuple[str, str, str]]", [(), (7,), (7, 8), ("a", "b", "c")]),
]
CMP_OPS = ["==", "!=", "<", "<=", ">", ">=", "is", "is not"]
LEN_CONTAINERS = ["(1, 2)", "(0,)", "()", "[2, 3]", "{1, 3}", "RNG3", '(1, "a")', "(3, 0)"]
# the variable itself: (annotation, objects, literals to compare with)
SELFVARS = [
    ("Literal[1, 2, 3]", [1, 2, 3], ["0", "1", "2", "3", "4"]),
    ('Literal["ab", "cd", "a"]', ["ab", "cd", "a"], ['"a"', '"ab"', '"b"', '"cd"']),
    ("Union[Literal[1, 5], str]", [1, 5, "ab"], ["1", "3", "5"]),
    ("Union[Literal[1, 2], None]", [1, 2, None], ["1", "None"]),
]
# unions of literal containers (local variable): `c in x` / `c not in x`
CONTAINER_UNIONS = [('(1, 2)', '(3,)', ["1", "3", "4"]), ('"ab"', '"cd"', ['"a"', '"c"', '"cd"', '""']), ('(1, "a")', '()', ["1", '"a"']), ('"abc"', '(1, 2)', ['"b"', "1"])]
FORMS = ("if", "ifnot", "stored")


def _wrap(test, form, head, rec):
    pre = f"    c_ = {test}\n" if form == "stored" else ""
    cond = {"if": test, "ifnot": f"not ({test})", "stored": "c_"}[form]
    return f"{head}{pre}    if {cond}:\n        R0({rec})\n    else:\n        R1({rec})\n"


def compare_progs(rng, n_random, everything):
    core, rest = [], []
    for vi, (ann, objs) in enumerate(LENVARS):
        head = f"def f_K(x: {ann}):\n"
        for c in LEN_CONTAINERS:
            for op in ("in", "not in"):
                (core if vi < 4 and c in ("(1, 2)", "(0,)", "RNG3") else rest).append((f"len(x) {op} {c}", head, "x", [(o,) for o in objs], {"variable": ann}))
        for op in CMP_OPS:
            for n in (0, 1, 2, 3):
                rest.append((f"len(x) {op} {n}", head, "x", [(o,) for o in objs], {"variable": ann}))
                rest.append((f"{n} {op} len(x)", head, "x", [(o,) for o in objs], {"variable": ann}))
    for ann, objs, lits in SELFVARS:
        head = f"def f_K(x: {ann}):\n"
        for c in lits:
            for op in CMP_OPS:
                if op in ("<", "<=", ">", ">=") and ("None" in ann or "str]" in ann or c == "None"):
                    continue  # unorderable operands are a TypeError at run time and an error for pyanalyze
                if op in ("is", "is not") and c != "None":
                    continue
                rest.append((f"x {op} {c}", head, "x", [(o,) for o in objs], {"variable": ann}))
                rest.append((f"{c} {op} x", head, "x", [(o,) for o in objs], {"variable": ann}))
    for a, b, lits in CONTAINER_UNIONS:
        head = f"def f_K(flag: bool):\n    x = {a} if flag else {b}\n"
        for c in lits:
            for op in ("in", "not in"):
                core.append((f"{c} {op} x", head, "x", [(True,), (False,)], {"variable": f"{a} | {b}"}))
    for ann, objs, lits in SELFVARS[1:2]:
        for c in lits:
            for op in ("in", "not in"):
                core.append((f"{c} {op} x", f"def f_K(x: {ann}):\n", "x", [(o,) for o in objs], {"variable": ann}))
    if not everything:
        rng.shuffle(rest)
        rest = rest[:n_random]
    out = []
    for n, (test, head, rec, calls, inp) in enumerate(core + rest):
        for form in (FORMS if everything else (FORMS[n % 3],)):
            out.append({"kind": "compare", "body": _wrap(test, form, head, rec), "calls": calls, "input": dict(inp, test=test, form=form)})
    return out


# ---------------------------------------------------------------------------
# attribution clauses (python mirrors of the Coq clauses; see known_findings.d/C02.json)


def attribute(prog, slot, args, bound):
    k = prog["kind"]
    if k == "container":
        return None  # C02-in-nonelementwise-container is repaired upstream: a loss is a regression, never attributed
    if k == "leak":
        return None  # repaired upstream (180079d): a leak is a regression, never attributed
    if k == "asname":
        return "subpattern_on_subject" if prog["has_sub"] else None
    if k == "protocol":
        # C02-subclass-bool: a falsy object of a class-like type without __bool__/__len__
        return "subclass_bool" if not bound and prog["input"]["annotation"] != "object" else None
    return None


# ---------------------------------------------------------------------------
# running


def render(prog, k, executable):
    body = prog["body"].replace("_K", f"_{k}")
    for slot in (0, 1):
        marker = f"R{slot}("
        while marker in body:
            i = body.index(marker)
            j = body.index(")", i)
            var = body[i + len(marker):j]
            rep = f"_REC.append(({k}, {slot}, {var}))" if executable else f"M{slot} = {var}"
            body = body[:i] + rep + body[j + 1:]
    return body


def analyse(progs):
    """{k: {slot: raw Value}}"""
    from pyanalyze.ast_annotator import annotate_code

    out = {}
    items = list(enumerate(progs))
    for start in range(0, len(items), 60):
        chunk = items[start:start + 60]
        code = PRELUDE + "\n".join(render(p, k, False) for k, p in chunk)
        buf = io.StringIO()
        with contextlib.redirect_stdout(buf), contextlib.redirect_stderr(buf):
            tree = annotate_code(code)
        for node in tree.body:
            if isinstance(node, ast.FunctionDef) and node.name.startswith("f_"):
                k = int(node.name[2:])
                res = {}
                for n in ast.walk(node):
                    if isinstance(n, ast.Assign) and isinstance(n.targets[0], ast.Name) and n.targets[0].id in ("M0", "M1"):
                        res[int(n.targets[0].id[1])] = getattr(n.value, "inferred_value", None)
                out[k] = res
    return out


def execute(progs):
    """[(k, slot, bound object, args)]"""
    import warnings

    warnings.simplefilter("ignore", SyntaxWarning)  # `len(x) is 1`
    env = {}
    exec(PRELUDE + "_REC = []\n", env)
    out = []
    for k, p in enumerate(progs):
        exec(render(p, k, True), env)
        calls = p.get("calls")
        if calls is None:
            calls = [(o,) for o in eval(p["calls_src"], env)]
        fn = env[f"f_{k}"]
        for args in calls:
            del env["_REC"][:]
            try:
                fn(*args)
            except Exception:
                continue
            for (kk, slot, bound) in env["_REC"]:
                out.append((kk, slot, bound, args))
    return out


def generate(tier, seed, replay):
    if replay:
        return []
    rng = random.Random(seed * 4099 + 17)
    progs = container_progs(rng, 150 if tier == "quick" else 0, tier != "quick")
    if tier == "quick":
        # the recorded shapes (harness/corpus/C02_programs.json) are always run
        import json
        from pathlib import Path

        corpus = json.loads((Path(__file__).parent / "corpus" / "C02_programs.json").read_text())
        have = [p["input"] for p in progs]
        progs += [p for p in container_progs(rng, 0, True) if p["input"] in corpus["container"] and p["input"] not in have]
    cmp_progs = compare_progs(rng, 170 if tier == "quick" else 0, tier != "quick")
    if tier == "quick":
        have = [p["input"] for p in cmp_progs]
        cmp_progs += [p for p in compare_progs(rng, 0, True) if p["input"] in corpus["compare"] and p["input"] not in have]
    progs += cmp_progs
    return progs + leak_progs() + asname_progs() + protocol_progs()


def run_stream(tier, seed, replay=False, progs=None):
    """-> (programs, failures [(k, slot, bound repr, args repr, inferred str)], known {clause: (k, slot, bound repr)}, oof count)"""
    progs = generate(tier, seed, replay) if progs is None else progs
    if not progs:
        return progs, [], {}, 0
    static = analyse(progs)
    failures, known, oof = [], {}, 0
    for (k, slot, bound, args) in execute(progs):
        v = static.get(k, {}).get(slot)
        if v is None:
            continue
        try:
            ok = value_has(v, bound)
        except OutOfFragment:
            oof += 1
            continue
        if ok:
            continue
        clause = attribute(progs[k], slot, args, bound)
        if clause is not None:
            known.setdefault(clause, (k, slot, repr(bound)))
        else:
            failures.append((k, slot, obj_src(bound), "(" + ", ".join(obj_src(a) for a in args) + ")", str(v)))
    return progs, failures, known, oof
