"""The fixed class/object universe of the C02 check (imported by generated modules
and by harness/c02.py; the Coq side is coq/theories/Narrow/Base.v)."""
import collections.abc
import enum


class A:
    pass


class B(A):
    pass


class C:
    pass


class Falsy(A):
    def __bool__(self):
        return False


class AC(A, C):
    pass


class E(enum.Enum):
    a = 1
    b = 2


class IE(enum.IntEnum):
    x = 1
    y = 2


# instances with fixed identities (model: OInst cls k)
a0 = A()
a1 = A()
b0 = B()
c0 = C()
f0 = Falsy()
ac0 = AC()
o0 = object()

NoneType = type(None)
EnumMeta = enum.EnumMeta
Sequence = collections.abc.Sequence
Mapping = collections.abc.Mapping

CLASSES = {
    "object": object,
    "int": int,
    "bool": bool,
    "float": float,
    "complex": complex,
    "str": str,
    "tuple": tuple,
    "NoneType": NoneType,
    "type": type,
    "A": A,
    "B": B,
    "C": C,
    "Falsy": Falsy,
    "AC": AC,
    "E": E,
    "IE": IE,
    "EnumMeta": enum.EnumMeta,
    "list": list,
    "dict": dict,
    "Sequence": collections.abc.Sequence,
    "Mapping": collections.abc.Mapping,
}
# name -> Coq constructor
COQ_CLS = {
    "object": "CObject",
    "int": "CInt",
    "bool": "CBool",
    "float": "CFloat",
    "complex": "CComplex",
    "str": "CStr",
    "tuple": "CTuple",
    "NoneType": "CNone",
    "type": "CType",
    "A": "CA",
    "B": "CB",
    "C": "CC",
    "Falsy": "CFalsy",
    "AC": "CAC",
    "E": "CE",
    "IE": "CIE",
    "EnumMeta": "CEnumMeta",
    "list": "CList",
    "dict": "CDict",
    "Sequence": "CSequence",
    "Mapping": "CMapping",
}
CLS_ORDER = list(COQ_CLS)  # order = Base.cls_code
INSTANCES = {("A", 0): a0, ("A", 1): a1, ("B", 0): b0, ("C", 0): c0, ("Falsy", 0): f0, ("AC", 0): ac0, ("object", 0): o0}
INSTANCE_NAMES = {("A", 0): "a0", ("A", 1): "a1", ("B", 0): "b0", ("C", 0): "c0", ("Falsy", 0): "f0", ("AC", 0): "ac0", ("object", 0): "o0"}
ENUM_MEMBERS = {"E": [E.a, E.b], "IE": [IE.x, IE.y]}
ENUM_MEMBER_NAMES = {"E": ["E.a", "E.b"], "IE": ["IE.x", "IE.y"]}
