"""The fixed class/object universe of the C02 check (imported by generated modules
and by harness/c02.py; the Coq side is coq/theories/Narrow/Base.v)."""
import collections.abc
import enum


class A:
    pass


class B(A):
    pass


class C:
    pass


class Falsy(A):
    def __bool__(self):
        return False


class AC(A, C):
    pass


class E(enum.Enum):
    a = 1
    b = 2


class IE(enum.IntEnum):
    x = 1
    y = 2


# instances with fixed identities (model: OInst cls k)
a0 = A()
a1 = A()
b0 = B()
c0 = C()
f0 = Falsy()
ac0 = AC()
o0 = object()

NoneType = type(None)
EnumMeta = enum.EnumMeta
Sequence = collections.abc.Sequence
Mapping = collections.abc.Mapping

CLASSES = {
    "object": object,
    "int": int,
    "bool": bool,
    "float": float,
    "complex": complex,
    "str": str,
    "tuple": tuple,
    "NoneType": NoneType,
    "type": type,
    "A": A,
    "B": B,
    "C": C,
    "Falsy": Falsy,
    "AC": AC,
    "E": E,
    "IE": IE,
    "EnumMeta": enum.EnumMeta,
    "list": list,
    "dict": dict,
    "Sequence": collections.abc.Sequence,
    "Mapping": collections.abc.Mapping,
}
# name -> Coq constructor
COQ_CLS = {
    "object": "CObject",
    "int": "CInt",
    "bool": "CBool",
    "float": "CFloat",
    "complex": "CComplex",
    "str": "CStr",
    "tuple": "CTuple",
    "NoneType": "CNone",
    "type": "CType",
    "A": "CA",
    "B": "CB",
    "C": "CC",
    "Falsy": "CFalsy",
    "AC": "CAC",
    "E": "CE",
    "IE": "CIE",
    "EnumMeta": "CEnumMeta",
    "list": "CList",
    "dict": "CDict",
    "Sequence": "CSequence",
    "Mapping": "CMapping",
}
CLS_ORDER = list(COQ_CLS)  # order = Base.cls_code
INSTANCES = {("A", 0): a0, ("A", 1): a1, ("B", 0): b0, ("C", 0): c0, ("Falsy", 0): f0, ("AC", 0): ac0, ("object", 0): o0}
INSTANCE_NAMES = {("A", 0): "a0", ("A", 1): "a1", ("B", 0): "b0", ("C", 0): "c0", ("Falsy", 0): "f0", ("AC", 0): "ac0", ("object", 0): "o0"}
ENUM_MEMBERS = {"E": [E.a, E.b], "IE": [IE.x, IE.y]}
ENUM_MEMBER_NAMES = {"E": ["E.a", "E.b"], "IE": ["IE.x", "IE.y"]}


# ---------------------------------------------------------------------------
# containers for the executed-program stream of the C02 check (harness/c02_programs.py): `x in C` / `x not in C`
# against containers whose own __contains__ is not "equals one of the elements obtained by iterating C"
class Evens:
    """iterates 0, 2 but contains every even int"""

    def __iter__(self):
        return iter((0, 2))

    def __contains__(self, item):
        return type(item) is int and item % 2 == 0


class OnlyContains:
    """no __iter__: list(C) fails, so no constraint can be built"""

    def __contains__(self, item):
        return item == "ab"


class Prefixes:
    """iterates its words, contains every prefix of a word (like a trie)"""

    def __init__(self, *words):
        self.words = words

    def __iter__(self):
        return iter(self.words)

    def __contains__(self, item):
        return isinstance(item, str) and any(w.startswith(item) for w in self.words)


BA = bytearray(b"abc")
RNG3 = range(3)
DCT = {"ab": 1, "c": 2}
FS = frozenset({1, "ab", None})
EVENS = Evens()
ONLYC = OnlyContains()
PREF = Prefixes("abc", "zz")


# subjects of the `case <pattern> as p` programs
import dataclasses as _dc


@_dc.dataclass
class Point:
    x: int
    y: int


@_dc.dataclass
class Outer:
    n: object
