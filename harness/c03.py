"""C03 — assignability of a concrete value equals runtime membership.

proof      : Properties/C03.v over Core/CanAssignK.v (model of T.can_assign(KnownValue(o)))
             and Core/Member.v (spec), instantiated with Gen/ClassTable.v (dumped from the
             running implementation on every run)
tie        : class-table dump + correspondence model `ca` vs runtime.is_assignable; spec
             `member` vs an independent Python oracle using real isinstance / iteration
oracle     : is_assignable(o, T) == py_member(o, T), and `x: T = <literal o>` is diagnosed
             iff not py_member(o, T)
"""
from __future__ import annotations

import json
import random
import types
import typing
from pathlib import Path

import classtable
import gen_values as G
import lib
from core_enc import Ctx, OutOfFragment, enc_obj, enc_val, show

PROP = "C03"
HEADER = (
    "From Coq Require Import ZArith List Bool NArith. Import ListNotations.\n"
    "Require Import PV.Core.Obj PV.Core.Val PV.Core.Cls PV.Core.Member PV.Core.CanAssignK PV.Core.C03Run PV.Gen.ClassTable.\n"
)


def gen_files():
    return {"ClassTable.v": classtable.gen_text()}


# ---------------------------------------------------------------------------
# type expressions (strings, evaluated in NS)


def namespace():
    import collections.abc
    import universe as U

    ns = {k: getattr(typing, k) for k in ("Optional", "Union", "Literal", "Annotated", "Any")}
    for k in ("Sequence", "Iterable", "Mapping", "Collection", "MutableSequence", "MutableMapping"):
        ns[k] = getattr(collections.abc, k)
    ns["AbstractSet"] = collections.abc.Set
    for k in U.TYPEDDICTS:
        ns[k] = getattr(U, k)
    for k in ("A", "B", "C", "E", "IE", "NT", "Falsy", "ISub", "FSub", "CSub", "FE", "SSub", "BSub", "TSub", "LSub", "DSub", "SE"):
        ns[k] = getattr(U, k)
    return ns


BASES = ["int", "bool", "float", "complex", "str", "bytes", "object", "A", "B", "C", "E", "IE", "list", "tuple", "dict",
         "set", "frozenset", "type", "None", "NT", "TD1", "TD2", "TD3", "TD4", "TDBase", "TDChild", "TDGrand", "TDOptBase", "TDReqChild",
         "TDQ", "TDF", "TDFopt", "TDClosed", "TDExtra", "TDExtraChild", "TDChild", "TDReqChild", "ISub", "FSub", "FE", "SSub", "TSub", "LSub", "DSub"]
LITS = ["1", "0", "True", "False", "'a'", "''", "b'a'", "None", "-1", "E.a", "IE.x", "2"]
CLASSES_FOR_TYPE = ["int", "float", "bool", "str", "A", "B", "C", "object", "complex", "tuple", "list", "dict", "bytes"]


# literals that are == but of different types (1 / True / IE.x, 0 / False, 2 / IE.y): a large union keeps its
# Literal members in a hashed structure (fast path from 10 members on), where such twins must stay apart
TWIN_LITS = ["0", "1", "2", "3", "4", "5", "6", "7", "8", "True", "False", "IE.x", "IE.y", "-1", "'a'", "'b'", "''", "b'a'", "None", "E.a", "E.b"]
TWINS = {"1": ["True", "IE.x"], "True": ["1", "IE.x"], "IE.x": ["1", "True"], "0": ["False"], "False": ["0"], "2": ["IE.y"], "IE.y": ["2"]}


def gen_large_literal(rng):
    """Literal[...] / Union[Literal[...], classes] with 9 / 10 / 11 / 16 members; with probability 1/2 only one of a
    pair of == literals of different types is a member (so the twin is a near miss), in either order"""
    n = rng.choice([9, 10, 11, 16])
    lits = rng.sample(TWIN_LITS, min(n, len(TWIN_LITS)))
    if rng.random() < 0.5:
        k = rng.choice(list(TWINS))
        lits = [x for x in lits if x not in TWINS[k]]
        if k not in lits:
            lits.insert(rng.randrange(len(lits) + 1), k)
    rng.shuffle(lits)
    if rng.random() < 0.3:
        classes = rng.sample(["str", "bytes", "A", "C", "NoneType" if False else "list", "tuple", "complex"], rng.randrange(1, 4))
        k = max(1, len(lits) - len(classes))
        return "Union[Literal[" + ", ".join(lits[:k]) + "], " + ", ".join(classes) + "]"
    return "Literal[" + ", ".join(lits) + "]"


def gen_type(rng, depth):
    r = rng.random()
    if rng.random() < 0.04:
        return gen_large_literal(rng)
    if depth <= 0 or r < 0.3:
        return rng.choice(BASES)
    d = depth - 1
    t = lambda: gen_type(rng, d)
    if r < 0.36:
        return "Literal[" + ", ".join(rng.sample(LITS, rng.randrange(1, 4))) + "]"
    if r < 0.42:
        return f"Optional[{t()}]"
    if r < 0.50:
        return f"Union[{t()}, {t()}]"
    if r < 0.58:
        return f"list[{t()}]"
    if r < 0.62:
        return f"set[{t()}]"
    if r < 0.66:
        return f"frozenset[{t()}]"
    if r < 0.72:
        return f"dict[{t()}, {t()}]"
    if r < 0.77:
        return f"tuple[{t()}, ...]"
    if r < 0.84:
        n = rng.randrange(0, 4)
        return "tuple[()]" if n == 0 else "tuple[" + ", ".join(t() for _ in range(n)) + "]"
    if r < 0.86:
        return f"tuple[{t()}, *tuple[{t()}, ...]]"
    if r < 0.90:
        return f"{rng.choice(['Sequence', 'Iterable', 'Collection', 'MutableSequence', 'AbstractSet'])}[{t()}]"
    if r < 0.93:
        return f"{rng.choice(['Mapping', 'MutableMapping'])}[{t()}, {t()}]"
    if r < 0.97:
        return f"type[{rng.choice(CLASSES_FOR_TYPE)}]"
    return f"Annotated[{t()}, {rng.randrange(1, 4)}]"


# ---------------------------------------------------------------------------
# the independent membership oracle (real isinstance, real iteration)


def _is_typeddict(T):
    import typing_extensions

    return typing_extensions.is_typeddict(T) or typing.is_typeddict(T)


def inst_promo(o, c):
    if isinstance(o, c):
        return True
    if c in (float, complex) and isinstance(o, int):
        return True
    return c is complex and isinstance(o, float)


def sub_promo(c, d):
    if issubclass(c, d):
        return True
    if d in (float, complex) and issubclass(c, int):
        return True
    return d is complex and issubclass(c, float)


def match_tuple(args, elems):
    if not args:
        return not elems
    a = args[0]
    inner = None
    if typing.get_origin(a) is typing.Unpack:
        inner = typing.get_args(a)[0]
    elif getattr(a, "__unpacked__", False):  # *tuple[X, ...]
        inner = a
    if inner is not None:
        x = typing.get_args(inner)[0]
        for k in range(len(elems) + 1):
            if all(py_member(e, x) for e in elems[:k]) and match_tuple(args[1:], elems[k:]):
                return True
        return False
    return bool(elems) and py_member(elems[0], a) and match_tuple(args[1:], elems[1:])


def py_member(o, T):
    import collections.abc
    import universe as U

    if T is None or T is type(None):
        return o is None
    if T is typing.Any:
        return True
    origin, args = typing.get_origin(T), typing.get_args(T)
    if origin is typing.Annotated:
        return py_member(o, args[0])
    if origin is typing.Literal:
        return any(type(o) is type(a) and o == a for a in args)
    if origin is typing.Union or origin is types.UnionType:
        return any(py_member(o, a) for a in args)
    if T in U.NEWTYPES:
        return type(o) is T.__supertype__
    if _is_typeddict(T):
        if not isinstance(o, dict) or not all(isinstance(k, str) for k in o):
            return False
        import typing_extensions

        hints = typing_extensions.get_type_hints(T)
        for k, ht in hints.items():
            if k in o:
                if not py_member(o[k], ht):
                    return False
            elif k in T.__required_keys__:  # PEP 589 / 655: per-key requiredness, inherited keys included
                return False
        extra = getattr(T, "__extra_items__", None)
        has_extra_type = extra is not None and extra is not getattr(typing_extensions, "NoExtraItems", None)
        for k, v in o.items():
            if k not in hints:
                if has_extra_type:
                    if not py_member(v, extra):
                        return False
                elif getattr(T, "__closed__", None):
                    return False
        return True
    if origin is type:
        (x,) = args
        xc = typing.get_origin(x) or x
        return isinstance(o, type) and isinstance(xc, type) and sub_promo(o, xc)
    if origin is tuple:
        if not isinstance(o, tuple):
            return False
        if len(args) == 2 and args[1] is Ellipsis:
            return all(py_member(e, args[0]) for e in o)
        return match_tuple(list(args), list(o))
    if origin in (dict, collections.abc.Mapping, collections.abc.MutableMapping):
        return isinstance(o, origin) and all(py_member(k, args[0]) and py_member(v, args[1]) for k, v in o.items())
    if origin is not None:
        return isinstance(o, origin) and all(py_member(e, args[0]) for e in o)
    if isinstance(T, type):
        return inst_promo(o, T)
    raise OutOfFragment(f"type {T!r}")


# ---------------------------------------------------------------------------
# objects that are members / near misses of a type


def gen_obj_for(rng, T, depth=2):
    """an object spec biased towards membership of T (falls back to random)"""
    import collections.abc
    import universe as U

    origin, args = typing.get_origin(T), typing.get_args(T)
    if rng.random() < 0.25:
        return G.gen_obj(rng, depth)
    if T is None:
        return ["none"]
    if origin is typing.Annotated:
        return gen_obj_for(rng, args[0], depth)
    if origin is typing.Literal:
        a = rng.choice(args)
        # the literal itself, or an == literal of another type (bool / int / IntEnum twins)
        twins = {1: [True, U.IE.x], 0: [False], 2: [U.IE.y]}
        for base, others in twins.items():
            if a == base and rng.random() < 0.5:
                a = rng.choice([base] + others)
        return spec_of(a)
    if origin is typing.Union:
        return gen_obj_for(rng, rng.choice(args), depth)
    if T in U.NEWTYPES:
        return rng.choice([["int", 1], ["bool", True], ["ie", "x"]])
    if _is_typeddict(T):
        # values are derived from the entry types (members and near misses); every entry may also hold
        # None or another falsy value, be absent, and the dict may have an extra (possibly non-str) key
        import typing_extensions

        hints = typing_extensions.get_type_hints(T)
        kvs = []
        for key, ht in hints.items():
            r = rng.random()
            if r < (0.12 if key in T.__required_keys__ else 0.35):
                continue  # key absent
            if r < 0.62:
                v = gen_obj_for(rng, ht, max(depth - 1, 0))
            elif r < 0.80:
                v = rng.choice([["none"], ["int", 0], ["bool", False], ["str", ""], ["list", lab_td(rng), []], ["tuple", 100, []]])
            else:
                v = G.gen_obj(rng, 1)
            kvs.append([["str", key], v])
        if rng.random() < 0.3:
            kvs.append([rng.choice([["str", "z"], ["str", "z"], ["int", 5]]), rng.choice([["int", 0], ["none"], ["str", "x"]])])
        rng.shuffle(kvs)
        return ["dict", rng.randrange(4), kvs]
    if origin is type:
        return ["class", rng.choice(["int", "bool", "float", "str", "A", "B", "C", "object", "ISub", "FSub", "CSub", "SSub", "BSub", "TSub", "LSub", "DSub", "complex"])]
    lab = rng.randrange(4)
    if origin is tuple:
        if len(args) == 2 and args[1] is Ellipsis:
            return ["tuple", 100 + rng.randrange(900), [gen_obj_for(rng, args[0], depth - 1) for _ in range(rng.randrange(4))]]
        elems = []
        for a in args:
            if getattr(a, "__unpacked__", False) or typing.get_origin(a) is typing.Unpack:
                inner = typing.get_args(a)[0] if typing.get_origin(a) is typing.Unpack else a
                elems += [gen_obj_for(rng, typing.get_args(inner)[0], depth - 1) for _ in range(rng.randrange(3))]
            else:
                elems.append(gen_obj_for(rng, a, depth - 1))
        if rng.random() < 0.15 and elems:
            elems.pop()
        return [rng.choice(["tuple"] * 5 + ["list"]), 100 + rng.randrange(900), elems]
    if origin in (dict, collections.abc.Mapping, collections.abc.MutableMapping):
        keys = G._distinct([hashable_for(rng, args[0]) for _ in range(rng.randrange(3))])
        return ["dict", lab, [[k, gen_obj_for(rng, args[1], depth - 1)] for k in keys]]
    if origin is not None:
        n = rng.randrange(4)
        kind = {list: "list", set: "set", frozenset: "frozenset"}.get(origin) or rng.choice(["list", "tuple", "set", "frozenset", "str", "bytes", "dict"])
        if kind == "str":
            return ["str", rng.choice(["", "a", "ab"])]
        if kind == "bytes":
            return ["bytes", rng.choice(["", "a"])]
        if kind == "dict":
            keys = G._distinct([hashable_for(rng, args[0]) for _ in range(n)])
            return ["dict", lab, [[k, ["int", 0]] for k in keys]]
        if kind in ("set", "frozenset"):
            els = G._distinct([hashable_for(rng, args[0]) for _ in range(n)])
            return ["frozenset", els] if kind == "frozenset" else ["set", lab, els]
        return [kind, lab if kind == "list" else 100 + rng.randrange(900), [gen_obj_for(rng, args[0], depth - 1) for _ in range(n)]]
    if isinstance(T, type):
        pool = {int: [["int", 1], ["int", 0], ["bool", True], ["ie", "x"], ["isub", 3]], bool: [["bool", True], ["int", 1]],
                float: [["float", 1.5], ["int", 1], ["bool", False], ["float", 1.0], ["fsub", 0.5], ["fe", "half"], ["isub", 3]],
                complex: [["complex", 0.0, 1.0], ["float", 1.5], ["int", 2], ["fsub", 0.5], ["fe", "one"], ["isub", 3], ["ie", "x"]],
                U.ISub: [["isub", 3], ["int", 3]], U.FSub: [["fsub", 0.5], ["float", 0.5]], U.FE: [["fe", "half"], ["float", 0.5]],
                str: [["str", "a"], ["str", ""], ["bytes", "a"]], bytes: [["bytes", "a"], ["str", "a"]],
                U.A: [["inst", "A", 0], ["inst", "B", 0], ["inst", "C", 0]], U.B: [["inst", "B", 0], ["inst", "A", 0]],
                U.C: [["inst", "C", 0], ["inst", "A", 1]], U.E: [["e", "a"], ["ie", "x"], ["int", 1]], U.IE: [["ie", "x"], ["int", 1], ["e", "a"]],
                list: [["list", lab, []], ["tuple", 101, []]], tuple: [["tuple", 102, [["int", 1]]], ["list", lab, [["int", 1]]]],
                dict: [["dict", lab, []]], set: [["set", lab, []], ["frozenset", []]], frozenset: [["frozenset", [["int", 1]]], ["set", lab, []]],
                type: [["class", "int"], ["class", "A"], ["int", 1]]}
        if T in pool:
            return rng.choice(pool[T])
    return G.gen_obj(rng, depth)


def lab_td(rng):
    return rng.randrange(4)


def hashable_for(rng, T):
    s = gen_obj_for(rng, T, 1)
    o = G.build_obj(s, {})
    try:
        hash(o)
        return s
    except TypeError:
        return G.gen_hashable_obj(rng, 1)


def spec_of(a):
    import universe as U

    if a is None:
        return ["none"]
    if isinstance(a, U.IE):
        return ["ie", a.name]
    if isinstance(a, U.E):
        return ["e", a.name]
    if isinstance(a, bool):
        return ["bool", a]
    if isinstance(a, int):
        return ["int", a]
    if isinstance(a, str):
        return ["str", a]
    if isinstance(a, bytes):
        return ["bytes", a.decode("latin1")]
    raise OutOfFragment(repr(a))


def literal_source(s):
    """Python source of an object spec, or None when it has no literal display"""
    k = s[0]
    if k == "none":
        return "None"
    if k in ("bool", "int", "str"):
        return repr(s[1])
    if k == "float":
        return repr(float(s[1]))
    if k == "complex":
        return f"complex({s[1]!r}, {s[2]!r})" if s[1] else repr(complex(0, s[2]))
    if k == "bytes":
        return repr(s[1].encode("latin1"))
    if k == "ie":
        return f"IE.{s[1]}"
    if k == "e":
        return f"E.{s[1]}"
    if k == "class":
        return s[1]
    if k in ("tuple", "list", "set"):
        inner = [literal_source(x) for x in s[2]]
        if any(x is None for x in inner):
            return None
        if k == "tuple":
            return "(" + ", ".join(inner) + ("," if len(inner) == 1 else "") + ")"
        if k == "list":
            return "[" + ", ".join(inner) + "]"
        return "{" + ", ".join(inner) + "}" if inner else None
    if k == "dict":
        items = [(literal_source(a), literal_source(b)) for a, b in s[2]]
        if any(a is None or b is None for a, b in items):
            return None
        return "{" + ", ".join(f"{a}: {b}" for a, b in items) + "}"
    return None


# ---------------------------------------------------------------------------


def load_corpus():
    p = lib.VERIF / "harness" / "corpus" / f"{PROP}.json"
    return json.loads(p.read_text()) if p.exists() else []


def run_programs(progs):
    """progs: list of (type string, literal source).  Returns list of bool (diagnosed?) or None."""
    from pyanalyze.test_name_check_visitor import TestNameCheckVisitorBase
    import contextlib
    import io

    lines = ["from typing import *", "from collections.abc import Sequence, Iterable, Mapping, Collection, MutableSequence, MutableMapping",
             "from collections.abc import Set as AbstractSet", "from universe import TDBase, TDChild, TDGrand, TDOptBase, TDReqChild, TDQ, TDF, TDFopt, TDClosed, TDExtra, TDExtraChild",
             "from universe import A, B, C, E, IE, NT, TD1, TD2, TD3, TD4, Falsy, ISub, FSub, CSub, FE, SSub, BSub, TSub, LSub, DSub, SE", ""]
    where = {}
    for i, (t, src) in enumerate(progs):
        lines.append(f"def f{i}():")
        lines.append(f"    x: {t} = {src}")
        where[len(lines)] = i
        lines.append("    return x")
    code = "\n".join(lines) + "\n"
    buf = io.StringIO()
    with contextlib.redirect_stderr(buf), contextlib.redirect_stdout(buf):
        errors = TestNameCheckVisitorBase()._run_str(code, fail_after_first=False)
    diagnosed = [False] * len(progs)
    other = []
    for e in errors:
        i = where.get(e["lineno"])
        if i is not None and e["code"].name == "incompatible_assignment":
            diagnosed[i] = True
        else:
            other.append((e["lineno"], e["code"].name))
    return diagnosed, other


def run(tier: str, replay: str | None = None):
    from pyanalyze.annotations import type_from_runtime
    from pyanalyze.runtime import is_assignable

    rep = lib.Report(PROP, tier, "proof")
    rng = random.Random(lib.seed() * 15485863 + 3)
    broken_table = None
    try:
        gen = gen_files()
    except classtable.TableError as ex:
        broken_table, gen = str(ex), None
    proof = lib.prove(PROP, gen, extra_targets=["theories/Core/C03Run.vo"], thorough=(tier == "thorough")) if gen is not None else None

    ns = namespace()
    if replay:
        cases = [json.loads(Path(replay).read_text())["input"]]
    else:
        cases = list(load_corpus())
        n = 24000 if tier == "quick" else 90000
        for _ in range(n):
            t = gen_type(rng, 4 if rng.random() < 0.3 else 3)
            try:
                T = eval(t, ns)
            except Exception:
                continue
            cases.append({"type": t, "obj": G.fix_labels(gen_obj_for(rng, T, 3 if rng.random() < 0.4 else 2))})

    rows, oof = [], 0
    hist = {"impl_true": 0, "impl_false": 0, "type_heads": {}, "obj_kinds": {}}
    for case in cases:
        try:
            T = eval(case["type"], ns)
            o = G.build_obj(case["obj"], {})
            cx = Ctx()
            tterm = enc_val(type_from_runtime(T), cx)
            oterm = enc_obj(o, cx)
            want = py_member(o, T)
        except OutOfFragment:
            oof += 1
            continue
        got = is_assignable(o, T)
        rows.append({"case": case, "impl": bool(got), "oracle": bool(want), "term": f"c03_run table {show(tterm)} {show(oterm)}"})
        hist["impl_true" if got else "impl_false"] += 1
        h = case["type"].split("[")[0]
        hist["type_heads"][h] = hist["type_heads"].get(h, 0) + 1
        hist["obj_kinds"][case["obj"][0]] = hist["obj_kinds"].get(case["obj"][0], 0) + 1

    # end-to-end stream: x: T = <literal>
    progs = []
    for i, r in enumerate(rows):
        src = literal_source(r["case"]["obj"])
        if src is not None and "*tuple" not in r["case"]["type"]:
            progs.append((i, r["case"]["type"], src))
    limit = 3500 if tier == "quick" else 12000
    if not replay:
        progs = progs[:limit]
    e2e_other = []
    for k in range(0, len(progs), 125):
        chunk = progs[k : k + 125]
        try:
            diagnosed, other = run_programs([(t, s) for _, t, s in chunk])
        except Exception as ex:  # the checker crashed on the module: not a C03 verdict
            e2e_other.append(("crash", repr(ex)[:200]))
            continue
        e2e_other += other
        for (i, _, _), d in zip(chunk, diagnosed):
            rows[i]["e2e"] = d

    # model
    model_ok = proof is not None and not any("build failed" in b or "forbidden" in b for b in proof.broken)
    if not model_ok and gen is not None:
        # a proof (e.g. a table obligation) no longer checks: the model itself may still build, so that the
        # correspondence and the oracles keep their reference and can produce a failing input
        for name, text in gen.items():
            lib.write_if_changed(lib.GEN / name, text)
        model_ok = lib.coq_make(["theories/Core/C03Run.vo", "theories/Gen/ClassTable.vo"])[0]
    if model_ok:
        try:
            results = lib.coq_eval(HEADER, [r["term"] for r in rows], name="c03", shard=400, jobs=6)
            for r, res in zip(rows, results):
                ca, mem, (variadic, dedup, _fro, nonstr, strb, okb) = res[0], res[1], res[2]
                r["model"], r["spec"] = ca, mem
                # type_from_runtime drops the unpacking of `*tuple[X, ...]` (the term has no flag), so this clause is read off the input
                variadic = variadic or "*tuple[" in r["case"]["type"]
                r["clauses"] = {"variadic_member": variadic, "literal_dedup": dedup, "typeddict_nonstr_key": nonstr,
                                "str_bytes_by_type": strb}
                # the decidable guard of C03_known_assign_iff_member_decidable; void when the term is not the type
                # (type_from_runtime dropped an unpacked member)
                r["okb"] = okb and "*tuple[" not in r["case"]["type"]
        except (RuntimeError, ValueError) as ex:
            rep.violation({"kind": "broken-correspondence", "correspondence": "Core.CanAssignK/Core.Member evaluation", "detail": str(ex)[-1500:]},
                          no_failing_input=True)

    findings = {f["id"]: f for f in lib.load_known_findings(PROP)["findings"]}
    failing, corr, spec_bad, validated, distinct = [], [], [], 0, set()
    for r in rows:
        bad_rt = r["impl"] != r["oracle"]
        bad_e2e = "e2e" in r and r["e2e"] != (not r["oracle"])
        if "model" in r:
            if r["spec"] != r["oracle"] and not r["clauses"]["variadic_member"]:
                spec_bad.append(r)
            if r["model"] != r["impl"]:
                corr.append(r)
            else:
                validated += 1
            distinct.add(json.dumps(r["case"], sort_keys=True))
        if bad_rt or bad_e2e:
            attributed = False
            # inside the theorem's guard nothing is attributable: model = spec there
            if "model" in r and not r["okb"] and r["model"] == r["impl"] and (not bad_e2e or r["e2e"] == (not r["impl"])):
                for clause in ("variadic_member", "typeddict_nonstr_key", "str_bytes_by_type"):
                    fid = f"C03-{clause.replace('_', '-')}"
                    if r["clauses"][clause] and fid in findings:
                        rep.known(fid, findings[fid]["what"])
                        attributed = True
                        break
            if not attributed:
                failing.append((r, "runtime" if bad_rt else "checker"))

    for r, which in failing[:10]:
        rep.violation({"kind": "failing-input", "input": r["case"], "route": which,
                       "observed": {"is_assignable": r["impl"], "x: T = literal diagnosed": r.get("e2e"), "model_ca": r.get("model")},
                       "expected": {"member (CPython isinstance/iteration oracle)": r["oracle"], "spec_member (Coq)": r.get("spec"), "clauses": r.get("clauses")},
                       "how_to_run": f"./check {PROP} --replay <this file>"})
    if spec_bad:
        r = spec_bad[0]
        rep.harness_error(f"Coq spec `member` disagrees with the CPython oracle on {json.dumps(r['case'])}: spec={r['spec']} oracle={r['oracle']} ({len(spec_bad)} cases)")
    if corr and not failing:
        r = corr[0]
        print("corr mismatch:", json.dumps(r["case"]), r["impl"], r["model"], file=__import__("sys").stderr)
        rep.violation({"kind": "broken-correspondence", "correspondence": "Core.CanAssignK.ca vs pyanalyze.runtime.is_assignable", "input": r["case"],
                       "observed": r["impl"], "model": r["model"], "n_mismatching_cases": len(corr)}, no_failing_input=True)
    if broken_table and not failing:
        rep.violation({"kind": "broken-obligation", "theorem": "Gen/ClassTable.v (class table dump)", "detail": broken_table}, no_failing_input=True)
    if proof is not None and not proof.ok and not failing:
        rep.violation({"kind": "broken-obligation", "theorem": "; ".join(proof.broken), "log": proof.log[-1500:]}, no_failing_input=True)

    n_e2e = sum(1 for r in rows if "e2e" in r)
    n_okb = sum(1 for r in rows if r.get("okb"))
    okb_model_ne_spec = [r for r in rows if r.get("okb") and r["model"] != r["spec"]]
    if okb_model_ne_spec:  # would contradict the theorem: the evaluation itself is broken
        rep.harness_error(f"okb holds but model != spec on {json.dumps(okb_model_ne_spec[0]['case'])}")
    rep.coverage.update(
        evaluations=len(rows) + n_e2e,
        distinct_nontrivial=len(distinct),
        rule="a case = (static type expression up to depth 3-4, object of the universe up to depth 2-3, biased towards members and near misses); "
        "compared: is_assignable vs model ca, Coq spec member vs CPython oracle, is_assignable vs oracle, and for objects with a literal display "
        "the checker's incompatible_assignment verdict on `x: T = <literal>` vs oracle; every case with a container or non-class type is non-trivial",
        samples=[r["case"] for r in rows[:4]],
        traces_validated_against_impl=validated,
        input_distribution={**hist, "oracle_true": sum(r["oracle"] for r in rows), "oracle_false": sum(not r["oracle"] for r in rows),
                            "end_to_end_programs": n_e2e, "cases_inside_theorem_guard_okb": n_okb, "end_to_end_other_diagnostics": len(e2e_other), "out_of_fragment": oof, "cases": len(cases)},
        correspondence_mismatches=len(corr),
        spec_vs_cpython_mismatches=len(spec_bad),
        oracle_failures_unattributed=len(failing),
    )
    rep.assumptions = ["class table dumped from the running implementation (Gen/ClassTable.v)", "CPython isinstance/iteration as membership oracle",
                       "NewType membership = exact class of the supertype (DESIGN.md §4.1)"]
    return rep.finish(
        proof,
        "coq_makefile + make theories/Properties/C03.vo; coqc theories/Properties/C03.v (Print Assumptions)" + ("; coqchk -o" if tier == "thorough" else ""),
        ["Coq 8.16.1 kernel", "class-table dump harness/classtable.py", "encoder harness/core_enc.py", "CPython as membership oracle", "correspondence harness/c03.py"],
    )
