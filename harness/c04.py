"""C04 — type-to-type assignability is reflexive and sound for membership; lattice laws.

proof      : Properties/C04.v over Core/CanAssign.v (model of Value.can_assign between static
             values, both exclude-Any modes) + Core/Member.v (spec), with Gen/ClassTable.v
tie        : class-table dump + correspondence model can_assign vs Value.can_assign (both modes)
oracle     : the laws evaluated on the real code; soundness = accepted pair + an object of the
             pool that belongs to B but not to A (membership by the Coq spec, which C03
             validates against CPython on every run)
"""
from __future__ import annotations

import json
import random
from pathlib import Path

import classtable
import gen_values as G
import lib
from core_enc import Ctx, OutOfFragment, enc_obj, enc_val, show

PROP = "C04"
HEADER = (
    "From Coq Require Import ZArith List Bool NArith. Import ListNotations.\n"
    "Require Import PV.Core.Obj PV.Core.Val PV.Core.Cls PV.Core.Member PV.Core.CanAssign PV.Core.C04Run PV.Gen.ClassTable.\n"
)

POOL = [
    ["none"], ["bool", True], ["bool", False], ["int", 0], ["int", 1], ["int", -1], ["float", 1.5], ["complex", 0.0, 1.0],
    ["isub", 3], ["fsub", 0.5], ["fe", "half"], ["class", "ISub"], ["class", "FSub"], ["class", "CSub"], ["class", "TSub"],
    ["tuple", 899, [["fsub", 0.5]]], ["list", 898, [["fe", "one"]]],
    ["str", ""], ["str", "a"], ["bytes", "a"], ["ie", "x"], ["e", "a"], ["inst", "A", 0], ["inst", "B", 0], ["inst", "C", 0],
    ["class", "int"], ["class", "bool"], ["class", "A"], ["class", "B"], ["class", "str"],
    ["tuple", 900, []], ["tuple", 901, [["int", 1]]], ["tuple", 902, [["int", 1], ["str", "a"]]], ["tuple", 903, [["str", "a"]]],
    ["tuple", 904, [["int", 1], ["int", 2]]], ["tuple", 905, [["bool", True]]], ["tuple", 906, [["none"]]], ["tuple", 907, [["float", 1.5]]],
    ["tuple", 908, [["int", 1], ["int", 1]]], ["tuple", 909, [["int", 1], ["str", "a"], ["str", "a"]]],
    ["list", 910, []], ["list", 911, [["int", 1]]], ["list", 912, [["str", "a"]]], ["list", 913, [["int", 1], ["str", "a"]]],
    ["list", 914, [["none"]]], ["list", 915, [["bool", True]]], ["list", 916, [["float", 1.5]]],
    ["list", 917, [["list", 918, [["int", 1]]]]], ["list", 919, [["tuple", 920, [["int", 1], ["str", "a"]]]]],
    ["set", 921, []], ["set", 922, [["int", 1]]], ["set", 923, [["str", "a"]]], ["frozenset", []], ["frozenset", [["int", 1]]],
    ["dict", 924, []], ["dict", 925, [[["int", 1], ["str", "a"]]]], ["dict", 926, [[["str", "a"], ["int", 1]]]],
    ["inst", "A", 1], ["int", 300], ["float", 0.0], ["str", "ab"],
    ["list", 930, [["tuple", 931, [["int", 1], ["bool", True]]], ["tuple", 932, [["int", 1], ["int", 1]]]]],
    # deeper nesting
    ["tuple", 940, [["tuple", 941, [["int", 1]]], ["str", "a"]]], ["tuple", 942, [["list", 943, [["int", 1]]]]],
    ["list", 944, [["dict", 945, [[["str", "a"], ["int", 1]]]]]], ["dict", 946, [[["int", 1], ["list", 947, [["str", "a"]]]]]],
    ["dict", 948, [[["str", "a"], ["tuple", 949, [["int", 1], ["str", "a"]]]]]], ["list", 950, [["set", 951, [["int", 1]]]]],
    ["tuple", 952, [["inst", "B", 0], ["inst", "A", 0]]], ["list", 953, [["inst", "B", 0]]], ["list", 954, [["class", "bool"]]],
    ["tuple", 955, [["bool", True], ["float", 1.5]]], ["frozenset", [["str", "a"]]], ["set", 956, [["tuple", 957, [["int", 1]]]]],
    ["list", 958, [["ie", "x"]]], ["tuple", 959, [["e", "a"], ["none"]]], ["dict", 960, [[["bool", True], ["none"]]]],
    ["list", 961, [["list", 962, [["list", 963, [["int", 1]]]]]]], ["tuple", 964, [["str", "a"], ["str", "b"], ["str", "c"]]],
]

# enum classes as *types* are out of fragment (their generic bases through EnumMeta are not modelled); enum members stay
CLS = ["int", "str", "float", "bool", "object", "A", "B", "C", "NoneType", "bytes", "complex", "type", "ISub", "FSub", "CSub", "SSub", "TSub", "LSub", "DSub"]
BARE = ["list", "tuple", "dict", "set", "frozenset"]
GEN1 = ["list", "set", "frozenset", "tuple", "Sequence", "Iterable", "Collection"]
GEN2 = ["dict", "Mapping"]


def gen_files():
    return {"ClassTable.v": classtable.gen_text()}


def gen_lit(rng):
    r = rng.random()
    if r < 0.7:
        return ["known", G.gen_scalar(rng)]
    return ["known", rng.choice([p for p in POOL if p[0] in ("tuple", "list", "set", "frozenset", "dict")])]


ALIASES = {}  # alias table of the case being generated / evaluated


def gen_aliases(rng):
    """three PEP 695-style aliases per case: two with the same name (as class-scoped `type Item = ...`
    in two classes of one module) and one generic alias `type L[T] = C[T]`"""
    a0 = gen_static(rng, 1)
    a1 = gen_static(rng, 1)
    gen = rng.choice([["generic", "list", [["tv", 0, None, []]]], ["generic", "dict", [["typed", "str"], ["tv", 0, None, []]]],
                      ["seq", "tuple", [[False, ["tv", 0, None, []]], [False, ["typed", "int"]]]],
                      ["unite", [["tv", 0, None, []], ["known", ["none"]]]]])
    return {"0": ["Item", a0, []], "1": ["Item", a1, []], "2": ["L", gen, [0]]}


UNION_SIZES = [9, 10, 11, 16]  # MultiValuedValue.can_assign has a hashed fast path from 10 members on: both sides of it


def gen_large_union(rng):
    """a union of 9 / 10 / 11 / 16 distinct static members: scalar and container literals (hashable and not),
    classes, Annotated literals, generics, tuples"""
    n = rng.choice(UNION_SIZES)
    pool = [["known", ["int", k]] for k in (3, 20, 21, 22, 23, 24)] + [["known", ["str", ch]] for ch in "pqr"] + \
           [["known", p] for p in POOL if p[0] in ("list", "dict", "set")][:6] + \
           [["typed", c] for c in ("str", "float", "A", "C", "bytes", "NoneType", "FSub")] + \
           [["annot", ["known", ["int", 7]], [1]], ["annot", ["typed", "B"], [2]], ["known", ["tuple", 902, [["int", 1], ["str", "a"]]]],
            ["generic", "list", [["typed", "int"]]], ["seq", "tuple", [[False, ["typed", "str"]]]], ["subclass", ["typed", "A"], False],
            ["known", ["none"]], ["known", ["bool", True]], ["known", ["float", 1.5]], ["known", ["e", "a"]], ["known", ["class", "A"]]]
    return ["unite", rng.sample(pool, n)]


TD_NAMES = ["x", "y", "z"]
TD_TYPES = [["typed", "int"], ["typed", "str"], ["typed", "bool"], ["typed", "object"], ["typed", "float"], ["known", ["int", 1]],
            ["unite", [["typed", "int"], ["known", ["none"]]]], ["generic", "list", [["typed", "int"]]]]


def gen_td(rng):
    """a TypedDict over the keys x, y, z: every combination of Required/NotRequired x ReadOnly/mutable per key,
    open / closed / extra_items (possibly read-only)"""
    names = sorted(rng.sample(TD_NAMES, rng.randrange(0, 4)))
    entries = [[n, rng.choice(TD_TYPES), rng.random() < 0.5, rng.random() < 0.5] for n in names]
    r = rng.random()
    extra = None if r < 0.5 else (["unite", []] if r < 0.75 else rng.choice(TD_TYPES))
    return ["td", entries, extra, rng.random() < 0.5]


def mutate_td(rng, s):
    """a TypedDict close to s: one or two edits among drop a key, add a key, flip Required / ReadOnly, change or
    narrow a value type, change open / closed / extra_items"""
    entries = [list(e) for e in s[1]]
    extra, ro = s[2], s[3]
    for _ in range(rng.choice([0, 1, 1, 2])):
        op = rng.randrange(6)
        if op == 0 and entries:
            entries.pop(rng.randrange(len(entries)))
        elif op == 1:
            free = [n for n in TD_NAMES if n not in [e[0] for e in entries]]
            if free:
                entries.append([rng.choice(free), rng.choice(TD_TYPES), rng.random() < 0.5, rng.random() < 0.5])
        elif op == 2 and entries:
            e = rng.choice(entries)
            e[2] = not e[2]
        elif op == 3 and entries:
            e = rng.choice(entries)
            e[3] = not e[3]
        elif op == 4 and entries:
            e = rng.choice(entries)
            e[1] = narrow(e[1], rng) if rng.random() < 0.5 else rng.choice(TD_TYPES)
        else:
            r = rng.random()
            extra = None if r < 0.4 else (["unite", []] if r < 0.7 else rng.choice(TD_TYPES))
            ro = rng.random() < 0.5
    entries.sort(key=lambda e: e[0])
    return ["td", entries, extra, ro]


SCALAR_VALUES = [["int", 1], ["str", "s"], ["bool", True], ["none"], ["float", 1.5], ["list", 7999, [["int", 1]]], ["str", "oops"]]


def gen_td_member(rng, s, depth):
    """an object of the TypedDict s: required keys present, optional ones sometimes; for an open TypedDict extra
    keys (named like the keys other TypedDicts use) with arbitrary values, for extra_items values of that type"""
    kvs = []
    for name, t, req, _ro in s[1]:
        if req or rng.random() < 0.6:
            v = gen_member(rng, t, depth - 1)
            if v is None:
                if req:
                    return None
                continue
            kvs.append([["str", name], v])
    closed = s[2] == ["unite", []]
    if not closed:
        for name in TD_NAMES:
            if name not in [e[0] for e in s[1]] and rng.random() < 0.6:
                v = rng.choice(SCALAR_VALUES) if s[2] is None else gen_member(rng, s[2], depth - 1)
                if v is not None:
                    kvs.append([["str", name], v])
    return ["dict", 7000 + rng.randrange(1000), kvs]


def wrap_member(rng, m):
    """a value that a union member accepts: the member itself, Annotated[member], a narrowing of it"""
    r = rng.random()
    if r < 0.35:
        return m
    if r < 0.7:
        return ["annot", m, [rng.randrange(1, 3)]] if m[0] != "annot" else m
    return narrow(m, rng)


def gen_static(rng, depth, any_ok=False):
    r = rng.random()

    if depth <= 0 or r < 0.3:
        r2 = rng.random()
        if r2 < 0.05:
            return ["literalstring"]
        if r2 < 0.55:
            return ["typed", rng.choice(CLS)]
        if r2 < 0.62:
            return ["typed", rng.choice(BARE)]
        if r2 < 0.9:
            return gen_lit(rng)
        if r2 < 0.95:
            return ["newtype", rng.randrange(2)]
        return ["any", 2] if any_ok else ["typed", "object"]
    d = depth - 1
    t = lambda: gen_static(rng, d, any_ok)
    if r < 0.48:
        return ["generic", rng.choice(GEN1), [t()]]
    if r < 0.56:
        return ["generic", rng.choice(GEN2), [t(), t()]]
    if r < 0.70:
        return ["seq", "tuple", [[rng.random() < 0.07, t()] for _ in range(rng.randrange(0, 4))]]
    if r < 0.76:
        return ["subclass", ["typed", rng.choice(CLS[:8] + ["complex", "ISub", "FSub", "tuple"])], False]
    if r < 0.81:
        return ["annot", t(), [rng.randrange(1, 3)]]
    return ["unite", [t() for _ in range(rng.randrange(2, 4))]]


SUBS = {"int": ["bool", "int", "ISub"], "float": ["int", "bool", "float", "FSub", "ISub"], "complex": ["float", "int", "FSub", "CSub", "ISub"], "tuple": ["TSub"], "list": ["LSub"], "dict": ["DSub"], "object": CLS, "A": ["B", "A"],
        "str": ["str", "LiteralString"], "Sequence": ["list", "tuple", "Sequence"], "Iterable": ["list", "set", "Sequence", "frozenset", "tuple"],
        "Collection": ["list", "set", "Sequence"], "Mapping": ["dict"]}
LITS_OF = {"int": [["int", 1], ["bool", True], ["ie", "x"], ["isub", 3]], "str": [["str", "a"]], "float": [["float", 1.5], ["int", 1], ["fsub", 0.5], ["fe", "half"]],
           "ISub": [["isub", 3]], "FSub": [["fsub", 0.5]],
           "bool": [["bool", False]], "A": [["inst", "A", 0], ["inst", "B", 0]], "B": [["inst", "B", 0]], "NoneType": [["none"]],
           "object": [["int", 1], ["str", "a"], ["none"]], "E": [["e", "a"]], "IE": [["ie", "x"]], "bytes": [["bytes", "a"]],
           "complex": [["complex", 0.0, 1.0], ["int", 1], ["fsub", 0.5], ["fe", "one"], ["isub", 3]], "C": [["inst", "C", 0]], "type": [["class", "int"]]}


def narrow(s, rng):
    """a value that tends to be assignable to s"""
    k = s[0]
    if k == "alias":
        r = rng.random()
        if r < 0.4:
            return s
        if r < 0.7:  # the same-named / same generic alias with other arguments
            return ["alias", {0: 1, 1: 0, 2: 2}[s[1]], [narrow(x, rng) if rng.random() < 0.5 else gen_static(rng, 1) for x in s[2]]]
        return ["alias", s[1], [narrow(x, rng) for x in s[2]]]
    if k == "literalstring":
        return rng.choice([["typed", "str"], ["known", ["str", "a"]], ["literalstring"]])
    if k == "typed":
        r = rng.random()
        if r < 0.35 and s[1] in SUBS:
            c = rng.choice(SUBS[s[1]])
            return ["literalstring"] if c == "LiteralString" else ["typed", c]
        if r < 0.7 and s[1] in LITS_OF:
            return ["known", rng.choice(LITS_OF[s[1]])]
        if s[1] in BARE and r < 0.9:
            return ["generic", s[1], [["typed", "int"]] * (2 if s[1] == "dict" else 1)]
        return s
    if k == "unite" and s[1]:
        if rng.random() < 0.6:
            return narrow(rng.choice(s[1]), rng)
        return ["unite", [narrow(x, rng) for x in s[1] if rng.random() < 0.8]]
    if k == "generic":
        gsubs = [x for x in SUBS.get(s[1], [s[1]]) if x not in ("TSub", "LSub", "DSub")] or [s[1]]  # no generics over user subclasses
        c = rng.choice(gsubs) if rng.random() < 0.4 else s[1]
        if rng.random() < 0.08:
            return ["typed", c]
        if len(s[2]) == 1 and rng.random() < 0.25:
            n = rng.randrange(0, 3)
            if c in ("tuple", "Sequence", "Iterable", "Collection"):
                return ["seq", "tuple", [[False, narrow(s[2][0], rng)] for _ in range(n)]]
        return ["generic", c, [narrow(x, rng) for x in s[2]]]
    if k == "seq":
        if rng.random() < 0.1 and s[2]:
            return ["generic", "tuple", [narrow(s[2][0][1], rng)]]
        ms = [[f, narrow(x, rng)] for f, x in s[2]]
        r2 = rng.random()
        if r2 < 0.08 and ms:
            ms = ms[:-1]  # one member fewer (down to tuple[()])
        elif r2 < 0.16:
            ms = ms + [[False, gen_static(rng, 1)]]  # one member more
        return ["seq", s[1], ms]
    if k == "annot":
        return narrow(s[1], rng) if rng.random() < 0.5 else ["annot", narrow(s[1], rng), s[2]]
    if k == "subclass":
        sub = ["typed", rng.choice([x for x in SUBS.get(s[1][1], [s[1][1]]) if x != "LiteralString"])] if s[1][0] == "typed" else s[1]
        return ["subclass", sub, False] if rng.random() < 0.6 else ["known", ["class", rng.choice(["int", "bool", "A", "B", "str"])]]
    return s


def _hashable_spec(s):
    try:
        hash(G.build_obj(s, {}))
        return True
    except TypeError:
        return False


def gen_member(rng, s, depth=3):
    """an object spec that is, by construction, (very likely) a member of the static value s;
    None when no member is known (Never, uninhabited shapes).  Used to derive the soundness
    pool from the generated types, so every accepted pair is tested against objects of B."""
    k = s[0]
    lab = 7000 + rng.randrange(1000)
    if k == "typed":
        c = s[1]
        if c in LITS_OF:
            return rng.choice(LITS_OF[c])
        return {"list": ["list", lab, []], "tuple": ["tuple", lab, [["int", 1]]], "dict": ["dict", lab, []], "set": ["set", lab, []],
                "frozenset": ["frozenset", []]}.get(c)
    if k == "literalstring":
        return ["str", "a"]
    if k == "alias":
        return None  # the fixed pool and the other operands' members cover aliases
    if k == "td":
        return gen_td_member(rng, s, depth)
    if k == "known":
        return s[1]
    if k == "newtype":
        return ["int", 1]
    if k == "any":
        return rng.choice([["int", 1], ["str", "a"], ["none"]])
    if k in ("unite", "union"):
        alts = [x for x in s[1]]
        rng.shuffle(alts)
        for x in alts:
            m = gen_member(rng, x, depth)
            if m is not None:
                return m
        return None
    if k == "annot":
        return gen_member(rng, s[1], depth)
    if k == "subclass":
        inner = s[1]
        if inner[0] == "typed" and inner[1] in ("int", "float", "bool", "str", "A", "B", "C", "object", "complex"):
            return ["class", rng.choice({"int": ["int", "bool", "ISub"], "float": ["float", "FSub", "int"], "A": ["A", "B"], "object": ["int", "A", "str"],
                                         "complex": ["complex", "CSub", "FSub", "ISub"]}.get(inner[1], [inner[1]]))]
        return None
    if depth <= 0:
        return None
    if k == "generic":
        c, args = s[1], s[2]
        n = rng.randrange(0, 3)
        if c in ("dict", "Mapping"):
            kvs = []
            for _ in range(n):
                kk, vv = gen_member(rng, args[0], depth - 1), gen_member(rng, args[1], depth - 1)
                if kk is None or vv is None or not _hashable_spec(kk):
                    continue
                kvs.append([kk, vv])
            keys = G._distinct([kv[0] for kv in kvs])
            return ["dict", lab, [kv for kv in kvs if kv[0] in keys][: len(keys)]] if len(keys) == len(kvs) else ["dict", lab, []]
        els = [gen_member(rng, args[0], depth - 1) for _ in range(n)]
        els = [e for e in els if e is not None]
        kind = {"list": ["list"], "set": ["set"], "frozenset": ["frozenset"], "tuple": ["tuple"], "Sequence": ["list", "tuple"],
                "Iterable": ["list", "set", "tuple"], "Collection": ["list", "tuple"]}[c]
        kind = rng.choice(kind)
        if kind in ("set", "frozenset"):
            els = G._distinct([e for e in els if _hashable_spec(e)])
            return ["frozenset", els] if kind == "frozenset" else ["set", lab, els]
        return [kind, lab, els]
    if k == "seq":
        els = []
        for many, x in s[2]:
            for _ in range(rng.randrange(0, 3) if many else 1):
                m = gen_member(rng, x, depth - 1)
                if m is None:
                    return None
                els.append(m)
        return ["tuple", lab, els]
    return None


def load_corpus():
    p = lib.VERIF / "harness" / "corpus" / f"{PROP}.json"
    return json.loads(p.read_text()) if p.exists() else []


def run(tier: str, replay: str | None = None):
    from pyanalyze import value as V
    from pyanalyze.checker import Checker

    rep = lib.Report(PROP, tier, "proof")
    rng = random.Random(lib.seed() * 32452843 + 4)
    broken_table = None
    try:
        gen = gen_files()
    except classtable.TableError as ex:
        broken_table, gen = str(ex), None
    proof = lib.prove(PROP, gen, extra_targets=["theories/Core/C04Run.vo"], thorough=(tier == "thorough")) if gen is not None else None

    if replay:
        cases = [json.loads(Path(replay).read_text())["input"]]
    else:
        cases = list(load_corpus())
        n = 5000 if tier == "quick" else 30000
        for _ in range(n):
            any_ok = rng.random() < 0.2
            dep = 4 if rng.random() < 0.25 else 3
            ALIASES.clear()
            ALIASES.update({})
            aliases = gen_aliases(rng)
            ALIASES.update(aliases)
            a = gen_static(rng, dep, any_ok)
            r = rng.random()
            b = narrow(a, rng) if r < 0.55 else (a if r < 0.62 else gen_static(rng, dep, any_ok))
            c = narrow(a, rng) if rng.random() < 0.5 else gen_static(rng, 2, any_ok)
            if rng.random() < 0.07:
                # large unions on the left (and, less often, on the right): B is a member, an Annotated member,
                # an alias of a member or a sub-union
                a = gen_large_union(rng)
                mem = rng.choice(a[1])
                r = rng.random()
                if r < 0.55:
                    b = wrap_member(rng, mem)
                elif r < 0.7:
                    aliases["0"] = ["Item", mem, []]
                    b = ["alias", 0, []]
                elif r < 0.85:
                    b = ["unite", [wrap_member(rng, x) for x in rng.sample(a[1], min(len(a[1]), rng.choice([2, 3, 9, 10])))]]
                else:
                    a, b = gen_static(rng, 2, any_ok), a
                big = a if a[0] == "unite" and len(a[1]) > 8 else b
                c = wrap_member(rng, rng.choice(big[1]))
            elif rng.random() < 0.09:
                # TypedDict against TypedDict (top of A and B; also wrapped in list[...] / Optional): all qualifier
                # combinations, decided by the witness-object oracle only (TypedDict is not in the can_assign model)
                a = gen_td(rng)
                b = mutate_td(rng, a) if rng.random() < 0.8 else gen_td(rng)
                if rng.random() < 0.5:
                    a, b = b, a
                w = rng.random()
                if w < 0.15:
                    a, b = ["generic", "list", [a]], ["generic", "list", [b]]
                elif w < 0.3:
                    a, b = ["unite", [a, ["known", ["none"]]]], ["unite", [b, ["known", ["none"]]]]
                c = gen_static(rng, 1)
            elif rng.random() < 0.07:
                # type aliases, at the top of A and B only (PEP 695: two same-named aliases of one module, one
                # generic alias); C stays alias-free and the union laws are not evaluated for these cases
                i = rng.randrange(3)
                a = ["alias", i, [gen_static(rng, 1)] if i == 2 else []]
                r = rng.random()
                j = i if r < 0.35 else {0: 1, 1: 0, 2: 2}[i]
                b = ["alias", j, ([narrow(a[2][0], rng) if rng.random() < 0.5 else gen_static(rng, 1)] if j == 2 else [])] if r < 0.8 else gen_static(rng, 2)
            a, b, c, aliases = G.fix_labels([a, b, c, aliases])
            cases.append({"a": a, "b": b, "c": c, "aliases": aliases})

    ctx = Checker()
    pool_objs = [G.build_obj(p, {}) for p in POOL]
    pcx = Ctx()
    pool_term = "[" + "; ".join(show(enc_obj(o, pcx)) for o in pool_objs) + "]"

    def acc(x, y, excl=False):
        if excl:
            with ctx.set_exclude_any():
                return isinstance(x.can_assign(y, ctx), dict)
        return isinstance(x.can_assign(y, ctx), dict)

    rows, oof = [], 0
    hist = {"accept": 0, "reject": 0, "kinds_a": {}, "kinds_b": {}, "laws_failed": {}}
    OBJ, ANY = V.TypedValue(object), V.AnyValue(V.AnySource.explicit)
    for case in cases:
        try:
            cache = {"__aliases__": case.get("aliases", {})}
            A, B, C = (G.build(case[k], cache) for k in ("a", "b", "c"))
            cx = Ctx()
            ta, tb, tc = enc_val(A, cx), enc_val(B, cx), enc_val(C, cx)
        except OutOfFragment:
            oof += 1
            continue
        obs = {"ab": acc(A, B), "ab_x": acc(A, B, True), "ac": acc(A, C), "aa": acc(A, A), "aa_x": acc(A, A, True)}
        anyfree = not G_has(case, "any")
        laws = {"refl": obs["aa"] and obs["aa_x"], "never_bottom": acc(A, V.NO_RETURN_VALUE) and acc(A, V.NO_RETURN_VALUE, True),
                "excl_monotone": (not obs["ab_x"]) or obs["ab"],
                "any_both_ways": acc(A, ANY) and acc(ANY, B)}
        if anyfree:
            laws["object_top"] = acc(OBJ, B) and acc(OBJ, B, True)
        # a union accepts whatever one of its members accepts (members tried one by one on the real code)
        if isinstance(A, V.MultiValuedValue) and anyfree:
            if any(acc(mm, B) for mm in A.vals):
                laws["union_accepts_what_a_member_accepts"] = obs["ab"]
        if not G_has(case, "alias"):  # same-named aliases compare equal (name and module only), so unite_values merges them
            bc = V.unite_values(B, C)
            laws["union_right_iff_all"] = acc(A, bc) == (obs["ab"] and obs["ac"])
            laws["union_left_if_some"] = (not obs["ab"]) or acc(V.unite_values(A, C), B)
        # objects derived from B (and a few from A and C): members by construction
        extra = case.get("extra_pool")
        if extra is None:
            erng = random.Random(__import__("zlib").crc32(json.dumps(case, sort_keys=True).encode()))
            extra = []
            for src, cnt in ((case["b"], 12 if G_has(case, "td") else 5), (case["a"], 2), (case["c"], 1)):
                for _ in range(cnt):
                    m = gen_member(erng, src)
                    if m is not None:
                        extra.append(m)
            extra = G.fix_labels(extra)
        ecx = Ctx()
        try:
            extra_terms = [show(enc_obj(G.build_obj(e, {}), ecx)) for e in extra]
        except (OutOfFragment, TypeError):
            extra, extra_terms = [], []
        rows.append({"case": case, "obs": obs, "laws": laws, "anyfree": anyfree, "extra": extra,
                     "term": f"c04_run table {show(ta)} {show(tb)} {show(tc)} (pool ++ [" + "; ".join(extra_terms) + "])"})
        hist["accept" if obs["ab"] else "reject"] += 1
        hist["kinds_a"][case["a"][0]] = hist["kinds_a"].get(case["a"][0], 0) + 1
        hist["kinds_b"][case["b"][0]] = hist["kinds_b"].get(case["b"][0], 0) + 1

    model_ok = proof is not None and not any("build failed" in b or "forbidden" in b for b in proof.broken)
    if not model_ok and gen is not None:
        # a proof (e.g. a table obligation) no longer checks: the model itself may still build, so that the
        # correspondence and the oracles keep their reference and can produce a failing input
        for name, text in gen.items():
            lib.write_if_changed(lib.GEN / name, text)
        model_ok = lib.coq_make(["theories/Core/C04Run.vo", "theories/Gen/ClassTable.vo"])[0]
    if model_ok:
        try:
            results = lib.coq_eval(HEADER + f"Definition pool : list obj := {pool_term}.\n", [r["term"] for r in rows], name="c04",
                                   shard=300, jobs=6)
            for r, res in zip(rows, results):
                ab, ab_x, ac, aa, aa_x, (ma, mb), (bare, varfix, hasany, unsafe, variadic, newtype, reflok, strict) = res
                r["model"] = {"ab": ab, "ab_x": ab_x, "ac": ac, "aa": aa, "aa_x": aa_x}
                r["member_a"], r["member_b"] = ma, mb
                r["clauses"] = {"bare_generic": bare, "variadic_into_fixed": varfix, "has_any": hasany, "literal_dedup": unsafe, "variadic_member": variadic, "newtype": newtype, "refl_ok": reflok, "strict": strict}
        except (RuntimeError, ValueError) as ex:
            rep.violation({"kind": "broken-correspondence", "correspondence": "Core.CanAssign evaluation", "detail": str(ex)[-1500:]}, no_failing_input=True)

    findings = {f["id"]: f for f in lib.load_known_findings(PROP)["findings"]}
    failing, corr, validated, distinct, n_sound_checked, lenient = [], [], 0, set(), 0, 0
    n_b_members = n_b_without_member = n_refl_guard = n_strict = n_accept_anyfree = 0
    non_strict = {}
    for r in rows:
        bad = [k for k, v in r["laws"].items() if not v]
        witness = None
        if "model" in r:
            # alias cases: the term is the expansion of the alias; pyanalyze does not expand an alias on the right
            # of a union (incompleteness, see design.d/C04.md), so only the soundness oracle applies to them
            alias_case = G_has(r["case"], "alias") or G_has(r["case"], "td")
            mism = [] if alias_case else [k for k in r["obs"] if r["obs"][k] != r["model"][k]]
            if mism:
                corr.append((r, mism))
            else:
                validated += 1
            distinct.add(json.dumps(r["case"], sort_keys=True))
            n_refl_guard += bool(r["clauses"]["refl_ok"])
            # the decidable guard of C04_strict_sound: a strict derivation implies acceptance (theorem
            # C04_strict_implies_accept + correspondence), so the implementation must accept
            if r["clauses"]["strict"] and not alias_case:
                n_strict += 1
                if not r["obs"]["ab"]:
                    bad.append("strict_derivation_rejected")
            n_accept_anyfree += bool(r["obs"]["ab"] and not r["clauses"]["has_any"])
            if r["obs"]["ab"] and not r["clauses"]["has_any"] and not r["clauses"]["strict"]:
                why = non_strict_reason(r["case"], r["clauses"])
                non_strict[why] = non_strict.get(why, 0) + 1
            if r["clauses"]["refl_ok"] and not (r["obs"]["aa"] and r["obs"]["aa_x"]) and "refl" not in bad:
                bad.append("refl")  # the theorem C04_reflexive predicts acceptance
            if r["obs"]["ab"] and not r["clauses"]["has_any"]:
                n_sound_checked += 1
                specs = POOL + r["extra"]
                for i, (ia, ib) in enumerate(zip(r["member_a"], r["member_b"])):
                    if ib and not ia:
                        witness = specs[i]
                        break
                n_b_members += sum(1 for x in r["member_b"] if x)
                n_b_without_member += not any(r["member_b"])
                if witness is not None:
                    if r["clauses"]["bare_generic"] or r["clauses"]["variadic_into_fixed"]:
                        lenient += 1  # the leniencies the property excludes
                        witness = None
                    else:
                        bad.append("sound")
        for k in bad:
            hist["laws_failed"][k] = hist["laws_failed"].get(k, 0) + 1
        if bad:
            attributed = False
            # (alias cases have no verdict correspondence; the NewType finding is still recognised on the expansion)
            if "model" in r and (G_has(r["case"], "alias") or G_has(r["case"], "td") or not [k for k in r["obs"] if r["obs"][k] != r["model"][k]]):
                cl = r["clauses"]
                for fid, cond in (
                                  ("C04-typeddict-closed-target-ignores-source-keys", set(bad) <= {"sound"} and witness is not None and td_closed_target_clause(r["case"], witness)),
                                  ("C04-newtype-accepts-supertype", set(bad) <= {"sound"} and cl["newtype"] and not cl["strict"]),
                                  ):
                    if cond and fid in findings:
                        rep.known(fid, findings[fid]["what"])
                        attributed = True
                        break
            if not attributed:
                failing.append((r, bad, witness))

    for r, bad, witness in failing[:10]:
        rep.violation({"kind": "failing-input", "input": r["case"], "observed": {"laws_violated": bad, "impl": r["obs"], "object_in_B_not_in_A": witness},
                       "expected": {"model": r.get("model"), "clauses": r.get("clauses")}, "how_to_run": f"./check {PROP} --replay <this file>"})
    for r, mism in corr[:5]:
        print("corr mismatch:", json.dumps(r["case"]), r["obs"], r["model"], file=__import__("sys").stderr)
    if corr and not failing:
        r, mism = corr[0]
        rep.violation({"kind": "broken-correspondence", "correspondence": "Core.CanAssign.can_assign vs Value.can_assign (both exclude-Any modes)",
                       "input": r["case"], "observed": r["obs"], "model": r["model"], "differs_on": mism, "n_mismatching_cases": len(corr)}, no_failing_input=True)
    if broken_table and not failing:
        rep.violation({"kind": "broken-obligation", "theorem": "Gen/ClassTable.v (class table dump)", "detail": broken_table}, no_failing_input=True)
    if proof is not None and not proof.ok and not failing:
        rep.violation({"kind": "broken-obligation", "theorem": "; ".join(proof.broken), "log": proof.log[-1500:]}, no_failing_input=True)

    rep.coverage.update(
        evaluations=len(rows) * 5,
        distinct_nontrivial=len(distinct),
        rule="a case = (A, B, C) of static values up to depth 3-4 (classes, literals incl. containers, NewType, unions, Annotated, type[...], "
        "generics over 9 classes, fixed tuples, rarely unpacked members, Any in 20%% of the cases); B is a narrowing of A in 55%% of the cases; "
        "5 verdicts per case (A<-B, A<-B exclude-Any, A<-C, A<-A both modes) are compared model vs implementation; 7 laws are evaluated on the "
        "real code; soundness is checked for every accepted Any-free pair against a fixed pool of %d objects plus up to 8 objects derived "
        "structurally from B, A and C (members by construction)" % len(POOL),
        samples=[r["case"] for r in rows[:3]],
        traces_validated_against_impl=validated,
        input_distribution={**hist, "soundness_pairs_checked": n_sound_checked, "values_in_reflexive_fragment_refl_ok": n_refl_guard,
                            "accepted_anyfree_pairs": n_accept_anyfree, "pairs_with_strict_derivation_theorem_guard": n_strict, "accepted_pairs_without_strict_derivation_by_reason": non_strict, "objects_of_B_tested": n_b_members,
                            "accepted_pairs_with_no_known_object_of_B": n_b_without_member, "lenient_pairs_excluded": lenient, "out_of_fragment": oof, "cases": len(cases)},
        correspondence_mismatches=len(corr),
        oracle_failures_unattributed=len(failing),
    )
    rep.assumptions = ["class table dumped from the running implementation", "membership of pool objects computed by the Coq spec `member` (validated against CPython by C03)"]
    return rep.finish(
        proof,
        "coq_makefile + make theories/Properties/C04.vo; coqc theories/Properties/C04.v (Print Assumptions)" + ("; coqchk -o" if tier == "thorough" else ""),
        ["Coq 8.16.1 kernel", "class-table dump harness/classtable.py", "encoder harness/core_enc.py", "correspondence harness/c04.py"],
    )


def non_strict_reason(case, clauses):
    """why an accepted Any-free pair has no strict derivation (first matching class)"""
    def has(s, pred):
        if not isinstance(s, list):
            return False
        if pred(s):
            return True
        return any(has(x, pred) for x in s)

    a, b = case["a"], case["b"]
    if has([a, b], lambda s: s and s[0] == "alias"):
        return "type alias"
    if clauses["bare_generic"] or clauses["variadic_into_fixed"]:
        return "documented leniency (bare generic / bare type / tuple[X, ...] into fixed tuple)"
    if has(b, lambda s: s and s[0] == "known" and isinstance(s[1], list) and s[1] and s[1][0] in ("tuple", "list", "set", "frozenset", "dict")):
        return "container literal on the right (expanded and united before the check)"
    if has(a, lambda s: s and s[0] == "known" and isinstance(s[1], list) and s[1] and s[1][0] in ("tuple", "list", "set", "frozenset", "dict")):
        return "container literal on the left"
    if has([a, b], lambda s: s and s[0] == "newtype"):
        return "NewType"
    if has([a, b], lambda s: s and s[0] == "literalstring"):
        return "LiteralString"
    if has(a, lambda s: s and s[0] == "seq" and any(f for f, _ in s[2])) or has(b, lambda s: s and s[0] == "seq" and any(f for f, _ in s[2])):
        return "tuple with an unpacked member"
    if has(b, lambda s: s and s[0] == "annot") and has(a, lambda s: s and s[0] in ("generic", "seq")):
        return "Annotated on the right of a generic / tuple"
    if has(b, lambda s: s and s[0] == "seq") and has(a, lambda s: s and s[0] == "generic"):
        return "fixed tuple on the right of a generic (through the derived element union)"
    if has([a, b], lambda s: s and s[0] == "typed" and s[1] in ("type",)) or has([a, b], lambda s: s and s[0] == "subclass" and s[1][0] != "typed"):
        return "type / type[generic]"
    return "other (protocol targets, class literals against classes, nested combinations)"


def first_td(s):
    if not isinstance(s, list):
        return None
    if s and s[0] == "td" and len(s) == 4:
        return s
    for x in s:
        t = first_td(x)
        if t is not None:
            return t
    return None


def td_closed_target_clause(case, witness):
    """guard of C04-typeddict-closed-target-ignores-source-keys: the target TypedDict is closed or has an extra_items
    type, the source TypedDict declares a key that the target does not, and the witness object carries such a key"""
    ta, tb = first_td(case["a"]), first_td(case["b"])
    if ta is None or tb is None or ta[2] is None:
        return False
    ka, kb = {e[0] for e in ta[1]}, {e[0] for e in tb[1]}
    if not (kb - ka):
        return False

    def dict_keys(o):
        if not isinstance(o, list):
            return set()
        if o and o[0] == "dict":
            return {k[1] for k, _ in o[2] if k[0] == "str"}
        out = set()
        for x in o:
            out |= dict_keys(x)
        return out

    return bool(dict_keys(witness) & (kb - ka))


def G_has(case, kind):
    def has(s):
        if not isinstance(s, list):
            return False
        if s and s[0] == kind:
            return True
        return any(has(x) for x in s)

    return any(has(case[k]) for k in ("a", "b", "c"))
