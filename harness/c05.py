"""C05 — argument-to-parameter binding agrees with CPython.

proof   : Properties/C05.v over Binder/{Kind,Sig,Bind,PyBind}.v and Gen/Kinds.v
          (KIND_TO_ALLOWED_PREVIOUS / CAN_HAVE_DEFAULT regenerated from signature.py)
tie     : translator (validity tables) + correspondence
            Bind.preprocess/bind  vs  preprocess_args + Signature.bind_arguments (verdict, positions, payloads)
            Bind.call_ok          vs  incompatible_call diagnostics of generated modules (end to end)
            Sig.valid_sig         vs  Signature.make / compilability of the `def` header
            PyBind.py_bind_full   vs  CPython executing the call and returning locals()
oracle  : CPython itself: the call expression is evaluated; for star-arguments of unknown
          length every expansion up to length 4 is executed
"""
from __future__ import annotations

import itertools
import json
import random
from pathlib import Path

import lib
from translate import binder as tr_binder
from translate import kinds as tr_kinds

PROP = "C05"
NAMES = ["a", "b", "c", "d", "e", "f"]
STRANGERS = ["x", "y"]
ALLNAMES = NAMES + STRANGERS
CODE = {n: i + 1 for i, n in enumerate(ALLNAMES)}
UNCODE = {v: k for k, v in CODE.items()}
PO, POK, VP, KO, VK = range(5)
KIND_NAMES = ["PO", "POK", "VP", "KO", "VK"]
CORPUS = Path(__file__).resolve().parent / "corpus" / "C05.json"

# ---------------------------------------------------------------------------
# signatures: list of [name, kind, has_default]


def header(sig):
    """Text of the parameter list of a `def` with exactly these parameters in
    this order, or None when no `def` header denotes it."""
    kinds = [k for _, k, _ in sig]
    if kinds != sorted(kinds) or kinds.count(VP) > 1 or kinds.count(VK) > 1:
        return None
    parts = []
    last_po = max((i for i, k in enumerate(kinds) if k == PO), default=-1)
    first_ko = min((i for i, k in enumerate(kinds) if k == KO), default=None)
    for i, (n, k, d) in enumerate(sig):
        if first_ko is not None and i == first_ko and VP not in kinds:
            parts.append("*")
        if k == VP:
            if d:
                return None
            parts.append("*" + n)
        elif k == VK:
            if d:
                return None
            parts.append("**" + n)
        else:
            parts.append(n + (f"=('d', '{n}')" if d else ""))
        if i == last_po:
            parts.append("/")
    return ", ".join(parts)


_FN_CACHE = {}


def real_function(sig):
    """The real Python function for a signature (None if `def` rejects it)."""
    key = json.dumps(sig)
    if key in _FN_CACHE:
        return _FN_CACHE[key]
    h = header(sig)
    f = None
    if h is not None:
        ns = {}
        try:
            exec(f"def f({h}): return locals()", ns)
            f = ns["f"]
            import inspect

            ps = list(inspect.signature(f).parameters.values())
            got = [[p.name, int(p.kind), p.default is not inspect.Parameter.empty] for p in ps]
            if got != [[n, k, bool(d)] for n, k, d in sig]:
                f = None
        except SyntaxError:
            f = None
    _FN_CACHE[key] = f
    return f


def all_kind_default_seqs(n):
    for ks in itertools.product(range(5), repeat=n):
        for ds in itertools.product([0, 1], repeat=n):
            yield [[NAMES[i], ks[i], ds[i]] for i in range(n)]


_VALID = {}


def valid_sigs(n):
    """All signatures with exactly n parameters that a `def` can denote."""
    if n not in _VALID:
        _VALID[n] = [s for s in all_kind_default_seqs(n) if real_function(s) is not None]
    return _VALID[n]


def random_sig(rng, maxn=6):
    n = rng.choice([1, 2, 3, 3, 4, 4, 5, 6][: max(1, maxn + 2)])
    n = min(n, maxn)
    for _ in range(200):
        kinds = sorted(rng.choice([PO, POK, POK, POK, VP, KO, KO, VK]) for _ in range(n))
        if kinds.count(VP) > 1 or kinds.count(VK) > 1:
            continue
        names = rng.sample(NAMES, n)
        seen_default = False
        sig = []
        for nm, k in zip(names, kinds):
            if k in (VP, VK):
                d = 0
            elif k in (PO, POK):
                d = 1 if (seen_default or rng.random() < 0.3) else 0
                seen_default = seen_default or bool(d)
            else:
                d = 1 if rng.random() < 0.4 else 0
            sig.append([nm, k, d])
        if real_function(sig) is not None:
            return sig
    return [["a", POK, 0]]


# ---------------------------------------------------------------------------
# raw call shapes: positional section then keyword section (ast.Call keeps
# `args` and `keywords` apart, so this is the order the visitor produces)
#   ["p"] | ["sl", n] | ["su", "list"|"tuple"] | ["k", name] | ["kl", [names]] | ["ku"]


def random_raw(rng, sig, star=None):
    pnames = [n for n, _, _ in sig]
    pool = pnames + pnames + [STRANGERS[0]]
    raw = []
    if star is None:
        star = rng.random() < 0.5
    npos_items = rng.choice([0, 1, 1, 2, 2, 3, 4])
    for _ in range(npos_items):
        r = rng.random()
        if r < 0.7:
            raw.append(["p"])
        elif r < 0.85:
            raw.append(["sl", rng.choice([0, 1, 2, 2, 3])])
        elif star:
            raw.append(["su", rng.choice(["list", "tuple"])])
        else:
            raw.append(["p"])
    if star and rng.random() < 0.45 and not any(r[0] == "su" for r in raw):
        raw.insert(rng.randrange(len(raw) + 1) if rng.random() < 0.3 else len(raw), ["su", rng.choice(["list", "tuple"])])
    used = []
    nkw_items = rng.choice([0, 0, 1, 1, 2, 3, 4])
    for _ in range(nkw_items):
        r = rng.random()
        cand = [n for n in pool if n not in used] or [STRANGERS[1]]
        if r < 0.65:
            n = rng.choice(cand)
            if any(x == ["k", n] for x in raw):
                continue  # f(a=1, a=2) is a SyntaxError
            raw.append(["k", n])
            if rng.random() < 0.93:
                used.append(n)
        elif r < 0.85:
            ns = []
            for _ in range(rng.choice([0, 1, 1, 2])):
                c = [n for n in pool if n not in ns and (n not in used or rng.random() < 0.15)]
                if c:
                    ns.append(rng.choice(c))
            if ns and rng.random() < 0.12:
                ns = ns + [rng.choice(ns)]  # a repeated key inside one display: the last pair wins
            raw.append(["kl", ns])
            used += ns
        elif star:
            raw.append(["ku"])
    if star and not any(r[0] in ("su", "ku") for r in raw):
        raw.append(["ku"])
    return raw


def guided_raw(rng, sig):
    """A call built to bind (positional prefix + keywords for the rest), then
    possibly perturbed and partly folded into displays / star-arguments, so
    that accepted and rejected calls are both frequent."""
    pp = [p for p in sig if p[1] in (PO, POK)]
    has_vp = any(p[1] == VP for p in sig)
    has_vk = any(p[1] == VK for p in sig)
    npo = sum(1 for p in sig if p[1] == PO)
    k = rng.randint(min(npo, len(pp)), len(pp)) if pp else 0
    npos = k + (rng.choice([0, 1, 2]) if has_vp and k == len(pp) else 0)
    kws = []
    for i, (n, kd, d) in enumerate(p for p in sig if p[1] in (PO, POK, KO)):
        filled = kd in (PO, POK) and [q[0] for q in pp].index(n) < k
        if filled or kd == PO:
            continue
        if not d or rng.random() < 0.4:
            kws.append(n)
    if has_vk and rng.random() < 0.4:
        kws.append(STRANGERS[0])
    rng.shuffle(kws)
    r = rng.random()
    if r < 0.12 and kws:
        kws.pop(rng.randrange(len(kws)))
    elif r < 0.2:
        kws.append(rng.choice([n for n in ALLNAMES if n not in kws]))
    elif r < 0.27:
        npos += 1
    elif r < 0.33 and npos:
        npos -= 1
    # fold into raw items
    raw = []
    star = rng.random() < 0.5
    cut = rng.randint(0, npos) if star and rng.random() < 0.6 else None
    i = 0
    while i < npos:
        if cut is not None and i == cut:
            raw.append(["su", rng.choice(["list", "tuple"])])
            if rng.random() < 0.85:
                break
            cut = None
            continue
        if rng.random() < 0.15:
            ln = rng.randint(0, min(3, npos - i))
            raw.append(["sl", ln])
            i += ln
        else:
            raw.append(["p"])
            i += 1
    if cut is not None and cut == npos and not any(x[0] == "su" for x in raw):
        raw.append(["su", rng.choice(["list", "tuple"])])
    drop = set()
    if star and kws and rng.random() < 0.6:
        drop = set(rng.sample(kws, rng.randint(1, len(kws))))
    lit = []
    for n in kws:
        if n in drop:
            continue
        if rng.random() < 0.2:
            lit.append(n)
        else:
            raw.append(["k", n])
    if lit:
        raw.append(["kl", lit])
    if drop or (star and rng.random() < 0.3):
        raw.append(["ku"])
    return raw


def dedup_last(names):
    """keys of a dict display as CPython (and the binder) see them: a repeated key keeps its
    LAST value; the binder walks the display in reverse, so the surviving keys are the last
    occurrences, in source order"""
    out = []
    for i, n in enumerate(names):
        if n not in names[i + 1 :]:
            out.append(n)
    return out


def is_concrete(raw):
    return not any(r[0] in ("su", "ku") for r in raw)


def call_text(raw, fname="f", tagged=False):
    parts = []
    i = 0
    for r in raw:
        if r[0] == "p":
            parts.append(f"('p', {i})" if tagged else "1")
            i += 1
        elif r[0] == "sl":
            elems = []
            for _ in range(r[1]):
                elems.append(f"('p', {i})" if tagged else "1")
                i += 1
            parts.append("*(" + "".join(e + ", " for e in elems) + ")")
        elif r[0] == "su":
            parts.append("*xs" if r[1] == "list" else "*ts")
        elif r[0] == "k":
            parts.append(f"{r[1]}=('k', '{r[1]}')" if tagged else f"{r[1]}=1")
        elif r[0] == "kl":
            parts.append("**{" + ", ".join((f"'{n}': ('k', '{n}')" if tagged else f"'{n}': 1") for n in r[1]) + "}")
        elif r[0] == "ku":
            parts.append("**kw")
    return f"{fname}(" + ", ".join(parts) + ")"


def enc_sig(sig):
    return ",".join(f"{CODE[n]} {k} {int(d)}" for n, k, d in sig)


def enc_raw(raw):
    out = []
    for r in raw:
        if r[0] in ("p", "ku"):
            out.append(r[0])
        elif r[0] == "su":
            out.append("su")
        elif r[0] == "sl":
            out.append(f"sl {r[1]}")
        elif r[0] == "k":
            out.append(f"k {CODE[r[1]]}")
        elif r[0] == "kl":
            out.append("kl " + " ".join(str(CODE[n]) for n in dedup_last(r[1])))
    return ",".join(out)


def flat_counts(raw):
    """(number of definite positionals, keyword names in order) of a concrete raw call."""
    npos = sum(1 if r[0] == "p" else r[1] if r[0] == "sl" else 0 for r in raw)
    kws = []
    for r in raw:
        if r[0] == "k":
            kws.append(r[1])
        elif r[0] == "kl":
            kws += list(dict.fromkeys(r[1]))  # CPython: a repeated key keeps its first position (and its last value)
    return npos, kws


# ---------------------------------------------------------------------------
# canonical result strings  "ERR" | "OK name:pos[:payload];..."


def canon_model(line):
    """Model output -> canonical form (names instead of codes; the start index
    of an empty *args tuple is not observable)."""
    if line.startswith("ERR"):
        return "ERR"
    assert line.startswith("OK"), line
    out = []
    for item in line[3:].split(";") if len(line) > 3 else []:
        f = item.split(":")
        name = UNCODE[int(f[0])]
        pos = f[1]
        if pos[0] == "K":
            pos = "K" + UNCODE[int(pos[1:])]
        pl = ""
        if len(f) > 2:
            pl = f[2]
            if pl[0] == "T":
                a, b, c = pl[1:].split("+")
                if b == "0":
                    a = "0"
                pl = f"T{a}+{b}+{c}"
            elif pl[0] == "M":
                ns, st = pl[1:].split("+")
                pl = "M" + ".".join(UNCODE[int(x)] for x in ns.split(".") if x) + "+" + st
        elif pos[0] in "TM":  # spec output
            if pos[0] == "T":
                a, b = pos[1:].split("+")
                if b == "0":
                    a = "0"
                pos = f"T{a}+{b}"
            else:
                pos = "M" + ".".join(UNCODE[int(x)] for x in pos[1:].split(".") if x)
        out.append(f"{name}:{pos}" + (":" + pl if pl else ""))
    return "OK " + ";".join(out)


# ---------------------------------------------------------------------------
# implementation, direct route

_IMPL = {}


def _impl():
    if not _IMPL:
        from pyanalyze.checker import Checker
        from pyanalyze import signature as S
        from pyanalyze import value as V
        from pyanalyze.stacked_scopes import Composite
        from pyanalyze.type_evaluation import ARGS, DEFAULT, KWARGS, UNKNOWN

        _IMPL.update(ck=Checker(), S=S, V=V, Composite=Composite, ARGS=ARGS, KWARGS=KWARGS, DEFAULT=DEFAULT, UNKNOWN=UNKNOWN, sigs={})
    return _IMPL


def impl_signature(sig):
    I = _impl()
    key = json.dumps(sig)
    if key not in I["sigs"]:
        f = real_function(sig)
        s = I["ck"].arg_spec_cache.get_argspec(f)
        if not isinstance(s, I["S"].Signature):
            raise RuntimeError(f"no concrete signature for {header(sig)}: {s!r}")
        got = [[p.name, p.kind.value, p.default is not None] for p in s.parameters.values()]
        if got != [[n, k, bool(d)] for n, k, d in sig]:
            # signature extraction (arg_spec.py) changed the header: property-relevant
            raise ExtractionMismatch(sig, got)
        I["sigs"][key] = s
    return I["sigs"][key]


class ExtractionMismatch(Exception):
    pass


def impl_args(raw):
    I = _impl()
    V, C = I["V"], I["Composite"]
    args = []
    i = 0
    for r in raw:
        if r[0] == "p":
            args.append((C(V.KnownValue(("p", i))), None))
            i += 1
        elif r[0] == "sl":
            members = []
            for _ in range(r[1]):
                members.append((False, V.KnownValue(("p", i))))
                i += 1
            args.append((C(V.SequenceValue(tuple, members)), I["ARGS"]))
        elif r[0] == "su":
            t = list if r[1] == "list" else tuple
            args.append((C(V.GenericValue(t, [V.TypedValue(int)])), I["ARGS"]))
        elif r[0] == "k":
            args.append((C(V.KnownValue(("k", r[1]))), r[1]))
        elif r[0] == "kl":
            pairs = [V.KVPair(V.KnownValue(n), V.KnownValue(("k", n))) for n in r[1]]
            args.append((C(V.DictIncompleteValue(dict, pairs)), I["KWARGS"]))
        elif r[0] == "ku":
            args.append((C(V.GenericValue(dict, [V.TypedValue(str), V.TypedValue(int)])), I["KWARGS"]))
    return args


def impl_bind(sig, raw):
    """'ERR' or canonical bound string, from preprocess_args + bind_arguments."""
    I = _impl()
    S, V = I["S"], I["V"]
    s = impl_signature(sig)
    ctx = S._CanAssignBasedContext(I["ck"])
    pre = S.preprocess_args(impl_args(raw), ctx)
    if pre is None:
        return "ERR"
    b = s.bind_arguments(pre, ctx)
    if b is None:
        return "ERR"
    kinds = {n: k for n, k, _ in sig}
    out = []
    for name, (pos, comp) in b.items():
        if isinstance(pos, bool):
            p = "?"
        elif isinstance(pos, int):
            p = f"P{pos}"
        elif isinstance(pos, str):
            p = "K" + pos
        elif pos is I["DEFAULT"]:
            p = "D"
        elif pos is I["ARGS"]:
            p = "A"
        elif pos is I["KWARGS"]:
            p = "W"
        elif pos is I["UNKNOWN"]:
            p = "U"
        else:
            p = "?"
        pl = ""
        v = comp.value
        if kinds[name] == VP:
            if isinstance(v, V.SequenceValue):
                idx = [m.val[1] for many, m in v.members if not many]
                star = any(many for many, _ in v.members)
                if idx != list(range(idx[0], idx[0] + len(idx))) if idx else False:
                    pl = "T?"
                else:
                    pl = f"T{idx[0] if idx else 0}+{len(idx)}+{int(star)}"
            else:
                pl = "T?" + type(v).__name__
        elif kinds[name] == VK:
            if isinstance(v, V.TypedDictValue):
                pl = "M" + ".".join(v.items.keys()) + "+0"
            elif isinstance(v, V.GenericValue) and v.typ is dict:
                ns = [m.val[1] for m in V.flatten_values(v.args[1]) if isinstance(m, V.KnownValue)]
                pl = "M" + ".".join(ns) + "+1"
            else:
                pl = "M?" + type(v).__name__
        out.append(f"{name}:{p}" + (":" + pl if pl else ""))
    return "OK " + ";".join(out)


# ---------------------------------------------------------------------------
# CPython oracle


def cpython_call(sig, raw):
    """Evaluate the call expression itself.  'ERR' on TypeError, else the
    canonical source string read off locals()."""
    f = real_function(sig)
    try:
        loc = eval(call_text(raw, "f", tagged=True), {"f": f})
    except TypeError:
        return "ERR"
    return sources_from_locals(sig, loc)


def sources_from_locals(sig, loc):
    out = []
    for n, k, _ in sig:
        v = loc[n]
        if k == VP:
            idx = [x[1] for x in v]
            assert idx == list(range(idx[0], idx[0] + len(idx))) if idx else True
            out.append(f"{n}:T{idx[0] if idx else 0}+{len(idx)}")
        elif k == VK:
            out.append(f"{n}:M" + ".".join(v.keys()))
        elif v[0] == "p":
            out.append(f"{n}:P{v[1]}")
        elif v[0] == "k":
            out.append(f"{n}:K{v[1]}")
        else:
            out.append(f"{n}:D")
    return "OK " + ";".join(out)


def cpython_binds(f, npos, kws):
    try:
        f(*([1] * npos), **{k: 1 for k in kws})
        return True
    except TypeError:
        return False


MAXLEN = 4


def expansions(sig, raw):
    """All expansions of the star-arguments of unknown length, up to length
    max(MAXLEN, number of parameters + 1) each: yields (nonempty_everywhere, npos, kwnames) — the keyword
    names drawn for **kw are parameter names and one fresh name, minus the
    explicit keywords (an expansion repeating an explicit keyword always
    raises TypeError and cannot matter for either direction)."""
    nsu = sum(1 for r in raw if r[0] == "su")
    nku = sum(1 for r in raw if r[0] == "ku")
    base_pos = sum(1 if r[0] == "p" else r[1] if r[0] == "sl" else 0 for r in raw)
    explicit = []
    for r in raw:
        if r[0] == "k":
            explicit.append(r[1])
        elif r[0] == "kl":
            explicit += dedup_last(r[1])
    fresh = [n for n in ALLNAMES if n not in explicit and n not in [p[0] for p in sig]][:1]
    cands = [p[0] for p in sig if p[0] not in explicit] + fresh
    # several *xs: only the total matters, but "every star-argument non-empty" needs >= nsu
    # lengths: at least MAXLEN, and enough to fill every parameter (a bound of 4 would
    # miss the only binding expansion of f(**kw) for a def with 5 required parameters)
    pos_extra = range(0, max(MAXLEN, len(sig) + 1) * nsu + 1) if nsu else [0]
    if nku:
        kw_sets = [c for r in range(0, max(MAXLEN, len(cands)) + 1) for c in itertools.combinations(cands, r)]
    else:
        kw_sets = [()]
    for pe in pos_extra:
        for ks in kw_sets:
            nonempty = pe >= nsu and len(ks) >= nku
            yield nonempty, base_pos + pe, explicit + list(ks)


def star_oracle(sig, raw):
    """(some expansion binds, some expansion with every star-argument non-empty binds)."""
    f = real_function(sig)
    _, kws = flat_counts(raw)
    if len(set(kws)) != len(kws):
        return False, False  # f(a=1, **{'a': 2}) raises TypeError whatever the rest is
    some = some_ne = False
    for ne, npos, ks in expansions(sig, raw):
        if ne and some_ne:
            continue
        if not ne and some:
            continue
        if cpython_binds(f, npos, ks):
            some = True
            if ne:
                some_ne = True
        if some and some_ne:
            break
    return some, some_ne


# ---------------------------------------------------------------------------
# guard clauses of the known findings (must agree with Proofs/BinderStar.v)


def guard_kw_after_star_args(sig, raw):
    """Bind.kw_after_star_args: an unknown-length *args is passed and some
    positional-or-keyword parameter not covered by the explicit positionals
    is also named by an explicit keyword."""
    if not any(r[0] == "su" for r in raw):
        return False
    npos = 0
    for r in raw:  # positionals before the first unknown star (later ones are merged)
        if r[0] == "su":
            break
        npos += 1 if r[0] == "p" else r[1] if r[0] == "sl" else 0
    _, kws = flat_counts(raw)
    i = 0
    for n, k, _ in sig:
        if k in (PO, POK):
            if i >= npos and k == POK and n in kws:
                return True
            i += 1
    return False


def guard_positional_after_star_args(raw):
    """Bind.positional_after_star: a positional argument (or a non-empty tuple
    display) follows an unknown-length *args; preprocess_args merges it into
    *args and its presence is forgotten."""
    seen = False
    for r in raw:
        if r[0] == "su":
            seen = True
        elif seen and (r[0] == "p" or (r[0] == "sl" and r[1] > 0)):
            return True
    return False


# ---------------------------------------------------------------------------
# end-to-end route


def run_modules(batches):
    """batches: list of list of (sig, raw).  Returns per batch the list of
    verdicts: True = no incompatible_call on the call's line; plus other codes seen."""
    from pyanalyze.error_code import ErrorCode
    from pyanalyze.test_name_check_visitor import TestNameCheckVisitorBase
    import contextlib
    import io

    results = []
    other = {}
    for batch in batches:
        fnames = {}
        lines = []
        for sig, raw in batch:
            key = json.dumps(sig)
            if key not in fnames:
                fnames[key] = f"f{len(fnames)}"
                lines.append(f"def {fnames[key]}({header(sig)}): pass")
        lines.append("def run(xs: list[int], ts: tuple[int, ...], kw: dict[str, int]):")
        call_line = {}
        for ci, (sig, raw) in enumerate(batch):
            lines.append("    " + call_text(raw, fnames[json.dumps(sig)]))
            call_line[len(lines)] = ci
        code = "\n".join(lines) + "\n"
        buf = io.StringIO()
        with contextlib.redirect_stderr(buf), contextlib.redirect_stdout(buf):
            errs = TestNameCheckVisitorBase()._run_str(code, fail_after_first=False)
        verdict = [True] * len(batch)
        for e in errs:
            ci = call_line.get(e["lineno"])
            if ci is None:
                other[f"line-outside-calls:{e['code'].name}"] = other.get(f"line-outside-calls:{e['code'].name}", 0) + 1
                continue
            if e["code"] is ErrorCode.incompatible_call:
                verdict[ci] = False
            else:
                other[e["code"].name] = other.get(e["code"].name, 0) + 1
        results.append(verdict)
    return results, other


# ---------------------------------------------------------------------------


def dict_display_last_wins():
    """Which pair of a `**{...}` display with a repeated constant key reaches the parameter?
    CPython: the last.  Returns the list of shapes on which the FIRST pair won."""
    I = _impl()
    S, V, C = I["S"], I["V"], I["Composite"]
    bad = []
    shapes = [[("b", 0), ("b", 1)], [("a", 0), ("b", 1), ("a", 2)], [("b", 0), ("a", 1), ("b", 2), ("b", 3)]]
    for shape in shapes:
        d = V.DictIncompleteValue(dict, [V.KVPair(V.KnownValue(k), V.KnownValue(("v", i))) for k, i in shape])
        ctx = S._CanAssignBasedContext(I["ck"])
        pre = S.preprocess_args([(C(d), I["KWARGS"])], ctx)
        if pre is None:
            bad.append({"display": shape, "observed": "rejected"})
            continue
        want = {}
        for k, i in shape:
            want[k] = i
        got = {k: c.value.val[1] for k, (dp, c) in pre.keywords.items()}
        if got != want:
            bad.append({"display": shape, "observed": got, "expected (CPython: last value wins)": want})
    return bad


def gen_files():
    return {"Kinds.v": tr_kinds.translate(str(lib.REPO)), "BinderShape.v": tr_binder.translate(str(lib.REPO))}


def load_corpus():
    if CORPUS.exists():
        return [(c["sig"], c["raw"]) for c in json.loads(CORPUS.read_text())]
    return []


def sig_text(sig):
    return f"def f({header(sig)})"


def run(tier: str, replay: str | None = None):
    rep = lib.Report(PROP, tier, "proof")
    rng = random.Random(lib.seed() * 7919 + 5)
    thorough = tier == "thorough"

    # 1. regenerate + prove
    broken_translation = None
    try:
        gen = gen_files()
    except (tr_kinds.TranslateError, tr_binder.TranslateError) as ex:
        broken_translation = str(ex)
        gen = None
    proof = lib.prove(PROP, gen, thorough=thorough) if gen is not None else None
    model_ok = proof is not None and not any("build failed" in b for b in proof.broken)
    exe = None
    if model_ok:
        try:
            exe = lib.ocaml_build("c05", "theories/Extract/ExtractC05.v", "c05_driver.ml")
        except RuntimeError as ex:
            rep.violation({"kind": "broken-obligation", "theorem": "extraction of Binder model", "detail": str(ex)[-1500:]}, no_failing_input=True)

    # 2. cases
    cases = []  # (sig, raw)
    kind_cases = []  # (kind, sig, raw, presets): other callable kinds, end to end
    replay_ucases = []  # union-of-mappings cases of a replay
    if replay:
        r = json.loads(Path(replay).read_text())
        c = r["input"]
        if any(r[0] == "ux" for r in c["raw"]):
            replay_ucases.append((c["sig"], c["raw"]))
        elif "kind" in c:
            kind_cases.append((c["kind"], c["sig"], c["raw"], tuple(c["presets"]) if c.get("presets") else None))
        else:
            cases.append((c["sig"], c["raw"]))
    else:
        kind_cases += gen_kind_cases(rng, 1200 if not thorough else 9000)
        cases += load_corpus()
        small = [s for n in range(0, 4) for s in valid_sigs(n)]
        n_small = 3 if not thorough else 14
        for s in small:
            for j in range(n_small):
                cases.append((s, guided_raw(rng, s) if j % 2 else random_raw(rng, s)))
        for s in valid_sigs(4) if thorough else rng.sample(valid_sigs(4), min(600, len(valid_sigs(4)))):
            for j in range(2 if not thorough else 6):
                cases.append((s, guided_raw(rng, s) if j % 2 else random_raw(rng, s)))
        for j in range(16000 if not thorough else 160000):
            s = random_sig(rng)
            cases.append((s, guided_raw(rng, s) if j % 3 else random_raw(rng, s)))
        # exhaustive small concrete shapes on every signature with <= 2 (thorough: 3) parameters
        for s in [s for n in range(0, 3 if not thorough else 4) for s in valid_sigs(n)]:
            pn = [p[0] for p in s] + ["x"]
            for npos in range(0, 4):
                for r in range(0, 3):
                    for kws in itertools.combinations(pn, r):
                        cases.append((s, [["p"]] * npos + [["k", k] for k in kws]))

    # 3. validity correspondence: model valid_sig vs Signature.make vs `def`
    validity_mismatch = []
    n_validity = 0
    if exe is not None and not replay:
        from pyanalyze.signature import InvalidSignature, ParameterKind, SigParameter, Signature
        from pyanalyze.value import KnownValue

        seqs = [s for n in range(0, 4 if not thorough else 5) for s in all_kind_default_seqs(n)]
        outs = lib.ocaml_run(exe, ["V" + enc_sig(s) for s in seqs])
        for s, o in zip(seqs, outs):
            try:
                Signature.make([SigParameter(n, ParameterKind(k), default=KnownValue(0) if d else None) for n, k, d in s])
                impl_valid = True
            except InvalidSignature:
                impl_valid = False
            def_valid = real_function(s) is not None
            n_validity += 1
            if not (impl_valid == def_valid == (o == "1")):
                validity_mismatch.append({"sig": s, "model": o == "1", "Signature.make": impl_valid, "def": def_valid})

    # 4. run implementation (direct), model, spec, oracle
    hist = {"nparams": {}, "concrete": 0, "star": 0, "impl_accept": 0, "impl_reject": 0, "raw_items": {}, "known": {}}
    failing = []  # property failures on the real code
    corr = []  # model != implementation
    spec_bad = []  # spec != CPython (harness error)
    distinct = set()
    extraction_bad = []
    model_lines = []
    spec_lines = []
    spec_idx = []
    for sig, raw in cases:
        model_lines.append("B" + enc_sig(sig) + "|" + enc_raw(raw))
        if is_concrete(raw):
            npos, kws = flat_counts(raw)
            spec_idx.append(len(model_lines) - 1)
            spec_lines.append("P" + enc_sig(sig) + "|" + str(npos) + "|" + " ".join(str(CODE[k]) for k in kws))
    model_out = lib.ocaml_run(exe, model_lines) if exe is not None else [None] * len(cases)
    spec_out = dict(zip(spec_idx, lib.ocaml_run(exe, spec_lines))) if exe is not None and spec_lines else {}

    impl_results = []
    for ci, (sig, raw) in enumerate(cases):
        hist["nparams"][len(sig)] = hist["nparams"].get(len(sig), 0) + 1
        for r in raw:
            hist["raw_items"][r[0]] = hist["raw_items"].get(r[0], 0) + 1
        try:
            impl = impl_bind(sig, raw)
        except ExtractionMismatch as ex:
            extraction_bad.append({"sig": sig, "extracted": ex.args[1]})
            impl_results.append(None)
            continue
        impl_results.append(impl)
        acc = impl != "ERR"
        hist["impl_accept" if acc else "impl_reject"] += 1
        key = (json.dumps(sig), json.dumps(raw))
        concrete = is_concrete(raw)
        if key not in distinct and (len(sig) > 0 and len(raw) > 0):
            distinct.add(key)
        payload = {"sig": sig, "raw": raw, "def": sig_text(sig), "call": call_text(raw)}
        if concrete:
            hist["concrete"] += 1
            py = cpython_call(sig, raw)
            if (py != "ERR") != acc:
                failing.append((payload, "accepted" if acc else "rejected (incompatible_call)", "CPython " + ("binds: " + py if py != "ERR" else "raises TypeError")))
            if ci in spec_out:
                sp = canon_model(spec_out[ci])
                if sp != py:
                    spec_bad.append({"input": payload, "spec": sp, "cpython": py})
        else:
            hist["star"] += 1
            some, some_ne = star_oracle(sig, raw)
            bad = None
            if acc and not some:
                bad = ("accepted", "no expansion (each star-argument up to length max(4, #parameters+1)) binds under CPython")
            elif not acc and some_ne:
                bad = ("rejected (incompatible_call)", "an expansion taking at least one element from every star-argument binds under CPython")
            if bad:
                m = model_out[ci]
                model_agrees = m is None or (not m.startswith("ERR")) == acc
                fid = None
                if acc and guard_positional_after_star_args(raw):
                    fid = "C05-positional-after-star-args"
                elif not acc and guard_kw_after_star_args(sig, raw):
                    fid = "C05-keyword-after-star-args"
                if fid and model_agrees:
                    hist["known"][fid] = hist["known"].get(fid, 0) + 1
                    rep.known(fid, KNOWN_TEXT[fid])
                else:
                    failing.append((payload, bad[0], bad[1]))
        if model_out[ci] is not None:
            m = canon_model(model_out[ci])
            if m != impl:
                corr.append({"input": payload, "model": m, "impl": impl})

    # 5. end-to-end stream
    e2e_bad = []
    e2e_other = {}
    n_e2e = 0
    if not replay or True:
        pool = cases if replay else [cases[i] for i in sorted(rng.sample(range(len(cases)), min(len(cases), 3000 if not thorough else 20000)))]
        batches = [pool[i : i + 250] for i in range(0, len(pool), 250)]
        verdicts, e2e_other = run_modules(batches)
        for batch, vs in zip(batches, verdicts):
            for (sig, raw), ok in zip(batch, vs):
                n_e2e += 1
                direct = impl_bind(sig, raw) != "ERR"
                if ok != direct:
                    e2e_bad.append({"input": {"sig": sig, "raw": raw, "def": sig_text(sig), "call": call_text(raw)}, "module_accepts": ok, "bind_arguments_accepts": direct})

    # 5b. other callable kinds through arg_spec (methods, classes, dataclasses, NamedTuple, partial)
    kind_hist = {}
    kind_other = {}
    n_partial_unchecked = 0
    if kind_cases:
        kres, kind_other = run_kind_modules(kind_cases)
        kmodel = lib.ocaml_run(exe, ["B" + enc_sig(effective_sig(k, s_)) + "|" + enc_raw(r_) for k, s_, r_, _ in kind_cases]) if exe is not None else [None] * len(kind_cases)
        for (kind, sig, raw, presets), (acc, py, fobj), m in zip(kind_cases, kres, kmodel):
            h = kind_hist.setdefault(kind, {"calls": 0, "accepted": 0, "concrete": 0})
            h["calls"] += 1
            h["accepted"] += int(acc)
            eff = effective_sig(kind, sig)
            defn, callee = kind_definition(kind, sig, 0, presets)
            payload = {"kind": kind, "sig": sig, "raw": raw, "presets": list(presets) if presets else None, "def": "; ".join(x.strip() for x in defn), "call": call_text(raw, callee)}
            bad = None
            if py is not None:
                h["concrete"] += 1
                if acc and py == "ERR":
                    if kind == "partial":
                        # known finding: pyanalyze has no model of functools.partial (typeshed's
                        # partial.__call__(*args, **kwargs)): predicted behaviour = every call accepted
                        n_partial_unchecked += 1
                        rep.known("C05-partial-unchecked", KNOWN_TEXT["C05-partial-unchecked"])
                        hist["known"]["C05-partial-unchecked"] = hist["known"].get("C05-partial-unchecked", 0) + 1
                    else:
                        bad = ("accepted", "CPython raises TypeError")
                elif not acc and py == "OK":
                    bad = ("rejected (incompatible_call)", "CPython binds the call")
            else:
                some, some_ne = star_oracle_callable(fobj, eff, raw)
                if acc and not some:
                    if kind == "partial":
                        n_partial_unchecked += 1
                        rep.known("C05-partial-unchecked", KNOWN_TEXT["C05-partial-unchecked"])
                        hist["known"]["C05-partial-unchecked"] = hist["known"].get("C05-partial-unchecked", 0) + 1
                    else:
                        bad = ("accepted", "no expansion binds under CPython")
                elif not acc and some_ne:
                    bad = ("rejected (incompatible_call)", "an expansion taking at least one element from every star-argument binds under CPython")
            if bad:
                model_agrees = m is not None and (not m.startswith("ERR")) == acc and kind != "partial"
                fid = None
                if acc and guard_positional_after_star_args(raw):
                    fid = "C05-positional-after-star-args"
                elif not acc and not is_concrete(raw) and guard_kw_after_star_args(eff, raw):
                    fid = "C05-keyword-after-star-args"
                if fid and model_agrees:
                    hist["known"][fid] = hist["known"].get(fid, 0) + 1
                    rep.known(fid, KNOWN_TEXT[fid])
                else:
                    failing.append((payload, bad[0], bad[1]))
            elif m is not None and kind != "partial" and (not m.startswith("ERR")) != acc:
                corr.append({"input": payload, "model": canon_model(m), "impl": "accepted" if acc else "rejected"})

    # 5c. `**x` with x a union of closed mappings (preprocess_args' key-by-key merge)
    n_union = n_union_acc = 0
    if exe is not None and (not replay or replay_ucases):
        ucases = replay_ucases or gen_union_cases(rng, 1000 if not thorough else 8000)
        umodel = lib.ocaml_run(exe, ["U" + enc_sig(s_) + "|" + enc_raw_u(r_) for s_, r_ in ucases])
        umods = run_union_modules(ucases)
        for (sig, raw), m, mv in zip(ucases, umodel, umods):
            acc = impl_bind_union(sig, raw)
            n_union += 1
            n_union_acc += int(acc)
            payload = {"sig": sig, "raw": raw, "def": sig_text(sig), "call": union_call_text(raw)}
            allb, someb = union_oracle(sig, raw)
            if acc and not allb:
                failing.append((payload, "accepted", "a member of the union passed as **kwargs makes the call raise TypeError under CPython"))
            elif not acc and allb:
                failing.append((payload, "rejected (incompatible_call)", "every member of the union passed as **kwargs binds under CPython"))
            if (not m.startswith("ERR")) != acc:
                corr.append({"input": payload, "model": canon_model(m) if m.startswith("OK") else "ERR", "impl": "accepted" if acc else "rejected"})
            if mv != acc:
                e2e_bad.append({"input": payload, "module_accepts": mv, "bind_arguments_accepts": acc})

    # 5d. a repeated constant key inside one `**{...}` display: the last pair must win
    dup_bad = dict_display_last_wins() if not replay else []
    if dup_bad:
        first_wins = all(isinstance(b["observed"], dict) and all(b["observed"][k] == min(i for kk, i in b["display"] if kk == k) for k in b["observed"]) for b in dup_bad)
        if first_wins:
            # the unrepaired mechanism: covered_keys is never populated, the FIRST pair wins
            rep.known("C05-dict-display-first-key-wins", KNOWN_TEXT["C05-dict-display-first-key-wins"])
            hist["known"]["C05-dict-display-first-key-wins"] = len(dup_bad)
        else:
            failing.append(({"sig": [], "raw": [], "def": "def g(a, b)", "call": "g(**{...})", "display": dup_bad[0]["display"]}, str(dup_bad[0]["observed"]), "the last pair of a dict display wins for a repeated key"))

    # 5e. default values of every kind (round 4): the default's VALUE is an input dimension
    dk_fail, dk_stats = run_default_kinds(thorough)
    failing += dk_fail

    # 5f. parameter names of every kind (round 5): module-level defs, lambdas, nested defs, nested lambdas
    nk_fail, nk_known, nk_stats = run_name_kinds()
    failing += nk_fail
    if nk_known:
        rep.known("C05-dunder-prefix-positional-only", KNOWN_TEXT["C05-dunder-prefix-positional-only"])
        hist["known"]["C05-dunder-prefix-positional-only"] = nk_known

    # 6. verdicts
    for payload, obs, exp in failing[:10]:
        rep.violation({"kind": "failing-input", "input": payload, "observed": obs, "expected": exp, "how_to_run": "./check C05 --replay <this file>", "oracle": "CPython executes the call"})
    for e in extraction_bad[:3]:
        rep.violation({"kind": "failing-input", "input": {"sig": e["sig"], "raw": [], "def": sig_text(e["sig"])}, "observed": f"signature extracted by arg_spec: {e['extracted']}", "expected": "the parameters of the def"})
    found = bool(failing or extraction_bad)
    if e2e_bad:
        # the visitor's verdict is the property's observable: decide against CPython
        for e in e2e_bad[:5]:
            sig, raw = e["input"]["sig"], e["input"]["raw"]
            if is_concrete(raw) and not any(r[0] == "ux" for r in raw):
                py_ok = cpython_call(sig, raw) != "ERR"
                if py_ok != e["module_accepts"]:
                    rep.violation({"kind": "failing-input", "input": e["input"], "observed": "module " + ("accepts" if e["module_accepts"] else "reports incompatible_call"), "expected": "CPython " + ("binds" if py_ok else "raises TypeError")})
                    found = True
        if not found:
            rep.violation({"kind": "broken-correspondence", "correspondence": "bind_arguments (direct) vs incompatible_call diagnostics (module)", **e2e_bad[0]}, no_failing_input=True)
    if corr and not found:
        rep.violation({"kind": "broken-correspondence", "correspondence": "Binder.Bind.preprocess/bind vs preprocess_args + Signature.bind_arguments", **corr[0]}, no_failing_input=True)
    if validity_mismatch and not found:
        rep.violation({"kind": "broken-correspondence", "correspondence": "Binder.Sig.valid_sig vs Signature.make vs def header", "input": validity_mismatch[0]}, no_failing_input=True)
    if broken_translation and not found:
        rep.violation({"kind": "broken-obligation", "theorem": "Gen/Kinds.v, Gen/BinderShape.v (translators harness/translate/kinds.py, binder.py)", "detail": broken_translation}, no_failing_input=True)
    if proof is not None and not proof.ok and not found:
        rep.violation({"kind": "broken-obligation", "theorem": "; ".join(proof.broken), "log": proof.log[-1500:]}, no_failing_input=True)
    for sb in spec_bad[:3]:
        rep.harness_error("specification PyBind.py_bind_full disagrees with CPython on " + json.dumps(sb))

    rep.coverage.update(
        evaluations=len(cases) + n_e2e + n_validity + len(kind_cases) + n_union + dk_stats["calls"] + nk_stats["calls"],
        distinct_nontrivial=len(distinct),
        rule="a case = (def signature, call shape); signatures: every def-expressible signature with <=3 parameters (all kinds x default patterns), a sample (thorough: all) with 4, random ones up to 6; "
        "call shapes: positional section of plain positionals / tuple displays / unknown-length *xs, keyword section of keywords (parameter names and strangers) / dict displays / unknown **kw, "
        "plus every (<=3 positionals x <=2 keywords) concrete shape on all signatures with <=2 parameters; distinct_nontrivial = distinct cases with at least one parameter and one argument",
        samples=[{"def": sig_text(s), "call": call_text(r), "impl": impl_results[i]} for i, (s, r) in list(enumerate(cases))[:: max(1, len(cases) // 6)][:6]],
        traces_validated_against_impl=len(cases) - len(corr),
        input_distribution=hist,
        correspondence_mismatches=len(corr),
        property_failures=len(failing),
        spec_vs_cpython_mismatches=len(spec_bad),
        spec_vs_cpython_checked=len(spec_lines),
        validity_checked=n_validity,
        validity_mismatches=len(validity_mismatch),
        end_to_end_calls=n_e2e,
        end_to_end_mismatches=len(e2e_bad),
        end_to_end_other_codes=e2e_other,
        callable_kinds=kind_hist,
        callable_kind_calls=len(kind_cases),
        callable_kind_other_codes=kind_other,
        partial_calls_never_checked=n_partial_unchecked,
        name_kind_functions=nk_stats["functions"],
        name_kind_calls=nk_stats["calls"],
        name_kind_accepted=nk_stats["accepted"],
        name_kind_other_codes=nk_stats["other_codes"],
        default_kind_functions=dk_stats["functions"],
        default_kind_calls=dk_stats["calls"],
        default_kind_accepted=dk_stats["accepted"],
        default_kind_other_codes=dk_stats["other_codes"],
        union_of_mappings_calls=n_union,
        union_of_mappings_accepted=n_union_acc,
        exhaustive=False,
    )
    rep.assumptions = [
        "CPython 3.12 is the oracle of binding (calls are really executed)",
        "star-argument expansions are enumerated up to length max(4, #parameters+1) per star-argument (keyword names: the parameter names plus one fresh name)",
        "translator harness/translate/kinds.py",
        "extraction (ExtrOcamlBasic) and ocaml/c05_driver.ml",
    ]
    return rep.finish(
        proof,
        "coq_makefile + make theories/Properties/C05.vo; coqc theories/Properties/C05.v (Print Assumptions)" + ("; coqchk -o" if thorough else ""),
        ["Coq 8.16.1 kernel (coqc; vm_compute in refutation lemmas/examples)", "translator harness/translate/kinds.py", "OCaml extraction (ExtrOcamlBasic) + ocaml/c05_driver.ml", "correspondence and oracle harness/c05.py", "CPython 3.12 as binding oracle"],
    )


KNOWN_TEXT = {
    "C05-dunder-prefix-positional-only": "a parameter named `__x` (leading double underscore, no trailing one) and every positional parameter before it are treated as positional-only "
    "(the legacy PEP 484 convention, analysis_lib.is_positional_only_arg_name) also for ordinary defs, lambdas and nested functions: f(a=1, __x=2) for def f(a, __x) is reported although CPython binds it, "
    "and f(1, 2, __x=3) for def f(a, __x, **kw) is accepted although CPython raises",
    "C05-dict-display-first-key-wins": "for a dict display with a repeated constant key passed as **kwargs the FIRST pair reaches the parameter (covered_keys is never populated in _preprocess_kwargs_kv_pairs); "
    "CPython keeps the last: g(1, **{'b': x, 'b': 'x'}) is not reported for def g(a, b: int). Repair proposed: repo_fixes/C05-dict-display-last-key-wins.diff",
    "C05-partial-unchecked": "calls to a functools.partial object are never checked (pyanalyze sees typeshed's partial.__call__(*args, **kwargs)): "
    "p = functools.partial(f, 1) for def f(a, b); p() and p(2, 3, 4) are accepted although binding the wrapped function raises TypeError",
    "C05-keyword-after-star-args": "f(*args, b=1) for def f(a, b) is rejected ('may be filled from both *args and a keyword argument') although f(*[1], b=1) binds",
    "C05-positional-after-star-args": "positional arguments after an unknown-length *args are merged into it: f(*xs, 1, 2) for def f(a) is accepted although no expansion binds",
}


# ---------------------------------------------------------------------------
# phase 3: other callable kinds, end to end through arg_spec
#   method / classmethod / staticmethod / class with __init__ / class with __new__ /
#   dataclass / dataclass(kw_only=True) / NamedTuple / functools.partial
# A kind case = (kind, sig, raw[, presets]); the same module text is analysed by
# pyanalyze and exec'd under CPython, and every call expression is evaluated.

CALLABLE_KINDS = ["method", "classmethod", "staticmethod", "init", "new", "dataclass", "dataclass_kw", "namedtuple", "partial"]


def fields_only(sig):
    """dataclass / NamedTuple fields: positional-or-keyword parameters only"""
    return all(k == POK for _, k, _ in sig) and len(sig) > 0


def plain_header(sig):
    return header(sig).replace("=('d', '", "=('d_', '") if sig else ""


def kind_definition(kind, sig, idx, presets=None):
    """-> (list of source lines defining the callable, callee expression)"""
    h = plain_header(sig)
    hs = (", " + h) if h else ""
    n = f"{idx}"
    if kind == "method":
        return [f"class K{n}:", f"    def m(self{hs}): return locals()"], f"K{n}().m"
    if kind == "classmethod":
        return [f"class K{n}:", "    @classmethod", f"    def m(cls{hs}): return locals()"], f"K{n}.m"
    if kind == "staticmethod":
        return [f"class K{n}:", "    @staticmethod", f"    def m({h}): return locals()"], f"K{n}.m"
    if kind == "init":
        return [f"class K{n}:", f"    def __init__(self{hs}): pass"], f"K{n}"
    if kind == "new":
        return [f"class K{n}:", f"    def __new__(cls{hs}): return object.__new__(cls)"], f"K{n}"
    if kind in ("dataclass", "dataclass_kw"):
        deco = "@dataclasses.dataclass" + ("(kw_only=True)" if kind == "dataclass_kw" else "")
        return [deco, f"class K{n}:"] + [f"    {nm}: int" + (" = 0" if d else "") for nm, _, d in sig], f"K{n}"
    if kind == "namedtuple":
        return [f"class K{n}(typing.NamedTuple):"] + [f"    {nm}: int" + (" = 0" if d else "") for nm, _, d in sig], f"K{n}"
    if kind == "partial":
        npre, kpre = presets
        args = ", ".join(["1"] * npre + [f"{k}=1" for k in kpre])
        return [f"def base{n}({h}): return locals()", f"K{n} = functools.partial(base{n}" + (", " + args if args else "") + ")"], f"K{n}"
    raise ValueError(kind)


def effective_sig(kind, sig):
    if kind == "dataclass_kw":
        return [[n, KO, d] for n, _, d in sig]
    return sig


def gen_kind_cases(rng, n):
    out = []
    tries = 0
    while len(out) < n and tries < 20 * n:
        tries += 1
        kind = CALLABLE_KINDS[len(out) % len(CALLABLE_KINDS)]
        sig = random_sig(rng, 4)
        if kind in ("dataclass", "dataclass_kw", "namedtuple"):
            sig = [[nm, POK, d] for nm, k, d in sig if k in (PO, POK, KO)]
            seen = False
            for p in sig:
                p[2] = 1 if (seen or p[2]) else 0
                seen = seen or bool(p[2])
            if not sig:
                continue
        presets = None
        if kind == "partial":
            pp = [p for p in sig if p[1] in (PO, POK)]
            npre = rng.randint(0, min(2, len(pp))) if rng.random() < 0.7 else 0
            kcand = [p[0] for p in sig if p[1] in (POK, KO)][npre:]
            kpre = rng.sample(kcand, rng.randint(0, min(2, len(kcand)))) if kcand and rng.random() < 0.6 else []
            presets = (npre, kpre)
        eff = effective_sig(kind, sig)
        raw = guided_raw(rng, eff) if rng.random() < 0.7 else random_raw(rng, eff)
        out.append((kind, sig, raw, presets))
    return out


def run_kind_modules(cases, batch=150):
    """-> per case: (pyanalyze accepts?, 'ERR'|'OK'|None for star calls, callable object)"""
    import contextlib
    import io

    from pyanalyze.error_code import ErrorCode
    from pyanalyze.test_name_check_visitor import TestNameCheckVisitorBase

    results = []
    other = {}
    for b0 in range(0, len(cases), batch):
        chunk = cases[b0 : b0 + batch]
        lines = ["import functools, dataclasses, typing"]
        callees = []
        for i, (kind, sig, raw, presets) in enumerate(chunk):
            d, callee = kind_definition(kind, sig, i, presets)
            lines += d
            callees.append(callee)
        lines.append("def run(xs: list[int], ts: tuple[int, ...], kw: dict[str, int]):")
        call_line = {}
        for i, (kind, sig, raw, presets) in enumerate(chunk):
            lines.append("    " + call_text(raw, callees[i]))
            call_line[len(lines)] = i
        code = "\n".join(lines) + "\n"
        buf = io.StringIO()
        with contextlib.redirect_stderr(buf), contextlib.redirect_stdout(buf):
            errs = TestNameCheckVisitorBase()._run_str(code, fail_after_first=False)
        verdict = [True] * len(chunk)
        for e in errs:
            i = call_line.get(e["lineno"])
            if i is not None and e["code"] is ErrorCode.incompatible_call:
                verdict[i] = False
            elif e["code"].name != "method_first_arg":
                other[e["code"].name] = other.get(e["code"].name, 0) + 1
        ns = {}
        exec("\n".join(lines[: lines.index("def run(xs: list[int], ts: tuple[int, ...], kw: dict[str, int]):")]), ns)
        for i, (kind, sig, raw, presets) in enumerate(chunk):
            fobj = eval(callees[i], ns)
            py = None
            if is_concrete(raw):
                try:
                    eval(call_text(raw, "F"), {"F": fobj})
                    py = "OK"
                except TypeError:
                    py = "ERR"
            results.append((verdict[i], py, fobj))
    return results, other


def star_oracle_callable(fobj, eff_sig, raw):
    _, kws = flat_counts(raw)
    if len(set(kws)) != len(kws):
        return False, False
    some = some_ne = False
    for ne, npos, ks in expansions(eff_sig, raw):
        if (ne and some_ne) or (not ne and some):
            continue
        if cpython_binds(fobj, npos, ks):
            some = True
            if ne:
                some_ne = True
        if some and some_ne:
            break
    return some, some_ne


# ---------------------------------------------------------------------------
# phase 4: `**x` with x a UNION of closed mappings (dict displays)
#   raw item ["ux", [[names of member 1], [names of member 2], ...]]


def gen_union_cases(rng, n):
    out = []
    while len(out) < n:
        sig = random_sig(rng, 5)
        raw = [r for r in guided_raw(rng, sig, ) if r[0] in ("p", "k")]
        kws = [r[1] for r in raw if r[0] == "k"]
        pool = list(dict.fromkeys(kws + [p[0] for p in sig if p[1] in (POK, KO)] + [STRANGERS[0]]))
        if not pool:
            continue
        moved = rng.sample(kws, rng.randint(0, len(kws))) if kws else []
        raw = [r for r in raw if not (r[0] == "k" and r[1] in moved)]
        explicit = [r[1] for r in raw if r[0] == "k"]
        cand = [k for k in pool if k not in explicit] or [STRANGERS[1]]
        alts = []
        for _ in range(rng.choice([2, 2, 3])):
            alt = list(moved)
            for k in cand:
                if k not in alt and rng.random() < 0.3:
                    alt.append(k)
            if alt and rng.random() < 0.35:
                alt.pop(rng.randrange(len(alt)))
            rng.shuffle(alt)
            alts.append(alt)
        if rng.random() < 0.1 and explicit:
            alts[0].append(explicit[0])  # a key also given explicitly: "Multiple values"
        raw.append(["ux", alts])
        out.append((sig, raw))
    return out


def enc_raw_u(raw):
    out = []
    for r in raw:
        if r[0] == "ux":
            out.append("ux " + " / ".join(" ".join(str(CODE[k]) for k in alt) for alt in r[1]))
        else:
            out.append(enc_raw([r]))
    return ",".join(out)


def union_call_text(raw, fname="f"):
    parts = []
    for r in raw:
        if r[0] == "p":
            parts.append("1")
        elif r[0] == "k":
            parts.append(f"{r[1]}=1")
        elif r[0] == "ux":
            ds = ["{" + ", ".join(f"'{k}': 1" for k in alt) + "}" for alt in r[1]]
            expr = ds[-1]
            for i, d in reversed(list(enumerate(ds[:-1]))):
                expr = f"{d} if c{i} else ({expr})"
            parts.append(f"**({expr})")
    return f"{fname}(" + ", ".join(parts) + ")"


def impl_bind_union(sig, raw):
    I = _impl()
    S, V, C = I["S"], I["V"], I["Composite"]
    s = impl_signature(sig)
    args = []
    i = 0
    for r in raw:
        if r[0] == "p":
            args.append((C(V.KnownValue(("p", i))), None))
            i += 1
        elif r[0] == "k":
            args.append((C(V.KnownValue(("k", r[1]))), r[1]))
        else:
            members = [V.DictIncompleteValue(dict, [V.KVPair(V.KnownValue(k), V.KnownValue(("k", k))) for k in alt]) for alt in r[1]]
            args.append((C(V.MultiValuedValue(members)), I["KWARGS"]))
    ctx = S._CanAssignBasedContext(I["ck"])
    pre = S.preprocess_args(args, ctx)
    if pre is None:
        return False
    return s.bind_arguments(pre, ctx) is not None


def union_oracle(sig, raw):
    """(every member binds, some member binds) under CPython"""
    f = real_function(sig)
    npos = sum(1 for r in raw if r[0] == "p")
    explicit = [r[1] for r in raw if r[0] == "k"]
    res = []
    for alt in [r for r in raw if r[0] == "ux"][0][1]:
        if set(alt) & set(explicit) or len(set(alt)) != len(alt):
            res.append(False)
        else:
            res.append(cpython_binds(f, npos, explicit + alt))
    return all(res), any(res)


def run_union_modules(cases, batch=200):
    import contextlib
    import io

    from pyanalyze.error_code import ErrorCode
    from pyanalyze.test_name_check_visitor import TestNameCheckVisitorBase

    verdicts = []
    for b0 in range(0, len(cases), batch):
        chunk = cases[b0 : b0 + batch]
        fn = {}
        lines = []
        for sig, raw in chunk:
            key = json.dumps(sig)
            if key not in fn:
                fn[key] = f"f{len(fn)}"
                lines.append(f"def {fn[key]}({header(sig)}): pass")
        lines.append("def run(c0: bool, c1: bool, c2: bool):")
        call_line = {}
        for i, (sig, raw) in enumerate(chunk):
            lines.append("    " + union_call_text(raw, fn[json.dumps(sig)]))
            call_line[len(lines)] = i
        buf = io.StringIO()
        with contextlib.redirect_stderr(buf), contextlib.redirect_stdout(buf):
            errs = TestNameCheckVisitorBase()._run_str("\n".join(lines) + "\n", fail_after_first=False)
        v = [True] * len(chunk)
        for e in errs:
            i = call_line.get(e["lineno"])
            if i is not None and e["code"] is ErrorCode.incompatible_call:
                v[i] = False
        verdicts += v
    return verdicts


# ---------------------------------------------------------------------------
# round 4: the VALUE of a default is an input dimension (signatures come from runtime objects)

DEFAULT_PRELUDE = '''
import enum, math, functools, inspect, collections, fractions, decimal
from unittest import mock
class AlwaysEq:
    def __eq__(self, other): return True
    def __ne__(self, other): return False
    __hash__ = object.__hash__
class NeverEq:
    def __eq__(self, other): return False
    def __ne__(self, other): return True
    __hash__ = object.__hash__
class RaisingEq:
    def __eq__(self, other): raise ValueError("no comparison")
    __hash__ = object.__hash__
class RaisingBool:
    def __bool__(self): raise ValueError("no truth value")
class ListEq:
    """numpy-like: == returns a non-bool"""
    def __eq__(self, other): return [True, False]
    __hash__ = object.__hash__
class NoHash:
    __hash__ = None
class Color(enum.Enum):
    RED = 1
class Flag(enum.IntFlag):
    A = 1
SENTINEL = object()
def helper(): pass
class Plain: pass
NT = collections.namedtuple("NT", "x")
'''
DEFAULT_EXPRS = [
    "None", "0", "-1", "True", "1.5", "math.nan", "math.inf", "1j", "''", "'s'", "b'b'", "()", "(1, 2)", "[]", "[1]", "{}", "{'k': 1}",
    "set()", "frozenset()", "helper", "len", "lambda: 0", "Plain", "Plain()", "int", "SENTINEL", "Ellipsis", "NotImplemented",
    "Color.RED", "Flag.A", "mock.ANY", "mock.sentinel.x", "AlwaysEq()", "NeverEq()", "RaisingEq()", "RaisingBool()", "ListEq()", "NoHash()",
    "NT(1)", "fractions.Fraction(1, 2)", "decimal.Decimal('1')", "range(3)", "functools.partial(helper)", "inspect.Parameter.POSITIONAL_ONLY", "type",
]
# header templates ({D} = default expression) with the number of parameters that may be omitted
DEFAULT_SHAPES = [
    ("a, b={D}", "pok"),
    ("a, b={D}, /", "posonly"),
    ("a, *, b={D}", "kwonly"),
    ("a, b=0, c={D}", "after_default"),
    ("a={D}, *r, k={D}", "two_and_varargs"),
]
DEFAULT_CALLS = ["(1)", "(1, 2)", "(1, b=2)", "()", "(1, 2, 3, 4)", "(a=1)", "(*(1,))", "(**{'a': 1})"]


def default_kind_cases(thorough):
    cases = []
    for di, d in enumerate(DEFAULT_EXPRS):
        for hi, (h, _) in enumerate(DEFAULT_SHAPES):
            for wrapper in ("def", "method", "init") if (thorough or (di + hi) % 3 == 0) else ("def",):
                cases.append((d, h.replace("{D}", d), wrapper))
    return cases


def run_default_kinds(thorough=False):
    """-> (failures, stats).  Each function is defined in a module with the default object as a
    RUNTIME value; pyanalyze analyses the module (signature through arg_spec), CPython executes
    the same calls."""
    import contextlib
    import io

    from pyanalyze.error_code import ErrorCode
    from pyanalyze.test_name_check_visitor import TestNameCheckVisitorBase

    cases = default_kind_cases(thorough)
    failures = []
    stats = {"functions": len(cases), "calls": 0, "accepted": 0, "other_codes": {}}
    for b0 in range(0, len(cases), 60):
        chunk = cases[b0 : b0 + 60]
        lines = DEFAULT_PRELUDE.strip("\n").split("\n")
        callees = []
        for i, (d, h, wrapper) in enumerate(chunk):
            if wrapper == "def":
                lines.append(f"def f{i}({h}): return 0")
                callees.append(f"f{i}")
            elif wrapper == "method":
                lines += [f"class M{i}:", f"    def m(self, {h}): return 0"]
                callees.append(f"M{i}().m")
            else:
                lines += [f"class K{i}:", f"    def __init__(self, {h}): pass"]
                callees.append(f"K{i}")
        ndefs = len(lines)
        lines.append("def run():")
        call_line = {}
        for i in range(len(chunk)):
            for c in DEFAULT_CALLS:
                lines.append(f"    {callees[i]}{c}")
                call_line[len(lines)] = (i, c)
        code = "\n".join(lines) + "\n"
        buf = io.StringIO()
        crashed = None
        try:
            with contextlib.redirect_stderr(buf), contextlib.redirect_stdout(buf):
                errs = TestNameCheckVisitorBase()._run_str(code, fail_after_first=False)
        except Exception as ex:  # the checker itself failed on some default value
            crashed = repr(ex)[:300]
            errs = []
        if crashed:
            failures.append(({"defaults": sorted({d for d, _, _ in chunk}), "def": "module with default values of every kind", "call": "-", "sig": [], "raw": []},
                             "pyanalyze raised " + crashed, "a diagnostic (or none) per call"))
            continue
        reported = {}
        for e in errs:
            key = call_line.get(e["lineno"])
            if key is not None and e["code"] is ErrorCode.incompatible_call:
                reported[key] = True
            elif key is not None or e["lineno"] <= ndefs:
                if e["code"].name not in ("method_first_arg",):
                    stats["other_codes"][e["code"].name] = stats["other_codes"].get(e["code"].name, 0) + 1
                if e["code"].name == "internal_error" and key is not None:
                    i, c = key
                    failures.append(({"default": chunk[i][0], "def": chunk[i][1], "call": callees[i] + c, "sig": [], "raw": []},
                                     "internal_error: " + e["message"][:200].replace("\n", " "), "a binding verdict"))
        ns = {}
        exec("\n".join(lines[:ndefs]), ns)
        # extraction: the Signature arg_spec builds must have a default exactly where inspect sees one
        import inspect as _inspect

        I = _impl()
        for i, (d, h, wrapper) in enumerate(chunk):
            if wrapper != "def":
                continue
            fobj = ns[f"f{i}"]
            want = [(p.name, int(p.kind), p.default is not _inspect.Parameter.empty) for p in _inspect.signature(fobj).parameters.values()]
            try:
                sg = I["ck"].arg_spec_cache.get_argspec(fobj)
                got = [(p.name, p.kind.value, p.default is not None) for p in sg.parameters.values()] if isinstance(sg, I["S"].Signature) else repr(sg)
            except Exception as ex:
                got = "raised " + repr(ex)[:200]
            if got != want:
                failures.append(({"default": d, "def": f"def f({h})", "call": "-", "sig": [], "raw": []}, f"signature extracted by arg_spec: {got}", f"the parameters of the def: {want}"))
        for (i, c) in call_line.values():
            d, h, wrapper = chunk[i]
            stats["calls"] += 1
            acc = (i, c) not in reported
            stats["accepted"] += int(acc)
            try:
                eval(callees[i] + c, ns)
                py = True
            except TypeError:
                py = False
            if acc != py:
                hdr = {"def": f"def f({h})", "method": f"def m(self, {h})", "init": f"def __init__(self, {h})"}[wrapper]
                failures.append(({"default": d, "def": hdr, "call": callees[i].rstrip("0123456789") + c, "sig": [], "raw": []},
                                 "accepted" if acc else "rejected (incompatible_call)", "CPython " + ("binds the call" if py else "raises TypeError")))
    return failures, stats


# ---------------------------------------------------------------------------
# round 5: parameter NAMES as an input dimension (module-level defs, nested defs, lambdas;
# passed positionally / by keyword / through a **{...} display)

NAME_POOL = ["_x", "__x", "__x__", "x__", "_", "__", "___", "X", "é", "名", "self", "cls", "x_1", "xX", "__x_", "_x__", "__class_name", "__init__", "kwargs", "args"]
# header templates: {N} = the name under test, {M} = a second name derived from it (other case / suffix)
NAME_SHAPES = ["a, {N}", "{N}, b", "a, {N}=0", "a, *, {N}", "a, {N}, **kw", "a, {N}, /, c", "{N}, {M}", "a, *r, {N}=0", "a, {N}, *, k=0"]


def _second_name(n):
    m = n.swapcase()
    return m if m != n else n + "2"


def name_cases():
    out = []
    for n in NAME_POOL:
        for h in NAME_SHAPES:
            hdr = h.replace("{N}", n).replace("{M}", _second_name(n))
            try:
                compile(f"def f({hdr}): pass", "<h>", "exec")
            except SyntaxError:
                continue
            out.append((n, hdr))
    return out


def name_calls(n, hdr):
    """call suffixes exercising positional / keyword / mapping passing of the parameters of hdr"""
    import inspect

    ns = {}
    exec(f"def f({hdr}): pass", ns)
    ps = [p for p in inspect.signature(ns["f"]).parameters.values()]
    named = [p.name for p in ps if p.kind in (p.POSITIONAL_ONLY, p.POSITIONAL_OR_KEYWORD, p.KEYWORD_ONLY)]
    posn = [p.name for p in ps if p.kind in (p.POSITIONAL_ONLY, p.POSITIONAL_OR_KEYWORD)]

    def ident(x):
        return x.isidentifier()

    calls = ["(" + ", ".join(["1"] * len(posn)) + ")", "(1)", "()"]
    calls.append("(" + ", ".join(f"{k}=1" for k in named) + ")")  # everything by keyword
    calls.append("(**{" + ", ".join(f"{k!r}: 1" for k in named) + "})")  # everything through a display
    if len(named) >= 2:
        calls.append("(1, " + ", ".join(f"{k}=1" for k in named[1:]) + ")")
        calls.append("(1, **{" + ", ".join(f"{k!r}: 1" for k in named[1:]) + "})")
        calls.append("(" + ", ".join(["1"] * len(posn)) + f", {named[-1]}=1)")  # possibly twice
    calls.append("(" + ", ".join(["1"] * len(posn)) + ", **{'class': 1})")  # a keyword that is not an identifier one could write
    calls.append("(" + ", ".join(f"{k}=1" for k in named) + f", {_second_name(n)}_=1)")
    return list(dict.fromkeys(calls))


def legacy_posonly_transform(hdr):
    """What the (documented, legacy PEP 484) convention of pyanalyze does: a parameter named `__x` (leading
    double underscore, no trailing one) and every positional parameter before it are positional-only."""
    import inspect

    ns = {}
    exec(f"def f({hdr}): pass", ns)
    ps = list(inspect.signature(ns["f"]).parameters.values())
    last = -1
    for i, p in enumerate(ps):
        if p.kind in (p.POSITIONAL_ONLY, p.POSITIONAL_OR_KEYWORD) and p.name.startswith("__") and not p.name.endswith("__"):
            last = i
    if last < 0:
        return None
    new = [p.replace(kind=p.POSITIONAL_ONLY) if i <= last and p.kind is p.POSITIONAL_OR_KEYWORD else p for i, p in enumerate(ps)]
    sig = inspect.Signature(new)

    def binds(args, kwargs):
        try:
            sig.bind(*args, **kwargs)
            return True
        except TypeError:
            return False

    return binds


def run_name_kinds():
    """-> (failures, known, stats)"""
    import contextlib
    import io

    from pyanalyze.error_code import ErrorCode
    from pyanalyze.test_name_check_visitor import TestNameCheckVisitorBase

    cases = name_cases()
    failures, stats = [], {"functions": 0, "calls": 0, "accepted": 0, "legacy_posonly_disagreements": 0, "other_codes": {}}
    known = 0
    for b0 in range(0, len(cases), 40):
        chunk = cases[b0 : b0 + 40]
        lines = []
        sites = {}  # line -> (case index, wrapper, call)
        for i, (n, hdr) in enumerate(chunk):
            calls = name_calls(n, hdr)
            lines.append(f"def f{i}({hdr}): return 0")
            lines.append(f"lam{i} = lambda {hdr}: 0")
            lines.append(f"def run{i}():")
            lines.append(f"    def inner({hdr}): return 0")
            lines.append(f"    nlam = lambda {hdr}: 0")
            for c in calls:
                for w, callee in (("def", f"f{i}"), ("lambda", f"lam{i}"), ("nested def", "inner"), ("nested lambda", "nlam")):
                    lines.append(f"    {callee}{c}")
                    sites[len(lines)] = (i, w, c)
        code = "\n".join(lines) + "\n"
        buf = io.StringIO()
        try:
            with contextlib.redirect_stderr(buf), contextlib.redirect_stdout(buf):
                errs = TestNameCheckVisitorBase()._run_str(code, fail_after_first=False)
        except Exception as ex:
            failures.append(({"names": sorted({n for n, _ in chunk}), "def": "module with parameter names of every kind", "call": "-", "sig": [], "raw": []}, "pyanalyze raised " + repr(ex)[:300], "a verdict per call"))
            continue
        reported = set()
        for e in errs:
            if e["lineno"] in sites and e["code"] is ErrorCode.incompatible_call:
                reported.add(e["lineno"])
            elif e["code"].name not in ("method_first_arg",):
                stats["other_codes"][e["code"].name] = stats["other_codes"].get(e["code"].name, 0) + 1
        stats["functions"] += 4 * len(chunk)
        for line, (i, w, c) in sites.items():
            n, hdr = chunk[i]
            ns = {}
            exec(f"def f({hdr}): return 0", ns)
            try:
                eval("f" + c, ns)
                py = True
            except TypeError:
                py = False
            acc = line not in reported
            stats["calls"] += 1
            stats["accepted"] += int(acc)
            if acc == py:
                continue
            # known convention: `__x` parameters (and those before them) are positional-only for pyanalyze
            legacy = legacy_posonly_transform(hdr)
            if legacy is not None:
                try:
                    a_, k_ = eval("(lambda *a, **k: (a, k))" + c)
                    predicted = legacy(a_, k_)
                except Exception:
                    predicted = None
                if predicted is not None and predicted == acc:
                    stats["legacy_posonly_disagreements"] += 1
                    known += 1
                    continue
            failures.append(({"name": n, "def": f"{w}: ({hdr})", "call": "f" + c, "sig": [], "raw": []},
                             "accepted" if acc else "rejected (incompatible_call)", "CPython " + ("binds the call" if py else "raises TypeError")))
    return failures, known, stats
